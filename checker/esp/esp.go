// Package esp implements path-sensitive property simulation over go/ssa in the
// style of ESP (Das, Lerner, Seigle, PLDI 2002): configurations are
// (block, automaton state, facts about a few tracked values); fallible events
// fork eagerly into an ok and a fail world; branch conditions over tracked
// values prune infeasible edges; calls into relevant repository functions are
// applied through memoised summaries.
package esp

import (
	"fmt"
	"go/constant"
	"go/token"
	"go/types"
	"sort"
	"strings"
	"sync"

	"golang.org/x/tools/go/ssa"
)

// Abs is the abstract value of a tracked value: unknown, zero (nil / false) or
// non-zero (non-nil / true).
type Abs uint8

const (
	Unknown Abs = iota
	Zero
	NonZero
	// nonZeroConst is internal: a non-zero integer/string constant. Comparing
	// x == k (k ≠ 0) true means x is non-zero; false says nothing.
	nonZeroConst
)

func (a Abs) String() string { return [...]string{"?", "nil/false", "non-nil/true", "const≠0"}[a] }
func (a Abs) Inv() Abs {
	switch a {
	case Zero:
		return NonZero
	case NonZero:
		return Zero
	}
	return Unknown
}

// State is the automaton state: A is rule-defined, F holds flag knowledge
// (2 bits per flag: 0 unknown, 1 false, 2 true).
type State struct {
	A uint64
	F uint32
}

func (s State) Flag(i int) Abs { return Abs((s.F >> (2 * uint(i))) & 3) }
func (s State) WithFlag(i int, a Abs) State {
	s.F = s.F&^(3<<(2*uint(i))) | uint32(a)<<(2*uint(i))
	return s
}
func (s State) Has(bit uint) bool    { return s.A&(1<<bit) != 0 }
func (s State) Set(bit uint) State   { s.A |= 1 << bit; return s }
func (s State) Clear(bit uint) State { s.A &^= 1 << bit; return s }

// Phase of an event.
type Phase uint8

const (
	AtCall Phase = iota // before the callee runs
	Ok                  // fallible event: its error is nil
	Fail                // fallible event: its error is non-nil
)

func (p Phase) String() string { return [...]string{"call", "ok", "fail"}[p] }

// Ev is an event matched at an instruction.
type Ev struct {
	ID     int
	Name   string
	ErrIdx int // index of the error result whose nil-ness splits ok/fail; -1 = not fallible
	// BoolIdx: like ErrIdx but for a boolean result (Ok = true, Fail = false); -1 = none
	BoolIdx int
	Data    any
	// NonZeroOnOk lists result indexes that are non-nil when the event is Ok
	// (interface contract such as "returns a workspace or an error").
	NonZeroOnOk []int
}

// Rule parameterises the engine.
type Rule struct {
	Name string
	// Match classifies an instruction (calls, stores, ...). Called once per instruction.
	Match func(instr ssa.Instruction) []Ev
	// Flag maps a value to a tracked boolean program fact.
	Flag func(v ssa.Value) (int, bool)
	// Track reports additional values whose zero-ness is worth tracking.
	Track func(v ssa.Value) bool
	// Step is the automaton transition; a non-empty string is a violation.
	Step func(x *Ctx, s State, ev Ev, ph Phase) (State, string)
	// AtReturn is evaluated at every return of a root function.
	AtReturn func(x *Ctx, s State, rets []Abs) string
	// AtAnyReturn, if set, is evaluated at returns of every summarised function.
	AtAnyReturn func(x *Ctx, fn *ssa.Function, s State, rets []Abs) string
	// Callees resolves dynamic calls (VTA); nil = static only.
	Callees func(call ssa.CallInstruction) []*ssa.Function
	// Descend says whether a callee with a body should be summarised
	// (default: every function for which Relevant is true).
	Relevant func(fn *ssa.Function) bool
	// Contract models an opaque call's results (e.g. multierr handled
	// internally; others rule-specific). Return ok=false for no contract.
	Contract func(x *Ctx, call ssa.CallInstruction) (rets []Abs, ok bool)
	// CondFact lets a rule interpret an otherwise opaque branch condition as an
	// event (e.g. a comparison of two interesting values). It is called for the
	// condition of an If when taking the edge with the given truth value.
	OnBranch func(x *Ctx, s State, cond ssa.Value, taken bool) (State, string)
	// FieldFlag makes a struct field a tracked cell of the path state (a flag, as for Flag): loads of the field are
	// evaluated from the flag (let Flag recognise them), a store to the field sets the flag to the zero-ness of the
	// stored value, and allocating a struct that has the field sets it to zero. It is field-based — one cell for all
	// objects of the type — which is exact when a path holds one such object at a time (an attempt record, a
	// walker): the rule that opts in states that assumption.
	FieldFlag func(fa *ssa.FieldAddr) (int, bool)
	// AllocFlags lists the flags to reset to zero when a value of this (struct) type is allocated.
	AllocFlags func(t types.Type) []int
	// GoAsCall: a go statement whose callee reaches tracked events is explored as a call made at the spawn point
	// (instead of making the run undecided). For rules whose verdicts depend on facts that do not change after the
	// spawn (immutable flags).
	GoAsCall bool
	// KeyByChain reports the same instruction separately per call chain.
	KeyByChain bool
	// MaxConfigs bounds the exploration (0 = default).
	MaxConfigs int
}

// Violation is a reported rule failure.
type Violation struct {
	Msg     string
	Fn      *ssa.Function
	Pos     token.Pos
	State   State
	Witness []string
	Key     string
	Count   int             // number of (state, path) variants folded into this report
	Chain   []*ssa.Function // call chain from the root to Fn
}

// Engine runs one rule.
type Engine struct {
	R          *Rule
	Fset       *token.FileSet
	PosStr     func(token.Pos) string
	matchCache map[ssa.Instruction][]Ev
	sums       map[sumKey]*summary
	Violations []*Violation
	vioSeen    map[string]*Violation
	Configs    int
	Undecided  []string
	ids        map[ssa.Value]int
	tables     map[ssa.Value][]*ssa.Function
	intTrack   map[*ssa.Function]map[ssa.Value]bool
	finfo      map[*ssa.Function]*funcInfo
	incomplete bool
	grew       bool
	overflow   bool
}

type sumKey struct {
	fn    *ssa.Function
	s     State
	pfact string
}

// Outcome of a function for a given entry.
type Outcome struct {
	S    State
	Rets string // encoded []Abs
	// Cells: for closures, the final content facts of the captured variables
	// the closure stores to (one Abs per free variable, Unknown for the others).
	Cells string
	// Escaped: for a function that hands out closures over its own local cells (a helper returning a workspace
	// together with the function that releases it), the content facts of those cells at the return — the caller
	// carries them on, and a later call of the closure through the returned function value starts from them.
	Escaped string
}

// escapedCells lists the simple local cells of fn that a closure made in fn captures (in instruction order).
func escapedCells(fn *ssa.Function) []*ssa.Alloc {
	var out []*ssa.Alloc
	seen := map[*ssa.Alloc]bool{}
	for _, b := range fn.Blocks {
		for _, in := range b.Instrs {
			mc, ok := in.(*ssa.MakeClosure)
			if !ok {
				continue
			}
			for _, bd := range mc.Bindings {
				if al, ok := bd.(*ssa.Alloc); ok && !seen[al] && al.Parent() == fn && simpleCell(al) {
					seen[al] = true
					out = append(out, al)
				}
			}
		}
	}
	return out
}

// closureSite: the one MakeClosure instruction that makes closure function f (nil if there are several or none).
func closureSite(f *ssa.Function) *ssa.MakeClosure {
	if f == nil || f.Parent() == nil {
		return nil
	}
	var site *ssa.MakeClosure
	for _, b := range f.Parent().Blocks {
		for _, in := range b.Instrs {
			if mc, ok := in.(*ssa.MakeClosure); ok && mc.Fn == ssa.Value(f) {
				if site != nil {
					return nil
				}
				site = mc
			}
		}
	}
	return site
}

type summary struct {
	outs       map[Outcome]*config // value: a representative exit config (for witness)
	inProgress bool
	done       bool
	ctxParent  *config
}

type funcInfo struct {
	reach [][]uint64 // reach[b] bitset of blocks reachable from b (incl. b)
}

type fact struct {
	id int
	v  ssa.Value
	a  Abs
}

type config struct {
	fn     *ssa.Function
	block  *ssa.BasicBlock
	idx    int
	s      State
	facts  []fact    // sorted by id
	ints   []intFact // concrete values of table-loop indices (tables.go), sorted by id
	defers []*ssa.Defer
	parent *config
	note   string
	outer  *config // caller config (for witness stitching)
}

// Ctx is handed to rule callbacks.
type Ctx struct {
	E     *Engine
	Fn    *ssa.Function
	Instr ssa.Instruction
	c     *config
}

// Eval evaluates a value's zero-ness under the current path facts.
func (x *Ctx) Eval(v ssa.Value) Abs { return x.E.eval(x.c, v) }

// New creates an engine.
func New(r *Rule, fset *token.FileSet, pos func(token.Pos) string) *Engine {
	return &Engine{R: r, Fset: fset, PosStr: pos, matchCache: map[ssa.Instruction][]Ev{}, sums: map[sumKey]*summary{}, vioSeen: map[string]*Violation{}, ids: map[ssa.Value]int{}, finfo: map[*ssa.Function]*funcInfo{}, tables: map[ssa.Value][]*ssa.Function{}, intTrack: map[*ssa.Function]map[ssa.Value]bool{}}
}

func (e *Engine) id(v ssa.Value) int {
	if i, ok := e.ids[v]; ok {
		return i
	}
	i := len(e.ids) + 1
	e.ids[v] = i
	return i
}

func (e *Engine) match(instr ssa.Instruction) []Ev {
	if evs, ok := e.matchCache[instr]; ok {
		return evs
	}
	var evs []Ev
	if e.R.Match != nil {
		evs = e.R.Match(instr)
	}
	e.matchCache[instr] = evs
	return evs
}

// Run explores from root with the initial state; returns the outcomes.
func (e *Engine) Run(root *ssa.Function, init State) []Outcome {
	for iter := 0; iter < 8; iter++ {
		e.incomplete, e.grew = false, false
		for _, s := range e.sums {
			s.done = false
		}
		sum := e.summarise(root, init, nil, nil, true)
		if !(e.incomplete && e.grew) {
			var outs []Outcome
			for o := range sum.outs {
				outs = append(outs, o)
			}
			sort.Slice(outs, func(i, j int) bool {
				if outs[i].S != outs[j].S {
					if outs[i].S.A != outs[j].S.A {
						return outs[i].S.A < outs[j].S.A
					}
					return outs[i].S.F < outs[j].S.F
				}
				return outs[i].Rets < outs[j].Rets
			})
			return outs
		}
	}
	e.Undecided = append(e.Undecided, "summary fixpoint did not converge for "+root.String())
	return nil
}

func encAbs(a []Abs) string {
	b := make([]byte, len(a))
	for i, x := range a {
		b[i] = '0' + byte(x)
	}
	return string(b)
}

// DecodeRets decodes Outcome.Rets.
func DecodeRets(s string) []Abs {
	out := make([]Abs, len(s))
	for i := range s {
		out[i] = Abs(s[i] - '0')
	}
	return out
}

func (c *config) key() string {
	var b strings.Builder
	fmt.Fprintf(&b, "%d.%d|%x.%x|", c.block.Index, c.idx, c.s.A, c.s.F)
	for _, f := range c.facts {
		fmt.Fprintf(&b, "%d=%d,", f.id, f.a)
	}
	for _, f := range c.ints {
		fmt.Fprintf(&b, "%d#%d,", f.id, f.val)
	}
	if len(c.defers) > 0 {
		b.WriteByte('|')
		for _, d := range c.defers {
			fmt.Fprintf(&b, "%p,", d)
		}
	}
	return b.String()
}

func (c *config) get(id int) Abs {
	for _, f := range c.facts {
		if f.id == id {
			return f.a
		}
	}
	return Unknown
}

func (c *config) clone() *config {
	n := *c
	n.facts = append([]fact(nil), c.facts...)
	n.ints = append([]intFact(nil), c.ints...)
	n.defers = append([]*ssa.Defer(nil), c.defers...)
	n.parent = c
	n.note = ""
	return &n
}

func (e *Engine) setFact(c *config, v ssa.Value, a Abs) {
	id := e.id(v)
	for i, f := range c.facts {
		if f.id == id {
			if a == Unknown {
				c.facts = append(c.facts[:i], c.facts[i+1:]...)
			} else {
				c.facts[i].a = a
			}
			return
		}
	}
	if a == Unknown {
		return
	}
	c.facts = append(c.facts, fact{id, v, a})
	sort.Slice(c.facts, func(i, j int) bool { return c.facts[i].id < c.facts[j].id })
}

// simpleCell reports whether the local is only stored to and loaded from
// directly (e.g. the result cell go/ssa introduces in functions with defers).
func simpleCell(al *ssa.Alloc) bool {
	refs := al.Referrers()
	if refs == nil {
		return false
	}
	for _, r := range *refs {
		switch r := r.(type) {
		case *ssa.Store:
			if r.Addr != al {
				return false
			}
		case *ssa.UnOp:
			if r.Op != token.MUL {
				return false
			}
		case *ssa.DebugRef:
		case *ssa.Call:
			// multierr.AppendInto(&cell, err): the cell's address goes nowhere else; the engine applies the
			// accumulation itself (see builtinContract)
			if g := r.Call.StaticCallee(); g == nil || g.String() != "go.uber.org/multierr.AppendInto" || len(r.Call.Args) != 2 || r.Call.Args[0] != ssa.Value(al) {
				return false
			}
		case *ssa.MakeClosure:
			// captured by a closure that only reads it (e.g. a deferred
			// `if err != nil { cleanup }` over a named result)
			fn, ok := r.Fn.(*ssa.Function)
			if !ok {
				return false
			}
			for i, b := range r.Bindings {
				if b != al {
					continue
				}
				if i >= len(fn.FreeVars) {
					return false
				}
				fv := fn.FreeVars[i]
				writes := false
				if fr := fv.Referrers(); fr != nil {
					for _, u := range *fr {
						if ld, ok := u.(*ssa.UnOp); ok && ld.Op == token.MUL {
							continue
						}
						if _, ok := u.(*ssa.DebugRef); ok {
							continue
						}
						if st, ok := u.(*ssa.Store); ok && st.Addr == ssa.Value(fv) {
							writes = true
							continue
						}
						return false
					}
				}
				if writes && !onlyCalledOrDeferred(r) {
					// a closure that writes the variable and may run at unknown times
					return false
				}
			}
		default:
			return false
		}
	}
	return true
}

// onlyCalledOrDeferred: the closure value is used only as the callee of direct
// calls and defer statements of its maker, so it runs exactly where the engine
// sees it run.
func onlyCalledOrDeferred(mc *ssa.MakeClosure) bool {
	refs := mc.Referrers()
	if refs == nil {
		return true
	}
	for _, r := range *refs {
		switch u := r.(type) {
		case *ssa.DebugRef:
		case *ssa.Call:
			if u.Call.Value != ssa.Value(mc) {
				return false
			}
		case *ssa.Defer:
			if u.Call.Value != ssa.Value(mc) {
				return false
			}
		default:
			return false
		}
	}
	return true
}

func capturedByClosure(al *ssa.Alloc) bool {
	if refs := al.Referrers(); refs != nil {
		for _, r := range *refs {
			if _, ok := r.(*ssa.MakeClosure); ok {
				return true
			}
		}
	}
	return false
}

func fvStored(fv *ssa.FreeVar) bool {
	if fr := fv.Referrers(); fr != nil {
		for _, u := range *fr {
			if st, ok := u.(*ssa.Store); ok && st.Addr == ssa.Value(fv) {
				return true
			}
		}
	}
	return false
}

// storedFreeVars lists, per free variable of f, whether f stores to it directly.
func storedFreeVars(f *ssa.Function) []bool {
	out := make([]bool, len(f.FreeVars))
	for i, fv := range f.FreeVars {
		if fr := fv.Referrers(); fr != nil {
			for _, u := range *fr {
				if st, ok := u.(*ssa.Store); ok && st.Addr == ssa.Value(fv) {
					out[i] = true
				}
			}
		}
	}
	return out
}

func isNilConst(v ssa.Value) bool {
	c, ok := v.(*ssa.Const)
	return ok && c.Value == nil
}

func constAbs(c *ssa.Const) Abs {
	if c.Value == nil {
		// nil, or zero value of aggregate
		return Zero
	}
	switch c.Value.Kind() {
	case constant.Bool:
		if constant.BoolVal(c.Value) {
			return NonZero
		}
		return Zero
	case constant.Int:
		if constant.Sign(c.Value) == 0 {
			return Zero
		}
		return nonZeroConst
	case constant.String:
		if constant.StringVal(c.Value) == "" {
			return Zero
		}
		return nonZeroConst
	}
	return Unknown
}

var nonNilFuncs = map[string]bool{
	"fmt.Errorf": true, "errors.New": true,
	"google.golang.org/grpc/status.Errorf": true, "google.golang.org/grpc/status.Error": true,
	"errors.Join": false,
}

// eval computes the zero-ness of v on the current path.
func (e *Engine) eval(c *config, v ssa.Value) Abs {
	return e.evalD(c, v, 0)
}

func (e *Engine) evalD(c *config, v ssa.Value, d int) Abs {
	if d > 12 {
		return Unknown
	}
	if k, ok := v.(*ssa.Const); ok {
		if a := constAbs(k); a == nonZeroConst {
			return NonZero
		} else {
			return a
		}
	}
	if id, ok := e.ids[v]; ok {
		if a := c.get(id); a != Unknown {
			return a
		}
	}
	if e.R.Flag != nil {
		if i, ok := e.R.Flag(v); ok {
			return c.s.Flag(i)
		}
	}
	switch v := v.(type) {
	case *ssa.UnOp:
		if v.Op == token.NOT {
			return e.evalD(c, v.X, d+1).Inv()
		}
		if v.Op == token.MUL {
			if al, ok := v.X.(*ssa.Alloc); ok && simpleCell(al) {
				if id, ok := e.ids[al]; ok {
					return c.get(id)
				}
				return Unknown
			}
			if fv, ok := v.X.(*ssa.FreeVar); ok {
				if id, ok := e.ids[fv]; ok {
					return c.get(id)
				}
				return Unknown
			}
			if g, ok := v.X.(*ssa.Global); ok && strings.HasPrefix(g.Name(), "Err") && types.Identical(g.Type().(*types.Pointer).Elem(), errorType) {
				return NonZero
			}
		}
	case *ssa.BinOp:
		switch v.Op {
		case token.LSS, token.GTR:
			// 0 < 0 and 0 > 0 are false
			if e.evalD(c, v.X, d+1) == Zero && e.evalD(c, v.Y, d+1) == Zero {
				return Zero
			}
		case token.REM, token.QUO, token.MUL, token.AND, token.SHL, token.SHR:
			// 0 op k = 0
			if e.evalD(c, v.X, d+1) == Zero {
				return Zero
			}
			if (v.Op == token.MUL || v.Op == token.AND) && e.evalD(c, v.Y, d+1) == Zero {
				return Zero
			}
			return Unknown
		}
		if v.Op == token.EQL || v.Op == token.NEQ {
			var other ssa.Value
			var k *ssa.Const
			if kc, ok := v.Y.(*ssa.Const); ok {
				other, k = v.X, kc
			} else if kc, ok := v.X.(*ssa.Const); ok {
				other, k = v.Y, kc
			}
			if k != nil {
				ka := constAbs(k)
				if ka == Unknown {
					return Unknown
				}
				if k.Value == nil && !nilable(other.Type()) {
					return Unknown
				}
				oa := e.evalD(c, other, d+1)
				if oa == Unknown {
					return Unknown
				}
				if ka == nonZeroConst {
					// x == k with k ≠ 0: decidable only when x is zero
					if oa != Zero {
						return Unknown
					}
					if v.Op == token.NEQ {
						return NonZero
					}
					return Zero
				}
				eq := oa == ka
				if v.Op == token.NEQ {
					eq = !eq
				}
				if eq {
					return NonZero
				}
				return Zero
			}
		}
	case *ssa.MakeInterface, *ssa.Alloc, *ssa.MakeClosure, *ssa.MakeMap, *ssa.MakeChan, *ssa.FieldAddr, *ssa.IndexAddr, *ssa.Function, *ssa.Global:
		return NonZero
	case *ssa.ChangeInterface:
		return e.evalD(c, v.X, d+1)
	case *ssa.ChangeType:
		return e.evalD(c, v.X, d+1)
	case *ssa.Call:
		// len / cap of a nil slice, map or string known to be empty is 0
		if b, ok := v.Call.Value.(*ssa.Builtin); ok && (b.Name() == "len" || b.Name() == "cap") && len(v.Call.Args) == 1 {
			if e.evalD(c, v.Call.Args[0], d+1) == Zero {
				return Zero
			}
		}
		if f := v.Call.StaticCallee(); f != nil {
			name := f.String()
			if nonNilFuncs[name] || alwaysNonNil(f, 0) {
				return NonZero
			}
		}
	}
	return Unknown
}

var (
	alwaysNonNilCache = map[*ssa.Function]int{}
	alwaysNonNilMu    sync.Mutex
)

// alwaysNonNil: f is a one-result helper with a body, every return of which hands back the result of an error
// constructor that never returns nil (fmt.Errorf, errors.New, status.Error[f]) or of another such helper — a
// message-wrapping helper like `func changeFailed(err error) error { return fmt.Errorf("…: %w", err) }`.
func alwaysNonNil(f *ssa.Function, depth int) bool {
	if depth == 0 {
		alwaysNonNilMu.Lock()
		defer alwaysNonNilMu.Unlock()
	}
	if f == nil || f.Blocks == nil || depth > 2 || f.Signature.Results().Len() != 1 {
		return false
	}
	if v, ok := alwaysNonNilCache[f]; ok {
		return v == 1
	}
	alwaysNonNilCache[f] = 2
	n := 0
	for _, b := range f.Blocks {
		ret, ok := b.Instrs[len(b.Instrs)-1].(*ssa.Return)
		if !ok {
			continue
		}
		n++
		call, ok := ret.Results[0].(*ssa.Call)
		if !ok {
			return false
		}
		g := call.Call.StaticCallee()
		if g == nil || !(nonNilFuncs[g.String()] || alwaysNonNil(g, depth+1)) {
			return false
		}
	}
	if n == 0 {
		return false
	}
	alwaysNonNilCache[f] = 1
	return true
}

var errorType = types.Universe.Lookup("error").Type()

func nilable(t types.Type) bool {
	switch t.Underlying().(type) {
	case *types.Pointer, *types.Interface, *types.Slice, *types.Map, *types.Chan, *types.Signature:
		return true
	case *types.Basic:
		return t.Underlying().(*types.Basic).Kind() == types.UnsafePointer || t.Underlying().(*types.Basic).Kind() == types.UntypedNil
	}
	return false
}

func (e *Engine) tracked(v ssa.Value) bool {
	if _, ok := e.ids[v]; ok {
		return true
	}
	if e.R.Track != nil && e.R.Track(v) {
		return true
	}
	switch v := v.(type) {
	case *ssa.Phi:
		return true
	case *ssa.Parameter:
		return true
	case *ssa.Call:
		return true
	case *ssa.Extract:
		_, ok := v.Tuple.(*ssa.Call)
		return ok
	}
	return false
}

// assume records that v has zero-ness a; returns false on contradiction.
func (e *Engine) assume(c *config, v ssa.Value, a Abs, d int) bool {
	if d > 12 {
		return true
	}
	cur := e.evalD(c, v, 0)
	if cur != Unknown {
		if cur == a && e.R.Flag != nil {
			if i, ok := e.R.Flag(v); ok {
				c.s = c.s.WithFlag(i, a)
			}
		}
		return cur == a
	}
	if e.R.Flag != nil {
		if i, ok := e.R.Flag(v); ok {
			c.s = c.s.WithFlag(i, a)
			return true
		}
	}
	switch v := v.(type) {
	case *ssa.UnOp:
		if v.Op == token.NOT {
			return e.assume(c, v.X, a.Inv(), d+1)
		}
		if v.Op == token.MUL {
			// learning about the current content of a variable cell
			if al, ok := v.X.(*ssa.Alloc); ok && simpleCell(al) {
				e.id(al)
				e.setFact(c, al, a)
				return true
			}
			if fv, ok := v.X.(*ssa.FreeVar); ok {
				e.id(fv)
				e.setFact(c, fv, a)
				return true
			}
		}
	case *ssa.BinOp:
		if v.Op == token.EQL || v.Op == token.NEQ {
			var other ssa.Value
			var k *ssa.Const
			if kc, ok := v.Y.(*ssa.Const); ok {
				other, k = v.X, kc
			} else if kc, ok := v.X.(*ssa.Const); ok {
				other, k = v.Y, kc
			}
			if k != nil {
				ka := constAbs(k)
				if ka == nonZeroConst {
					// (other == k≠0) true ⇒ other non-zero; otherwise nothing
					eq := a == NonZero
					if v.Op == token.NEQ {
						eq = !eq
					}
					if eq {
						return e.assume(c, other, NonZero, d+1)
					}
					return true
				}
				if ka != Unknown && (k.Value != nil || nilable(other.Type())) {
					// (other == k) is a  => other's zero-ness
					eq := a == NonZero
					if v.Op == token.NEQ {
						eq = !eq
					}
					want := ka
					if !eq {
						want = ka.Inv()
					}
					return e.assume(c, other, want, d+1)
				}
			}
		}
	case *ssa.ChangeInterface:
		return e.assume(c, v.X, a, d+1)
	case *ssa.ChangeType:
		return e.assume(c, v.X, a, d+1)
	}
	if e.tracked(v) {
		e.setFact(c, v, a)
	}
	return true
}

func (e *Engine) info(fn *ssa.Function) *funcInfo {
	if fi, ok := e.finfo[fn]; ok {
		return fi
	}
	n := len(fn.Blocks)
	w := (n + 63) / 64
	fi := &funcInfo{reach: make([][]uint64, n)}
	for i := range fi.reach {
		fi.reach[i] = make([]uint64, w)
		fi.reach[i][i/64] |= 1 << (uint(i) % 64)
	}
	for changed := true; changed; {
		changed = false
		for i := n - 1; i >= 0; i-- {
			b := fn.Blocks[i]
			for _, s := range b.Succs {
				for k := 0; k < w; k++ {
					nv := fi.reach[i][k] | fi.reach[s.Index][k]
					if nv != fi.reach[i][k] {
						fi.reach[i][k] = nv
						changed = true
					}
				}
			}
		}
	}
	e.finfo[fn] = fi
	return fi
}

// pruneFacts drops facts on values with no use reachable from block b.
func (e *Engine) pruneFacts(c *config, b *ssa.BasicBlock) {
	fi := e.info(c.fn)
	r := fi.reach[b.Index]
	out := c.facts[:0]
	for _, f := range c.facts {
		live := false
		if al, ok := f.v.(*ssa.Alloc); ok && capturedByClosure(al) {
			// a deferred closure may read the variable when the function leaves
			out = append(out, f)
			continue
		}
		if fv, ok := f.v.(*ssa.FreeVar); ok && fvStored(fv) {
			// a captured variable this closure assigns is part of its outcome
			out = append(out, f)
			continue
		}
		if refs := f.v.Referrers(); refs != nil {
			for _, ref := range *refs {
				rb := ref.Block()
				if rb == nil {
					continue
				}
				if r[rb.Index/64]&(1<<(uint(rb.Index)%64)) != 0 {
					live = true
					break
				}
			}
		} else {
			live = true
		}
		if live {
			out = append(out, f)
		}
	}
	c.facts = out
}

func (e *Engine) violate(c *config, instr ssa.Instruction, msg string) {
	pos := token.NoPos
	if instr != nil {
		pos = instr.Pos()
	}
	head := msg
	if i := strings.Index(head, ":"); i >= 0 {
		head = head[:i]
	}
	var chain []*ssa.Function
	for x := c; x != nil; x = x.outer {
		chain = append([]*ssa.Function{x.fn}, chain...)
	}
	ck := ""
	if e.R.KeyByChain {
		for _, f := range chain {
			ck += f.String() + ">"
		}
	}
	key := fmt.Sprintf("%s|%s|%s|%d", head, ck, c.fn.String(), pos)
	w := e.witness(c)
	if old, ok := e.vioSeen[key]; ok {
		// keep the shortest witness per (rule, function, instruction)
		if len(w) < len(old.Witness) {
			old.Witness, old.Msg, old.State = w, msg, c.s
		}
		old.Count++
		return
	}
	v := &Violation{Msg: msg, Fn: c.fn, Pos: pos, State: c.s, Key: key, Witness: w, Count: 1, Chain: chain}
	e.vioSeen[key] = v
	e.Violations = append(e.Violations, v)
}

func (e *Engine) witness(c *config) []string {
	var lines []string
	for x := c; x != nil; {
		if x.note != "" {
			lines = append(lines, x.note)
		}
		if x.parent != nil {
			x = x.parent
		} else {
			if x.outer != nil {
				lines = append(lines, "enter "+x.fn.String())
			}
			x = x.outer
		}
	}
	for i, j := 0, len(lines)-1; i < j; i, j = i+1, j-1 {
		lines[i], lines[j] = lines[j], lines[i]
	}
	if len(lines) > 60 {
		lines = append(lines[:20], append([]string{"..."}, lines[len(lines)-39:]...)...)
	}
	return lines
}

func (e *Engine) relevant(fn *ssa.Function) bool {
	if fn == nil || fn.Blocks == nil {
		return false
	}
	if e.R.Relevant != nil {
		return e.R.Relevant(fn)
	}
	return true
}

// summarise explores fn from entry state s.
func (e *Engine) summarise(fn *ssa.Function, s State, pfacts []Abs, outer *config, isRoot bool) *summary {
	k := sumKey{fn, s, encAbs(pfacts)}
	sum := e.sums[k]
	if sum != nil {
		if sum.done {
			return sum
		}
		if sum.inProgress {
			e.incomplete = true
			return sum
		}
	} else {
		sum = &summary{outs: map[Outcome]*config{}}
		e.sums[k] = sum
	}
	sum.inProgress = true
	init := &config{fn: fn, block: fn.Blocks[0], s: s, outer: outer}
	for i, p := range fn.Params {
		if i < len(pfacts) && pfacts[i] != Unknown {
			e.setFact(init, p, pfacts[i])
		}
	}
	for i, fv := range fn.FreeVars {
		if j := len(fn.Params) + i; j < len(pfacts) && pfacts[j] != Unknown {
			e.setFact(init, fv, pfacts[j])
		}
	}
	seen := map[string]bool{}
	work := []*config{init}
	max := e.R.MaxConfigs
	if max == 0 {
		max = 2000000
	}
	for len(work) > 0 {
		c := work[len(work)-1]
		work = work[:len(work)-1]
		key := c.key()
		if seen[key] {
			continue
		}
		seen[key] = true
		e.Configs++
		if e.Configs > max {
			if !e.overflow {
				e.overflow = true
				e.Undecided = append(e.Undecided, fmt.Sprintf("configuration budget %d exceeded in %s", max, fn))
			}
			break
		}
		work = append(work, e.stepBlock(c, sum, isRoot)...)
	}
	sum.inProgress = false
	sum.done = true
	return sum
}

// stepBlock executes the rest of c's block and returns successor configs.
func (e *Engine) stepBlock(c0 *config, sum *summary, isRoot bool) []*config {
	cur := []*config{c0}
	b := c0.block
	for i := c0.idx; i < len(b.Instrs); i++ {
		instr := b.Instrs[i]
		var next []*config
		for _, c := range cur {
			c.idx = i
			switch instr := instr.(type) {
			case *ssa.If:
				for ti, succ := range b.Succs {
					n := c.clone()
					want := NonZero
					if ti == 1 {
						want = Zero
					}
					if !e.assume(n, instr.Cond, want, 0) {
						continue
					}

					if e.R.OnBranch != nil {
						x := &Ctx{E: e, Fn: c.fn, Instr: instr, c: n}
						ns, msg := e.R.OnBranch(x, n.s, instr.Cond, ti == 0)
						n.s = ns
						if msg != "" {
							e.violate(n, instr, msg)
						}
					}
					next = append(next, e.enterSplit(n, b, succ)...)
				}
			case *ssa.Jump:
				n := c.clone()
				next = append(next, e.enterSplit(n, b, b.Succs[0])...)
			case *ssa.Return:
				e.doReturn(c, instr, sum, isRoot)
			case *ssa.Panic:
				// path ends
			case *ssa.RunDefers:
				cs := []*config{c}
				ds := c.defers
				for j := len(ds) - 1; j >= 0; j-- {
					var nn []*config
					for _, cc := range cs {
						nn = append(nn, e.doCall(cc, ds[j])...)
					}
					cs = nn
				}
				for _, cc := range cs {
					cc.defers = nil
				}
				next = append(next, cs...)
			case *ssa.Defer:
				n := c
				n.defers = append(append([]*ssa.Defer(nil), c.defers...), instr)
				next = append(next, n)
			case *ssa.Go:
				if e.R.GoAsCall && (len(e.match(instr)) > 0 || e.anyRelevantCallee(instr)) {
					// the goroutine may run at once: its events are taken in the state of the spawn point (exact for
					// rules whose state only grows along a path and whose events need bits that are already set)
					for _, n := range e.doCall(c, instr) {
						m := c.clone()
						m.s = n.s
						m.facts = n.facts
						next = append(next, m)
					}
					continue
				}
				if len(e.match(instr)) > 0 || e.anyRelevantCallee(instr) {
					e.Undecided = append(e.Undecided, "go statement reaching tracked events in "+c.fn.String()+" at "+e.PosStr(instr.Pos()))
				}
				next = append(next, c)
			case *ssa.Call:
				next = append(next, e.doCall(c, instr)...)
			default:
				// other instructions: events on non-call instructions
				if al, ok := instr.(*ssa.Alloc); ok && e.R.AllocFlags != nil {
					if pt, ok := al.Type().Underlying().(*types.Pointer); ok {
						for _, i := range e.R.AllocFlags(pt.Elem()) {
							c.s = c.s.WithFlag(i, Zero)
						}
					}
				}
				if st, ok := instr.(*ssa.Store); ok && e.R.FieldFlag != nil {
					if fa, ok := st.Addr.(*ssa.FieldAddr); ok {
						if i, ok := e.R.FieldFlag(fa); ok {
							c.s = c.s.WithFlag(i, e.eval(c, st.Val))
						}
					}
				}
				if st, ok := instr.(*ssa.Store); ok {
					if fv, ok := st.Addr.(*ssa.FreeVar); ok {
						e.id(fv)
						e.setFact(c, fv, e.eval(c, st.Val))
					}
					if al, ok := st.Addr.(*ssa.Alloc); ok && simpleCell(al) {
						a := e.eval(c, st.Val)
						if a != Unknown {
							e.id(al)
						}
						if _, has := e.ids[al]; has {
							e.setFact(c, al, a)
						}
					}
				}
				if v, ok := instr.(ssa.Value); ok {
					if _, isExt := v.(*ssa.Extract); !isExt {
						if _, has := e.ids[v]; has {
							e.setFact(c, v, Unknown)
						}
					}
				}
				if bo, ok := instr.(*ssa.BinOp); ok {
					if tr := e.intTracked(c.fn); tr[bo] {
						e.stepInt(c, bo)
					}
				}
				forked := false
				if evs := e.match(instr); len(evs) > 0 {
					x := &Ctx{E: e, Fn: c.fn, Instr: instr, c: c}
					for _, ev := range evs {
						ns, msg := e.R.Step(x, c.s, ev, AtCall)
						if msg != "" {
							e.violate(c, instr, msg)
						}
						if ns != c.s {
							n := c.clone()
							n.s = ns
							n.note = fmt.Sprintf("%s: %s", e.PosStr(instr.Pos()), ev.Name)
							c = n
						}
						// boolean-valued instruction as an event: fork on its truth
						if val, isVal := instr.(ssa.Value); isVal && ev.BoolIdx == 0 && !forked {
							cur := e.eval(c, val)
							kinds := []Abs{cur}
							if cur == Unknown {
								kinds = []Abs{NonZero, Zero}
							}
							for _, k := range kinds {
								n := c.clone()
								ph := Ok
								if k == Zero {
									ph = Fail
								}
								xx := &Ctx{E: e, Fn: c.fn, Instr: instr, c: n}
								ns, msg := e.R.Step(xx, n.s, ev, ph)
								if msg != "" {
									e.violate(n, instr, msg)
								}
								n.s = ns
								if !e.assume(n, val, k, 0) {
									continue
								}
								e.id(val)
								e.setFact(n, val, k)
								n.note = fmt.Sprintf("%s: %s:%s", e.PosStr(instr.Pos()), ev.Name, ph)
								next = append(next, n)
							}
							forked = true
						}
					}
				}
				if !forked {
					next = append(next, c)
				}
			}
		}
		cur = next
		if len(cur) == 0 {
			return nil
		}
		if _, ok := instr.(*ssa.If); ok {
			return cur
		}
		if _, ok := instr.(*ssa.Jump); ok {
			return cur
		}
		// dedupe inside block
		if len(cur) > 1 {
			seen := map[string]bool{}
			out := cur[:0]
			for _, c := range cur {
				c.idx = i + 1
				k := c.key()
				if !seen[k] {
					seen[k] = true
					out = append(out, c)
				}
			}
			cur = out
		}
	}
	return nil
}

func (e *Engine) anyRelevantCallee(call ssa.CallInstruction) bool {
	for _, f := range e.callees(call) {
		if e.relevant(f) {
			return true
		}
	}
	return false
}

func (e *Engine) callees(call ssa.CallInstruction) []*ssa.Function {
	cc := call.Common()
	if f := cc.StaticCallee(); f != nil {
		return []*ssa.Function{f}
	}
	if cc.IsInvoke() {
		return nil
	}
	if e.R.Callees != nil {
		return e.R.Callees(call)
	}
	return nil
}

// enter moves config n along edge from->to: evaluates φ-nodes, prunes facts.
// enterSplit enters block to from block from. A boolean φ of the entered block that the block branches on (the
// result of a short-circuit && / ||) and whose incoming operand is not decided yet is decided here, where the operand
// is still known: what a later branch on the φ tells about the operand (a tracked flag, a compared value) would be
// lost otherwise.
func (e *Engine) enterSplit(n *config, from, to *ssa.BasicBlock) []*config {
	pi := -1
	for i, p := range to.Preds {
		if p == from {
			pi = i
			break
		}
	}
	var conds []*ssa.Phi
	if pi >= 0 {
		for _, instr := range to.Instrs {
			phi, ok := instr.(*ssa.Phi)
			if !ok {
				break
			}
			if phi.Type().String() != "bool" || phi.Referrers() == nil {
				continue
			}
			if _, isK := phi.Edges[pi].(*ssa.Const); isK {
				continue
			}
			for _, r := range *phi.Referrers() {
				if _, ok := r.(*ssa.If); ok && r.Block() == to {
					conds = append(conds, phi)
					break
				}
			}
		}
	}
	if len(conds) == 0 {
		if e.enter(n, from, to) {
			return []*config{n}
		}
		return nil
	}
	// decide the operands in the predecessor's context, then enter
	cur := []*config{n}
	for _, phi := range conds {
		op := phi.Edges[pi]
		var next []*config
		for _, c0 := range cur {
			if e.eval(c0, op) != Unknown {
				next = append(next, c0)
				continue
			}
			for _, k := range []Abs{NonZero, Zero} {
				m := c0.clone()
				if e.assume(m, op, k, 0) {
					e.id(op)
					e.setFact(m, op, k)
					next = append(next, m)
				}
			}
		}
		cur = next
	}
	var out []*config
	for _, m := range cur {
		if e.enter(m, from, to) {
			out = append(out, m)
		}
	}
	return out
}

func (e *Engine) enter(n *config, from, to *ssa.BasicBlock) bool {
	// find predecessor index
	pi := -1
	for i, p := range to.Preds {
		if p == from {
			pi = i
			break
		}
	}
	type upd struct {
		v ssa.Value
		a Abs
	}
	var ups []upd
	for _, instr := range to.Instrs {
		phi, ok := instr.(*ssa.Phi)
		if !ok {
			break
		}
		if pi < 0 {
			continue
		}
		a := e.eval(n, phi.Edges[pi])
		ups = append(ups, upd{phi, a})
	}
	if tr := e.intTracked(n.fn); len(tr) > 0 && pi >= 0 {
		type iu struct {
			v   ssa.Value
			val int64
			ok  bool
		}
		var ius []iu
		for _, instr := range to.Instrs {
			phi, ok := instr.(*ssa.Phi)
			if !ok {
				break
			}
			if tr[phi] {
				val, known := e.intOf(n, phi.Edges[pi])
				ius = append(ius, iu{phi, val, known})
			}
		}
		for _, u := range ius {
			e.setInt(n, u.v, u.val, u.ok)
		}
	}
	for _, u := range ups {
		if u.a != Unknown {
			e.id(u.v)
		}
		if _, has := e.ids[u.v]; has {
			e.setFact(n, u.v, u.a)
		}
		if e.R.Flag != nil {
			if i, ok := e.R.Flag(u.v); ok {
				n.s = n.s.WithFlag(i, u.a)
			}
		}
	}
	n.block = to
	n.idx = 0
	// skip φ-nodes
	for n.idx < len(to.Instrs) {
		if _, ok := to.Instrs[n.idx].(*ssa.Phi); ok {
			n.idx++
		} else {
			break
		}
	}
	e.pruneFacts(n, to)
	return true
}

func (e *Engine) doReturn(c *config, ret *ssa.Return, sum *summary, isRoot bool) {
	rets := make([]Abs, len(ret.Results))
	for i, r := range ret.Results {
		rets[i] = e.eval(c, r)
	}
	x := &Ctx{E: e, Fn: c.fn, Instr: ret, c: c}
	if isRoot && e.R.AtReturn != nil {
		if msg := e.R.AtReturn(x, c.s, rets); msg != "" {
			e.violate(c, ret, msg)
		}
	}
	if e.R.AtAnyReturn != nil {
		if msg := e.R.AtAnyReturn(x, c.fn, c.s, rets); msg != "" {
			e.violate(c, ret, msg)
		}
	}
	o := Outcome{S: c.s, Rets: encAbs(rets)}
	if len(c.fn.FreeVars) > 0 {
		st := storedFreeVars(c.fn)
		any := false
		cells := make([]Abs, len(st))
		for i, w := range st {
			if w {
				any = true
				if id, ok := e.ids[c.fn.FreeVars[i]]; ok {
					cells[i] = c.get(id)
				}
			}
		}
		if any {
			o.Cells = encAbs(cells)
		}
	}
	if esc := escapedCells(c.fn); len(esc) > 0 && !isRoot {
		facts := make([]Abs, len(esc))
		any := false
		for i, al := range esc {
			if id, ok := e.ids[al]; ok {
				facts[i] = c.get(id)
				if facts[i] != Unknown {
					any = true
				}
			}
		}
		if any {
			o.Escaped = encAbs(facts)
		}
	}
	if _, ok := sum.outs[o]; !ok {
		sum.outs[o] = c
		e.grew = true
	}
}

// variadicArgs recovers the elements of a variadic slice argument built in SSA
// as new [n]T; stores; slice.
func variadicArgs(v ssa.Value) ([]ssa.Value, bool) {
	sl, ok := v.(*ssa.Slice)
	if !ok {
		if isNilConst(v) {
			return nil, true
		}
		return nil, false
	}
	al, ok := sl.X.(*ssa.Alloc)
	if !ok {
		return nil, false
	}
	arr, ok := al.Type().(*types.Pointer).Elem().Underlying().(*types.Array)
	if !ok {
		return nil, false
	}
	out := make([]ssa.Value, arr.Len())
	for _, ref := range *al.Referrers() {
		ia, ok := ref.(*ssa.IndexAddr)
		if !ok {
			continue
		}
		k, ok := ia.Index.(*ssa.Const)
		if !ok {
			return nil, false
		}
		idx := int(k.Int64())
		for _, r2 := range *ia.Referrers() {
			if st, ok := r2.(*ssa.Store); ok && st.Addr == ia {
				out[idx] = st.Val
			}
		}
	}
	for _, o := range out {
		if o == nil {
			return nil, false
		}
	}
	return out, true
}

// VariadicArgs is exported for rules.
func VariadicArgs(v ssa.Value) ([]ssa.Value, bool) { return variadicArgs(v) }

func (e *Engine) builtinContract(c *config, call ssa.CallInstruction) ([]Abs, bool) {
	f := call.Common().StaticCallee()
	if f == nil {
		return nil, false
	}
	switch f.String() {
	case "go.uber.org/multierr.Combine":
		args, ok := variadicArgs(call.Common().Args[0])
		if !ok {
			return nil, false
		}
		res := Zero
		for _, a := range args {
			switch e.eval(c, a) {
			case NonZero:
				return []Abs{NonZero}, true
			case Unknown:
				res = Unknown
			}
		}
		return []Abs{res}, true
	case "go.uber.org/multierr.AppendInto":
		// *into = Append(*into, err); reports whether err was non-nil
		if al, ok := call.Common().Args[0].(*ssa.Alloc); ok && simpleCell(al) {
			b := e.eval(c, call.Common().Args[1])
			a := Unknown
			if _, has := e.ids[al]; has {
				a = c.get(e.ids[al])
			} else {
				a = Zero // a named result / fresh local starts out nil until something is stored
				for _, r := range *al.Referrers() {
					if st, isSt := r.(*ssa.Store); isSt && st.Addr == ssa.Value(al) {
						a = Unknown
					}
				}
			}
			res := Unknown
			switch {
			case a == NonZero || b == NonZero:
				res = NonZero
			case a == Zero && b == Zero:
				res = Zero
			}
			e.id(al)
			e.setFact(c, al, res)
			switch b {
			case NonZero:
				return []Abs{NonZero}, true
			case Zero:
				return []Abs{Zero}, true
			}
			return []Abs{Unknown}, true
		}
		return nil, false
	case "go.uber.org/multierr.Append":
		a, b := e.eval(c, call.Common().Args[0]), e.eval(c, call.Common().Args[1])
		if a == NonZero || b == NonZero {
			return []Abs{NonZero}, true
		}
		if a == Zero && b == Zero {
			return []Abs{Zero}, true
		}
		return []Abs{Unknown}, true
	}
	if nonNilFuncs[f.String()] || alwaysNonNil(f, 0) {
		return []Abs{NonZero}, true
	}
	return nil, false
}

func resultCount(call ssa.CallInstruction) int {
	sig := call.Common().Signature()
	return sig.Results().Len()
}

// setCallResults records the facts for the results of call in c.
func (e *Engine) setCallResults(c *config, call ssa.CallInstruction, rets []Abs) {
	v := call.Value()
	if v == nil {
		return
	}
	n := resultCount(call)
	if n == 1 {
		a := Unknown
		if len(rets) == 1 {
			a = rets[0]
		}
		if a != Unknown {
			e.id(v)
		}
		if _, has := e.ids[v]; has {
			e.setFact(c, v, a)
		}
		return
	}
	if refs := v.Referrers(); refs != nil {
		for _, r := range *refs {
			if ex, ok := r.(*ssa.Extract); ok {
				a := Unknown
				if ex.Index < len(rets) {
					a = rets[ex.Index]
				}
				if a != Unknown {
					e.id(ex)
				}
				if _, has := e.ids[ex]; has {
					e.setFact(c, ex, a)
				}
			}
		}
	}
}

// doCall handles a call (or deferred call) instruction; returns successor configs.
func (e *Engine) doCall(c *config, call ssa.CallInstruction) []*config {
	instr := call.(ssa.Instruction)
	evs := e.match(instr)
	x := &Ctx{E: e, Fn: c.fn, Instr: instr, c: c}
	// AtCall phase
	cur := c
	for _, ev := range evs {
		ns, msg := e.R.Step(x, cur.s, ev, AtCall)
		if msg != "" {
			e.violate(cur, instr, msg)
		}
		n := cur.clone()
		n.s = ns
		if ns != cur.s || (ev.ErrIdx < 0 && ev.BoolIdx < 0) {
			n.note = fmt.Sprintf("%s: %s", e.PosStr(instr.Pos()), ev.Name)
		}
		cur = n
		x.c = cur
	}
	nres := resultCount(call)
	type world struct {
		c    *config
		rets []Abs
	}
	var worlds []world
	// contracts
	if rets, ok := e.builtinContract(cur, call); ok {
		worlds = append(worlds, world{cur, rets})
	} else if e.R.Contract != nil {
		if rets, ok := e.R.Contract(x, call); ok {
			worlds = append(worlds, world{cur, rets})
		}
	}
	if worlds == nil {
		var targets []*ssa.Function
		viaTable := false
		cands := e.callees(call)
		if tab, idx := e.tableCall(call); tab != nil {
			if i, ok := e.intOf(cur, idx); ok && i >= 0 && int(i) < len(tab) {
				cands = []*ssa.Function{tab[i]}
				viaTable = true
			}
		}
		for _, f := range cands {
			if e.relevant(f) {
				targets = append(targets, f)
			}
		}
		if len(targets) == 0 {
			worlds = append(worlds, world{cur, make([]Abs, nres)})
		}
		for _, f := range targets {
			// a boolean argument that the rule tracks as a flag and whose value is not known yet is
			// decided before the call, so that what the callee does under it stays correlated with
			// what the caller does under it afterwards
			entries := []*config{cur}
			if e.R.Flag != nil || e.R.Track != nil {
				for i := range f.Params {
					args := call.Common().Args
					if i >= len(args) {
						continue
					}
					// a value the rule asked to track (its nil-ness matters) is decided before the call in the same
					// way, so that "the helper returned nil" stays correlated with "the value was not nil"
					tracked := e.R.Track != nil && e.R.Track(args[i])
					if !tracked {
						if args[i].Type().String() != "bool" {
							continue
						}
						if _, ok := e.R.Flag(args[i]); !ok {
							continue
						}
					}
					var next []*config
					for _, c0 := range entries {
						if e.eval(c0, args[i]) != Unknown {
							next = append(next, c0)
							continue
						}
						for _, k := range []Abs{NonZero, Zero} {
							n := c0.clone()
							if e.assume(n, args[i], k, 0) {
								e.id(args[i])
								e.setFact(n, args[i], k)
								next = append(next, n)
							}
						}
					}
					entries = next
				}
			}
			for _, cur := range entries {
				args := call.Common().Args
				pf := make([]Abs, len(f.Params)+len(f.FreeVars))
				// closures bound via MakeClosure: params align with args
				shift := 0
				if viaTable && f.Signature.Recv() != nil && len(f.Params) == len(args)+1 {
					shift = 1 // a bound method from a function table: the receiver is not among the call's arguments
				}
				for i := range f.Params {
					if i-shift >= 0 && i-shift < len(args) {
						pf[i] = e.eval(cur, args[i-shift])
					}
				}
				// a closure reached through a function value (returned by the helper that made it): the cells it captured
				// carry the facts the helper left in them
				if _, direct := call.Common().Value.(*ssa.MakeClosure); !direct {
					if mc := closureSite(f); mc != nil {
						for i, b := range mc.Bindings {
							if al, ok := b.(*ssa.Alloc); ok && i < len(f.FreeVars) && simpleCell(al) {
								if id, ok := e.ids[al]; ok {
									pf[len(f.Params)+i] = cur.get(id)
								}
							}
						}
					}
				}
				// captured read-only cells carry their facts into the closure
				if mc, ok := call.Common().Value.(*ssa.MakeClosure); ok && mc.Fn == f {
					for i, b := range mc.Bindings {
						if al, ok := b.(*ssa.Alloc); ok && i < len(f.FreeVars) && simpleCell(al) {
							if id, ok := e.ids[al]; ok {
								pf[len(f.Params)+i] = cur.get(id)
							}
						}
					}
				}
				all := true
				for _, a := range pf {
					if a != Unknown {
						all = false
					}
				}
				if all {
					pf = nil
				}
				sub := e.summarise(f, cur.s, pf, cur, false)
				for o, rep := range sub.outs {
					n := cur.clone()
					n.s = o.S
					_ = rep
					if len(targets) > 1 || o.S != cur.s {
						n.note = fmt.Sprintf("%s: call %s → state %x/%x", e.PosStr(instr.Pos()), f.Name(), o.S.A, o.S.F)
					}
					rets := DecodeRets(o.Rets)
					if len(rets) != nres {
						rets = make([]Abs, nres)
					}
					if o.Escaped != "" {
						facts := DecodeRets(o.Escaped)
						for i, al := range escapedCells(f) {
							if i < len(facts) && facts[i] != Unknown {
								e.id(al)
								e.setFact(n, al, facts[i])
							}
						}
					}
					if mc, ok := call.Common().Value.(*ssa.MakeClosure); ok && mc.Fn == f && o.Cells != "" {
						// the closure stored to captured variables: their content is what the closure left
						st := storedFreeVars(f)
						cells := DecodeRets(o.Cells)
						for i, b := range mc.Bindings {
							if al, ok := b.(*ssa.Alloc); ok && i < len(st) && st[i] && i < len(cells) && simpleCell(al) {
								e.id(al)
								e.setFact(n, al, cells[i])
							}
						}
					}
					worlds = append(worlds, world{n, rets})
				}
			}
		}
	}
	var out []*config
	for _, w := range worlds {
		ws := []world{w}
		for _, ev := range evs {
			idx := ev.ErrIdx
			isBool := false
			if idx < 0 && ev.BoolIdx >= 0 {
				idx, isBool = ev.BoolIdx, true
			}
			if idx < 0 {
				continue
			}
			var nws []world
			for _, w := range ws {
				kinds := []Abs{w.rets[idx]}
				if idx < len(w.rets) && w.rets[idx] == Unknown {
					kinds = []Abs{Zero, NonZero}
				}
				for _, k := range kinds {
					n := w.c.clone()
					rets := append([]Abs(nil), w.rets...)
					rets[idx] = k
					ph := Ok
					if (k == NonZero) != isBool {
						ph = Fail
					}
					if ph == Ok {
						for _, ri := range ev.NonZeroOnOk {
							if ri < len(rets) && rets[ri] == Unknown {
								rets[ri] = NonZero
							}
						}
					}
					xx := &Ctx{E: e, Fn: c.fn, Instr: instr, c: n}
					ns, msg := e.R.Step(xx, n.s, ev, ph)
					if msg != "" {
						e.violate(n, instr, msg)
					}
					n.s = ns
					n.note = fmt.Sprintf("%s: %s:%s", e.PosStr(instr.Pos()), ev.Name, ph)
					nws = append(nws, world{n, rets})
				}
			}
			ws = nws
		}
		for _, w := range ws {
			_, isDefer := call.(*ssa.Defer)
			_, isGo := call.(*ssa.Go)
			if !isDefer && !isGo {
				e.setCallResults(w.c, call, w.rets)
			}
			out = append(out, w.c)
		}
	}
	return out
}
