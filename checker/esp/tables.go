package esp

import (
	"go/constant"
	"go/token"
	"go/types"
	"strings"

	"golang.org/x/tools/go/ssa"
)

// Static function tables.
//
// A refactoring that is common in step pipelines replaces a sequence of calls f1(); f2(); … by a loop over a slice
// literal of function values ([]func(){f1, f2, …}), possibly returned by a small helper. The call graph resolves the
// dynamic call to the set {f1, f2, …} but loses the order, and every ordering rule would alarm. The engine therefore
// recognises the shape exactly and interprets the loop concretely: the table (an array literal whose elements are
// each stored once, at a constant index, with a function value), the index (a loop variable that starts at a
// constant and is incremented by one), the bound (len of the table). Only these values carry concrete integers, so
// ordinary loops are not unrolled.

type intFact struct {
	id  int
	val int64
}

const maxTable = 32

// tableOf resolves a slice value to the ordered list of functions it statically holds (nil if it is not such a table).
// Bound method wrappers are resolved to the method they wrap (viaBound reports that for the element).
func (e *Engine) tableOf(v ssa.Value, depth int) []*ssa.Function {
	if t, ok := e.tables[v]; ok {
		return t
	}
	var out []*ssa.Function
	defer func() { e.tables[v] = out }()
	if depth > 3 {
		return nil
	}
	switch x := v.(type) {
	case *ssa.Slice:
		if x.Low != nil || x.High != nil || x.Max != nil {
			return nil
		}
		al, ok := x.X.(*ssa.Alloc)
		if !ok {
			return nil
		}
		out = tableFromAlloc(al)
		return out
	case *ssa.UnOp:
		// the array value itself (range over an array literal loads it once)
		if al, ok := x.X.(*ssa.Alloc); ok && x.Op == token.MUL {
			out = tableFromAlloc(al)
			return out
		}
		return nil
	case *ssa.Alloc:
		out = tableFromAlloc(x)
		return out
	case *ssa.Call:
		g := x.Call.StaticCallee()
		if g == nil || g.Blocks == nil || g.Signature.Results().Len() != 1 {
			return nil
		}
		var res ssa.Value
		for _, b := range g.Blocks {
			if ret, ok := b.Instrs[len(b.Instrs)-1].(*ssa.Return); ok {
				if res != nil {
					return nil // several returns: not a plain table constructor
				}
				res = ret.Results[0]
			}
		}
		if res == nil {
			return nil
		}
		out = e.tableOf(res, depth+1)
		return out
	}
	return nil
}

// funcOfValue: the function a function value denotes when that is static: a function, a closure over one, or a
// bound method (resolved to the method; the receiver binding is not tracked).
func funcOfValue(v ssa.Value) *ssa.Function {
	switch x := v.(type) {
	case *ssa.Function:
		return resolveBound(x)
	case *ssa.MakeClosure:
		if fn, ok := x.Fn.(*ssa.Function); ok {
			return resolveBound(fn)
		}
	case *ssa.ChangeType:
		return funcOfValue(x.X)
	}
	return nil
}

func isBoundWrapper(f *ssa.Function) bool {
	return strings.Contains(f.Synthetic, "bound method wrapper") || strings.HasSuffix(f.Name(), "$bound")
}

func resolveBound(f *ssa.Function) *ssa.Function {
	if f == nil || !isBoundWrapper(f) {
		return f
	}
	for _, b := range f.Blocks {
		for _, in := range b.Instrs {
			if call, ok := in.(ssa.CallInstruction); ok {
				if g := call.Common().StaticCallee(); g != nil {
					return g
				}
			}
		}
	}
	return nil
}

// tableCall: call's callee value is element I of a static table S: returns (S's table, I).
func (e *Engine) tableCall(call ssa.CallInstruction) ([]*ssa.Function, ssa.Value) {
	cc := call.Common()
	if cc.IsInvoke() || cc.StaticCallee() != nil {
		return nil, nil
	}
	switch u := cc.Value.(type) {
	case *ssa.UnOp:
		if u.Op != token.MUL {
			return nil, nil
		}
		ia, ok := u.X.(*ssa.IndexAddr)
		if !ok {
			return nil, nil
		}
		if t := e.tableOf(ia.X, 0); t != nil {
			return t, ia.Index
		}
	case *ssa.Index:
		if t := e.tableOf(u.X, 0); t != nil {
			return t, u.Index
		}
	}
	return nil, nil
}

// intTracked computes (once per function) the integer values worth tracking concretely: indices of table calls
// and what they are computed from (φ of constants and ±1 steps), and the comparisons of those with constants or
// with the length of a table.
func (e *Engine) intTracked(fn *ssa.Function) map[ssa.Value]bool {
	if t, ok := e.intTrack[fn]; ok {
		return t
	}
	t := map[ssa.Value]bool{}
	e.intTrack[fn] = t
	var add func(v ssa.Value, d int)
	add = func(v ssa.Value, d int) {
		if v == nil || t[v] || d > 6 {
			return
		}
		switch x := v.(type) {
		case *ssa.Phi:
			t[x] = true
			for _, ed := range x.Edges {
				add(ed, d+1)
			}
		case *ssa.BinOp:
			if x.Op == token.ADD || x.Op == token.SUB {
				t[x] = true
				add(x.X, d+1)
				add(x.Y, d+1)
			}
		}
	}
	for _, b := range fn.Blocks {
		for _, in := range b.Instrs {
			if call, ok := in.(ssa.CallInstruction); ok {
				if tab, idx := e.tableCall(call); tab != nil {
					add(idx, 0)
				}
			}
		}
	}
	if len(t) == 0 {
		return t
	}
	// comparisons over tracked integers
	for _, b := range fn.Blocks {
		for _, in := range b.Instrs {
			bo, ok := in.(*ssa.BinOp)
			if !ok {
				continue
			}
			switch bo.Op {
			case token.LSS, token.LEQ, token.GTR, token.GEQ, token.EQL, token.NEQ:
				if t[bo.X] || t[bo.Y] {
					t[bo] = true
				}
			}
		}
	}
	return t
}

// intOf: the concrete integer of v on this path, if known.
func (e *Engine) intOf(c *config, v ssa.Value) (int64, bool) {
	switch x := v.(type) {
	case *ssa.Const:
		if x.Value != nil && x.Value.Kind() == constant.Int {
			return constant.Int64Val(x.Value)
		}
		return 0, false
	case *ssa.Call:
		if bi, ok := x.Call.Value.(*ssa.Builtin); ok && bi.Name() == "len" && len(x.Call.Args) == 1 {
			if t := e.tableOf(x.Call.Args[0], 0); t != nil {
				return int64(len(t)), true
			}
		}
		return 0, false
	}
	id, ok := e.ids[v]
	if !ok {
		return 0, false
	}
	for _, f := range c.ints {
		if f.id == id {
			return f.val, true
		}
	}
	return 0, false
}

func (e *Engine) setInt(c *config, v ssa.Value, val int64, known bool) {
	id := e.id(v)
	for i, f := range c.ints {
		if f.id == id {
			if !known {
				c.ints = append(c.ints[:i], c.ints[i+1:]...)
			} else {
				c.ints[i].val = val
			}
			return
		}
	}
	if known {
		c.ints = append(c.ints, intFact{id, val})
		for i := len(c.ints) - 1; i > 0 && c.ints[i-1].id > c.ints[i].id; i-- {
			c.ints[i-1], c.ints[i] = c.ints[i], c.ints[i-1]
		}
	}
}

// stepInt interprets a tracked arithmetic or comparison instruction concretely.
func (e *Engine) stepInt(c *config, bo *ssa.BinOp) {
	a, ok1 := e.intOf(c, bo.X)
	b, ok2 := e.intOf(c, bo.Y)
	switch bo.Op {
	case token.ADD:
		e.setInt(c, bo, a+b, ok1 && ok2)
	case token.SUB:
		e.setInt(c, bo, a-b, ok1 && ok2)
	case token.LSS, token.LEQ, token.GTR, token.GEQ, token.EQL, token.NEQ:
		if !ok1 || !ok2 {
			return
		}
		var r bool
		switch bo.Op {
		case token.LSS:
			r = a < b
		case token.LEQ:
			r = a <= b
		case token.GTR:
			r = a > b
		case token.GEQ:
			r = a >= b
		case token.EQL:
			r = a == b
		case token.NEQ:
			r = a != b
		}
		abs := Zero
		if r {
			abs = NonZero
		}
		e.id(bo)
		e.setFact(c, bo, abs)
	}
}

// tableFromAlloc: al is a local array of function values each element of which is stored exactly once, at a
// constant index, with a static function value; the array is otherwise only sliced whole, loaded whole, or read
// through element addresses.
func tableFromAlloc(al *ssa.Alloc) []*ssa.Function {
	pt, ok := al.Type().(*types.Pointer)
	if !ok {
		return nil
	}
	arr, ok := pt.Elem().Underlying().(*types.Array)
	if !ok || arr.Len() == 0 || arr.Len() > maxTable {
		return nil
	}
	if _, isFn := arr.Elem().Underlying().(*types.Signature); !isFn {
		return nil
	}
	elems := make([]*ssa.Function, arr.Len())
	for _, ref := range *al.Referrers() {
		switch r := ref.(type) {
		case *ssa.Slice:
			if r.Low != nil || r.High != nil || r.Max != nil {
				return nil
			}
		case *ssa.UnOp:
			if r.Op != token.MUL {
				return nil
			}
		case *ssa.IndexAddr:
			k, isK := r.Index.(*ssa.Const)
			stored := false
			for _, rr := range *r.Referrers() {
				if st, ok := rr.(*ssa.Store); ok && st.Addr == r {
					stored = true
					if !isK || k.Value == nil {
						return nil // a store at a computed index: not a static table
					}
					i := k.Int64()
					if i < 0 || i >= arr.Len() || elems[i] != nil {
						return nil
					}
					fn := funcOfValue(st.Val)
					if fn == nil {
						return nil
					}
					elems[i] = fn
				}
			}
			_ = stored
		case *ssa.DebugRef:
		default:
			return nil
		}
	}
	for _, f := range elems {
		if f == nil {
			return nil
		}
	}
	return elems
}
