// Package load type-checks the repository under analysis in workspace mode
// without letting the go tool touch the repository's own go.work / go.work.sum,
// builds SSA form and (lazily) a VTA call graph.
package load

import (
	"bytes"
	"fmt"
	"go/token"
	"go/types"
	"os"
	"os/exec"
	"path/filepath"
	"sort"
	"strings"
	"sync"

	"golang.org/x/mod/modfile"
	"golang.org/x/tools/go/callgraph"
	"golang.org/x/tools/go/callgraph/cha"
	"golang.org/x/tools/go/callgraph/vta"
	"golang.org/x/tools/go/packages"
	"golang.org/x/tools/go/ssa"
	"golang.org/x/tools/go/ssa/ssautil"
)

// RootModule is the import path prefix of the repository's packages.
const RootModule = "github.com/google/gce-tcb-verifier"

// Config selects what is loaded.
type Config struct {
	Repo    string            // repository root, default /repo
	Tests   bool              // include test variants
	GOARCH  string            // "" = host
	Overlay map[string][]byte // absolute file name -> contents
}

// Program is the loaded, type-checked, SSA-built repository.
type Program struct {
	Cfg      Config
	Fset     *token.FileSet
	Roots    []*packages.Package // root (repo) packages
	All      map[string]*packages.Package
	SSA      *ssa.Program
	SSAPkgs  map[string]*ssa.Package // by import path (non-test variant)
	NumPkgs  int
	cgOnce   sync.Once
	cg       *callgraph.Graph
	allFuncs map[*ssa.Function]bool
}

// MalfunctionError marks a checker malfunction (exit 2), as opposed to a
// verdict about the repository.
type MalfunctionError struct{ Msg string }

func (e *MalfunctionError) Error() string { return e.Msg }

func malf(format string, a ...any) error { return &MalfunctionError{fmt.Sprintf(format, a...)} }

func gitStatus(repo string) string {
	out, err := exec.Command("git", "-C", repo, "status", "--porcelain").Output()
	if err != nil {
		return "?"
	}
	return string(out)
}

// synthWork writes a go.work equivalent to repo/go.work with absolute paths.
func synthWork(repo string) (dir string, err error) {
	data, err := os.ReadFile(filepath.Join(repo, "go.work"))
	if err != nil {
		return "", err
	}
	wf, err := modfile.ParseWork("go.work", data, nil)
	if err != nil {
		return "", err
	}
	dir, err = os.MkdirTemp("", "vcheck-work-")
	if err != nil {
		return "", err
	}
	var b bytes.Buffer
	gover := "1.20"
	if wf.Go != nil {
		gover = wf.Go.Version
	}
	fmt.Fprintf(&b, "go %s\n\n", gover)
	for _, u := range wf.Use {
		p := u.Path
		if !filepath.IsAbs(p) {
			p = filepath.Join(repo, p)
		}
		fmt.Fprintf(&b, "use %s\n", filepath.Clean(p))
	}
	for _, r := range wf.Replace {
		np := r.New.Path
		if r.New.Version == "" && !filepath.IsAbs(np) {
			np = filepath.Clean(filepath.Join(repo, np))
		}
		old := r.Old.Path
		if r.Old.Version != "" {
			old += " " + r.Old.Version
		}
		nw := np
		if r.New.Version != "" {
			nw += " " + r.New.Version
		}
		fmt.Fprintf(&b, "replace %s => %s\n", old, nw)
	}
	if err := os.WriteFile(filepath.Join(dir, "go.work"), b.Bytes(), 0o644); err != nil {
		return dir, err
	}
	if sum, err := os.ReadFile(filepath.Join(repo, "go.work.sum")); err == nil {
		if err := os.WriteFile(filepath.Join(dir, "go.work.sum"), sum, 0o644); err != nil {
			return dir, err
		}
	}
	return dir, nil
}

// Load loads the repository.
func Load(cfg Config) (*Program, error) {
	if cfg.Repo == "" {
		cfg.Repo = os.Getenv("VERIF_REPO")
		if cfg.Repo == "" {
			cfg.Repo = "/repo"
		}
	}
	before := gitStatus(cfg.Repo)
	wdir, err := synthWork(cfg.Repo)
	if wdir != "" {
		defer os.RemoveAll(wdir)
	}
	if err != nil {
		return nil, malf("cannot synthesise go.work: %v", err)
	}
	env := []string{}
	for _, e := range os.Environ() {
		k := e[:strings.IndexByte(e, '=')+0]
		if i := strings.IndexByte(e, '='); i >= 0 {
			k = e[:i]
		}
		switch k {
		case "GOFLAGS", "GOWORK", "GOPROXY", "GOSUMDB", "GOTOOLCHAIN", "GOARCH", "GOOS", "CGO_ENABLED":
			continue
		}
		env = append(env, e)
	}
	env = append(env, "GOFLAGS=", "GOWORK="+filepath.Join(wdir, "go.work"), "GOPROXY=off", "GOSUMDB=off", "GOTOOLCHAIN=local", "GOOS=linux", "CGO_ENABLED=0")
	if cfg.GOARCH != "" {
		env = append(env, "GOARCH="+cfg.GOARCH)
	} else {
		env = append(env, "GOARCH=amd64")
	}
	fset := token.NewFileSet()
	pcfg := &packages.Config{
		Mode:    packages.LoadAllSyntax,
		Dir:     cfg.Repo,
		Env:     env,
		Fset:    fset,
		Tests:   cfg.Tests,
		Overlay: cfg.Overlay,
	}
	// patterns: one per used module
	data, _ := os.ReadFile(filepath.Join(cfg.Repo, "go.work"))
	wf, _ := modfile.ParseWork("go.work", data, nil)
	var patterns []string
	for _, u := range wf.Use {
		p := filepath.Clean(u.Path)
		if p == "." {
			patterns = append(patterns, "./...")
		} else {
			patterns = append(patterns, "./"+p+"/...")
		}
	}
	roots, err := packages.Load(pcfg, patterns...)
	if err != nil {
		return nil, malf("packages.Load: %v", err)
	}
	if len(roots) == 0 {
		return nil, malf("zero packages loaded")
	}
	var errs []string
	all := map[string]*packages.Package{}
	packages.Visit(roots, nil, func(p *packages.Package) {
		all[p.ID] = p
		for _, e := range p.Errors {
			errs = append(errs, e.Error())
		}
	})
	if len(errs) > 0 {
		sort.Strings(errs)
		if len(errs) > 10 {
			errs = errs[:10]
		}
		return nil, malf("the tree does not type-check:\n  %s", strings.Join(errs, "\n  "))
	}
	prog, _ := ssautil.AllPackages(roots, ssa.InstantiateGenerics)
	prog.Build()
	p := &Program{Cfg: cfg, Fset: fset, Roots: roots, All: all, SSA: prog, SSAPkgs: map[string]*ssa.Package{}, NumPkgs: len(all)}
	for _, sp := range prog.AllPackages() {
		path := sp.Pkg.Path()
		if _, ok := p.SSAPkgs[path]; !ok {
			p.SSAPkgs[path] = sp
		}
	}
	// With Tests:true, prefer the test-augmented variant "p [p.test]" for root pkgs.
	if cfg.Tests {
		for _, r := range roots {
			if strings.Contains(r.ID, " [") && !strings.HasSuffix(r.PkgPath, "_test") && !strings.HasSuffix(r.PkgPath, ".test") {
				if sp := prog.Package(r.Types); sp != nil {
					p.SSAPkgs[r.PkgPath] = sp
				}
			}
		}
	}
	after := gitStatus(cfg.Repo)
	if before != after {
		return nil, malf("loading changed the repository's git status:\nbefore:\n%s\nafter:\n%s", before, after)
	}
	return p, nil
}

// IsRepo reports whether the package path belongs to the repository.
func IsRepo(path string) bool {
	return path == RootModule || strings.HasPrefix(path, RootModule+"/")
}

// Pkg returns the SSA package with the given repo-relative path ("" = root).
func (p *Program) Pkg(rel string) *ssa.Package {
	path := RootModule
	if rel != "" {
		path += "/" + rel
	}
	return p.SSAPkgs[path]
}

// ExtPkg returns the SSA package with the given full import path.
func (p *Program) ExtPkg(path string) *ssa.Package { return p.SSAPkgs[path] }

// Func resolves an exported (or any package-level) function by package and name.
func (p *Program) Func(rel, name string) *ssa.Function {
	sp := p.Pkg(rel)
	if sp == nil {
		return nil
	}
	return sp.Func(name)
}

// Method resolves a method by package, receiver type name and method name.
func (p *Program) Method(rel, typ, name string) *ssa.Function {
	sp := p.Pkg(rel)
	if sp == nil {
		return nil
	}
	return p.MethodOf(sp, typ, name)
}

// MethodOf resolves a method on named type typ (pointer or value receiver).
func (p *Program) MethodOf(sp *ssa.Package, typ, name string) *ssa.Function {
	obj := sp.Pkg.Scope().Lookup(typ)
	if obj == nil {
		return nil
	}
	tn, ok := obj.(*types.TypeName)
	if !ok {
		return nil
	}
	for _, t := range []types.Type{tn.Type(), types.NewPointer(tn.Type())} {
		ms := p.SSA.MethodSets.MethodSet(t)
		for i := 0; i < ms.Len(); i++ {
			sel := ms.At(i)
			if sel.Obj().Name() == name {
				if f := p.SSA.MethodValue(sel); f != nil && f.Synthetic == "" {
					return f
				} else if f != nil {
					// wrapper: find declared
					if fn, ok := sel.Obj().(*types.Func); ok {
						if d := p.SSA.FuncValue(fn); d != nil {
							return d
						}
					}
					return f
				}
			}
		}
	}
	return nil
}

// AllFunctions returns every function of the program (including closures).
func (p *Program) AllFunctions() map[*ssa.Function]bool {
	if p.allFuncs == nil {
		p.allFuncs = ssautil.AllFunctions(p.SSA)
	}
	return p.allFuncs
}

// RepoFunctions returns all source functions (incl. closures, instantiations)
// whose package is in the repository, sorted by position.
func (p *Program) RepoFunctions() []*ssa.Function {
	var out []*ssa.Function
	for f := range p.AllFunctions() {
		if FuncInRepo(f) && f.Blocks != nil {
			out = append(out, f)
		}
	}
	sort.Slice(out, func(i, j int) bool {
		if out[i].Pos() != out[j].Pos() {
			return out[i].Pos() < out[j].Pos()
		}
		return out[i].String() < out[j].String()
	})
	return out
}

// FuncPkgPath returns the import path of the package that declares f (looking
// through closures and instantiations).
func FuncPkgPath(f *ssa.Function) string {
	for f != nil {
		if f.Pkg != nil {
			return f.Pkg.Pkg.Path()
		}
		if o := f.Origin(); o != nil && o != f {
			f = o
			continue
		}
		if f.Parent() != nil {
			f = f.Parent()
			continue
		}
		if f.Object() != nil && f.Object().Pkg() != nil {
			return f.Object().Pkg().Path()
		}
		return ""
	}
	return ""
}

// FuncInRepo reports whether f is declared in a repository package.
func FuncInRepo(f *ssa.Function) bool { return IsRepo(FuncPkgPath(f)) }

// RelPkg returns the repo-relative package path of f ("" for non-repo).
func RelPkg(f *ssa.Function) string {
	p := FuncPkgPath(f)
	if !IsRepo(p) {
		return p
	}
	return strings.TrimPrefix(strings.TrimPrefix(p, RootModule), "/")
}

// CallGraph returns the VTA call graph (seeded by CHA), computed once.
func (p *Program) CallGraph() *callgraph.Graph {
	p.cgOnce.Do(func() {
		p.cg = vta.CallGraph(p.AllFunctions(), cha.CallGraph(p.SSA))
	})
	return p.cg
}

// Callees returns the possible callees of a call instruction. Static callees
// are returned directly; dynamic ones through the VTA graph.
func (p *Program) Callees(call ssa.CallInstruction) []*ssa.Function {
	if c := call.Common().StaticCallee(); c != nil {
		return []*ssa.Function{c}
	}
	cg := p.CallGraph()
	n := cg.Nodes[call.Parent()]
	if n == nil {
		return nil
	}
	var out []*ssa.Function
	seen := map[*ssa.Function]bool{}
	for _, e := range n.Out {
		if e.Site == call && !seen[e.Callee.Func] {
			seen[e.Callee.Func] = true
			out = append(out, e.Callee.Func)
		}
	}
	sort.Slice(out, func(i, j int) bool { return out[i].String() < out[j].String() })
	return out
}

// Pos renders a position relative to the repository root.
func (p *Program) Pos(pos token.Pos) string {
	if !pos.IsValid() {
		return "-"
	}
	ps := p.Fset.Position(pos)
	fn := ps.Filename
	if rel, err := filepath.Rel(p.Cfg.Repo, fn); err == nil && !strings.HasPrefix(rel, "..") {
		fn = rel
	}
	return fmt.Sprintf("%s:%d", fn, ps.Line)
}

// FuncName renders a function name relative to the repository module.
func FuncName(f *ssa.Function) string {
	if f == nil {
		return "<nil>"
	}
	s := f.String()
	s = strings.ReplaceAll(s, RootModule+"/", "")
	s = strings.ReplaceAll(s, RootModule, "")
	return s
}
