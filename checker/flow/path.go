package flow

import (
	"fmt"
	"go/token"
	"go/types"
	"strings"

	"golang.org/x/tools/go/ssa"
)

// AccessPath is (root value, field names). go/ssa performs no CSE, so two reads
// of x.F are distinct values; equal access paths denote the same memory if no
// store to the field intervenes (checked separately by callers).
type AccessPath struct {
	Root   ssa.Value
	Fields []string
}

func (p AccessPath) String() string {
	r := "?"
	if p.Root != nil {
		r = p.Root.Name()
	}
	return r + "." + strings.Join(p.Fields, ".")
}

// Equal compares two access paths.
func (p AccessPath) Equal(q AccessPath) bool {
	if p.Root == nil || p.Root != q.Root || len(p.Fields) != len(q.Fields) {
		return false
	}
	for i := range p.Fields {
		if p.Fields[i] != q.Fields[i] {
			return false
		}
	}
	return true
}

// PathOf computes the access path of v: loads of field chains and proto getter
// calls (x.GetF() ≡ x.F) down to a non-field root.
func PathOf(v ssa.Value) AccessPath {
	var fields []string
	for i := 0; i < 16; i++ {
		switch x := v.(type) {
		case *ssa.UnOp:
			if x.Op == token.MUL {
				if fa, ok := x.X.(*ssa.FieldAddr); ok {
					fields = append([]string{FieldName(fa)}, fields...)
					v = fa.X
					continue
				}
			}
			return AccessPath{v, fields}
		case *ssa.FieldAddr:
			fields = append([]string{FieldName(x)}, fields...)
			v = x.X
			continue
		case *ssa.Field:
			t := x.X.Type()
			if st, ok := t.Underlying().(*types.Struct); ok {
				fields = append([]string{st.Field(x.Field).Name()}, fields...)
			}
			v = x.X
			continue
		case *ssa.Call:
			if f := x.Call.StaticCallee(); f != nil && IsProtoGetter(f) && len(x.Call.Args) == 1 {
				fields = append([]string{strings.TrimPrefix(f.Name(), "Get")}, fields...)
				v = x.Call.Args[0]
				continue
			}
			return AccessPath{v, fields}
		case *ssa.ChangeType:
			v = x.X
			continue
		case *ssa.Slice:
			if x.Low == nil && x.High == nil && x.Max == nil {
				if _, isSlice := x.X.Type().Underlying().(*types.Slice); isSlice {
					v = x.X // s[:] of a slice is the same bytes
					continue
				}
			}
			return AccessPath{v, fields}
		case *ssa.MakeInterface:
			v = x.X
			continue
		default:
			return AccessPath{v, fields}
		}
	}
	return AccessPath{v, fields}
}

// Describe renders a value briefly for reports.
func Describe(v ssa.Value) string {
	if v == nil {
		return "<nil>"
	}
	p := PathOf(v)
	if len(p.Fields) > 0 {
		return fmt.Sprintf("%s (%s)", p.String(), v.Type())
	}
	return fmt.Sprintf("%s = %s", v.Name(), v.String())
}
