package flow

import (
	"go/token"
	"go/types"
	"sort"
	"strings"

	"golang.org/x/tools/go/ssa"

	"verif/checker/load"
)

// RootKind classifies where a written address comes from.
type RootKind int

const (
	Fresh      RootKind = iota // allocated in the analysed code (Alloc, new, make, literal, external constructor result, proto.Clone)
	Param                      // parameter of an analysis root function
	FreeVar                    // captured variable whose cell could not be resolved
	GlobalRoot                 // package-level variable
	UnknownRoot
)

func (k RootKind) String() string {
	return [...]string{"fresh", "parameter", "captured variable", "global", "unknown"}[k]
}

// Root is one possible origin of a pointer.
type Root struct {
	Kind RootKind
	V    ssa.Value
}

// Effects computes pointer provenance for stores inside a closed set of functions.
type Effects struct {
	P     *load.Program
	Funcs map[*ssa.Function]bool // analysed closure
	Roots map[*ssa.Function]bool // entry functions: their parameters are terminal
	depth int
}

// Write is a memory write found in the analysed functions.
type Write struct {
	Instr ssa.Instruction
	Fn    *ssa.Function
	Addr  ssa.Value // address or map/slice written
	What  string    // field / element description
	Roots []Root
}

// Writes lists all stores / map updates of the analysed functions with the
// provenance of the written object.
func (e *Effects) Writes() []Write {
	var out []Write
	var fns []*ssa.Function
	for f := range e.Funcs {
		fns = append(fns, f)
	}
	sort.Slice(fns, func(i, j int) bool { return fns[i].Pos() < fns[j].Pos() })
	for _, f := range fns {
		for _, b := range f.Blocks {
			for _, in := range b.Instrs {
				switch in := in.(type) {
				case *ssa.Store:
					// initialisation of a local cell is not an effect
					if al, ok := in.Addr.(*ssa.Alloc); ok {
						_ = al
						continue
					}
					// assignment to a captured local variable by a closure that does not outlive the invocation that
					// made it (deferred, or called on the spot): as local as the variable itself. (A closure that is
					// returned or stored shares the variable between its calls: that stays an effect.)
					if fv, ok := in.Addr.(*ssa.FreeVar); ok && capturedLocalOfTransientClosure(fv) {
						continue
					}
					w := Write{Instr: in, Fn: f, Addr: in.Addr, What: describeAddr(in.Addr)}
					w.Roots = e.provenance(baseOf(in.Addr), f, 0, map[ssa.Value]bool{})
					out = append(out, w)
				case *ssa.MapUpdate:
					w := Write{Instr: in, Fn: f, Addr: in.Map, What: "map element"}
					w.Roots = e.provenance(in.Map, f, 0, map[ssa.Value]bool{})
					out = append(out, w)
				case *ssa.Send:
					// a value put on a channel is state of the channel: whoever receives next gets it
					w := Write{Instr: in, Fn: f, Addr: in.Chan, What: "channel (send)"}
					w.Roots = e.provenance(in.Chan, f, 0, map[ssa.Value]bool{})
					out = append(out, w)
				case *ssa.UnOp:
					if in.Op == token.ARROW {
						w := Write{Instr: in, Fn: f, Addr: in.X, What: "channel (receive)"}
						w.Roots = e.provenance(in.X, f, 0, map[ssa.Value]bool{})
						out = append(out, w)
					}
				case *ssa.Select:
					for _, st := range in.States {
						w := Write{Instr: in, Fn: f, Addr: st.Chan, What: "channel (select)"}
						w.Roots = e.provenance(st.Chan, f, 0, map[ssa.Value]bool{})
						out = append(out, w)
					}
				case *ssa.Call:
					if b, ok := in.Call.Value.(*ssa.Builtin); ok && b.Name() == "copy" {
						w := Write{Instr: in, Fn: f, Addr: in.Call.Args[0], What: "copy destination"}
						w.Roots = e.provenance(in.Call.Args[0], f, 0, map[ssa.Value]bool{})
						out = append(out, w)
					}
					// append(x[:k], …) overwrites the elements of x's backing array from k on: a write to that
					// array, whoever else holds it (append(x, …) only writes beyond len and is not counted)
					if b, ok := in.Call.Value.(*ssa.Builtin); ok && b.Name() == "append" && len(in.Call.Args) > 0 {
						if sl, ok := in.Call.Args[0].(*ssa.Slice); ok && sl.High != nil {
							if _, isSlice := sl.X.Type().Underlying().(*types.Slice); isSlice {
								w := Write{Instr: in, Fn: f, Addr: sl.X, What: "elements of a re-sliced append destination"}
								w.Roots = e.provenance(sl.X, f, 0, map[ssa.Value]bool{})
								out = append(out, w)
							}
						}
					}
					// mutating methods of synchronised containers are writes to the receiver
					if cal := in.Call.StaticCallee(); cal != nil && len(in.Call.Args) > 0 {
						org := cal
						if o := cal.Origin(); o != nil {
							org = o // instances of generic types (atomic.Pointer[T]) carry no package and no receiver of their own
						}
						// standard-library functions that fill a destination slice they are given
						if pk := org.Package(); pk != nil {
							dst := -1
							switch pk.Pkg.Path() {
							case "encoding/binary":
								if strings.HasPrefix(org.Name(), "PutUint") || strings.HasPrefix(org.Name(), "PutVarint") || strings.HasPrefix(org.Name(), "PutUvarint") {
									dst = 0
									if org.Signature.Recv() != nil {
										dst = 1
									}
								}
							case "encoding/hex", "encoding/base64":
								if org.Name() == "Encode" || org.Name() == "Decode" {
									dst = 0
									if org.Signature.Recv() != nil {
										dst = 1
									}
								}
							case "io":
								if org.Name() == "ReadFull" || org.Name() == "ReadAtLeast" {
									dst = 1
								}
							case "crypto/rand":
								if org.Name() == "Read" {
									dst = 0
								}
							}
							if dst >= 0 && dst < len(in.Call.Args) {
								w := Write{Instr: in, Fn: f, Addr: in.Call.Args[dst], What: "destination of " + pk.Pkg.Name() + "." + org.Name()}
								w.Roots = e.provenance(in.Call.Args[dst], f, 0, map[ssa.Value]bool{})
								out = append(out, w)
							}
						}
						// mutating methods of standard-library objects that are handed around by pointer: extending a
						// certificate pool, setting a big integer, writing into a buffer are writes to the receiver
						if pk := org.Package(); pk != nil && org.Signature.Recv() != nil {
							mut := false
							switch pk.Pkg.Path() {
							case "crypto/x509":
								switch org.Name() {
								case "AddCert", "AppendCertsFromPEM", "AddCertWithConstraint":
									mut = true
								}
							case "math/big":
								mut = strings.HasPrefix(org.Name(), "Set") || org.Name() == "Add" || org.Name() == "Sub" || org.Name() == "Mul" || org.Name() == "Lsh" || org.Name() == "Rsh"
							case "bytes", "strings":
								if _, isPtr := org.Signature.Recv().Type().(*types.Pointer); isPtr {
									mut = strings.HasPrefix(org.Name(), "Write") || org.Name() == "Reset" || org.Name() == "Truncate" || org.Name() == "Grow" || org.Name() == "ReadFrom"
								}
							}
							if mut {
								w := Write{Instr: in, Fn: f, Addr: in.Call.Args[0], What: "a " + pk.Pkg.Name() + " object (" + org.Name() + ")"}
								w.Roots = e.provenance(baseOf(in.Call.Args[0]), f, 0, map[ssa.Value]bool{})
								out = append(out, w)
							}
						}
						if pk := org.Package(); pk != nil && org.Signature.Recv() != nil && (pk.Pkg.Path() == "sync" || pk.Pkg.Path() == "sync/atomic") {
							switch org.Name() {
							case "Store", "LoadOrStore", "LoadAndDelete", "Delete", "Swap", "CompareAndSwap", "CompareAndDelete", "Add", "Clear", "Or", "And":
								w := Write{Instr: in, Fn: f, Addr: in.Call.Args[0], What: "synchronised container (" + org.Name() + ")"}
								w.Roots = e.provenance(baseOf(in.Call.Args[0]), f, 0, map[ssa.Value]bool{})
								out = append(out, w)
							}
						}
					}
				}
			}
		}
	}
	return out
}

func describeAddr(a ssa.Value) string {
	switch a := a.(type) {
	case *ssa.FieldAddr:
		return "field " + FieldName(a)
	case *ssa.IndexAddr:
		return "element"
	case *ssa.Global:
		return "global " + a.Name()
	}
	return "memory"
}

// baseOf strips in-object address arithmetic: the object whose memory is written.
func baseOf(addr ssa.Value) ssa.Value {
	for i := 0; i < 16; i++ {
		switch a := addr.(type) {
		case *ssa.FieldAddr:
			addr = a.X
		case *ssa.IndexAddr:
			addr = a.X
		default:
			return addr
		}
	}
	return addr
}

func (e *Effects) provenance(v ssa.Value, fn *ssa.Function, depth int, seen map[ssa.Value]bool) []Root {
	if v == nil || seen[v] || depth > 12 {
		return nil
	}
	seen[v] = true
	rec := func(x ssa.Value) []Root { return e.provenance(x, fn, depth+1, seen) }
	switch v := v.(type) {
	case *ssa.Alloc:
		return []Root{{e.freshIfOwned(v), v}}
	case *ssa.MakeSlice, *ssa.MakeMap, *ssa.MakeChan, *ssa.MakeClosure:
		return []Root{{e.freshIfOwned(v), v}}
	case *ssa.Const:
		return nil
	case *ssa.Global:
		return []Root{{GlobalRoot, v}}
	case *ssa.Parameter:
		p := v.Parent()
		if e.Roots[p] {
			return []Root{{Param, v}}
		}
		// lift to call sites inside the analysed set
		idx := -1
		for i, q := range p.Params {
			if q == v {
				idx = i
			}
		}
		var out []Root
		found := false
		if n := e.P.CallGraph().Nodes[p]; n != nil {
			for _, edge := range n.In {
				cf := edge.Caller.Func
				if cf == nil || !e.Funcs[cf] || edge.Site == nil {
					continue
				}
				cc := edge.Site.Common()
				var arg ssa.Value
				if cc.IsInvoke() {
					if idx == 0 {
						arg = cc.Value
					} else if idx-1 < len(cc.Args) {
						arg = cc.Args[idx-1]
					}
				} else if idx < len(cc.Args) {
					arg = cc.Args[idx]
				}
				if arg != nil {
					found = true
					out = append(out, e.provenance(arg, cf, depth+1, seen)...)
				}
			}
		}
		if !found {
			return []Root{{Param, v}}
		}
		return out
	case *ssa.FreeVar:
		// the captured cell: find the binding in the parent
		f := v.Parent()
		idx := -1
		for i, fv := range f.FreeVars {
			if fv == v {
				idx = i
			}
		}
		if par := f.Parent(); par != nil && idx >= 0 {
			var out []Root
			found := false
			for _, b := range par.Blocks {
				for _, in := range b.Instrs {
					if mc, ok := in.(*ssa.MakeClosure); ok && mc.Fn == f && idx < len(mc.Bindings) {
						found = true
						out = append(out, e.provenanceOfCell(mc.Bindings[idx], par, depth+1, seen)...)
					}
				}
			}
			if found {
				return out
			}
		}
		return []Root{{FreeVar, v}}
	case *ssa.Phi:
		var out []Root
		for _, ed := range v.Edges {
			out = append(out, rec(ed)...)
		}
		return out
	case *ssa.Extract:
		return rec(v.Tuple)
	case *ssa.FieldAddr:
		return rec(v.X)
	case *ssa.IndexAddr:
		return rec(v.X)
	case *ssa.Slice:
		return rec(v.X)
	case *ssa.TypeAssert:
		return rec(v.X)
	case *ssa.ChangeInterface:
		return rec(v.X)
	case *ssa.MakeInterface:
		return rec(v.X)
	case *ssa.ChangeType:
		return rec(v.X)
	case *ssa.Convert:
		return rec(v.X)
	case *ssa.Lookup:
		return rec(v.X)
	case *ssa.Index:
		return rec(v.X)
	case *ssa.Field:
		return rec(v.X)
	case *ssa.UnOp:
		if v.Op != token.MUL {
			return nil
		}
		switch a := v.X.(type) {
		case *ssa.Alloc:
			// a local variable cell: provenance of what was stored
			return e.provenanceOfCell(a, fn, depth+1, seen)
		case *ssa.FreeVar:
			return rec(a)
		case *ssa.Global:
			return []Root{{GlobalRoot, a}}
		case *ssa.FieldAddr:
			// pointer loaded from a field: if the holder is fresh, follow the
			// stores into that field of that very object; otherwise the pointee
			// is as shared as the holder.
			holder := rec(a.X)
			allFresh := len(holder) > 0
			for _, r := range holder {
				if r.Kind != Fresh {
					allFresh = false
				}
			}
			if allFresh {
				var out []Root
				found := false
				for _, r := range holder {
					if al, ok := r.V.(*ssa.Alloc); ok {
						for _, ref := range *al.Referrers() {
							if fa, ok := ref.(*ssa.FieldAddr); ok && fa.Field == a.Field {
								for _, r2 := range *fa.Referrers() {
									if st, ok := r2.(*ssa.Store); ok && st.Addr == fa {
										found = true
										out = append(out, e.provenance(st.Val, al.Parent(), depth+1, seen)...)
									}
								}
							}
						}
					}
				}
				// a shallow copy (*local = *p): the pointer-like fields of the copy (slices, maps, pointers) still
				// refer to what p's fields refer to
				for _, r := range holder {
					if al, ok := r.V.(*ssa.Alloc); ok && pointerLike(v.Type()) {
						for _, ref := range *al.Referrers() {
							if st, ok := ref.(*ssa.Store); ok && st.Addr == al {
								if ld, ok := st.Val.(*ssa.UnOp); ok && ld.Op == token.MUL {
									found = true
									out = append(out, e.provenance(ld.X, al.Parent(), depth+1, seen)...)
								}
							}
						}
					}
				}
				if found {
					return out
				}
				// fresh object filled by an external decoder (proto.Unmarshal): still per-call
				return holder
			}
			return holder
		case *ssa.IndexAddr:
			return rec(a.X)
		default:
			return rec(v.X)
		}
	case *ssa.Call:
		if b, ok := v.Call.Value.(*ssa.Builtin); ok {
			if b.Name() == "append" {
				return rec(v.Call.Args[0])
			}
			return []Root{{Fresh, v}}
		}
		if v.Call.IsInvoke() {
			return []Root{{Fresh, v}} // result of an interface method: assumed a value the callee owns/returns fresh
		}
		var out []Root
		descended := false
		for _, f := range e.P.Callees(v) {
			if IsProtoGetter(f) && len(v.Call.Args) >= 1 {
				descended = true
				out = append(out, rec(v.Call.Args[0])...)
				continue
			}
			if f.String() == "google.golang.org/protobuf/proto.Clone" {
				return []Root{{Fresh, v}}
			}
			// what a synchronised container hands out is as shared as the container: an object taken from a
			// sync.Pool was used by an earlier call and will be used by a later one
			if org := originOf(f); org.Pkg != nil && org.Pkg.Pkg.Path() == "sync" && org.Signature.Recv() != nil && len(v.Call.Args) >= 1 {
				switch org.Name() {
				case "Get", "Load", "LoadOrStore", "LoadAndDelete", "Swap":
					descended = true
					out = append(out, rec(v.Call.Args[0])...)
					continue
				}
			}
			if f.Blocks != nil && load.FuncInRepo(f) && e.depth < 4 {
				descended = true
				e.depth++
				for _, b := range f.Blocks {
					if ret, ok := b.Instrs[len(b.Instrs)-1].(*ssa.Return); ok && len(ret.Results) > 0 {
						// map callee parameters to this call's arguments by analysing with
						// the callee temporarily treated as non-root: parameters lift to call
						// sites, which include this one.
						out = append(out, e.provenance(ret.Results[0], f, depth+1, seen)...)
					}
				}
				e.depth--
			}
		}
		if !descended {
			return []Root{{Fresh, v}}
		}
		return out
	}
	return []Root{{UnknownRoot, v}}
}

// provenanceOfCell: provenance of the values stored into a variable cell.
func (e *Effects) provenanceOfCell(cell ssa.Value, fn *ssa.Function, depth int, seen map[ssa.Value]bool) []Root {
	al, ok := cell.(*ssa.Alloc)
	if !ok {
		return e.provenance(cell, fn, depth, seen)
	}
	// a cell of struct/array type is the object itself
	if pt, ok := al.Type().(*types.Pointer); ok {
		switch pt.Elem().Underlying().(type) {
		case *types.Struct, *types.Array:
			return []Root{{e.freshIfOwned(al), al}}
		}
	}
	var out []Root
	found := false
	for _, ref := range *al.Referrers() {
		if st, ok := ref.(*ssa.Store); ok && st.Addr == al {
			found = true
			out = append(out, e.provenance(st.Val, al.Parent(), depth+1, seen)...)
		}
	}
	if !found {
		return []Root{{e.freshIfOwned(al), al}}
	}
	return out
}

// freshIfOwned: memory allocated by a function of the analysed call closure is
// allocated during the call; an allocation of an enclosing function (a
// variable captured by the analysed closure) outlives the call and is shared
// between calls.
func (e *Effects) freshIfOwned(v ssa.Value) RootKind {
	if in, ok := v.(ssa.Instruction); ok {
		if p := in.Parent(); p != nil && !e.Funcs[p] {
			return FreeVar
		}
	}
	return Fresh
}

// Shared reports the non-fresh roots of a write.
func (w *Write) Shared() []Root {
	var out []Root
	for _, r := range w.Roots {
		if r.Kind != Fresh {
			out = append(out, r)
		}
	}
	return out
}

// ProvenanceOf returns the roots of pointer v evaluated in fn.
func (e *Effects) ProvenanceOf(v ssa.Value, fn *ssa.Function) []Root {
	return e.provenance(v, fn, 0, map[ssa.Value]bool{})
}

// pointerLike: values of this type share memory when copied (slice, map, pointer, chan, func, interface).
func pointerLike(t types.Type) bool {
	switch t.Underlying().(type) {
	case *types.Slice, *types.Map, *types.Pointer, *types.Chan, *types.Signature, *types.Interface:
		return true
	}
	return false
}

func originOf(f *ssa.Function) *ssa.Function {
	if o := f.Origin(); o != nil {
		return o
	}
	return f
}


// capturedLocalOfTransientClosure: fv is a free variable of a closure every instance of which is only deferred or
// called directly by the function that makes it, and the variable it captures is a local (an Alloc) of that function.
func capturedLocalOfTransientClosure(fv *ssa.FreeVar) bool {
	f := fv.Parent()
	par := f.Parent()
	if par == nil {
		return false
	}
	idx := -1
	for i, x := range f.FreeVars {
		if x == fv {
			idx = i
		}
	}
	if idx < 0 {
		return false
	}
	n := 0
	for _, b := range par.Blocks {
		for _, in := range b.Instrs {
			mc, ok := in.(*ssa.MakeClosure)
			if !ok || mc.Fn != ssa.Value(f) || idx >= len(mc.Bindings) {
				continue
			}
			n++
			if _, isAlloc := mc.Bindings[idx].(*ssa.Alloc); !isAlloc {
				return false
			}
			refs := mc.Referrers()
			if refs == nil {
				return false
			}
			for _, r := range *refs {
				switch u := r.(type) {
				case *ssa.Defer:
					if u.Call.Value != ssa.Value(mc) {
						return false
					}
				case *ssa.Call:
					if u.Call.Value != ssa.Value(mc) {
						return false
					}
				case *ssa.DebugRef:
				default:
					return false
				}
			}
		}
	}
	return n > 0
}
