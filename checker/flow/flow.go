// Package flow provides backward value slicing ("derives from"), origin sets,
// access paths and store/effect classification over go/ssa.
package flow

import (
	"go/token"
	"go/types"
	"sort"

	"golang.org/x/tools/go/ssa"

	"verif/checker/load"
)

// FieldKey identifies a struct field independent of the base object.
type FieldKey struct {
	Struct string // types.TypeString of the (named) struct type
	Index  int
}

// Slicer performs backward slices.
type Slicer struct {
	P *load.Program
	// Transparent external functions: the slice continues through their
	// arguments (pure data transformers). nil = default list.
	Transparent func(f *ssa.Function) bool
	// MaxDepth of repo-callee descent (result ↦ returned operands).
	MaxDepth int
	// LiftParams: when a Parameter of a repo function is reached with no
	// calling context, continue at every call site's argument (bounded).
	LiftParams int
	// OpaqueInvokes: do not continue through receiver/arguments of interface
	// method calls (default: continue, dependence over-approximation).
	OpaqueInvokes bool
	// ThroughOutParams: a local whose address is passed to a call depends on
	// that call's other operands (out-parameter / in-place update idiom).
	ThroughOutParams bool
	fieldStores      map[FieldKey][]ssa.Value
	globalStore      map[*ssa.Global][]ssa.Value
	derefStores      map[*ssa.Function]map[string][]ssa.Value
}

// NewSlicer returns a slicer with defaults.
func NewSlicer(p *load.Program) *Slicer {
	return &Slicer{P: p, MaxDepth: 3, LiftParams: 0}
}

var defaultTransparent = map[string]bool{
	"encoding/hex.EncodeToString": true, "fmt.Sprintf": true, "fmt.Sprint": true,
	"strings.ToLower": true, "strings.ToUpper": true, "strings.TrimSpace": true, "strings.Join": true,
	"bytes.Clone": true, "path.Join": true, "path/filepath.Join": true, "path.Base": true, "path/filepath.Base": true,
	"(*math/big.Int).String": true, "(*math/big.Int).SetString": true, "(*math/big.Int).Set": true, "(*math/big.Int).SetBytes": true,
	"(*math/big.Int).Text": true, "strconv.Itoa": true, "strconv.FormatUint": true, "strconv.FormatInt": true,
	"google.golang.org/protobuf/proto.Clone": true,
}

func (s *Slicer) transparent(f *ssa.Function) bool {
	if s.Transparent != nil && s.Transparent(f) {
		return true
	}
	return defaultTransparent[f.String()]
}

// StructFieldKey returns the key of a FieldAddr/Field.
func StructFieldKey(t types.Type, idx int) FieldKey {
	for {
		if p, ok := t.(*types.Pointer); ok {
			t = p.Elem()
			continue
		}
		break
	}
	return FieldKey{types.TypeString(t, nil), idx}
}

func (s *Slicer) index() {
	if s.fieldStores != nil {
		return
	}
	s.fieldStores = map[FieldKey][]ssa.Value{}
	s.globalStore = map[*ssa.Global][]ssa.Value{}
	s.derefStores = map[*ssa.Function]map[string][]ssa.Value{}
	for f := range s.P.AllFunctions() {
		if !load.FuncInRepo(f) {
			continue
		}
		for _, b := range f.Blocks {
			for _, in := range b.Instrs {
				st, ok := in.(*ssa.Store)
				if !ok {
					continue
				}
				switch a := st.Addr.(type) {
				case *ssa.FieldAddr:
					k := StructFieldKey(a.X.Type(), a.Field)
					s.fieldStores[k] = append(s.fieldStores[k], st.Val)
				case *ssa.Global:
					s.globalStore[a] = append(s.globalStore[a], st.Val)
				case *ssa.UnOp, *ssa.Field, *ssa.Phi, *ssa.Extract, *ssa.Lookup, *ssa.Index:
					// a store through a pointer that was itself read from memory (a table of destinations): a possible
					// definition of every cell of that type whose address was put into memory in this function
					if s.derefStores[f] == nil {
						s.derefStores[f] = map[string][]ssa.Value{}
					}
					k := types.TypeString(st.Val.Type(), nil)
					s.derefStores[f][k] = append(s.derefStores[f][k], st.Val)
				}
			}
		}
	}
}

// FieldStores returns all values stored to the given field anywhere in the repo.
func (s *Slicer) FieldStores(k FieldKey) []ssa.Value {
	s.index()
	return s.fieldStores[k]
}

type frame struct {
	call   ssa.CallInstruction
	parent *frame
}

type visitKey struct {
	v ssa.Value
	f *frame
}

// Visit walks the backward slice of v, calling visit on every node; if visit
// returns false the walk does not continue past that node. Terminals are
// reported through term (may be nil).
func (s *Slicer) Visit(v ssa.Value, visit func(ssa.Value) bool, term func(ssa.Value)) {
	seen := map[ssa.Value]int{}
	s.walk(v, nil, 0, s.LiftParams, seen, visit, term)
}

func (s *Slicer) walk(v ssa.Value, fr *frame, depth, lift int, seen map[ssa.Value]int, visit func(ssa.Value) bool, term func(ssa.Value)) {
	if v == nil {
		return
	}
	if n := seen[v]; n > 0 {
		// allow re-visit of parameters under a different frame only once more
		if _, isParam := v.(*ssa.Parameter); !isParam || n > 4 {
			return
		}
	}
	seen[v]++
	if visit != nil && !visit(v) {
		return
	}
	rec := func(x ssa.Value) { s.walk(x, fr, depth, lift, seen, visit, term) }
	t := func() {
		if term != nil {
			term(v)
		}
	}
	switch v := v.(type) {
	case *ssa.Const, *ssa.Global, *ssa.Function, *ssa.Builtin:
		t()
	case *ssa.Parameter:
		if fr != nil {
			// map to the call site's argument
			callee := v.Parent()
			args := fr.call.Common().Args
			idx := -1
			for i, p := range callee.Params {
				if p == v {
					idx = i
				}
			}
			if fr.call.Common().IsInvoke() {
				// params[0] is receiver = Common().Value
				if idx == 0 {
					s.walk(fr.call.Common().Value, fr.parent, depth-1, lift, seen, visit, term)
					return
				}
				idx--
			}
			if idx >= 0 && idx < len(args) {
				s.walk(args[idx], fr.parent, depth-1, lift, seen, visit, term)
				return
			}
			t()
			return
		}
		if lift > 0 {
			fn := v.Parent()
			idx := -1
			for i, p := range fn.Params {
				if p == v {
					idx = i
				}
			}
			n := s.P.CallGraph().Nodes[fn]
			found := false
			if n != nil && idx >= 0 {
				for _, e := range n.In {
					if e.Site == nil || !load.FuncInRepo(e.Caller.Func) {
						continue
					}
					cc := e.Site.Common()
					var arg ssa.Value
					if cc.IsInvoke() {
						if idx == 0 {
							arg = cc.Value
						} else if idx-1 < len(cc.Args) {
							arg = cc.Args[idx-1]
						}
					} else if _, isClosureCall := cc.Value.(*ssa.MakeClosure); isClosureCall || cc.StaticCallee() == nil {
						if idx < len(cc.Args) {
							arg = cc.Args[idx]
						}
					} else if idx < len(cc.Args) {
						arg = cc.Args[idx]
					}
					if arg != nil {
						found = true
						s.walk(arg, nil, depth, lift-1, seen, visit, term)
					}
				}
			}
			if !found {
				t()
			}
			return
		}
		t()
	case *ssa.FreeVar:
		// bindings at MakeClosure sites
		fn := v.Parent()
		idx := -1
		for i, fv := range fn.FreeVars {
			if fv == v {
				idx = i
			}
		}
		found := false
		if p := fn.Parent(); p != nil && idx >= 0 {
			for _, b := range p.Blocks {
				for _, in := range b.Instrs {
					if mc, ok := in.(*ssa.MakeClosure); ok && mc.Fn == fn && idx < len(mc.Bindings) {
						found = true
						s.walk(mc.Bindings[idx], nil, depth, lift, seen, visit, term)
					}
				}
			}
		}
		if !found {
			t()
		}
	case *ssa.Phi:
		for _, e := range v.Edges {
			rec(e)
		}
	case *ssa.Extract:
		// tuple from a call: descend into the call for this result index
		if call, ok := v.Tuple.(*ssa.Call); ok {
			if visit != nil && !visit(call) {
				return
			}
			s.walkCall(call, v.Index, fr, depth, lift, seen, visit, term)
			return
		}
		rec(v.Tuple)
	case *ssa.Call:
		s.walkCall(v, 0, fr, depth, lift, seen, visit, term)
	case *ssa.UnOp:
		if v.Op == token.MUL {
			s.walkLoad(v.X, fr, depth, lift, seen, visit, term)
			return
		}
		rec(v.X)
	case *ssa.BinOp:
		rec(v.X)
		rec(v.Y)
	case *ssa.ChangeType:
		rec(v.X)
	case *ssa.Convert:
		rec(v.X)
	case *ssa.ChangeInterface:
		rec(v.X)
	case *ssa.MakeInterface:
		rec(v.X)
	case *ssa.SliceToArrayPointer:
		rec(v.X)
	case *ssa.Slice:
		rec(v.X)
	case *ssa.Field:
		rec(v.X)
	case *ssa.FieldAddr:
		rec(v.X)
	case *ssa.IndexAddr:
		rec(v.X)
	case *ssa.Index:
		rec(v.X)
	case *ssa.Lookup:
		rec(v.X)
		rec(v.Index)
	case *ssa.TypeAssert:
		rec(v.X)
	case *ssa.Range:
		rec(v.X)
	case *ssa.Next:
		rec(v.Iter)
	case *ssa.Alloc:
		// values stored into this cell (and into its fields/elements)
		s.walkAllocStores(v, fr, depth, lift, seen, visit, term)
	case *ssa.MakeClosure:
		t()
	case *ssa.MakeSlice, *ssa.MakeMap, *ssa.MakeChan:
		// contents: stores / map updates into it in this function
		if refs := v.Referrers(); refs != nil {
			for _, r := range *refs {
				if mu, ok := r.(*ssa.MapUpdate); ok && mu.Map == v {
					rec(mu.Value)
				}
				// elements assigned by index (s := make([]T, n); s[i] = x)
				if ia, ok := r.(*ssa.IndexAddr); ok && ia.X == v && ia.Referrers() != nil {
					for _, r2 := range *ia.Referrers() {
						if st, ok := r2.(*ssa.Store); ok && st.Addr == ssa.Value(ia) {
							rec(st.Val)
						}
					}
				}
			}
		}
		t()
	default:
		t()
	}
}

func (s *Slicer) walkAllocStores(a *ssa.Alloc, fr *frame, depth, lift int, seen map[ssa.Value]int, visit func(ssa.Value) bool, term func(ssa.Value)) {
	any := false
	var scan func(addr ssa.Value, d int)
	scan = func(addr ssa.Value, d int) {
		if d > 3 {
			return
		}
		refs := addr.Referrers()
		if refs == nil {
			return
		}
		for _, r := range *refs {
			switch r := r.(type) {
			case *ssa.Store:
				if r.Addr == addr {
					any = true
					s.walk(r.Val, fr, depth, lift, seen, visit, term)
				} else if r.Val == addr {
					// the cell's address is kept in memory: stores through pointers of this type read back from
					// memory in the same function may define it
					s.index()
					if pt, ok := addr.Type().Underlying().(*types.Pointer); ok {
						for _, val := range s.derefStores[a.Parent()][types.TypeString(pt.Elem(), nil)] {
							any = true
							s.walk(val, fr, depth, lift, seen, visit, term)
						}
					}
				}
			case *ssa.FieldAddr:
				scan(r, d+1)
			case *ssa.IndexAddr:
				scan(r, d+1)
			case *ssa.Call:
				// the object is handed by address to a call that may fill or
				// update it: its content then depends on the call's other operands
				if s.ThroughOutParams && d == 0 {
					for _, a := range r.Call.Args {
						if a != addr {
							any = true
							s.walk(a, fr, depth, lift, seen, visit, term)
						}
					}
					if visit != nil {
						visit(r)
					}
				}
			}
		}
	}
	scan(a, 0)
	if !any && term != nil {
		term(a)
	}
}

// walkLoad handles *addr.
func (s *Slicer) walkLoad(addr ssa.Value, fr *frame, depth, lift int, seen map[ssa.Value]int, visit func(ssa.Value) bool, term func(ssa.Value)) {
	switch a := addr.(type) {
	case *ssa.FieldAddr:
		if visit != nil && !visit(a) {
			return
		}
		// base object first (so that "derives from object X" holds for its fields)
		s.walk(a.X, fr, depth, lift, seen, visit, term)
		s.index()
		for _, val := range s.fieldStores[StructFieldKey(a.X.Type(), a.Field)] {
			// stores are context-free
			s.walk(val, nil, depth, 0, seen, visit, term)
		}
	case *ssa.Global:
		if visit != nil && !visit(a) {
			return
		}
		s.index()
		for _, val := range s.globalStore[a] {
			s.walk(val, nil, depth, 0, seen, visit, term)
		}
		if term != nil {
			term(a)
		}
	case *ssa.Alloc:
		if visit != nil && !visit(a) {
			return
		}
		s.walkAllocStores(a, fr, depth, lift, seen, visit, term)
	case *ssa.IndexAddr:
		s.walk(a.X, fr, depth, lift, seen, visit, term)
	default:
		s.walk(addr, fr, depth, lift, seen, visit, term)
	}
}

func (s *Slicer) walkCall(call *ssa.Call, resIdx int, fr *frame, depth, lift int, seen map[ssa.Value]int, visit func(ssa.Value) bool, term func(ssa.Value)) {
	if call.Call.IsInvoke() {
		// method on interface: the call is a terminal origin; for dependence
		// queries the result also depends on receiver and arguments.
		if term != nil {
			term(call)
		}
		if !s.OpaqueInvokes {
			s.walk(call.Call.Value, fr, depth, lift, seen, visit, term)
			for _, a := range call.Call.Args {
				s.walk(a, fr, depth, lift, seen, visit, term)
			}
		}
		return
	}
	if b, ok := call.Call.Value.(*ssa.Builtin); ok {
		switch b.Name() {
		case "append", "min", "max":
			for _, a := range call.Call.Args {
				s.walk(a, fr, depth, lift, seen, visit, term)
			}
		case "len", "cap":
			for _, a := range call.Call.Args {
				s.walk(a, fr, depth, lift, seen, visit, term)
			}
		default:
			if term != nil {
				term(call)
			}
		}
		return
	}
	callees := s.P.Callees(call)
	descended := false
	for _, f := range callees {
		if f.Blocks != nil && (load.FuncInRepo(f) || IsProtoGetter(f)) && depth < s.MaxDepth {
			descended = true
			nfr := &frame{call: call, parent: fr}
			for _, b := range f.Blocks {
				for _, in := range b.Instrs {
					if ret, ok := in.(*ssa.Return); ok && resIdx < len(ret.Results) {
						s.walk(ret.Results[resIdx], nfr, depth+1, lift, seen, visit, term)
					}
				}
			}
		} else if s.transparent(f) {
			descended = true
			if f.Signature.Recv() != nil || len(call.Call.Args) > 0 {
				for _, a := range call.Call.Args {
					// variadic slices: follow the backing array stores
					s.walk(a, fr, depth, lift, seen, visit, term)
				}
			}
		}
	}
	if !descended && term != nil {
		term(call)
	}
}

// IsProtoGetter reports whether f looks like a generated protobuf getter
// (method Get* on a pointer to a struct type in a *.pb.go-generated package)
// — recognised structurally: value receiver is a pointer to named struct that
// has a ProtoReflect method, name starts with Get, no parameters.
func IsProtoGetter(f *ssa.Function) bool {
	if f == nil || f.Signature.Recv() == nil || f.Signature.Params().Len() != 0 {
		return false
	}
	n := f.Name()
	if len(n) < 4 || n[:3] != "Get" {
		return false
	}
	ms := types.NewMethodSet(f.Signature.Recv().Type())
	return ms.Lookup(nil, "ProtoReflect") != nil
}

// Derives reports whether any node of v's backward slice satisfies pred.
func (s *Slicer) Derives(v ssa.Value, pred func(ssa.Value) bool) bool {
	found := false
	s.Visit(v, func(x ssa.Value) bool {
		if found {
			return false
		}
		if pred(x) {
			found = true
			return false
		}
		return true
	}, nil)
	return found
}

// Origins returns the terminal values of v's backward slice, sorted by position.
func (s *Slicer) Origins(v ssa.Value) []ssa.Value {
	set := map[ssa.Value]bool{}
	s.Visit(v, nil, func(x ssa.Value) { set[x] = true })
	var out []ssa.Value
	for x := range set {
		out = append(out, x)
	}
	sort.Slice(out, func(i, j int) bool {
		if out[i].Pos() != out[j].Pos() {
			return out[i].Pos() < out[j].Pos()
		}
		return out[i].String() < out[j].String()
	})
	return out
}

// IsFieldLoad reports whether v is a load (or address) of field `name` of the
// named struct pkgpath.typ; for proto messages the getter call Get<name> on
// that type counts as well.
func IsFieldLoad(v ssa.Value, pkgpath, typ, name string) bool {
	switch v := v.(type) {
	case *ssa.UnOp:
		if v.Op == token.MUL {
			if fa, ok := v.X.(*ssa.FieldAddr); ok {
				return fieldIs(fa.X.Type(), fa.Field, pkgpath, typ, name)
			}
		}
	case *ssa.FieldAddr:
		return fieldIs(v.X.Type(), v.Field, pkgpath, typ, name)
	case *ssa.Field:
		return fieldIs(v.X.Type(), v.Field, pkgpath, typ, name)
	case *ssa.Call:
		if f := v.Call.StaticCallee(); f != nil && f.Name() == "Get"+name && f.Signature.Recv() != nil {
			return namedIs(f.Signature.Recv().Type(), pkgpath, typ)
		}
	}
	return false
}

func namedIs(t types.Type, pkgpath, name string) bool {
	for {
		if p, ok := t.(*types.Pointer); ok {
			t = p.Elem()
			continue
		}
		break
	}
	n, ok := t.(*types.Named)
	if !ok {
		return false
	}
	o := n.Obj()
	return o.Name() == name && o.Pkg() != nil && o.Pkg().Path() == pkgpath
}

func fieldIs(t types.Type, idx int, pkgpath, typ, name string) bool {
	if !namedIs(t, pkgpath, typ) {
		return false
	}
	for {
		if p, ok := t.(*types.Pointer); ok {
			t = p.Elem()
			continue
		}
		break
	}
	st, ok := t.Underlying().(*types.Struct)
	if !ok || idx >= st.NumFields() {
		return false
	}
	return st.Field(idx).Name() == name
}

// FieldName returns the name of the field addressed by fa.
func FieldName(fa *ssa.FieldAddr) string {
	t := fa.X.Type()
	for {
		if p, ok := t.(*types.Pointer); ok {
			t = p.Elem()
			continue
		}
		break
	}
	if st, ok := t.Underlying().(*types.Struct); ok && fa.Field < st.NumFields() {
		return st.Field(fa.Field).Name()
	}
	return "?"
}
