// Package layout extracts constant-offset byte layouts from the typed AST:
// for every function and every []byte parameter / local byte array it collects
// the constant ranges written and read, with the width of the primitive used.
package layout

import (
	"fmt"
	"go/ast"
	"go/constant"
	"go/token"
	"go/types"
	"sort"
	"strings"

	"golang.org/x/tools/go/packages"
)

// Range is one constant-offset access.
type Range struct {
	Lo, Hi int64
	Width  int64  // bytes moved by the primitive (0 = as wide as the range)
	Field  string // struct field (or expression) stored / loaded
	How    string // primitive: PutUint32, copy, index, fill, delegate f, helper f
	Pos    token.Pos
}

// Table is the layout of one base object in one function, one direction.
type Table struct {
	Fn      *types.Func
	Decl    *ast.FuncDecl
	Pkg     *packages.Package
	Base    types.Object // the []byte parameter or [N]byte local
	Write   bool
	Ranges  []Range
	Guard   int64 // K of the dominating `len(base) < K` / `!= K` guard, -1 if none
	GuardEq bool  // guard is != K (exact length)
	ArrLen  int64 // length of a local array base, -1 otherwise
}

// Size returns the size the table is expected to tile: array length or guard.
func (t *Table) Size() int64 {
	if t.ArrLen >= 0 {
		return t.ArrLen
	}
	return t.Guard
}

func (t *Table) Name() string {
	dir := "read"
	if t.Write {
		dir = "write"
	}
	return fmt.Sprintf("%s:%s(%s)", FuncName(t.Fn), t.Base.Name(), dir)
}

// FuncName renders pkg.Recv.Name.
func FuncName(f *types.Func) string {
	s := f.FullName()
	s = strings.ReplaceAll(s, "github.com/google/gce-tcb-verifier/", "")
	return s
}

// Extractor holds memoised tables.
type Extractor struct {
	Pkgs   map[string]*packages.Package // by PkgPath
	decls  map[*types.Func]*declInfo
	tables map[*types.Func][]*Table
	active map[*types.Func]bool
}

type declInfo struct {
	decl *ast.FuncDecl
	pkg  *packages.Package
}

// New indexes the function declarations of the given packages.
func New(pkgs []*packages.Package) *Extractor {
	e := &Extractor{Pkgs: map[string]*packages.Package{}, decls: map[*types.Func]*declInfo{}, tables: map[*types.Func][]*Table{}, active: map[*types.Func]bool{}}
	for _, p := range pkgs {
		e.Pkgs[p.PkgPath] = p
		for _, f := range p.Syntax {
			for _, d := range f.Decls {
				fd, ok := d.(*ast.FuncDecl)
				if !ok || fd.Body == nil {
					continue
				}
				if obj, ok := p.TypesInfo.Defs[fd.Name].(*types.Func); ok {
					e.decls[obj] = &declInfo{fd, p}
				}
			}
		}
	}
	return e
}

// Funcs returns the indexed functions of a package, sorted by position.
func (e *Extractor) Funcs(pkgPath string) []*types.Func {
	var out []*types.Func
	for f, d := range e.decls {
		if d.pkg.PkgPath == pkgPath {
			out = append(out, f)
		}
	}
	sort.Slice(out, func(i, j int) bool { return out[i].Pos() < out[j].Pos() })
	return out
}

func isByteSlice(t types.Type) bool {
	s, ok := t.Underlying().(*types.Slice)
	if !ok {
		return false
	}
	b, ok := s.Elem().Underlying().(*types.Basic)
	return ok && (b.Kind() == types.Uint8 || b.Kind() == types.Byte)
}

func byteArrayLen(t types.Type) int64 {
	a, ok := t.Underlying().(*types.Array)
	if !ok {
		return -1
	}
	b, ok := a.Elem().Underlying().(*types.Basic)
	if !ok || (b.Kind() != types.Uint8 && b.Kind() != types.Byte) {
		return -1
	}
	return a.Len()
}

func constInt(info *types.Info, e ast.Expr) (int64, bool) {
	if e == nil {
		return 0, false
	}
	tv, ok := info.Types[e]
	if !ok || tv.Value == nil {
		return 0, false
	}
	v := constant.ToInt(tv.Value)
	if v.Kind() != constant.Int {
		return 0, false
	}
	n, exact := constant.Int64Val(v)
	return n, exact
}

// Tables returns the layout tables of f (one per base object and direction).
func (e *Extractor) Tables(f *types.Func) []*Table {
	if t, ok := e.tables[f]; ok {
		return t
	}
	d := e.decls[f]
	if d == nil || e.active[f] {
		return nil
	}
	e.active[f] = true
	defer delete(e.active, f)
	info := d.pkg.TypesInfo
	saved := curInfo
	curInfo = info
	defer func() { curInfo = saved }()
	// base objects
	bases := map[types.Object]*[2]*Table{}
	addBase := func(obj types.Object, arrLen int64) {
		if obj == nil {
			return
		}
		bases[obj] = &[2]*Table{
			{Fn: f, Decl: d.decl, Pkg: d.pkg, Base: obj, Write: false, Guard: -1, ArrLen: arrLen},
			{Fn: f, Decl: d.decl, Pkg: d.pkg, Base: obj, Write: true, Guard: -1, ArrLen: arrLen},
		}
	}
	if d.decl.Type.Params != nil {
		for _, fld := range d.decl.Type.Params.List {
			for _, n := range fld.Names {
				obj := info.Defs[n]
				if obj != nil && isByteSlice(obj.Type()) {
					addBase(obj, -1)
				}
			}
		}
	}
	ast.Inspect(d.decl.Body, func(n ast.Node) bool {
		switch x := n.(type) {
		case *ast.ValueSpec:
			for _, nm := range x.Names {
				if obj := info.Defs[nm]; obj != nil {
					if l := byteArrayLen(obj.Type()); l >= 0 {
						addBase(obj, l)
					}
				}
			}
		case *ast.AssignStmt:
			if x.Tok == token.DEFINE {
				for _, lhs := range x.Lhs {
					if id, ok := lhs.(*ast.Ident); ok {
						if obj := info.Defs[id]; obj != nil {
							if l := byteArrayLen(obj.Type()); l >= 0 {
								addBase(obj, l)
							}
						}
					}
				}
			}
		}
		return true
	})
	baseOf := func(x ast.Expr) types.Object {
		if id, ok := ast.Unparen(x).(*ast.Ident); ok {
			if obj := info.Uses[id]; obj != nil && bases[obj] != nil {
				return obj
			}
		}
		return nil
	}
	// env: values of loop variables of constant-trip loops being unrolled; defs: single `x := expr` definitions
	// of int locals (never reassigned), so that `lo := i * K; data[lo:lo+K]` evaluates under env.
	env := map[types.Object]int64{}
	defs := singleDefs(info, d.decl.Body)
	var evalInt func(x ast.Expr, depth int) (int64, bool)
	evalInt = func(x ast.Expr, depth int) (int64, bool) {
		if x == nil || depth > 8 {
			return 0, false
		}
		if v, ok := constInt(info, x); ok {
			return v, true
		}
		switch y := ast.Unparen(x).(type) {
		case *ast.Ident:
			obj := info.Uses[y]
			if v, ok := env[obj]; ok {
				return v, true
			}
			if len(env) > 0 {
				if rhs, ok := defs[obj]; ok {
					return evalInt(rhs, depth+1)
				}
			}
		case *ast.BinaryExpr:
			a, ok1 := evalInt(y.X, depth+1)
			b, ok2 := evalInt(y.Y, depth+1)
			if ok1 && ok2 {
				switch y.Op {
				case token.ADD:
					return a + b, true
				case token.SUB:
					return a - b, true
				case token.MUL:
					return a * b, true
				}
			}
		case *ast.CallExpr:
			// integer conversion int(x), uint32(x)
			if len(y.Args) == 1 {
				if tv, ok := info.Types[y.Fun]; ok && tv.IsType() {
					return evalInt(y.Args[0], depth+1)
				}
			}
		}
		return 0, false
	}
	// sliceRange: base[lo:hi] with constant bounds
	sliceRange := func(x ast.Expr) (types.Object, int64, int64, bool) {
		se, ok := ast.Unparen(x).(*ast.SliceExpr)
		if !ok {
			return nil, 0, 0, false
		}
		b := baseOf(se.X)
		if b == nil {
			return nil, 0, 0, false
		}
		var lo int64
		if se.Low != nil {
			v, ok := evalInt(se.Low, 0)
			if !ok {
				return nil, 0, 0, false
			}
			lo = v
		}
		if se.High == nil {
			if bases[b][0].ArrLen >= 0 {
				return b, lo, bases[b][0].ArrLen, true
			}
			return nil, 0, 0, false
		}
		hi, ok := evalInt(se.High, 0)
		if !ok {
			return nil, 0, 0, false
		}
		return b, lo, hi, true
	}
	add := func(b types.Object, write bool, r Range) {
		i := 0
		if write {
			i = 1
		}
		bases[b][i].Ranges = append(bases[b][i].Ranges, r)
	}
	fieldOf := func(x ast.Expr) string { return fieldExpr(x) }

	var visitStmt func(n ast.Node) bool
	visitStmt = func(n ast.Node) bool {
		switch x := n.(type) {
		case *ast.IfStmt:
			// len guards
			if b, k, eq, ok := lenGuard(info, x.Cond, baseOf, defs); ok {
				for i := 0; i < 2; i++ {
					if bases[b][i].Guard < 0 || k > bases[b][i].Guard {
						bases[b][i].Guard = k
						bases[b][i].GuardEq = eq
					}
				}
			}
		case *ast.SwitchStmt:
			// the if-chain written as a tagless switch: every case condition is a guard like an if condition
			if x.Tag == nil {
				for _, cl := range x.Body.List {
					cc, ok := cl.(*ast.CaseClause)
					if !ok {
						continue
					}
					for _, cond := range cc.List {
						if b, k, eq, ok := lenGuard(info, cond, baseOf, defs); ok {
							for i := 0; i < 2; i++ {
								if bases[b][i].Guard < 0 || k > bases[b][i].Guard {
									bases[b][i].Guard = k
									bases[b][i].GuardEq = eq
								}
							}
						}
					}
				}
			}
		case *ast.ForStmt:
			// constant fill loop: for i := C1; i < C2; i++ { base[i] = v }
			if b, lo, hi, ok := fillLoop(info, x, baseOf); ok {
				add(b, true, Range{Lo: lo, Hi: hi, Field: "fill", How: "fill loop", Pos: x.Pos()})
				return false
			}
			if iv, lo, hi, ok := constTripFor(info, x); ok && usesVarInSlice(info, x.Body, iv, defs) {
				for j := lo; j < hi; j++ {
					env[iv] = j
					ast.Inspect(x.Body, visitStmt)
				}
				delete(env, iv)
				return false
			}
		case *ast.RangeStmt:
			if iv, n, ok := constTripRange(info, x); ok && usesVarInSlice(info, x.Body, iv, defs) {
				for j := int64(0); j < n; j++ {
					env[iv] = j
					ast.Inspect(x.Body, visitStmt)
				}
				delete(env, iv)
				return false
			}
		case *ast.AssignStmt:
			// x := base[lo:hi] (a constant sub-slice given a name before it is used): a read of that range
			for _, rhs := range x.Rhs {
				if b, lo, hi, ok := sliceRange(rhs); ok {
					add(b, false, Range{Lo: lo, Hi: hi, Field: "", How: "named sub-slice", Pos: rhs.Pos()})
				}
			}
			for i, lhs := range x.Lhs {
				if ie, ok := ast.Unparen(lhs).(*ast.IndexExpr); ok {
					if b := baseOf(ie.X); b != nil {
						if k, ok := evalInt(ie.Index, 0); ok {
							f := ""
							if i < len(x.Rhs) {
								f = fieldOf(x.Rhs[i])
							}
							add(b, true, Range{Lo: k, Hi: k + 1, Width: 1, Field: f, How: "index", Pos: ie.Pos()})
						}
					}
				}
			}
		case *ast.CallExpr:
			e.visitCall(info, x, bases, baseOf, sliceRange, add)
		case *ast.KeyValueExpr:
			// Field: binary...UintN(base[lo:hi])  — reader literal
			if call, ok := ast.Unparen(stripConv(x.Value)).(*ast.CallExpr); ok {
				if w, okp := getPrim(info, call); okp && len(call.Args) == 1 {
					if b, lo, hi, ok := sliceRange(call.Args[0]); ok {
						if id, ok := x.Key.(*ast.Ident); ok {
							add(b, false, Range{Lo: lo, Hi: hi, Width: w, Field: id.Name, How: "Uint" + fmt.Sprint(w*8), Pos: call.Pos()})
							return false
						}
					}
				}
			}
		}
		return true
	}
	ast.Inspect(d.decl.Body, visitStmt)
	// reader assignments: x.F = prim(base[lo:hi]) / x.F, err = f(base[lo:hi])
	ast.Inspect(d.decl.Body, func(n ast.Node) bool {
		as, ok := n.(*ast.AssignStmt)
		if !ok {
			return true
		}
		for i, rhs := range as.Rhs {
			call, ok := ast.Unparen(stripConv(rhs)).(*ast.CallExpr)
			if !ok || i >= len(as.Lhs) {
				continue
			}
			fname := fieldExpr(as.Lhs[i])
			for _, a := range call.Args {
				if b, lo, hi, ok := sliceRange(a); ok {
					// rename the matching read range recorded without a field
					for k := range bases[b][0].Ranges {
						r := &bases[b][0].Ranges[k]
						if r.Lo == lo && r.Hi == hi && (r.Field == "" || r.Field == "delegate" || strings.HasPrefix(r.Field, "?")) {
							r.Field = fname
						}
					}
				}
			}
		}
		return true
	})
	var out []*Table
	for _, pair := range bases {
		for _, t := range pair {
			if len(t.Ranges) > 0 {
				t.Ranges = dedupeRanges(t.Ranges)
				sort.Slice(t.Ranges, func(i, j int) bool {
					if t.Ranges[i].Lo != t.Ranges[j].Lo {
						return t.Ranges[i].Lo < t.Ranges[j].Lo
					}
					return t.Ranges[i].Hi < t.Ranges[j].Hi
				})
				out = append(out, t)
			}
		}
	}
	sort.Slice(out, func(i, j int) bool { return out[i].Name() < out[j].Name() })
	e.tables[f] = out
	return out
}

// dedupeRanges drops ranges recorded more than once for one source position with the same bounds (the
// loop-independent accesses of an unrolled constant-trip loop are visited once per iteration).
func dedupeRanges(rs []Range) []Range {
	type key struct {
		lo, hi int64
		pos    token.Pos
		how    string
	}
	seen := map[key]bool{}
	var out []Range
	for _, r := range rs {
		k := key{r.Lo, r.Hi, r.Pos, r.How}
		if seen[k] {
			continue
		}
		seen[k] = true
		out = append(out, r)
	}
	return out
}

// singleDefs maps every local defined exactly once by `x := expr` (single-valued) and never assigned again
// to its defining expression.
func singleDefs(info *types.Info, body *ast.BlockStmt) map[types.Object]ast.Expr {
	defs := map[types.Object]ast.Expr{}
	bad := map[types.Object]bool{}
	ast.Inspect(body, func(n ast.Node) bool {
		switch x := n.(type) {
		case *ast.AssignStmt:
			for i, lhs := range x.Lhs {
				id, ok := lhs.(*ast.Ident)
				if !ok {
					continue
				}
				if x.Tok == token.DEFINE {
					if obj := info.Defs[id]; obj != nil {
						if len(x.Lhs) == len(x.Rhs) {
							if _, dup := defs[obj]; dup {
								bad[obj] = true
							}
							defs[obj] = x.Rhs[i]
						} else {
							bad[obj] = true
						}
						continue
					}
				}
				if obj := info.Uses[id]; obj != nil {
					bad[obj] = true
				}
			}
		case *ast.IncDecStmt:
			if id, ok := x.X.(*ast.Ident); ok {
				if obj := info.Uses[id]; obj != nil {
					bad[obj] = true
				}
			}
		case *ast.UnaryExpr:
			if x.Op == token.AND {
				if id, ok := ast.Unparen(x.X).(*ast.Ident); ok {
					if obj := info.Uses[id]; obj != nil {
						if b, ok := obj.Type().Underlying().(*types.Basic); ok && b.Info()&types.IsInteger != 0 {
							bad[obj] = true
						}
					}
				}
			}
		}
		return true
	})
	for o := range bad {
		delete(defs, o)
	}
	return defs
}

const maxUnroll = 256

// constTripFor recognises `for i := C1; i < C2; i++ {…}` whose body never assigns i.
func constTripFor(info *types.Info, fs *ast.ForStmt) (types.Object, int64, int64, bool) {
	init, ok := fs.Init.(*ast.AssignStmt)
	if !ok || init.Tok != token.DEFINE || len(init.Lhs) != 1 || len(init.Rhs) != 1 {
		return nil, 0, 0, false
	}
	iv, ok := init.Lhs[0].(*ast.Ident)
	if !ok {
		return nil, 0, 0, false
	}
	obj := info.Defs[iv]
	lo, ok := constInt(info, init.Rhs[0])
	if !ok || obj == nil {
		return nil, 0, 0, false
	}
	cond, ok := fs.Cond.(*ast.BinaryExpr)
	if !ok || cond.Op != token.LSS {
		return nil, 0, 0, false
	}
	if id, ok := cond.X.(*ast.Ident); !ok || info.Uses[id] != obj {
		return nil, 0, 0, false
	}
	hi, ok := constInt(info, cond.Y)
	if !ok || hi-lo > maxUnroll || hi <= lo {
		return nil, 0, 0, false
	}
	if inc, ok := fs.Post.(*ast.IncDecStmt); !ok || inc.Tok != token.INC {
		return nil, 0, 0, false
	} else if id, ok := inc.X.(*ast.Ident); !ok || info.Uses[id] != obj {
		return nil, 0, 0, false
	}
	if assignsVar(info, fs.Body, obj) || hasLoopExit(fs.Body) {
		return nil, 0, 0, false
	}
	return obj, lo, hi, true
}

// constTripRange recognises `for i := range X` where X is an array, pointer to array or constant integer.
func constTripRange(info *types.Info, rs *ast.RangeStmt) (types.Object, int64, bool) {
	if rs.Tok != token.DEFINE || rs.Key == nil {
		return nil, 0, false
	}
	iv, ok := rs.Key.(*ast.Ident)
	if !ok || iv.Name == "_" {
		return nil, 0, false
	}
	obj := info.Defs[iv]
	if obj == nil {
		return nil, 0, false
	}
	var n int64 = -1
	if k, ok := constInt(info, rs.X); ok {
		n = k
	} else if tv, ok := info.Types[rs.X]; ok {
		t := tv.Type.Underlying()
		if p, ok := t.(*types.Pointer); ok {
			t = p.Elem().Underlying()
		}
		if a, ok := t.(*types.Array); ok {
			n = a.Len()
		}
	}
	if n <= 0 || n > maxUnroll || assignsVar(info, rs.Body, obj) || hasLoopExit(rs.Body) {
		return nil, 0, false
	}
	return obj, n, true
}

func assignsVar(info *types.Info, body *ast.BlockStmt, obj types.Object) bool {
	found := false
	ast.Inspect(body, func(n ast.Node) bool {
		switch x := n.(type) {
		case *ast.AssignStmt:
			for _, lhs := range x.Lhs {
				if id, ok := lhs.(*ast.Ident); ok && info.Uses[id] == obj {
					found = true
				}
			}
		case *ast.IncDecStmt:
			if id, ok := x.X.(*ast.Ident); ok && info.Uses[id] == obj {
				found = true
			}
		}
		return !found
	})
	return found
}

// hasLoopExit: a break or continue that may skip part of an iteration (a return on an error path is fine:
// the table describes the successful encoding).
func hasLoopExit(body *ast.BlockStmt) bool {
	found := false
	ast.Inspect(body, func(n ast.Node) bool {
		switch x := n.(type) {
		case *ast.BranchStmt:
			if x.Tok == token.BREAK || x.Tok == token.CONTINUE || x.Tok == token.GOTO {
				found = true
			}
		case *ast.FuncLit:
			return false
		}
		return !found
	})
	return found
}

// usesVarInSlice: some slice bound or index in body mentions iv, directly or through single definitions.
func usesVarInSlice(info *types.Info, body *ast.BlockStmt, iv types.Object, defs map[types.Object]ast.Expr) bool {
	var mentions func(x ast.Expr, depth int) bool
	mentions = func(x ast.Expr, depth int) bool {
		if x == nil || depth > 8 {
			return false
		}
		hit := false
		ast.Inspect(x, func(n ast.Node) bool {
			if id, ok := n.(*ast.Ident); ok {
				obj := info.Uses[id]
				if obj == iv {
					hit = true
				} else if rhs, ok := defs[obj]; ok && mentions(rhs, depth+1) {
					hit = true
				}
			}
			return !hit
		})
		return hit
	}
	found := false
	ast.Inspect(body, func(n ast.Node) bool {
		switch x := n.(type) {
		case *ast.SliceExpr:
			if mentions(x.Low, 0) || mentions(x.High, 0) {
				found = true
			}
		case *ast.IndexExpr:
			if isByteSliceOrArray(info, x.X) && mentions(x.Index, 0) {
				found = true
			}
		}
		return !found
	})
	return found
}

func isByteSliceOrArray(info *types.Info, x ast.Expr) bool {
	tv, ok := info.Types[x]
	if !ok {
		return false
	}
	return isByteSlice(tv.Type) || byteArrayLen(tv.Type) >= 0
}

// curInfo is the types.Info of the function being extracted (single-threaded use).
var curInfo *types.Info

func stripConv(x ast.Expr) ast.Expr {
	for {
		x = ast.Unparen(x)
		call, ok := x.(*ast.CallExpr)
		if !ok || len(call.Args) != 1 {
			return x
		}
		// type conversion T(expr)
		if curInfo != nil {
			if tv, ok := curInfo.Types[call.Fun]; ok && tv.IsType() {
				x = call.Args[0]
				continue
			}
		}
		if id, ok := call.Fun.(*ast.Ident); ok && isBuiltinTypeName(id.Name) {
			x = call.Args[0]
			continue
		}
		return x
	}
}

func isBuiltinTypeName(n string) bool {
	switch n {
	case "uint8", "uint16", "uint32", "uint64", "int", "int8", "int16", "int32", "int64", "uint", "byte":
		return true
	}
	return false
}

// getPrim recognises binary.{Little,Big}Endian.UintN; returns width in bytes.
func getPrim(info *types.Info, call *ast.CallExpr) (int64, bool) {
	sel, ok := call.Fun.(*ast.SelectorExpr)
	if !ok {
		return 0, false
	}
	obj, ok := info.Uses[sel.Sel].(*types.Func)
	if !ok || obj.Pkg() == nil || obj.Pkg().Path() != "encoding/binary" {
		return 0, false
	}
	switch obj.Name() {
	case "Uint16":
		return 2, true
	case "Uint32":
		return 4, true
	case "Uint64":
		return 8, true
	}
	return 0, false
}

func putPrim(info *types.Info, call *ast.CallExpr) (int64, bool) {
	sel, ok := call.Fun.(*ast.SelectorExpr)
	if !ok {
		return 0, false
	}
	obj, ok := info.Uses[sel.Sel].(*types.Func)
	if !ok || obj.Pkg() == nil || obj.Pkg().Path() != "encoding/binary" {
		return 0, false
	}
	switch obj.Name() {
	case "PutUint16":
		return 2, true
	case "PutUint32":
		return 4, true
	case "PutUint64":
		return 8, true
	}
	return 0, false
}

// fieldExpr names the struct field an expression refers to (last selector),
// looking through conversions and getter calls.
func fieldExpr(x ast.Expr) string {
	x = stripConv(x)
	switch v := x.(type) {
	case *ast.SelectorExpr:
		return v.Sel.Name
	case *ast.CallExpr:
		if sel, ok := v.Fun.(*ast.SelectorExpr); ok {
			n := sel.Sel.Name
			if strings.HasPrefix(n, "Get") && len(v.Args) == 0 {
				return strings.TrimPrefix(n, "Get")
			}
			if len(v.Args) >= 1 {
				return fieldExpr(v.Args[0])
			}
			return n
		}
		if len(v.Args) >= 1 {
			return fieldExpr(v.Args[0])
		}
	case *ast.SliceExpr:
		return fieldExpr(v.X)
	case *ast.IndexExpr:
		return fieldExpr(v.X)
	case *ast.Ident:
		return "?" + v.Name
	case *ast.BasicLit:
		return "const " + v.Value
	case *ast.UnaryExpr:
		return fieldExpr(v.X)
	case *ast.BinaryExpr:
		return fieldExpr(v.X)
	}
	return "?"
}

// lenGuard recognises `len(b) < K`, `len(b) != K`, `len(b) <= K` (K+1); the left side may also be len(b) − C or
// len(b) + C, or a local defined once as one of these (the constant moves to the other side).
func lenGuard(info *types.Info, cond ast.Expr, baseOf func(ast.Expr) types.Object, defs map[types.Object]ast.Expr) (types.Object, int64, bool, bool) {
	be, ok := ast.Unparen(cond).(*ast.BinaryExpr)
	if !ok {
		return nil, 0, false, false
	}
	var lenOf func(x ast.Expr, depth int) (types.Object, int64, bool)
	lenOf = func(x ast.Expr, depth int) (types.Object, int64, bool) {
		x = ast.Unparen(x)
		switch v := x.(type) {
		case *ast.CallExpr:
			if len(v.Args) != 1 {
				return nil, 0, false
			}
			if id, ok := v.Fun.(*ast.Ident); !ok || id.Name != "len" || info.Uses[id] != types.Universe.Lookup("len") {
				return nil, 0, false
			}
			if b := baseOf(v.Args[0]); b != nil {
				return b, 0, true
			}
		case *ast.BinaryExpr:
			if v.Op != token.SUB && v.Op != token.ADD {
				return nil, 0, false
			}
			b, off, ok := lenOf(v.X, depth)
			c, okc := constInt(info, v.Y)
			if !ok || !okc {
				return nil, 0, false
			}
			if v.Op == token.SUB {
				c = -c
			}
			return b, off + c, true
		case *ast.Ident:
			if depth > 2 || defs == nil {
				return nil, 0, false
			}
			if obj := info.Uses[v]; obj != nil {
				if rhs, ok := defs[obj]; ok {
					return lenOf(rhs, depth+1)
				}
			}
		}
		return nil, 0, false
	}
	b, off, ok := lenOf(be.X, 0)
	if !ok {
		return nil, 0, false, false
	}
	k, ok := constInt(info, be.Y)
	if !ok {
		return nil, 0, false, false
	}
	k -= off // len(b)+off OP k  ⇔  len(b) OP k−off
	switch be.Op {
	case token.LSS:
		return b, k, false, true
	case token.NEQ:
		return b, k, true, true
	case token.LEQ:
		return b, k + 1, false, true
	}
	return nil, 0, false, false
}

// fillLoop recognises for i := C1; i < C2; i++ { base[i] = … }.
func fillLoop(info *types.Info, fs *ast.ForStmt, baseOf func(ast.Expr) types.Object) (types.Object, int64, int64, bool) {
	init, ok := fs.Init.(*ast.AssignStmt)
	if !ok || len(init.Lhs) != 1 || len(init.Rhs) != 1 {
		return nil, 0, 0, false
	}
	iv, ok := init.Lhs[0].(*ast.Ident)
	if !ok {
		return nil, 0, 0, false
	}
	lo, ok := constInt(info, init.Rhs[0])
	if !ok {
		return nil, 0, 0, false
	}
	cond, ok := fs.Cond.(*ast.BinaryExpr)
	if !ok || cond.Op != token.LSS {
		return nil, 0, 0, false
	}
	if id, ok := cond.X.(*ast.Ident); !ok || id.Name != iv.Name {
		return nil, 0, 0, false
	}
	hi, ok := constInt(info, cond.Y)
	if !ok {
		return nil, 0, 0, false
	}
	if inc, ok := fs.Post.(*ast.IncDecStmt); !ok || inc.Tok != token.INC {
		return nil, 0, 0, false
	}
	if len(fs.Body.List) != 1 {
		return nil, 0, 0, false
	}
	as, ok := fs.Body.List[0].(*ast.AssignStmt)
	if !ok || len(as.Lhs) != 1 {
		return nil, 0, 0, false
	}
	ie, ok := as.Lhs[0].(*ast.IndexExpr)
	if !ok {
		return nil, 0, 0, false
	}
	if id, ok := ie.Index.(*ast.Ident); !ok || id.Name != iv.Name {
		return nil, 0, 0, false
	}
	b := baseOf(ie.X)
	if b == nil {
		return nil, 0, 0, false
	}
	return b, lo, hi, true
}

func (e *Extractor) visitCall(info *types.Info, call *ast.CallExpr, bases map[types.Object]*[2]*Table,
	baseOf func(ast.Expr) types.Object,
	sliceRange func(ast.Expr) (types.Object, int64, int64, bool),
	add func(types.Object, bool, Range)) {
	// binary Put
	if w, ok := putPrim(info, call); ok && len(call.Args) == 2 {
		if b, lo, hi, ok := sliceRange(call.Args[0]); ok {
			add(b, true, Range{Lo: lo, Hi: hi, Width: w, Field: fieldExpr(call.Args[1]), How: fmt.Sprintf("PutUint%d", w*8), Pos: call.Pos()})
		}
		// reading a base inside the value (e.g. PutUint32(data[0:4], BigEndian.Uint32(guid[0:4])))
		return
	}
	if w, ok := getPrim(info, call); ok && len(call.Args) == 1 {
		if b, lo, hi, ok := sliceRange(call.Args[0]); ok {
			add(b, false, Range{Lo: lo, Hi: hi, Width: w, Field: "", How: fmt.Sprintf("Uint%d", w*8), Pos: call.Pos()})
		}
		return
	}
	// builtin copy
	if id, ok := call.Fun.(*ast.Ident); ok && id.Name == "copy" && len(call.Args) == 2 {
		if _, isBuiltin := info.Uses[id].(*types.Builtin); isBuiltin {
			if b, lo, hi, ok := sliceRange(call.Args[0]); ok {
				add(b, true, Range{Lo: lo, Hi: hi, Field: fieldExpr(call.Args[1]), How: "copy", Pos: call.Pos()})
			}
			if b, lo, hi, ok := sliceRange(call.Args[1]); ok {
				add(b, false, Range{Lo: lo, Hi: hi, Field: fieldExpr(call.Args[0]), How: "copy", Pos: call.Pos()})
			}
			return
		}
	}
	// calls of indexed functions
	var callee *types.Func
	switch f := call.Fun.(type) {
	case *ast.Ident:
		callee, _ = info.Uses[f].(*types.Func)
	case *ast.SelectorExpr:
		callee, _ = info.Uses[f.Sel].(*types.Func)
	}
	if callee == nil || e.decls[callee] == nil {
		return
	}
	sig := callee.Type().(*types.Signature)
	// delegation of a constant sub-slice
	for i, a := range call.Args {
		b, lo, hi, ok := sliceRange(a)
		if !ok || i >= sig.Params().Len() {
			continue
		}
		pobj := sig.Params().At(i)
		field := "delegate"
		// receiver or other args give the field: s.GUIDEntry.Put(data[..]) / putVmcbSeg(&v.Es, data[..])
		if sel, ok := call.Fun.(*ast.SelectorExpr); ok {
			if _, isPkg := info.Uses[identOf(sel.X)].(*types.PkgName); !isPkg {
				field = fieldExpr(sel.X)
			}
		}
		for j, a2 := range call.Args {
			if j != i {
				if f := fieldExpr(a2); f != "?" && !strings.HasPrefix(f, "?") && !strings.HasPrefix(f, "const") {
					field = f
					break
				}
			}
		}
		wrote := false
		for _, ct := range e.Tables(callee) {
			if ct.Base == paramObj(e.decls[callee], i) || ct.Base.Name() == pobj.Name() {
				r := Range{Lo: lo, Hi: hi, Field: field, How: "delegate " + callee.Name(), Pos: call.Pos()}
				if ct.Size() >= 0 {
					r.Width = ct.Size()
				}
				add(b, ct.Write, r)
				wrote = true
			}
		}
		if !wrote {
			// callee has no constant layout on this parameter: unknown direction; record as read
			add(b, false, Range{Lo: lo, Hi: hi, Field: field, How: "pass " + callee.Name(), Pos: call.Pos()})
		}
	}
	// the whole base handed on to a callee that has a layout on that parameter (PutUUID(data, g) = FromUUID(g).Put(data)):
	// the callee's ranges are this function's ranges
	for i, a := range call.Args {
		if _, isSlice := ast.Unparen(a).(*ast.SliceExpr); isSlice || i >= sig.Params().Len() {
			continue
		}
		b := baseOf(a)
		if b == nil {
			continue
		}
		pobj := sig.Params().At(i)
		for _, ct := range e.Tables(callee) {
			if ct.Base == paramObj(e.decls[callee], i) || ct.Base.Name() == pobj.Name() {
				for _, r := range ct.Ranges {
					r2 := r
					r2.How = "via " + callee.Name() + ": " + r.How
					r2.Pos = call.Pos()
					add(b, ct.Write, r2)
				}
				if ct.Guard >= 0 {
					if t := bases[b]; t != nil {
						for k := 0; k < 2; k++ {
							if t[k] != nil && t[k].Guard < 0 {
								t[k].Guard, t[k].GuardEq = ct.Guard, ct.GuardEq
							}
						}
					}
				}
			}
		}
	}
	// range-writer helper: f(..., base, lo, hi) with constant lo, hi
	for i, a := range call.Args {
		b := baseOf(a)
		if b == nil || i >= sig.Params().Len() {
			continue
		}
		if lo, hi, ok := e.helperRange(info, callee, call, i); ok {
			field := "reserved"
			for j, a2 := range call.Args {
				if j != i {
					if f := fieldExpr(a2); !strings.HasPrefix(f, "?") && !strings.HasPrefix(f, "const") {
						field = f
						break
					}
				}
			}
			add(b, true, Range{Lo: lo, Hi: hi, Field: field, How: "helper " + callee.Name(), Pos: call.Pos()})
		}
	}
}

// lenEnforced: body has a top-level `if len(src) != hi-lo { return … }` (either
// operand order), so a copy from src fills a destination of hi-lo bytes.
func lenEnforced(info *types.Info, body *ast.BlockStmt, src ast.Expr, lo, hi types.Object) bool {
	srcID, ok := ast.Unparen(src).(*ast.Ident)
	if !ok {
		return false
	}
	isLenSrc := func(e ast.Expr) bool {
		c, ok := ast.Unparen(e).(*ast.CallExpr)
		if !ok || len(c.Args) != 1 {
			return false
		}
		f, ok := c.Fun.(*ast.Ident)
		if !ok || f.Name != "len" {
			return false
		}
		a, ok := ast.Unparen(c.Args[0]).(*ast.Ident)
		return ok && info.Uses[a] == info.Uses[srcID]
	}
	isWidth := func(e ast.Expr) bool {
		b, ok := ast.Unparen(e).(*ast.BinaryExpr)
		if !ok || b.Op != token.SUB {
			return false
		}
		x, ok1 := b.X.(*ast.Ident)
		y, ok2 := b.Y.(*ast.Ident)
		return ok1 && ok2 && info.Uses[x] == hi && info.Uses[y] == lo
	}
	for _, st := range body.List {
		ifs, ok := st.(*ast.IfStmt)
		if !ok || ifs.Init != nil {
			continue
		}
		c, ok := ifs.Cond.(*ast.BinaryExpr)
		if !ok || c.Op != token.NEQ {
			continue
		}
		if !((isLenSrc(c.X) && isWidth(c.Y)) || (isLenSrc(c.Y) && isWidth(c.X))) {
			continue
		}
		if n := len(ifs.Body.List); n > 0 {
			if _, isRet := ifs.Body.List[n-1].(*ast.ReturnStmt); isRet {
				return true
			}
		}
	}
	return false
}

func identOf(x ast.Expr) *ast.Ident {
	id, _ := ast.Unparen(x).(*ast.Ident)
	if id == nil {
		return &ast.Ident{}
	}
	return id
}

func paramObj(d *declInfo, i int) types.Object {
	if d == nil || d.decl.Type.Params == nil {
		return nil
	}
	k := 0
	for _, fld := range d.decl.Type.Params.List {
		for _, n := range fld.Names {
			if k == i {
				return d.pkg.TypesInfo.Defs[n]
			}
			k++
		}
	}
	return nil
}

// helperRange: callee's parameter #pi is a byte slice p, and callee has two int
// parameters a, b such that its body writes exactly p[a:b) (a loop
// `for i := a; i < b; i++ { p[i] = … }` or a Put…(p[a:b], …)); the call passes
// constants for a and b.
func (e *Extractor) helperRange(info *types.Info, callee *types.Func, call *ast.CallExpr, pi int) (int64, int64, bool) {
	ai, bi, ok := e.helperParams(callee, pi, 0)
	if !ok || ai >= len(call.Args) || bi >= len(call.Args) {
		return 0, 0, false
	}
	lo, ok1 := constInt(info, call.Args[ai])
	hi, ok2 := constInt(info, call.Args[bi])
	if !ok1 || !ok2 {
		return 0, 0, false
	}
	return lo, hi, true
}

// helperParams: callee's parameter #pi is a byte slice p and its int parameters #ai, #bi are such that the body
// writes exactly p[a:b): a loop `for i := a; i < b; i++ { p[i] = … }`, a Put…(p[a:b], …), a length-enforced
// copy, or a call g(…, p, …, a, b, …) of another such helper with p, a and b passed through unchanged.
func (e *Extractor) helperParams(callee *types.Func, pi int, depth int) (int, int, bool) {
	d := e.decls[callee]
	if d == nil || depth > 3 {
		return 0, 0, false
	}
	p := paramObj(d, pi)
	if p == nil || !isByteSlice(p.Type()) {
		return 0, 0, false
	}
	cinfo := d.pkg.TypesInfo
	var aObj, bObj types.Object
	ast.Inspect(d.decl.Body, func(n ast.Node) bool {
		switch x := n.(type) {
		case *ast.ForStmt:
			init, ok := x.Init.(*ast.AssignStmt)
			if !ok || len(init.Rhs) != 1 {
				return true
			}
			cond, ok := x.Cond.(*ast.BinaryExpr)
			if !ok || cond.Op != token.LSS {
				return true
			}
			lo, ok1 := init.Rhs[0].(*ast.Ident)
			hi, ok2 := cond.Y.(*ast.Ident)
			if !ok1 || !ok2 || len(x.Body.List) != 1 {
				return true
			}
			as, ok := x.Body.List[0].(*ast.AssignStmt)
			if !ok || len(as.Lhs) != 1 {
				return true
			}
			ie, ok := as.Lhs[0].(*ast.IndexExpr)
			if !ok {
				return true
			}
			if id, ok := ie.X.(*ast.Ident); ok && cinfo.Uses[id] == p {
				aObj, bObj = cinfo.Uses[lo], cinfo.Uses[hi]
			}
		case *ast.CallExpr:
			if len(x.Args) == 0 {
				return true
			}
			// pass-through to another range-writer helper
			var g *types.Func
			switch f := x.Fun.(type) {
			case *ast.Ident:
				g, _ = cinfo.Uses[f].(*types.Func)
			case *ast.SelectorExpr:
				g, _ = cinfo.Uses[f.Sel].(*types.Func)
			}
			if g != nil && g != callee && e.decls[g] != nil {
				for j, a := range x.Args {
					id, ok := ast.Unparen(a).(*ast.Ident)
					if !ok || cinfo.Uses[id] != p {
						continue
					}
					if gi, gj, ok := e.helperParams(g, j, depth+1); ok && gi < len(x.Args) && gj < len(x.Args) {
						lo, ok1 := ast.Unparen(x.Args[gi]).(*ast.Ident)
						hi, ok2 := ast.Unparen(x.Args[gj]).(*ast.Ident)
						if ok1 && ok2 && !assignsVarNode(cinfo, d.decl.Body, cinfo.Uses[lo]) && !assignsVarNode(cinfo, d.decl.Body, cinfo.Uses[hi]) {
							aObj, bObj = cinfo.Uses[lo], cinfo.Uses[hi]
						}
					}
				}
			}
			// p[a:b] handed to a writer: a binary Put primitive fills its whole argument;
			// copy(p[a:b], src) fills it only if len(src) == b-a is enforced by the helper itself.
			se, ok := ast.Unparen(x.Args[0]).(*ast.SliceExpr)
			if !ok {
				return true
			}
			id, ok := se.X.(*ast.Ident)
			if !ok || cinfo.Uses[id] != p {
				return true
			}
			lo, ok1 := se.Low.(*ast.Ident)
			hi, ok2 := se.High.(*ast.Ident)
			if !ok1 || !ok2 {
				return true
			}
			full := false
			switch fn := ast.Unparen(x.Fun).(type) {
			case *ast.SelectorExpr:
				full = strings.HasPrefix(fn.Sel.Name, "Put")
			case *ast.Ident:
				if _, isBuiltin := cinfo.Uses[fn].(*types.Builtin); isBuiltin && fn.Name == "copy" && len(x.Args) == 2 {
					full = lenEnforced(cinfo, d.decl.Body, x.Args[1], cinfo.Uses[lo], cinfo.Uses[hi])
				}
			}
			if full {
				aObj, bObj = cinfo.Uses[lo], cinfo.Uses[hi]
			}
		}
		return true
	})
	if aObj == nil || bObj == nil {
		return 0, 0, false
	}
	ai, bi := -1, -1
	k := 0
	for _, fld := range d.decl.Type.Params.List {
		for _, n := range fld.Names {
			if cinfo.Defs[n] == aObj {
				ai = k
			}
			if cinfo.Defs[n] == bObj {
				bi = k
			}
			k++
		}
	}
	if ai < 0 || bi < 0 {
		return 0, 0, false
	}
	return ai, bi, true
}

func assignsVarNode(info *types.Info, body *ast.BlockStmt, obj types.Object) bool {
	return obj == nil || assignsVar(info, body, obj)
}
