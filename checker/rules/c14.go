package rules

import (
	"fmt"
	"go/constant"
	"go/token"
	"go/types"

	"golang.org/x/tools/go/ssa"

	"verif/checker/esp"
	"verif/checker/flow"
	"verif/checker/load"
)

func init() {
	register(&RuleSet{
		ID: "C14",
		Explanation: "R10 the list of repositories an endorsement is submitted to (Context.VCSs, kept in the shared context) grows by the primary repository (Context.VCS) only where the list was found empty: an unconditional append lists one repository twice on a second call or when it is also named in the list, and the endorsement is then submitted to it twice, each time with a full retry budget. " +
			"R9 (ESP) VersionControl.GetChangeOps is called at most once per attempt (no second retry level below the budgeted loop). " +
			"R8 (ESP) no workspace function of package endorse returns a nil error on a path on which its latest ChangeOps.ReadFile failed without ChangeOps.IsNotFound saying so. " +
			"On endorse.RetrySubmit (the retry loop) and the attempt function (discovered: the function of package endorse that invokes VersionControl.GetChangeOps): " +
			"R1 (ESP) a further attempt starts only after the previous attempt failed and VersionControl.RetriableError returned true for an error value derived from that attempt; " +
			"R2 (CFG) the loop has a loop-carried integer counter incremented on every back edge and every back edge is dominated by a comparison that depends on that counter and on Context.CommitRetries and has a loop-exit edge; " +
			"R3 (ESP) RetrySubmit returns nil only right after an attempt that returned nil; " +
			"R4 (ESP) the workspace is obtained inside the attempt, and every failing return after GetChangeOps succeeded has passed ChangeOps.Destroy; " +
			"R5 (ESP) VersionControl.Result happens at most once per attempt, only after TryCommit:ok (or under dry-run), and the attempt returns nil only after it — and nothing but nil once TryCommit succeeded; " +
			"R7 endorse.VirtualFirmware returns nil only where no submission to a configured back end failed. " +
			"R6b the object the manifest is parsed into is allocated during the attempt (not captured from outside the retry closure, not a parameter fed from outside, not a field or global), so no attempt sees an earlier attempt's manifest. " +
			"R6 (slice) the manifest bytes parsed in the change function come from ReadFile on the ChangeOps parameter of that invocation (no global / context-stored copy). " +
			"Not covered: the attempt count as a number (≤ retries+1, negative budgets), what a back end does with a fresh workspace.",
		Assumptions: []string{"go/types, go/ssa, VTA call graph", "fmt.Errorf returns non-nil", "interface methods of VersionControl/ChangeOps are opaque events", "VersionControl.GetChangeOps returns a non-nil workspace when its error is nil"},
		Run:         runC14,
	})
}

// c14BudgetObject: set while runC14 runs when the retry counter was found in a budget record (see R2)
var c14BudgetObject bool

func runC14(c *Ctx) {
	c14BudgetObject = false
	defer c14ReadFailures(c)
	endorsePkg := repoPath("endorse")
	retry := c.fn("R0", "endorse", "RetrySubmit")
	if retry == nil {
		return
	}
	isGet := func(call ssa.CallInstruction) bool {
		return invokeIs(call, endorsePkg, "VersionControl", "GetChangeOps")
	}
	c14RepositoryListedOnce(c)
	// the attempt function: what the retry loop of RetrySubmit calls and whose call closure obtains
	// the workspace (directly or through helpers)
	var attemptFns []*ssa.Function
	seenAttempt := map[*ssa.Function]bool{}
	for _, L := range naturalLoops(retry) {
		for b := range L.Body {
			for _, in := range b.Instrs {
				call, ok := in.(ssa.CallInstruction)
				if !ok {
					continue
				}
				g := call.Common().StaticCallee()
				if g == nil || !load.FuncInRepo(g) || seenAttempt[g] {
					continue
				}
				reaches := false
				for h := range c.reachable([]*ssa.Function{g}, nil) {
					if h != nil && len(callsIn(h, isGet)) > 0 {
						reaches = true
					}
				}
				if reaches {
					seenAttempt[g] = true
					attemptFns = append(attemptFns, g)
				}
			}
		}
	}
	if !c.S.Floor("R0", "attempt functions (called in RetrySubmit's loop, reaching VersionControl.GetChangeOps)", 1, len(attemptFns)) {
		return
	}
	isAttempt := func(call ssa.CallInstruction) bool {
		f := call.Common().StaticCallee()
		for _, a := range attemptFns {
			if f == a {
				return true
			}
		}
		return false
	}
	const (
		evAttempt = iota
		evRetriable
		evGet
		evDestroy
		evCommit
		evResult
	)
	const (
		bAttempted uint = iota
		bLastOk
		bLastFailed
		bRetriable
		bNotRetriable
		bGotWs
		bDestroyed
		bCommitOk
		bResult
		bGetThisAttempt
	)
	names := []string{"attempted", "lastAttempt:ok", "lastAttempt:fail", "retriable", "notRetriable", "workspace", "destroyed", "commit:ok", "resultRecorded", "gotWorkspaceThisAttempt"}
	classify := func(in ssa.Instruction) (int, bool) {
		call, ok := in.(ssa.CallInstruction)
		if !ok {
			return 0, false
		}
		switch {
		case isAttempt(call):
			return evAttempt, true
		case invokeIs(call, endorsePkg, "VersionControl", "RetriableError"):
			return evRetriable, true
		case isGet(call):
			return evGet, true
		case invokeIs(call, endorsePkg, "ChangeOps", "Destroy"):
			return evDestroy, true
		case invokeIs(call, endorsePkg, "ChangeOps", "TryCommit"):
			return evCommit, true
		case invokeIs(call, endorsePkg, "VersionControl", "Result"):
			return evResult, true
		}
		return 0, false
	}
	relevant := c.relevantSet(func(in ssa.Instruction) bool { _, ok := classify(in); return ok })
	flag := func(v ssa.Value) (int, bool) { return boolFieldFlag(v, endorsePkg, "Context", "DryRun") }
	reached := map[int]int{}
	attemptSet := map[*ssa.Function]bool{}
	for _, a := range attemptFns {
		attemptSet[a] = true
	}
	r := &esp.Rule{Name: "C14", Flag: flag}
	workspaceCell(r, 1) // a workspace kept in a field of an attempt record
	r.Relevant = func(f *ssa.Function) bool { return relevant[f] }
	r.Match = func(in ssa.Instruction) []esp.Ev {
		id, ok := classify(in)
		if !ok {
			return nil
		}
		call := in.(ssa.CallInstruction)
		ev := esp.Ev{ID: id, Name: callName(call), ErrIdx: -1, BoolIdx: -1}
		switch id {
		case evAttempt, evCommit:
			ev.ErrIdx = errIndex(call.Common().Signature())
		case evGet:
			ev.ErrIdx = errIndex(call.Common().Signature())
			ev.NonZeroOnOk = []int{0} // GetChangeOps returns a workspace or an error
		case evRetriable:
			ev.BoolIdx = 0
		}
		reached[id]++
		return []esp.Ev{ev}
	}
	r.Step = func(x *esp.Ctx, s esp.State, ev esp.Ev, ph esp.Phase) (esp.State, string) {
		st := fmtState(names, s)
		switch ev.ID {
		case evAttempt:
			switch ph {
			case esp.AtCall:
				msg := ""
				if s.Has(bAttempted) {
					if !s.Has(bLastFailed) {
						msg = "R1: a further attempt starts although the previous attempt did not fail, state " + st
					} else if !s.Has(bRetriable) {
						msg = "R1: a further attempt starts without RetriableError having returned true for the previous failure, state " + st
					}
				}
				s = s.Set(bAttempted).Clear(bLastOk).Clear(bLastFailed).Clear(bRetriable).Clear(bNotRetriable)
				s = s.Clear(bGotWs).Clear(bDestroyed).Clear(bCommitOk).Clear(bResult).Clear(bGetThisAttempt)
				return s, msg
			case esp.Ok:
				return s.Set(bLastOk), ""
			case esp.Fail:
				return s.Set(bLastFailed), ""
			}
		case evRetriable:
			switch ph {
			case esp.Ok:
				return s.Set(bRetriable), ""
			case esp.Fail:
				return s.Set(bNotRetriable), ""
			}
		case evGet:
			switch ph {
			case esp.AtCall:
				if s.Has(bGetThisAttempt) {
					return s, "R9: a workspace is requested a second time within one attempt, state " + st + ": retries that the attempt counter of RetrySubmit does not see multiply the budget (up to (retries+1)² attempts)"
				}
				return s.Set(bGetThisAttempt), ""
			case esp.Ok:
				return s.Set(bGotWs).Clear(bDestroyed), ""
			}
		case evDestroy:
			if ph == esp.AtCall {
				return s.Set(bDestroyed), ""
			}
		case evCommit:
			switch ph {
			case esp.AtCall:
				if !s.Has(bGetThisAttempt) {
					return s, "R4: TryCommit on a workspace that was not obtained in this attempt, state " + st
				}
			case esp.Ok:
				return s.Set(bCommitOk), ""
			}
		case evResult:
			if ph == esp.AtCall {
				msg := ""
				if s.Has(bResult) {
					msg = "R5: VersionControl.Result recorded twice in one attempt, state " + st
				} else if !s.Has(bCommitOk) && s.Flag(0) != esp.NonZero {
					msg = "R5: VersionControl.Result recorded without a successful TryCommit (and not under dry-run), state " + st
				}
				return s.Set(bResult), msg
			}
		}
		return s, ""
	}
	r.AtAnyReturn = func(x *esp.Ctx, fn *ssa.Function, s esp.State, rets []esp.Abs) string {
		if !attemptSet[fn] || len(rets) == 0 {
			return ""
		}
		st := fmtState(names, s)
		errA := rets[len(rets)-1]
		if errA != esp.Zero && s.Has(bGotWs) && !s.Has(bDestroyed) {
			return "R4: attempt may return an error with its workspace not destroyed, state " + st
		}
		if errA != esp.Zero && s.Has(bCommitOk) {
			return "R5: attempt may return an error although its commit succeeded (a commit that landed is reported as a failure: it is never recorded, and a retriable error commits again), state " + st
		}
		if errA != esp.NonZero && !s.Has(bResult) {
			return "R5: attempt may return nil without recording the commit result, state " + st
		}
		if errA != esp.NonZero && !s.Has(bCommitOk) && s.Flag(0) != esp.NonZero {
			return "R5: attempt may return nil without a successful TryCommit (and not under dry-run), state " + st
		}
		return ""
	}
	r.AtReturn = func(x *esp.Ctx, s esp.State, rets []esp.Abs) string {
		if x.Fn != retry {
			return ""
		}
		if rets[len(rets)-1] != esp.NonZero && !s.Has(bLastOk) {
			return "R3: RetrySubmit may return nil in state " + fmtState(names, s) + " (no attempt has just succeeded)"
		}
		return ""
	}
	e := c.engine(r)
	outs := e.Run(retry, esp.State{})
	n := c.reportEngine(e, "ESP", func(v *esp.Violation) string { return v.Msg[:2] + ":" + load.FuncName(v.Fn) })
	nilExits := 0
	for _, o := range outs {
		rets := esp.DecodeRets(o.Rets)
		if rets[len(rets)-1] != esp.NonZero {
			nilExits++
		}
	}
	c.S.Note("RetrySubmit: %d configurations, %d outcomes, %d possibly-nil exits, %d violations", e.Configs, len(outs), nilExits, n)
	c.S.Floor("R0", "attempt calls reached from RetrySubmit", 1, reached[evAttempt])
	c.S.Floor("R0", "RetriableError calls reached", 1, reached[evRetriable])
	c.S.Floor("R0", "Destroy calls reached", 1, reached[evDestroy])
	c.S.Floor("R0", "TryCommit calls reached", 1, reached[evCommit])
	c.S.Floor("R0", "Result calls reached", 1, reached[evResult])
	c.S.Floor("R0", "nil exits of RetrySubmit", 1, nilExits)
	if n == 0 {
		for _, rr := range []string{"R1", "R3", "R4", "R5"} {
			c.S.OK(rr, "endorse.RetrySubmit", c.pos(retry.Pos()), fmt.Sprintf("held on all %d explored configurations", e.Configs), true)
		}
	}

	// R1b: the error handed to RetriableError derives from the attempt's result.
	sl := flow.NewSlicer(c.P)
	for _, call := range callsIn(retry, func(call ssa.CallInstruction) bool {
		return invokeIs(call, endorsePkg, "VersionControl", "RetriableError")
	}) {
		ok := len(call.Common().Args) == 1 && sl.Derives(call.Common().Args[0], func(v ssa.Value) bool {
			cv, isCall := v.(*ssa.Call)
			return isCall && isAttempt(cv)
		})
		c.S.Check(ok, "R1b", "endorse.RetrySubmit:RetriableError", c.pos(call.Pos()), "argument derives from the attempt's error", "RetriableError is asked about a value that is not this attempt's error")
	}

	// R2: loop shape.
	loops := naturalLoops(retry)
	var L *loop
	for _, b := range retry.Blocks {
		for _, in := range b.Instrs {
			if call, ok := in.(ssa.CallInstruction); ok && isAttempt(call) {
				L = innermostLoopOf(loops, b)
			}
		}
	}
	if L == nil {
		c.S.Bad("R2", "endorse.RetrySubmit:loop", c.pos(retry.Pos()), "no loop around the attempt call (anchor shape changed)")
	} else {
		retriesLoad := func(v ssa.Value) bool { return flow.IsFieldLoad(v, endorsePkg, "Context", "CommitRetries") }
		// counters: header φ of integer type whose every back-edge operand is φ + positive const
		var counters []*ssa.Phi
		for _, in := range L.Header.Instrs {
			phi, ok := in.(*ssa.Phi)
			if !ok {
				break
			}
			if b, ok := phi.Type().Underlying().(*types.Basic); !ok || b.Info()&types.IsInteger == 0 {
				continue
			}
			good := true
			nback := 0
			for i, pred := range L.Header.Preds {
				if !L.Body[pred] {
					continue
				}
				nback++
				if !isIncrementOf(phi.Edges[i], phi) {
					good = false
				}
			}
			if good && nback > 0 {
				counters = append(counters, phi)
			}
		}
		counterPos := c.pos(L.Header.Instrs[0].Pos())
		defer func(n int) {
			if n > 0 || !c14BudgetObject {
				c.S.Check(n > 0, "R2", "endorse.RetrySubmit:counter", counterPos, "loop-carried counter incremented on every back edge", "no loop-carried counter that is incremented on every back edge of the retry loop")
			}
		}(len(counters))
		// budget comparisons
		var budgetBlocks []*ssa.BasicBlock
		for b := range L.Body {
			iff, ok := b.Instrs[len(b.Instrs)-1].(*ssa.If)
			if !ok {
				continue
			}
			bo, ok := iff.Cond.(*ssa.BinOp)
			if !ok {
				continue
			}
			switch bo.Op {
			case token.LSS, token.LEQ, token.GTR, token.GEQ:
			default:
				continue
			}
			hasCounter, hasBudget := false, false
			lsl := flow.NewSlicer(c.P)
			lsl.Visit(bo, func(v ssa.Value) bool {
				for _, k := range counters {
					if v == k {
						hasCounter = true
						return false // do not walk round the loop
					}
				}
				if retriesLoad(v) {
					hasBudget = true
				}
				return true
			}, nil)
			exits := false
			for _, s := range b.Succs {
				if !L.Body[s] {
					exits = true
				}
			}
			if hasCounter && hasBudget && exits {
				budgetBlocks = append(budgetBlocks, b)
				// the counter is compared with the budget, not combined with it first: `budget - tries < 0` wraps for
				// the most negative budget and never stops (finding F25)
				for _, opnd := range []ssa.Value{bo.X, bo.Y} {
					ar, ok := opnd.(*ssa.BinOp)
					if !ok || (ar.Op != token.SUB && ar.Op != token.ADD) {
						continue
					}
					side := func(v ssa.Value) (ctr, bud bool) {
						l2 := flow.NewSlicer(c.P)
						l2.Visit(v, func(w ssa.Value) bool {
							for _, k := range counters {
								if w == k {
									ctr = true
									return false
								}
							}
							if retriesLoad(w) {
								bud = true
							}
							return true
						}, nil)
						return
					}
					xc, xb := side(ar.X)
					yc, yb := side(ar.Y)
					mixes := (xc && yb) || (xb && yc)
					c.S.Check(!mixes, "R2", "endorse.RetrySubmit:budget arithmetic", c.pos(ar.Pos()), "counter and budget are compared directly", "the exit test is on `budget "+ar.Op.String()+" counter`: for the most negative (or largest) budget the arithmetic wraps and the test never fires — retries without bound")
				}
			}
		}
		// the comparison may sit in a helper that returns the error which ends the submission (nil = try again):
		// `if final := afterFailedAttempt(ctx, ec, failure, tries); final != nil { return final }`
		for b := range L.Body {
			iff, ok := b.Instrs[len(b.Instrs)-1].(*ssa.If)
			if !ok {
				continue
			}
			bo, ok := iff.Cond.(*ssa.BinOp)
			if !ok || (bo.Op != token.NEQ && bo.Op != token.EQL) || !isNilK(bo.Y) {
				continue
			}
			hc, ok := bo.X.(*ssa.Call)
			if !ok {
				continue
			}
			h := hc.Call.StaticCallee()
			if h == nil || load.RelPkg(h) != "endorse" || h.Blocks == nil || errIndex(h.Signature) != 0 {
				continue
			}
			// the non-nil side leaves the loop
			nonNilSucc := b.Succs[0]
			if bo.Op == token.EQL {
				nonNilSucc = b.Succs[1]
			}
			if L.Body[nonNilSucc] {
				continue
			}
			// which parameters of the helper get the counter
			ctrParam := map[*ssa.Parameter]bool{}
			for i, a := range hc.Call.Args {
				if i >= len(h.Params) {
					continue
				}
				lsl := flow.NewSlicer(c.P)
				lsl.Visit(a, func(v ssa.Value) bool {
					for _, k := range counters {
						if v == k {
							ctrParam[h.Params[i]] = true
							return false
						}
					}
					return true
				}, nil)
			}
			// the helper compares such a parameter with the budget and returns a non-nil error on one side
			found := false
			for _, hb := range h.Blocks {
				hif, ok := hb.Instrs[len(hb.Instrs)-1].(*ssa.If)
				if !ok {
					continue
				}
				hbo, ok := hif.Cond.(*ssa.BinOp)
				if !ok {
					continue
				}
				switch hbo.Op {
				case token.LSS, token.LEQ, token.GTR, token.GEQ:
				default:
					continue
				}
				hasCounter, hasBudget := false, false
				lsl := flow.NewSlicer(c.P)
				lsl.Visit(hbo, func(v ssa.Value) bool {
					if p, ok := v.(*ssa.Parameter); ok && ctrParam[p] {
						hasCounter = true
						return false
					}
					if retriesLoad(v) {
						hasBudget = true
					}
					return true
				}, nil)
				endsWithErr := false
				for _, sb := range hb.Succs {
					if ret, ok := sb.Instrs[len(sb.Instrs)-1].(*ssa.Return); ok && len(ret.Results) == 1 {
						if k, isK := ret.Results[0].(*ssa.Const); !isK || !k.IsNil() {
							endsWithErr = true
						}
					}
				}
				if hasCounter && hasBudget && endsWithErr {
					found = true
				}
			}
			if found {
				budgetBlocks = append(budgetBlocks, b)
			}
		}
		// the counter and the comparison may live in a budget record: `left, ok := budget.spend(); if !ok { return … }`
		// where the record is made before the loop, the method advances a field of its receiver on every path and says
		// ok=false on the refusing side of a direct comparison of that field with Context.CommitRetries
		budgetObject := false
		for b := range L.Body {
			iff, ok := b.Instrs[len(b.Instrs)-1].(*ssa.If)
			if !ok {
				continue
			}
			ex, ok := iff.Cond.(*ssa.Extract)
			if !ok || ex.Type().String() != "bool" {
				continue
			}
			hc, ok := ex.Tuple.(*ssa.Call)
			if !ok || L.Body[b.Succs[1]] { // the false side must leave the loop
				continue
			}
			h := hc.Call.StaticCallee()
			if h == nil || load.RelPkg(h) != "endorse" || h.Blocks == nil || h.Signature.Recv() == nil || len(hc.Call.Args) == 0 {
				continue
			}
			// one record for the whole loop
			recvAl, isAl := hc.Call.Args[0].(*ssa.Alloc)
			if !isAl || L.Body[recvAl.Block()] {
				continue
			}
			recvP := h.Params[0]
			// (i) a field of the receiver advanced on every path
			field := -1
			for _, hb := range h.Blocks {
				for _, hi := range hb.Instrs {
					st, ok := hi.(*ssa.Store)
					if !ok {
						continue
					}
					fa, ok := st.Addr.(*ssa.FieldAddr)
					if !ok || fa.X != ssa.Value(recvP) {
						continue
					}
					add, ok := st.Val.(*ssa.BinOp)
					if !ok || add.Op != token.ADD {
						continue
					}
					k, isK := constInt(add.Y)
					ld, isLd := add.X.(*ssa.UnOp)
					if !isK || k <= 0 || !isLd {
						continue
					}
					if fa2, ok := ld.X.(*ssa.FieldAddr); !ok || fa2.X != ssa.Value(recvP) || fa2.Field != fa.Field {
						continue
					}
					all := true
					for _, rb := range h.Blocks {
						if _, isRet := rb.Instrs[len(rb.Instrs)-1].(*ssa.Return); isRet && !hb.Dominates(rb) {
							all = false
						}
					}
					if all {
						field = fa.Field
					}
				}
			}
			if field < 0 {
				continue
			}
			// (ii) ok=false on one side of a direct comparison of that field with the budget
			cmp := false
			for _, hb := range h.Blocks {
				hif, ok := hb.Instrs[len(hb.Instrs)-1].(*ssa.If)
				if !ok {
					continue
				}
				hbo, ok := hif.Cond.(*ssa.BinOp)
				if !ok {
					continue
				}
				switch hbo.Op {
				case token.LSS, token.LEQ, token.GTR, token.GEQ:
				default:
					continue
				}
				isCounter := func(v ssa.Value) bool {
					if ld, ok := v.(*ssa.UnOp); ok && ld.Op == token.MUL {
						if fa, ok := ld.X.(*ssa.FieldAddr); ok && fa.X == ssa.Value(recvP) && fa.Field == field {
							return true
						}
					}
					if add, ok := v.(*ssa.BinOp); ok && add.Op == token.ADD {
						if ld, ok := add.X.(*ssa.UnOp); ok && ld.Op == token.MUL {
							if fa, ok := ld.X.(*ssa.FieldAddr); ok && fa.X == ssa.Value(recvP) && fa.Field == field {
								_, isK := constInt(add.Y)
								return isK
							}
						}
					}
					return false
				}
				direct := (isCounter(hbo.X) && retriesLoad(hbo.Y)) || (isCounter(hbo.Y) && retriesLoad(hbo.X))
				refusesOK := false
				for _, sb := range hb.Succs {
					if ret, ok := sb.Instrs[len(sb.Instrs)-1].(*ssa.Return); ok && ex.Index < len(ret.Results) {
						if k, isK := ret.Results[ex.Index].(*ssa.Const); isK && k.Value != nil && !constant.BoolVal(k.Value) {
							refusesOK = true
						}
					}
				}
				if direct && refusesOK {
					cmp = true
				}
			}
			if cmp {
				budgetObject = true
				c14BudgetObject = true
				budgetBlocks = append(budgetBlocks, b)
			}
		}
		if budgetObject && len(counters) == 0 {
			c.S.OK("R2", "endorse.RetrySubmit:counter in a budget record", c.pos(L.Header.Instrs[0].Pos()), "the attempt counter is a field of a record made before the loop and advanced on every path of the method the loop asks", true)
		}
		okAll := len(budgetBlocks) > 0
		for _, back := range L.Backs {
			dom := false
			for _, bb := range budgetBlocks {
				if bb.Dominates(back) {
					dom = true
				}
			}
			if !dom {
				okAll = false
			}
		}
		c.S.Check(okAll, "R2", "endorse.RetrySubmit:budget", c.pos(L.Header.Instrs[0].Pos()),
			fmt.Sprintf("every back edge (%d) is dominated by a comparison of the counter with Context.CommitRetries that has a loop exit", len(L.Backs)),
			"some back edge of the retry loop is not dominated by a comparison of the attempt counter with Context.CommitRetries that can leave the loop (unbounded retries)")
	}

	// R6: fresh manifest.
	n6 := 0
	for _, f := range c.P.RepoFunctions() {
		if load.RelPkg(f) != "endorse" || c.isTestFunc(f) {
			continue
		}
		for _, call := range callsIn(f, func(call ssa.CallInstruction) bool {
			cal := call.Common().StaticCallee()
			return cal != nil && cal.String() == "google.golang.org/protobuf/encoding/prototext.Unmarshal" && len(call.Common().Args) == 2 &&
				typeMentions(call.Common().Args[1], repoPath("proto/releases"), "VMEndorsementMap")
		}) {
			n6++
			okSrc := true
			why := ""
			seenRead := false
			lsl := flow.NewSlicer(c.P)
			lsl.LiftParams = 2 // a parsing helper is handed the text: the bytes are what its callers read
			lsl.Visit(call.Common().Args[0], func(v ssa.Value) bool {
				switch v := v.(type) {
				case *ssa.Global:
					okSrc, why = false, "manifest bytes come from package-level variable "+v.Name()
				case *ssa.FieldAddr:
					okSrc, why = false, "manifest bytes come from a stored field ("+flow.FieldName(v)+"), not from this attempt's workspace"
				case *ssa.Call:
					if invokeIs(v, endorsePkg, "ChangeOps", "ReadFile") {
						seenRead = true
						if _, isParam := v.Call.Value.(*ssa.Parameter); !isParam {
							okSrc, why = false, "ReadFile is not invoked on the ChangeOps parameter of this invocation"
						}
						return false
					}
				}
				return true
			}, nil)
			if okSrc && !seenRead {
				okSrc, why = false, "manifest bytes do not come from ChangeOps.ReadFile"
			}
			c.S.Check(okSrc, "R6", load.FuncName(f)+":manifest source", c.pos(call.Pos()), "parsed manifest bytes come from ReadFile on this invocation's ChangeOps parameter", why)
		}
	}
	c.S.Floor("R6", "manifest parse sites in package endorse", 1, n6)

	// R7: success means every back end committed. The exported driver (endorse.VirtualFirmware) submits to each
	// configured version-control back end through the function that runs the retry loop; a nil result of the driver
	// is reachable only where no such submission failed (a later back end's success never replaces an earlier
	// failure).
	if vf := c.P.Func("endorse", "VirtualFirmware"); vf != nil {
		// the submitting function: the unexported caller(s) of RetrySubmit in package endorse
		submit := map[*ssa.Function]bool{}
		for _, g := range c.P.RepoFunctions() {
			if load.RelPkg(g) != "endorse" || c.isTestFunc(g) || g == retry {
				continue
			}
			if len(callsIn(g, func(call ssa.CallInstruction) bool { return call.Common().StaticCallee() == retry })) > 0 {
				submit[g] = true
			}
		}
		const bFailed uint = 0
		nSub := 0
		r7 := &esp.Rule{Name: "C14.R7"}
		region := map[*ssa.Function]bool{}
		for _, g := range unexportedRegion(vf) {
			if g != vf && !submit[g] {
				region[g] = true
			}
		}
		r7.Relevant = func(g *ssa.Function) bool { return region[g] }
		r7.Match = func(in ssa.Instruction) []esp.Ev {
			if call, ok := in.(ssa.CallInstruction); ok && submit[call.Common().StaticCallee()] {
				nSub++
				return []esp.Ev{{ID: 0, Name: "submission to one back end", ErrIdx: errIndex(call.Common().Signature()), BoolIdx: -1}}
			}
			return nil
		}
		r7.Step = func(x *esp.Ctx, s esp.State, ev esp.Ev, ph esp.Phase) (esp.State, string) {
			if ph == esp.Fail {
				return s.Set(bFailed), ""
			}
			return s, ""
		}
		ei := errIndex(vf.Signature)
		r7.AtReturn = func(x *esp.Ctx, s esp.State, rets []esp.Abs) string {
			if ei >= 0 && s.Has(bFailed) && rets[ei] != esp.NonZero {
				return "R7: VirtualFirmware may report success although the submission to one of the version-control back ends failed (its attempts all failed and nothing was recorded for it)"
			}
			return ""
		}
		e7 := c.engine(r7)
		e7.Run(vf, esp.State{})
		if c.reportEngine(e7, "R7", func(v *esp.Violation) string { return "endorse.VirtualFirmware:every back end committed" }) == 0 {
			c.S.OK("R7", "endorse.VirtualFirmware:every back end committed", c.pos(vf.Pos()), fmt.Sprintf("success only where no submission failed (%d configurations)", e7.Configs), true)
		}
		c.S.Floor("R7", "submission calls reached from VirtualFirmware", 1, nSub)
	}

	// R6b: the object the manifest is parsed into (and which is then extended and written back) is allocated
	// during the attempt. An object that outlives the attempt (captured from outside the retry, a parameter fed
	// from outside, a field, a global) carries the previous attempt's view of the manifest into the next one.
	region := c.reachable(attemptFns, nil)
	cg := c.P.CallGraph()
	var fresh func(v ssa.Value, depth int, seen map[ssa.Value]bool) (bool, string)
	fresh = func(v ssa.Value, depth int, seen map[ssa.Value]bool) (bool, string) {
		if depth > 6 || seen[v] {
			return true, ""
		}
		seen[v] = true
		switch x := v.(type) {
		case *ssa.MakeInterface:
			return fresh(x.X, depth, seen)
		case *ssa.ChangeType:
			return fresh(x.X, depth, seen)
		case *ssa.Phi:
			for _, e := range x.Edges {
				if ok, why := fresh(e, depth+1, seen); !ok {
					return false, why
				}
			}
			return true, ""
		case *ssa.Alloc:
			if !region[x.Parent()] {
				return false, "it is allocated in " + load.FuncName(x.Parent()) + ", outside the attempt"
			}
			// a cell holding a pointer: what is stored into it
			if _, isPtr := x.Type().(*types.Pointer).Elem().Underlying().(*types.Pointer); isPtr {
				for _, ref := range *x.Referrers() {
					if st, ok := ref.(*ssa.Store); ok && st.Addr == x {
						if ok, why := fresh(st.Val, depth+1, seen); !ok {
							return false, why
						}
					}
				}
			}
			return true, ""
		case *ssa.UnOp:
			if x.Op == token.MUL {
				switch a := x.X.(type) {
				case *ssa.Alloc, *ssa.FreeVar:
					return fresh(a, depth+1, seen)
				case *ssa.FieldAddr:
					return false, "it is loaded from a stored field (" + flow.FieldName(a) + ")"
				case *ssa.Global:
					return false, "it is loaded from package-level variable " + a.Name()
				}
			}
			return true, ""
		case *ssa.Global:
			return false, "it is package-level variable " + x.Name()
		case *ssa.FreeVar:
			fn := x.Parent()
			par := fn.Parent()
			if par == nil || !region[par] {
				name := "?"
				if par != nil {
					name = load.FuncName(par)
				}
				return false, "it is captured from " + name + ", which runs once for all attempts"
			}
			idx := -1
			for i, fv := range fn.FreeVars {
				if fv == x {
					idx = i
				}
			}
			for _, b := range par.Blocks {
				for _, in := range b.Instrs {
					if mc, ok := in.(*ssa.MakeClosure); ok && mc.Fn == fn && idx >= 0 && idx < len(mc.Bindings) {
						if ok, why := fresh(mc.Bindings[idx], depth+1, seen); !ok {
							return false, why
						}
					}
				}
			}
			return true, ""
		case *ssa.Parameter:
			fn := x.Parent()
			idx := -1
			for i, p := range fn.Params {
				if p == x {
					idx = i
				}
			}
			n := cg.Nodes[fn]
			callers := 0
			if n != nil {
				for _, e := range n.In {
					if e.Caller.Func == nil || !region[e.Caller.Func] || e.Site == nil {
						continue
					}
					args := e.Site.Common().Args
					if e.Site.Common().IsInvoke() || idx < 0 || idx >= len(args) {
						continue
					}
					callers++
					if ok, why := fresh(args[idx], depth+1, seen); !ok {
						return false, why
					}
				}
			}
			if callers == 0 {
				return false, "it is a parameter of " + load.FuncName(fn) + " supplied from outside the attempt"
			}
			return true, ""
		}
		return true, ""
	}
	n6b := 0
	for f := range region {
		if load.RelPkg(f) != "endorse" || c.isTestFunc(f) {
			continue
		}
		for _, call := range callsIn(f, func(call ssa.CallInstruction) bool {
			cal := call.Common().StaticCallee()
			return cal != nil && cal.String() == "google.golang.org/protobuf/encoding/prototext.Unmarshal" && len(call.Common().Args) == 2 &&
				typeMentions(call.Common().Args[1], repoPath("proto/releases"), "VMEndorsementMap")
		}) {
			n6b++
			ok, why := fresh(call.Common().Args[1], 0, map[ssa.Value]bool{})
			c.S.Check(ok, "R6b", load.FuncName(f)+":manifest object per attempt", c.pos(call.Pos()),
				"the manifest is parsed into an object allocated during the attempt",
				"the manifest is parsed into an object that outlives the attempt: "+why+"; a retry would extend and write back the previous attempt's view of the manifest")
		}
	}
	c.S.Floor("R6b", "manifest parse sites reached from the attempt", 1, n6b)
}

// isIncrementOf: v == phi + k (k > 0 const), possibly through another φ-free chain.
func isIncrementOf(v ssa.Value, phi *ssa.Phi) bool {
	bo, ok := v.(*ssa.BinOp)
	if !ok || bo.Op != token.ADD {
		return false
	}
	pos := func(x ssa.Value) bool {
		k, ok := x.(*ssa.Const)
		return ok && k.Value != nil && k.Value.Kind() == constant.Int && constant.Sign(k.Value) > 0
	}
	return (bo.X == phi && pos(bo.Y)) || (bo.Y == phi && pos(bo.X))
}

// typeMentions: v's type (behind pointers / interface conversion) is pkg.name.
func typeMentions(v ssa.Value, pkg, name string) bool {
	if mi, ok := v.(*ssa.MakeInterface); ok {
		v = mi.X
	}
	return namedIs(v.Type(), pkg, name)
}

// c14ReadFailures — R8: an attempt does not mistake a failed read for an absent file. In every function of package
// endorse that works on a workspace (a ChangeOps parameter, an error result), a nil error is never returned on a
// path on which the latest ChangeOps.ReadFile failed and ChangeOps.IsNotFound did not say "not found" for it: a
// transient or permission error on the manifest must fail the attempt (so that it is released and retried), not
// start it from an empty manifest that drops every entry committed before.
func c14ReadFailures(c *Ctx) {
	endorsePkg := repoPath("endorse")
	isWS := func(f *ssa.Function) bool {
		if load.RelPkg(f) != "endorse" || c.isTestFunc(f) || f.Blocks == nil || errIndex(f.Signature) < 0 {
			return false
		}
		for _, p := range f.Params {
			if namedIs(p.Type(), endorsePkg, "ChangeOps") {
				return true
			}
		}
		for _, fv := range f.FreeVars {
			if pt, ok := fv.Type().(*types.Pointer); ok && namedIs(pt.Elem(), endorsePkg, "ChangeOps") {
				return true
			}
		}
		return false
	}
	reads := func(f *ssa.Function) bool {
		for g := range c.reachable([]*ssa.Function{f}, func(g *ssa.Function) bool { return load.RelPkg(g) == "endorse" }) {
			if g != nil && len(callsIn(g, func(call ssa.CallInstruction) bool { return invokeIs(call, endorsePkg, "ChangeOps", "ReadFile") })) > 0 {
				return true
			}
		}
		return false
	}
	n, nRead := 0, 0
	for _, f := range c.P.RepoFunctions() {
		if !isWS(f) || !reads(f) {
			continue
		}
		n++
		const bFail uint = 0
		r := &esp.Rule{Name: "C14.R8"}
		r.Relevant = func(g *ssa.Function) bool { return g != f && load.RelPkg(g) == "endorse" && !c.isTestFunc(g) }
		r.Match = func(in ssa.Instruction) []esp.Ev {
			call, ok := in.(ssa.CallInstruction)
			if !ok {
				return nil
			}
			if invokeIs(call, endorsePkg, "ChangeOps", "ReadFile") {
				nRead++
				return []esp.Ev{{ID: 0, Name: "ReadFile", ErrIdx: 1, BoolIdx: -1}}
			}
			if invokeIs(call, endorsePkg, "ChangeOps", "IsNotFound") {
				return []esp.Ev{{ID: 1, Name: "IsNotFound", ErrIdx: -1, BoolIdx: 0}}
			}
			return nil
		}
		r.Step = func(x *esp.Ctx, s esp.State, ev esp.Ev, ph esp.Phase) (esp.State, string) {
			switch ev.ID {
			case 0:
				if ph == esp.AtCall {
					return s.Clear(bFail), ""
				}
				if ph == esp.Fail {
					return s.Set(bFail), ""
				}
			case 1:
				if ph == esp.Ok {
					return s.Clear(bFail), ""
				}
			}
			return s, ""
		}
		ei := errIndex(f.Signature)
		r.AtReturn = func(x *esp.Ctx, s esp.State, rets []esp.Abs) string {
			if rets[ei] != esp.NonZero && s.Has(bFail) {
				return "R8: the function may return a nil error although its latest ChangeOps.ReadFile failed and was not found to be 'not found': a read failure is treated as an absent (empty) file"
			}
			return ""
		}
		e := c.engine(r)
		e.Run(f, esp.State{})
		name := load.FuncName(f)
		if c.reportEngine(e, "R8", func(v *esp.Violation) string { return name + ":read failure reported" }) == 0 {
			c.S.OK("R8", name+":read failure reported", c.pos(f.Pos()), fmt.Sprintf("no nil return after a failed read that is not 'not found' (%d configurations)", e.Configs), true)
		}
	}
	c.S.Floor("R8", "workspace functions of package endorse that read files", 3, n)
	c.S.Floor("R8", "ChangeOps.ReadFile calls reached", 2, nRead)
}

// c14RepositoryListedOnce is R10: a store into the endorse context's repository list (Context.VCSs) of an append that
// adds the context's primary repository (Context.VCS) is made only under a dominating condition that the list is
// empty (len == 0), or under a condition computed by a call that is handed both the list and the repository (a
// membership test). Otherwise a second submission of the same endorsement to one repository is possible.
func c14RepositoryListedOnce(c *Ctx) {
	isCtxField := func(v ssa.Value, name string) bool {
		fa, ok := v.(*ssa.FieldAddr)
		return ok && flow.IsFieldLoad(fa, repoPath("endorse"), "Context", name)
	}
	loadsField := func(v ssa.Value, name string) bool {
		v = stripConv(v)
		if ld, ok := v.(*ssa.UnOp); ok && ld.Op == token.MUL {
			return isCtxField(ld.X, name)
		}
		return false
	}
	n := 0
	for _, f := range c.P.RepoFunctions() {
		if c.isTestFunc(f) || f.Blocks == nil {
			continue
		}
		for _, b := range f.Blocks {
			for _, in := range b.Instrs {
				st, ok := in.(*ssa.Store)
				if !ok || !isCtxField(st.Addr, "VCSs") {
					continue
				}
				call, ok := st.Val.(*ssa.Call)
				if !ok {
					continue
				}
				bi, ok := call.Call.Value.(*ssa.Builtin)
				if !ok || bi.Name() != "append" || len(call.Call.Args) != 2 || !loadsField(call.Call.Args[0], "VCSs") {
					continue
				}
				// the appended elements contain the primary repository
				addsPrimary := false
				seen := map[ssa.Value]bool{}
				var walk func(v ssa.Value, d int)
				walk = func(v ssa.Value, d int) {
					if d > 6 || seen[v] || addsPrimary {
						return
					}
					seen[v] = true
					if loadsField(v, "VCS") {
						addsPrimary = true
						return
					}
					switch x := v.(type) {
					case *ssa.Slice:
						walk(x.X, d+1)
					case *ssa.Alloc:
						for _, r := range *x.Referrers() {
							if ia, ok := r.(*ssa.IndexAddr); ok {
								for _, r2 := range *ia.Referrers() {
									if s2, ok := r2.(*ssa.Store); ok && s2.Addr == ssa.Value(ia) {
										walk(s2.Val, d+1)
									}
								}
							}
						}
					case *ssa.ChangeInterface:
						walk(x.X, d+1)
					case *ssa.MakeInterface:
						walk(x.X, d+1)
					}
				}
				walk(call.Call.Args[1], 0)
				if !addsPrimary {
					continue
				}
				n++
				guarded := ""
				for _, cf := range dominatingConds(b) {
					bo, ok := cf.Cond.(*ssa.BinOp)
					if ok {
						isLenList := func(v ssa.Value) bool {
							a, ok := lenArg(stripConv(v))
							return ok && loadsField(a, "VCSs")
						}
						op, other, ok := relFact(cf, isLenList)
						if k, isK := constInt(other); ok && isK {
							if (op == token.EQL && k == 0) || (op == token.LSS && k == 1) || (op == token.LEQ && k == 0) {
								guarded = "the list was found empty"
							}
						}
						_ = bo
						continue
					}
					if cc, ok := cf.Cond.(*ssa.Call); ok {
						hasList, hasRepo := false, false
						for _, a := range cc.Call.Args {
							hasList = hasList || loadsField(a, "VCSs")
							hasRepo = hasRepo || loadsField(a, "VCS")
						}
						if hasList && hasRepo {
							guarded = "a membership test over the list and the repository decides"
						}
					}
				}
				c.S.Check(guarded != "", "R10", load.FuncName(f)+":primary repository appended to the list", c.pos(st.Pos()), "the primary repository joins the shared list only where "+guarded,
					"the primary repository (Context.VCS) is appended to the shared repository list (Context.VCSs) without the list having been found empty: after a second call, or when the list already names it, one repository is listed twice and receives the endorsement twice, each submission with its own retry budget")
			}
		}
	}
	c.S.Count("primary_repository_appends", n)
}
