package rules

import (
	"fmt"
	"go/constant"
	"go/token"
	"go/types"
	"sort"

	"golang.org/x/tools/go/ssa"

	"verif/checker/flow"
	"verif/checker/load"
)

// loopProgressRule (T15): every loop of the closure makes progress towards an exit.
//
//	(a) iterator loops: the header advances a range iterator (map / string / channel-free Next);
//	(b) counted loops: some integer header φ is strictly increased (or strictly decreased) by a positive constant
//	    on every back edge and takes part in a comparison that controls a loop exit;
//	(c) read loops: every back edge follows a call that consumes input and whose failure leaves the loop
//	    (handled by the C07 rule for the event-log reader, not here);
//	(d) sweep loops: a header φ is increased on some back edges and unchanged on others; each *unchanged* back
//	    edge must be dominated, inside the loop, by the guards listed by the caller (sweepGuards), which are the
//	    hand-confirmed reason why that iteration still consumed something.
//
// Anything else is recorded as unclassified (a note and a counter in evidence, no verdict): progress may rest on
// facts established in a helper, which this rule does not follow.
func (c *Ctx) loopProgressRule(rule string, fns []*ssa.Function, sweep func(f *ssa.Function, L *loop, phi *ssa.Phi, back *ssa.BasicBlock) (bool, string)) (nLoops, nSweep int) {
	nUnclassified := 0
	defer func() { c.S.Count("loops_unclassified", nUnclassified) }()
	for _, f := range fns {
		if c.isTestFunc(f) {
			continue
		}
		for _, L := range naturalLoops(f) {
			nLoops++
			name := load.FuncName(f) + ":loop@" + loopRole(L)
			pos := token.NoPos
			for _, in := range L.Header.Instrs {
				if in.Pos().IsValid() {
					pos = in.Pos()
					break
				}
			}
			if !pos.IsValid() {
				for b := range L.Body {
					for _, in := range b.Instrs {
						if in.Pos().IsValid() && (!pos.IsValid() || in.Pos() < pos) {
							pos = in.Pos()
						}
					}
				}
			}
			// (a) iterator
			iter := false
			for _, in := range L.Header.Instrs {
				if _, ok := in.(*ssa.Next); ok {
					iter = true
				}
			}
			if iter {
				c.S.OK(rule, name, c.pos(pos), "iterator loop (finite range)", false)
				continue
			}
			// candidate φs
			var decided bool
			var why string
			for _, in := range L.Header.Instrs {
				phi, ok := in.(*ssa.Phi)
				if !ok {
					break
				}
				b, isBasic := phi.Type().Underlying().(*types.Basic)
				if !isBasic || b.Info()&types.IsInteger == 0 {
					continue
				}
				if !controlsExit(L, phi) {
					continue
				}
				inc, same, other := 0, 0, 0
				var sameBacks []*ssa.BasicBlock
				for i, e := range phi.Edges {
					pred := L.Header.Preds[i]
					if !L.Body[pred] {
						continue // entry edge
					}
					switch stepKind(e, phi, 0) {
					case +1, -1:
						inc++
					case 0:
						same++
						sameBacks = append(sameBacks, pred)
					default:
						other++
					}
				}
				if other > 0 || inc == 0 {
					continue
				}
				if same == 0 {
					decided = true
					c.S.OK(rule, name, c.pos(pos), fmt.Sprintf("counted loop: %s moves strictly on all %d back edges and controls an exit", phi.Comment, inc), true)
					break
				}
				// sweep loop
				if sweep != nil {
					okAll := true
					for _, bk := range sameBacks {
						ok, w := sweep(f, L, phi, bk)
						if !ok {
							okAll = false
							why = w
						}
					}
					nSweep++
					decided = true
					c.S.Check(okAll, rule, name, c.pos(pos), fmt.Sprintf("sweep loop: %s advances on %d back edges; the %d back edges that keep it lie behind the progress guards", phi.Comment, inc, same),
						"a back edge of the loop keeps the cursor in place without the guards that make the iteration consume something: "+why+" (the loop may never end)")
					break
				}
			}
			if !decided {
				// (e) consumption loops: an integer φ compared in an exit test is decreased (or increased) on every
				// back edge by a non-constant amount d, and each back edge lies behind a check that d is positive
				// (d >= K, K > 0 — the false edge of d < K — or d != 0 / d > 0) for the same value d.
				for _, in := range L.Header.Instrs {
					phi, ok := in.(*ssa.Phi)
					if !ok {
						break
					}
					b, isBasic := phi.Type().Underlying().(*types.Basic)
					if !isBasic || b.Info()&types.IsInteger == 0 || !controlsExit(L, phi) {
						continue
					}
					all, n := true, 0
					unchecked := ""
					for i, e := range phi.Edges {
						pred := L.Header.Preds[i]
						if !L.Body[pred] {
							continue
						}
						n++
						bo, ok := e.(*ssa.BinOp)
						if !ok || (bo.Op != token.SUB && bo.Op != token.ADD) || bo.X != phi {
							all = false
							break
						}
						if !positiveOnPath(pred, bo.Y, L) {
							all = false
							// a decoded field used as the step with no positivity check in the loop is a finding;
							// an amount computed elsewhere (helper result, len of a helper's slice) is not decidable here
							if p := flow.PathOf(stripConv(bo.Y)); len(p.Fields) > 0 {
								unchecked = p.String()
							}
							break
						}
					}
					if all && n > 0 {
						decided = true
						c.S.OK(rule, name, c.pos(pos), fmt.Sprintf("consumption loop: %s changes on all %d back edges by an amount checked to be positive", phi.Comment, n), true)
						break
					}
					if unchecked != "" {
						decided = true
						c.S.Bad(rule, name, c.pos(pos), fmt.Sprintf("the loop variable %s moves by the decoded amount %s, which no check inside the loop makes positive: a zero amount repeats the same iteration for ever", phi.Comment, unchecked))
						break
					}
				}
			}
			if !decided {
				// (f) remainder loops over encoding/pem: the loop variable is the `rest` result of pem.Decode applied to
				// itself. pem.Decode returns its input unchanged when it finds no block, so the iteration consumed
				// something only if the block result is non-nil: every back edge must lie on that edge.
				for _, in := range L.Header.Instrs {
					phi, ok := in.(*ssa.Phi)
					if !ok {
						break
					}
					if _, isSlice := phi.Type().Underlying().(*types.Slice); !isSlice {
						continue
					}
					n, okAll := 0, true
					for i, e := range phi.Edges {
						pred := L.Header.Preds[i]
						if !L.Body[pred] {
							continue
						}
						ex, ok := e.(*ssa.Extract)
						if !ok || ex.Index != 1 {
							n = 0
							break
						}
						call, ok := ex.Tuple.(*ssa.Call)
						if !ok || call.Call.StaticCallee() == nil || call.Call.StaticCallee().String() != "encoding/pem.Decode" {
							n = 0
							break
						}
						n++
						nonNil := false
						for _, cf := range append(dominatingConds(pred), edgeCond(pred, L.Header)...) {
							bo, ok := cf.Cond.(*ssa.BinOp)
							if !ok || (bo.Op != token.NEQ && bo.Op != token.EQL) {
								continue
							}
							k, isK := bo.Y.(*ssa.Const)
							if !isK || !k.IsNil() {
								continue
							}
							bx, ok := bo.X.(*ssa.Extract)
							if !ok || bx.Tuple != ssa.Value(call) || bx.Index != 0 {
								continue
							}
							if (bo.Op == token.NEQ) == cf.Val {
								nonNil = true
							}
						}
						if !nonNil {
							okAll = false
						}
					}
					if n > 0 {
						decided = true
						c.S.Check(okAll, rule, name, c.pos(pos), "remainder loop over pem.Decode: goes round only where a block was found",
							"the loop replaces its input by the remainder pem.Decode returns and goes round where no block was found: pem.Decode then returns its input unchanged, so trailing non-PEM bytes repeat the iteration for ever")
						break
					}
				}
			}
			if !decided {
				// a shape none of the classes recognises: recorded, not an alarm (progress may rest on facts a
				// helper establishes, which this rule does not follow)
				nUnclassified++
				c.S.Note("%s %s at %s: loop shape not classified (no verdict on its progress)", rule, name, c.pos(pos))
			}
		}
	}
	return
}

// loopRole names a loop independent of line numbers: the callees invoked in its body (sorted, first three).
func loopRole(L *loop) string {
	seen := map[string]bool{}
	var names []string
	for b := range L.Body {
		for _, in := range b.Instrs {
			if call, ok := in.(ssa.CallInstruction); ok {
				n := callName(call)
				if !seen[n] {
					seen[n] = true
					names = append(names, n)
				}
			}
		}
	}
	sort.Strings(names)
	if len(names) > 3 {
		names = names[:3]
	}
	s := ""
	for i, n := range names {
		if i > 0 {
			s += ","
		}
		s += n
	}
	if s == "" {
		s = fmt.Sprintf("%d blocks", len(L.Body))
	}
	return s
}

// stepKind: +1 if v = phi + k (k>0) on every path, -1 if phi - k, 0 if v is phi itself, 2 otherwise.
func stepKind(v ssa.Value, phi *ssa.Phi, depth int) int {
	if depth > 6 {
		return 2
	}
	if v == phi {
		return 0
	}
	switch x := v.(type) {
	case *ssa.BinOp:
		k, isK := x.Y.(*ssa.Const)
		if !isK || k.Value == nil || k.Value.Kind() != constant.Int || constant.Sign(k.Value) <= 0 {
			if x.Op == token.ADD {
				if k2, ok := x.X.(*ssa.Const); ok && k2.Value != nil && k2.Value.Kind() == constant.Int && constant.Sign(k2.Value) > 0 && stepKind(x.Y, phi, depth+1) == 0 {
					return +1
				}
			}
			return 2
		}
		base := stepKind(x.X, phi, depth+1)
		switch x.Op {
		case token.ADD:
			if base == 0 || base == +1 {
				return +1
			}
		case token.SUB:
			if base == 0 || base == -1 {
				return -1
			}
		}
		return 2
	case *ssa.Phi:
		// merge inside the loop body: all operands must agree in direction, "same" allowed only if all same
		res := 3
		for _, e := range x.Edges {
			k := stepKind(e, phi, depth+1)
			if k == 2 {
				return 2
			}
			if res == 3 {
				res = k
			} else if res != k {
				// mixing "same" and "moved" inside one back edge: treat as same (not strictly moving)
				if (res == 0 && (k == 1 || k == -1)) || (k == 0 && (res == 1 || res == -1)) {
					res = 0
				} else {
					return 2
				}
			}
		}
		if res == 3 {
			return 2
		}
		return res
	}
	return 2
}

// controlsExit: some exit edge of L is taken on a comparison one operand of which is phi or phi±k.
func controlsExit(L *loop, phi *ssa.Phi) bool {
	for _, e := range L.exitEdges() {
		from := e[0]
		iff, ok := from.Instrs[len(from.Instrs)-1].(*ssa.If)
		if !ok {
			continue
		}
		bo, ok := iff.Cond.(*ssa.BinOp)
		if !ok {
			continue
		}
		switch bo.Op {
		case token.LSS, token.LEQ, token.GTR, token.GEQ, token.NEQ, token.EQL:
		default:
			continue
		}
		for _, op := range []ssa.Value{bo.X, bo.Y} {
			op = stripConv(op)
			if op == phi || stepKind(op, phi, 0) != 2 {
				return true
			}
		}
	}
	return false
}

// positiveOnPath: block b (inside loop L) is dominated by a condition establishing d > 0 for a value with the same
// access path as d (modulo integer conversions): false edge of d' < K / d' <= K' or true edge of d' >= K / d' > K'
// with the constant making d' positive, or d' != 0.
func positiveOnPath(b *ssa.BasicBlock, d ssa.Value, L *loop) bool {
	dp := flow.PathOf(stripConv(d))
	same := func(v ssa.Value) bool {
		v = stripConv(v)
		if v == stripConv(d) {
			return true
		}
		vp := flow.PathOf(v)
		return len(dp.Fields) > 0 && vp.Equal(dp)
	}
	kval := func(v ssa.Value) (int64, bool) {
		k, ok := v.(*ssa.Const)
		if !ok || k.Value == nil || k.Value.Kind() != constant.Int {
			return 0, false
		}
		n, exact := constant.Int64Val(k.Value)
		return n, exact
	}
	for _, cf := range append(dominatingConds(b), edgeCond(b, L.Header)...) {
		if !L.Body[cf.Block] {
			continue
		}
		for _, leaf := range condLeaves(cf.Cond, cf.Val) {
			bo, ok := leaf.Cond.(*ssa.BinOp)
			if !ok {
				continue
			}
			op, x, y := bo.Op, bo.X, bo.Y
			if _, isK := kval(x); isK { // constant on the left: mirror
				x, y = y, x
				switch op {
				case token.LSS:
					op = token.GTR
				case token.LEQ:
					op = token.GEQ
				case token.GTR:
					op = token.LSS
				case token.GEQ:
					op = token.LEQ
				}
			}
			k, isK := kval(y)
			if !isK || !same(x) {
				continue
			}
			switch {
			case op == token.LSS && !leaf.Val && k >= 1, // !(d < k)  ⇒ d >= k >= 1
				op == token.LEQ && !leaf.Val && k >= 0, // !(d <= k) ⇒ d > k >= 0
				op == token.GEQ && leaf.Val && k >= 1,
				op == token.GTR && leaf.Val && k >= 0,
				op == token.NEQ && leaf.Val && k == 0 && isUnsigned(x.Type()),
				op == token.EQL && !leaf.Val && k == 0 && isUnsigned(x.Type()):
				return true
			}
		}
	}
	return false
}

func isUnsigned(t types.Type) bool {
	b, ok := t.Underlying().(*types.Basic)
	return ok && b.Info()&types.IsUnsigned != 0
}

// condLeaves decomposes a condition known to have value val into leaf facts. go/ssa lowers a || b and a && b to
// control flow, so conditions are usually leaves already; a false edge of a block reached through several
// short-circuit tests is handled by dominatingConds listing each test.
func condLeaves(cond ssa.Value, val bool) []condFact {
	for {
		if u, ok := cond.(*ssa.UnOp); ok && u.Op == token.NOT {
			cond, val = u.X, !val
			continue
		}
		break
	}
	return []condFact{{Cond: cond, Val: val}}
}

// chunkScanRule (T18): a loop that walks a slice in steps of a constant k and leaves when `i+k < len(x)` fails stops
// one chunk early: when i+k == len(x) the last k bytes are never looked at (`<=`, or `i < len(x)`, covers them). The
// rule reports such a loop unless the counter is used behind the loop to deal with the rest of x. Returns the number
// of constant-step loops over a slice length that were examined.
func (c *Ctx) chunkScanRule(rule string, fns []*ssa.Function) int {
	n := 0
	for _, f := range fns {
		if f.Blocks == nil {
			continue
		}
		for _, L := range naturalLoops(f) {
			iff, ok := L.Header.Instrs[len(L.Header.Instrs)-1].(*ssa.If)
			if !ok {
				continue
			}
			bo, ok := iff.Cond.(*ssa.BinOp)
			if !ok || (bo.Op != token.LSS && bo.Op != token.LEQ) {
				continue
			}
			// right side: len(x) up to conversions
			y := bo.Y
			for i := 0; i < 4; i++ {
				if cv, ok := y.(*ssa.Convert); ok {
					y = cv.X
				}
			}
			lc, ok := y.(*ssa.Call)
			if !ok {
				continue
			}
			if bi, ok := lc.Call.Value.(*ssa.Builtin); !ok || bi.Name() != "len" {
				continue
			}
			coll := lc.Call.Args[0]
			if _, isSlice := coll.Type().Underlying().(*types.Slice); !isSlice {
				continue
			}
			// left side: the counter, or counter + k
			var cur *ssa.Phi
			var off int64
			switch x := bo.X.(type) {
			case *ssa.Phi:
				cur = x
			case *ssa.BinOp:
				if x.Op == token.ADD {
					if ph, ok := x.X.(*ssa.Phi); ok {
						if k, ok := constInt(x.Y); ok {
							cur, off = ph, k
						}
					} else if ph, ok := x.Y.(*ssa.Phi); ok {
						if k, ok := constInt(x.X); ok {
							cur, off = ph, k
						}
					}
				}
			}
			if cur == nil || cur.Block() != L.Header {
				continue
			}
			// constant step
			var step int64
			for _, e := range cur.Edges {
				if inc, ok := e.(*ssa.BinOp); ok && inc.Op == token.ADD && inc.X == ssa.Value(cur) {
					if k, ok := constInt(inc.Y); ok {
						step = k
					}
				}
			}
			if step <= 0 {
				continue
			}
			// the chunk looked at in the body starts at the counter itself (go/ssa's form of `for i := range x` tests
			// i+1 < len and then uses i+1: that is a different loop)
			usesCur := false
			for _, r := range nonDebugRefs(cur) {
				if !L.Body[r.Block()] {
					continue
				}
				switch u := r.(type) {
				case *ssa.IndexAddr:
					usesCur = usesCur || (u.Index == ssa.Value(cur) && u.X == coll)
				case *ssa.Index:
					usesCur = usesCur || (u.Index == ssa.Value(cur) && u.X == coll)
				case *ssa.Slice:
					usesCur = usesCur || (u.Low == ssa.Value(cur) && u.X == coll)
				}
			}
			if !usesCur {
				continue
			}
			n++
			construct := load.FuncName(f) + ":scan in steps of " + fmt.Sprint(step)
			if bo.Op == token.LEQ && off == step && step > 1 {
				// i+k <= len(x): every whole chunk is looked at; the len % k bytes behind the last whole chunk are not,
				// unless the counter is used behind the loop for them or the length is known to be a multiple of k
				tail := false
				var exit *ssa.BasicBlock
				for _, sb := range L.Header.Succs {
					if !L.Body[sb] {
						exit = sb
					}
				}
				for _, r := range nonDebugRefs(cur) {
					// behind the loop = dominated by the block the exit test leaves to (an error return from inside the
					// body that mentions the counter is not a treatment of the rest)
					if exit != nil && !L.Body[r.Block()] && exit.Dominates(r.Block()) {
						tail = true
					}
				}
				multiple := false
				if n0 := minLenExact(coll); n0 >= 0 && n0%step == 0 {
					multiple = true
				}
				for _, cf := range dominatingConds(L.Header) {
					if rb, ok := cf.Cond.(*ssa.BinOp); ok && (rb.Op == token.EQL || rb.Op == token.NEQ) {
						if rem, ok := stripConv(rb.X).(*ssa.BinOp); ok && rem.Op == token.REM {
							if a, ok := lenArg(stripConv(rem.X)); ok && sameColl(a, coll) {
								if k, ok := constInt(rem.Y); ok && k%step == 0 {
									if z, ok := constInt(rb.Y); ok && z == 0 && (rb.Op == token.EQL) == cf.Val {
										multiple = true
									}
								}
							}
						}
					}
				}
				c.S.Check(tail || multiple, rule, construct, c.pos(iff.Cond.Pos()), "whole chunks only, and the length is a multiple of the step (or the rest is handled behind the loop)",
					fmt.Sprintf("the loop looks at the slice in whole chunks of %d (i+%d <= len): the len %% %d bytes behind the last whole chunk are never examined, and nothing makes the length a multiple of %d or deals with the rest behind the loop", step, off, step, step))
				continue
			}
			if bo.Op != token.LSS || off != step {
				c.S.OK(rule, construct, c.pos(iff.Cond.Pos()), "the exit test covers the last chunk", false)
				continue
			}
			// i+k < len(x) with step k: is the rest handled behind the loop?
			tail := false
			for _, r := range nonDebugRefs(cur) {
				if !L.Body[r.Block()] {
					tail = true
				}
			}
			c.S.Check(tail, rule, construct, c.pos(iff.Cond.Pos()), "the rest behind the loop is handled with the counter", fmt.Sprintf("the loop walks the slice in steps of %d and stops when i+%d < len fails: when i+%d equals the length, the last %d bytes are never examined (the exit test should be <=)", step, off, off, step))
		}
	}
	return n
}

// partitionRemainderRule (T19): a quotient q = n / d that is used as a stride (multiplied by something other than d,
// as in w*q .. (w+1)*q for worker w) splits n items into d shares of q; the n % d items behind the last share are
// never visited unless the dividend turns up again in a remainder-handling role (n % d, n - x, a comparison with n, a
// min with n, or n used directly as a slice/loop bound next to the products). Multiplying back by the divisor itself
// (n / d * d) is rounding, not a partition, and is left alone. Returns the number of stride quotients examined.
func (c *Ctx) partitionRemainderRule(rule string, fns []*ssa.Function) int {
	n := 0
	perFn := map[*ssa.Function]int{}
	sameVal := func(a, b ssa.Value) bool {
		if a == b {
			return true
		}
		ka, okA := constInt(a)
		kb, okB := constInt(b)
		return okA && okB && ka == kb
	}
	for _, f := range fns {
		if f.Blocks == nil {
			continue
		}
		for _, b := range f.Blocks {
			for _, in := range b.Instrs {
				q, ok := in.(*ssa.BinOp)
				if !ok || q.Op != token.QUO {
					continue
				}
				if bt, ok := q.Type().Underlying().(*types.Basic); !ok || bt.Info()&types.IsInteger == 0 {
					continue
				}
				if _, isK := q.X.(*ssa.Const); isK {
					continue
				}
				stride := false
				for _, r := range nonDebugRefs(q) {
					if m, ok := r.(*ssa.BinOp); ok && m.Op == token.MUL {
						other := m.X
						if other == ssa.Value(q) {
							other = m.Y
						}
						if !sameVal(other, q.Y) {
							stride = true
						}
					}
				}
				if !stride {
					continue
				}
				n++
				perFn[f]++
				handled := false
				for _, r := range nonDebugRefs(q.X) {
					if r == ssa.Instruction(q) {
						continue
					}
					switch u := r.(type) {
					case *ssa.BinOp:
						switch u.Op {
						case token.REM, token.SUB, token.LSS, token.LEQ, token.GTR, token.GEQ, token.EQL, token.NEQ:
							handled = true
						case token.ADD:
							handled = handled || false
						}
					case *ssa.Slice, *ssa.Phi:
						handled = true
					case *ssa.Call:
						if bi, ok := u.Call.Value.(*ssa.Builtin); ok && (bi.Name() == "min" || bi.Name() == "max") {
							handled = true
						}
					}
				}
				// ceiling division: (n + d - 1) / d covers the remainder by construction
				if add, ok := q.X.(*ssa.BinOp); ok && (add.Op == token.ADD || add.Op == token.SUB) {
					handled = true
				}
				c.S.Check(handled, rule, fmt.Sprintf("%s:stride quotient %d", load.FuncName(f), perFn[f]), c.pos(q.Pos()), "the remainder of the division is dealt with", "the quotient is used as a stride (work split into equal shares) and the dividend is never looked at again: the items behind the last full share (dividend modulo divisor) are never processed")
			}
		}
	}
	return n
}

// minLenExact: the exact constant length of a slice made from an array or by a constant make / constant re-slice
// (-1 if not known).
func minLenExact(x ssa.Value) int64 {
	switch y := x.(type) {
	case *ssa.Slice:
		if pt, ok := y.X.Type().Underlying().(*types.Pointer); ok {
			if at, ok := pt.Elem().Underlying().(*types.Array); ok {
				lo, hi := int64(0), at.Len()
				if y.Low != nil {
					k, ok := constInt(y.Low)
					if !ok {
						return -1
					}
					lo = k
				}
				if y.High != nil {
					k, ok := constInt(y.High)
					if !ok {
						return -1
					}
					hi = k
				}
				return hi - lo
			}
		}
		if y.Low != nil && y.High != nil {
			lo, ok1 := constInt(y.Low)
			hi, ok2 := constInt(y.High)
			if ok1 && ok2 {
				return hi - lo
			}
		}
	case *ssa.MakeSlice:
		if k, ok := constInt(y.Len); ok {
			return k
		}
	}
	return -1
}

// inclusiveBoundRule (T27): a counted loop `for i := a; i <= b; i += k` over a fixed-width unsigned counter ends only
// if b is smaller than the largest value of the type minus k−1: for b at the top of the range the test is always true
// and the counter wraps to zero — the loop never ends. The rule reports such a loop (unsigned counter, inclusive test,
// constant positive step, non-constant bound) unless the bound is known below something at the loop head (a dominating
// <, <= or == on that very value). Returns the number of inclusive-bound loops examined.
func (c *Ctx) inclusiveBoundRule(rule string, fns []*ssa.Function) int {
	n := 0
	for _, f := range fns {
		if f.Blocks == nil {
			continue
		}
		k := 0
		for _, L := range naturalLoops(f) {
			iff, ok := L.Header.Instrs[len(L.Header.Instrs)-1].(*ssa.If)
			if !ok {
				continue
			}
			bo, ok := iff.Cond.(*ssa.BinOp)
			if !ok {
				continue
			}
			var ctr, bound ssa.Value
			switch bo.Op {
			case token.LEQ:
				ctr, bound = bo.X, bo.Y
			case token.GEQ:
				ctr, bound = bo.Y, bo.X
			default:
				continue
			}
			phi, ok := ctr.(*ssa.Phi)
			if !ok || phi.Block() != L.Header {
				continue
			}
			bt, ok := phi.Type().Underlying().(*types.Basic)
			if !ok || bt.Info()&types.IsUnsigned == 0 {
				continue
			}
			if _, isK := bound.(*ssa.Const); isK {
				continue
			}
			step := int64(0)
			for _, e := range phi.Edges {
				if inc, ok := e.(*ssa.BinOp); ok && inc.Op == token.ADD && inc.X == ssa.Value(phi) {
					if kk, ok := constInt(inc.Y); ok {
						step = kk
					}
				}
			}
			if step <= 0 {
				continue
			}
			n++
			k++
			c.S.Check(upperBoundedBefore(L.Header, bound), rule, fmt.Sprintf("%s:inclusive bound #%d of an unsigned counter", load.FuncName(f), k), c.pos(iff.Cond.Pos()), "the bound is known below something before the loop",
				fmt.Sprintf("the loop runs while an unsigned %s counter is <= a bound that nothing keeps away from the top of the type's range: for a bound within %d of the maximum the test is always true, the counter wraps to zero and the loop never ends", bt.Name(), step))
		}
	}
	c.S.Count("inclusive_bound_loops", n)
	return n
}
