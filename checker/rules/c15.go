package rules

import (
	"fmt"
	"go/constant"
	"go/token"
	"go/types"
	"sort"
	"strings"

	"golang.org/x/tools/go/ssa"

	"verif/checker/esp"
	"verif/checker/flow"
	"verif/checker/load"
)

func init() {
	register(&RuleSet{
		ID: "C15",
		Explanation: "R1 (ESP, flag-sensitive): from endorse.VirtualFirmware and endorse.RetrySubmit every invoke of a ChangeOps method and of VersionControl.GetChangeOps is reachable only in states where Context.DryRun is known false or the workspace value is known non-nil. " +
			"R2: every call of keys.FromContext and every invoke of a CertificateAuthority/Signer/VersionControl/ChangeOps method reachable from VirtualFirmware lies in states where MeasurementOnly is known false; GoldenMeasurement's call closure contains none of them. " +
			"R3: DryRun/MeasurementOnly are never stored to, and their address is taken only in package cmd, where it flows to nothing but the destination argument of pflag's BoolVar/BoolVarP (directly or through helpers of package cmd; never stored or handed to another flag's parser), which justifies treating all loads as one flag. " +
			"R4: what is printed under measurement-only and what SignDoc signs derive from one GoldenMeasurement call result. " +
			"R5: the dry_run / measurement_only flags are bound to the DryRun / MeasurementOnly fields of the very Context installed with endorse.NewContext. " +
			"R8: the endorse command's methods in package cmd and the functions of that package they reach make no direct file-system mutation (os.WriteFile, Create, OpenFile for writing, Mkdir*, Remove*, Rename …). " +
			"R9: in the measurement-only branch (the true side of the Context.MeasurementOnly test) every return is reached only through every technology guard of that branch (the tests of the golden measurement's SevSnp / Tdx sections): no path reports one technology and returns before the other is looked at. " +
			"R7: the printers of measurement-only mode look the per-count measurement map up only under the count the request names (or range over the map itself), never under a fixed table of counts. " +
			"R6: the mode flags do not shape what is measured and signed: no decision in GoldenMeasurement's call closure derives from DryRun/MeasurementOnly, and no store to a Context field that closure reads is conditional on a mode flag. " +
			"Not covered: equality of reported values as bytes; side effects inside VersionControl implementations' ReleasePath/Result (pure by interface contract).",
		Assumptions: []string{"go/types, go/ssa, VTA call graph", "VersionControl.ReleasePath/RetriableError/Result do not write files or commit (interface documentation)"},
		Run:         runC15,
	})
}

func boolFieldFlag(v ssa.Value, pkg, typ string, names ...string) (int, bool) {
	u, ok := v.(*ssa.UnOp)
	if !ok || u.Op != token.MUL {
		return 0, false
	}
	fa, ok := u.X.(*ssa.FieldAddr)
	if !ok {
		return 0, false
	}
	for i, n := range names {
		if flow.IsFieldLoad(u, pkg, typ, n) {
			_ = fa
			return i, true
		}
	}
	return 0, false
}

func runC15(c *Ctx) {
	c15EveryTechnologyReported(c)
	endorsePkg := repoPath("endorse")
	keysPkg := repoPath("keys")
	stypPkg := repoPath("sign/types")
	vf := c.fn("R0", "endorse", "VirtualFirmware")
	rs := c.fn("R0", "endorse", "RetrySubmit")
	gm := c.fn("R0", "endorse", "GoldenMeasurement")
	sd := c.fn("R0", "endorse", "SignDoc")
	kfc := c.fn("R0", "keys", "FromContext")
	if vf == nil || rs == nil || gm == nil || sd == nil || kfc == nil {
		return
	}
	copsMethods := map[string]bool{"WriteOrCreateFiles": true, "ReadFile": true, "SetBinaryWritable": true, "IsNotFound": true, "Destroy": true, "TryCommit": true}
	isCopsEffect := func(call ssa.CallInstruction) bool {
		cc := call.Common()
		return cc.IsInvoke() && copsMethods[cc.Method.Name()] && invokeIs(call, endorsePkg, "ChangeOps", cc.Method.Name())
	}
	isGetCops := func(call ssa.CallInstruction) bool {
		return invokeIs(call, endorsePkg, "VersionControl", "GetChangeOps")
	}
	isSigning := func(call ssa.CallInstruction) bool {
		cc := call.Common()
		if cc.StaticCallee() == kfc {
			return true
		}
		if !cc.IsInvoke() {
			return false
		}
		n := cc.Method.Name()
		return invokeIs(call, stypPkg, "CertificateAuthority", n) || invokeIs(call, stypPkg, "Signer", n) ||
			invokeIs(call, endorsePkg, "VersionControl", n) || invokeIs(call, endorsePkg, "ChangeOps", n)
	}
	flag := func(v ssa.Value) (int, bool) {
		return boolFieldFlag(v, endorsePkg, "Context", "DryRun", "MeasurementOnly")
	}

	// ---- R1 / R2 (ESP) ----
	for _, spec := range []struct {
		rule  string
		roots []*ssa.Function
		ev    func(ssa.CallInstruction) bool
		flag  int
		fname string
		floor int
	}{
		{"R1", []*ssa.Function{vf, rs}, func(call ssa.CallInstruction) bool { return isCopsEffect(call) || isGetCops(call) }, 0, "DryRun", 6},
		{"R2", []*ssa.Function{vf}, isSigning, 1, "MeasurementOnly", 4},
	} {
		spec := spec
		relevant := c.relevantSet(func(in ssa.Instruction) bool {
			call, ok := in.(ssa.CallInstruction)
			return ok && spec.ev(call)
		})
		reached := map[ssa.Instruction]bool{}
		r := &esp.Rule{Name: "C15." + spec.rule, Flag: flag, GoAsCall: true}
		workspaceCell(r, 6) // a workspace kept in a field of an attempt record (nil under dry-run) // the flags never change after parsing (R3): a goroutine started here sees them as the spawn point does
		r.Relevant = func(f *ssa.Function) bool { return relevant[f] }
		r.Match = func(in ssa.Instruction) []esp.Ev {
			call, ok := in.(ssa.CallInstruction)
			if !ok || !spec.ev(call) {
				return nil
			}
			return []esp.Ev{{ID: 0, Name: "effect " + callName(call), ErrIdx: -1, BoolIdx: -1}}
		}
		r.Step = func(x *esp.Ctx, s esp.State, ev esp.Ev, ph esp.Phase) (esp.State, string) {
			if ph != esp.AtCall {
				return s, ""
			}
			reached[x.Instr] = true
			if s.Flag(spec.flag) == esp.Zero {
				return s, ""
			}
			call := x.Instr.(ssa.CallInstruction)
			if spec.rule == "R1" && call.Common().IsInvoke() && isCopsEffect(call) && x.Eval(call.Common().Value) == esp.NonZero {
				return s, ""
			}
			kn := "unknown"
			if s.Flag(spec.flag) == esp.NonZero {
				kn = "TRUE"
			}
			return s, fmt.Sprintf("%s: %s reachable with %s %s", spec.rule, callName(call), spec.fname, kn)
		}
		total := 0
		for _, root := range spec.roots {
			e := c.engine(r)
			e.Run(root, esp.State{})
			n := c.reportEngine(e, spec.rule, func(v *esp.Violation) string {
				return load.FuncName(v.Fn) + ":" + callNameAt(v, c)
			})
			total += n
			c.S.Note("%s from %s: %d configurations, %d effect sites reached, %d violations", spec.rule, load.FuncName(root), e.Configs, len(reached), n)
		}
		c.S.Floor(spec.rule, "effect call sites reached", spec.floor, len(reached))
		if total == 0 {
			c.S.OK(spec.rule, "endorse.VirtualFirmware", c.pos(vf.Pos()), fmt.Sprintf("all %d reached effect sites lie behind %s=false", len(reached), spec.fname), true)
		}
	}

	// R2b: GoldenMeasurement's closure contains no signing/VCS call at all.
	gmClosure := c.reachable([]*ssa.Function{gm}, nil)
	bad := 0
	for f := range gmClosure {
		for _, call := range callsIn(f, isSigning) {
			bad++
			c.S.Bad("R2b", "endorse.GoldenMeasurement→"+load.FuncName(f)+":"+callName(call), c.pos(call.Pos()), "measurement computation reaches a key/CA/VCS operation")
		}
	}
	if bad == 0 {
		c.S.OK("R2b", "endorse.GoldenMeasurement", c.pos(gm.Pos()), fmt.Sprintf("no key/CA/VCS call in its closure of %d repo functions", len(gmClosure)), true)
	}

	// ---- R3: flags are immutable outside flag registration ----
	stores, addrTaken := 0, 0
	for _, f := range c.P.RepoFunctions() {
		for _, b := range f.Blocks {
			for _, in := range b.Instrs {
				fa, ok := in.(*ssa.FieldAddr)
				if !ok {
					continue
				}
				isDry := flow.IsFieldLoad(fa, endorsePkg, "Context", "DryRun")
				isMO := flow.IsFieldLoad(fa, endorsePkg, "Context", "MeasurementOnly")
				if !isDry && !isMO {
					continue
				}
				for _, ref := range *fa.Referrers() {
					switch ref := ref.(type) {
					case *ssa.UnOp:
						// load
					case *ssa.Store:
						if ref.Addr == fa {
							// zero-initialisation of a composite literal is fine
							if k, ok := ref.Val.(*ssa.Const); ok && k.Value != nil && k.Value.Kind() == constant.Bool && !constant.BoolVal(k.Value) {
								continue
							}
							if c.isTestFunc(f) || isTestingPkg(load.RelPkg(f)) {
								continue
							}
							stores++
							c.S.Bad("R3", load.FuncName(f)+":store "+flow.FieldName(fa), c.pos(ref.Pos()), "the flag is written outside flag registration; the one-flag abstraction of R1/R2 would be unsound")
						}
					default:
						addrTaken++
						if load.RelPkg(f) != "cmd" && !c.isTestFunc(f) {
							c.S.Bad("R3", load.FuncName(f)+":address "+flow.FieldName(fa), c.pos(fa.Pos()), "address of the flag escapes outside package cmd")
							stores++
						} else if !c.isTestFunc(f) {
							// in package cmd the address goes to the flag library's boolean binding and nowhere else: nothing
							// keeps the pointer to write the flag from another flag's parser or after parsing
							if why, pos := onlyBoundAsBoolFlag(fa, ref, 0); why != "" {
								c.S.Bad("R3", load.FuncName(f)+":address "+flow.FieldName(fa)+" retained", c.pos(pos), "the address of the flag "+why+": something other than the flag library's own boolean binding can write it")
								stores++
							}
						}
					}
				}
			}
		}
	}
	if stores == 0 {
		c.S.OK("R3", "endorse.Context.{DryRun,MeasurementOnly}", "", fmt.Sprintf("no store in production code; address taken %d times, all in package cmd", addrTaken), true)
	}

	// ---- R4: printed values and signed document share one GoldenMeasurement result ----
	// Over VirtualFirmware and the unexported helpers it may be split into: exactly one
	// GoldenMeasurement computation, and every function of the package that is handed golden-measurement
	// content (the printers of measurement-only mode, SignDoc) gets it from that computation.
	sl := flow.NewSlicer(c.P)
	sl.LiftParams = 3
	vfRegion := unexportedRegion(vf)
	var gmCalls []ssa.Value
	for _, rf := range vfRegion {
		for _, call := range callsIn(rf, func(call ssa.CallInstruction) bool { return call.Common().StaticCallee() == gm }) {
			gmCalls = append(gmCalls, call.Value())
		}
	}
	c.S.Floor("R4", "GoldenMeasurement calls in VirtualFirmware", 1, len(gmCalls))
	if len(gmCalls) == 1 {
		fromGM := func(v ssa.Value) bool { return v == gmCalls[0] }
		inRegion := map[*ssa.Function]bool{}
		for _, rf := range vfRegion {
			inRegion[rf] = true
		}
		n := 0
		for _, rf := range vfRegion {
			for _, call := range callsIn(rf, func(call ssa.CallInstruction) bool {
				f := call.Common().StaticCallee()
				return f != nil && (f == sd || (load.RelPkg(f) == "endorse" && f != gm && takesGolden(f)))
			}) {
				f := call.Common().StaticCallee()
				ok := false
				for _, a := range call.Common().Args {
					if isGoldenType(a.Type()) && sl.Derives(a, fromGM) {
						ok = true
					}
				}
				n++
				c.S.Check(ok, "R4", load.FuncName(rf)+"→"+f.Name(), c.pos(call.Pos()), "argument derives from the single GoldenMeasurement result", "measurement content handed to "+f.Name()+" does not derive from the GoldenMeasurement result of this run: what is reported can differ from what a real run signs")
			}
		}
		c.S.Floor("R4", "consumers of the golden measurement in VirtualFirmware", 2, n)
	} else if len(gmCalls) > 1 {
		c.S.Bad("R4", "endorse.VirtualFirmware", c.pos(vf.Pos()), "more than one GoldenMeasurement computation: printed and signed values may differ")
	}

	// ---- R7: the printers of measurement-only mode report what is in the document ----
	// A function of package endorse that is handed golden-measurement content (other than SignDoc) and prints reads
	// the per-count measurement map either by ranging over the map itself or by looking up the count the request
	// names (a field of the request, LaunchVmsas): a lookup keyed by anything else — a fixed table of supported
	// counts — skips the entries the table does not know, and the run reports fewer measurements than a real run signs.
	{
		nLook := 0
		for _, f := range c.P.RepoFunctions() {
			if load.RelPkg(f) != "endorse" || c.isTestFunc(f) || f.Blocks == nil || f == sd || f == gm || !takesGolden(f) {
				continue
			}
			prints := len(callsIn(f, func(call ssa.CallInstruction) bool {
				g := call.Common().StaticCallee()
				return g != nil && g.Pkg != nil && g.Pkg.Pkg.Path() == "fmt" && (strings.HasPrefix(g.Name(), "Print") || strings.HasPrefix(g.Name(), "Fprint"))
			})) > 0
			if !prints {
				continue
			}
			for _, b := range f.Blocks {
				for _, in := range b.Instrs {
					if rg, isRange := in.(*ssa.Range); isRange {
						if _, isMap := rg.X.Type().Underlying().(*types.Map); isMap && sl.Derives(rg.X, func(v ssa.Value) bool { return isGoldenType(v.Type()) }) {
							nLook++ // ranging over the map reports every entry
						}
						continue
					}
					lk, ok := in.(*ssa.Lookup)
					if !ok {
						continue
					}
					if _, isMap := lk.X.Type().Underlying().(*types.Map); !isMap {
						continue
					}
					if !sl.Derives(lk.X, func(v ssa.Value) bool { return isGoldenType(v.Type()) }) {
						continue
					}
					nLook++
					fromRequest := sl.Derives(lk.Index, func(v ssa.Value) bool {
						u, ok := v.(*ssa.UnOp)
						if !ok || u.Op != token.MUL {
							return false
						}
						fa, ok := u.X.(*ssa.FieldAddr)
						return ok && flow.FieldName(fa) == "LaunchVmsas"
					})
					fromRange := sl.Derives(lk.Index, func(v ssa.Value) bool {
						ex, ok := v.(*ssa.Extract)
						if !ok {
							return false
						}
						nx, ok := ex.Tuple.(*ssa.Next)
						if !ok {
							return false
						}
						rg, ok := nx.Iter.(*ssa.Range)
						return ok && sl.Derives(rg.X, func(w ssa.Value) bool { return isGoldenType(w.Type()) })
					})
					c.S.Check(fromRequest || fromRange, "R7", load.FuncName(f)+":measurement lookup", c.pos(lk.Pos()), "keyed by the request's own count (or a key of the map itself)", "the printer looks a measurement up under a key that is neither the count the request names nor a key of the map: entries outside that key set (a count the fixed table does not list) are signed by a real run and not reported by a measurement-only run")
				}
			}
		}
		c.S.Floor("R7", "measurement map reads (lookups, ranges) in the printers of package endorse", 1, nLook)
	}

	// ---- R8: the command layer writes no file of its own ----
	// Everything the endorse command persists goes through VersionControl / ChangeOps, which R1 gates. The methods of
	// the endorse command in package cmd and the functions of that package they reach make no direct file-system
	// mutation (os.WriteFile, Create, OpenFile for writing, Mkdir*, Remove*, Rename, Chmod, Truncate, Symlink, Link):
	// such a write would happen in every mode, whatever DryRun / MeasurementOnly say. Expected count zero; canary
	// mutant C15-cmd-writes-sidecar.
	{
		// the endorse command: the receiver type(s) of package cmd one of whose methods installs the endorse context
		cmdTypes := map[*types.TypeName]bool{}
		newCtx := c.P.Func("endorse", "NewContext")
		for _, f := range c.P.RepoFunctions() {
			if load.RelPkg(f) != "cmd" || c.isTestFunc(f) || f.Signature.Recv() == nil || newCtx == nil {
				continue
			}
			if len(callsIn(f, func(call ssa.CallInstruction) bool { return call.Common().StaticCallee() == newCtx })) == 0 {
				continue
			}
			rt := f.Signature.Recv().Type()
			if p, ok := rt.(*types.Pointer); ok {
				rt = p.Elem()
			}
			if n, ok := rt.(*types.Named); ok {
				cmdTypes[n.Obj()] = true
			}
		}
		var roots []*ssa.Function
		for _, f := range c.P.RepoFunctions() {
			if load.RelPkg(f) != "cmd" || c.isTestFunc(f) || f.Signature.Recv() == nil {
				continue
			}
			rt := f.Signature.Recv().Type()
			if p, ok := rt.(*types.Pointer); ok {
				rt = p.Elem()
			}
			if n, ok := rt.(*types.Named); ok && cmdTypes[n.Obj()] {
				roots = append(roots, f)
			}
		}
		c.S.Floor("R8", "methods of the endorse command in package cmd", 3, len(roots))
		clo := c.reachable(roots, func(f *ssa.Function) bool { return load.FuncInRepo(f) && load.RelPkg(f) == "cmd" && !c.isTestFunc(f) })
		nBad := 0
		for g := range clo {
			for _, call := range callsIn(g, func(call ssa.CallInstruction) bool {
				cal := call.Common().StaticCallee()
				if cal == nil || cal.Pkg == nil || cal.Pkg.Pkg.Path() != "os" {
					return false
				}
				switch cal.Name() {
				case "WriteFile", "Create", "CreateTemp", "Mkdir", "MkdirAll", "MkdirTemp", "Remove", "RemoveAll", "Rename", "Chmod", "Chown", "Truncate", "Symlink", "Link":
					return true
				case "OpenFile":
					if k, ok := call.Common().Args[1].(*ssa.Const); ok && k.Value != nil {
						oW, ok1 := c.extConstInt("os", "O_WRONLY")
						oRW, ok2 := c.extConstInt("os", "O_RDWR")
						return !(ok1 && ok2) || k.Int64()&(oW|oRW) != 0
					}
					return true
				}
				return false
			}) {
				nBad++
				c.S.Bad("R8", load.FuncName(g)+":direct file-system write "+callName(call), c.pos(call.Pos()), "the endorse command layer writes to the file system directly ("+callName(call)+"): the write is outside the VersionControl / ChangeOps path that the mode flags gate, so a dry or measurement-only run can leave files behind")
			}
		}
		if nBad == 0 {
			c.S.OK("R8", "cmd:endorse command layer makes no direct file-system write", "", fmt.Sprintf("%d functions of package cmd reached from the endorse command", len(clo)), true)
		}
	}

	// ---- R5: flag wiring ----
	for _, fl := range []struct{ flagName, field string }{{"dry_run", "DryRun"}, {"measurement_only", "MeasurementOnly"}} {
		sites := 0
		for _, f := range c.P.RepoFunctions() {
			if load.RelPkg(f) != "cmd" || c.isTestFunc(f) {
				continue
			}
			for _, call := range callsIn(f, func(call ssa.CallInstruction) bool {
				cal := call.Common().StaticCallee()
				if cal == nil || cal.Name() != "BoolVar" || len(call.Common().Args) < 3 {
					return false
				}
				k, ok := call.Common().Args[2].(*ssa.Const)
				return ok && k.Value != nil && k.Value.Kind() == constant.String && constant.StringVal(k.Value) == fl.flagName
			}) {
				sites++
				lsl := flow.NewSlicer(c.P)
				lsl.LiftParams = 2
				var bases []*ssa.FieldAddr
				lsl.Visit(call.Common().Args[1], func(v ssa.Value) bool {
					if fa, ok := v.(*ssa.FieldAddr); ok && flow.IsFieldLoad(fa, endorsePkg, "Context", fl.field) {
						bases = append(bases, fa)
						return false
					}
					return true
				}, nil)
				ok := false
				for _, fa := range bases {
					for _, nc := range callsIn(fa.Parent(), func(call ssa.CallInstruction) bool {
						cal := call.Common().StaticCallee()
						return cal != nil && cal.Name() == "NewContext" && load.RelPkg(cal) == "endorse"
					}) {
						if len(nc.Common().Args) >= 2 && nc.Common().Args[1] == fa.X {
							ok = true
						}
					}
				}
				c.S.Check(ok, "R5", "cmd:"+fl.flagName, c.pos(call.Pos()), "bound to "+fl.field+" of the Context installed with endorse.NewContext", "flag is not bound to Context."+fl.field+" of the installed endorse.Context")
			}
		}
		c.S.Floor("R5", "registration of flag "+fl.flagName, 1, sites)
	}
	_ = keysPkg

	// ---- R6: the mode flags do not shape what is measured and signed ----
	// (a) no decision inside GoldenMeasurement's call closure depends on DryRun/MeasurementOnly; (b) the Context
	// fields that closure reads are filled in the same way in every mode: no store to one of them lies under a
	// condition that derives from a mode flag.
	if gm != nil {
		isMode := func(x ssa.Value) bool {
			return flow.IsFieldLoad(x, endorsePkg, "Context", "DryRun") || flow.IsFieldLoad(x, endorsePkg, "Context", "MeasurementOnly")
		}
		msl := flow.NewSlicer(c.P)
		closure := c.reachable([]*ssa.Function{gm}, nil)
		inputs := map[string]bool{}
		conds, modal := 0, 0
		for f := range closure {
			if c.isTestFunc(f) {
				continue
			}
			for _, b := range f.Blocks {
				for _, in := range b.Instrs {
					switch x := in.(type) {
					case *ssa.FieldAddr:
						if pt, ok := x.X.Type().Underlying().(*types.Pointer); ok && namedIs(pt.Elem(), endorsePkg, "Context") {
							inputs[flow.FieldName(x)] = true
						}
					case *ssa.If:
						conds++
						if msl.Derives(x.Cond, isMode) {
							modal++
							c.S.Bad("R6", load.FuncName(f)+":decision on a mode flag", c.pos(condPos(x)), "a decision inside the golden measurement's computation depends on DryRun/MeasurementOnly: a dry or measurement-only run would report other measurements than the real run signs")
						}
					}
				}
			}
		}
		delete(inputs, "DryRun")
		delete(inputs, "MeasurementOnly")
		c.S.Floor("R6", "decisions in GoldenMeasurement's call closure", 20, conds)
		c.S.Floor("R6", "Context fields read by GoldenMeasurement's call closure", 3, len(inputs))
		if modal == 0 {
			c.S.OK("R6", "endorse.GoldenMeasurement:mode-free", c.pos(gm.Pos()), fmt.Sprintf("none of %d decisions in %d functions derives from a mode flag", conds, len(closure)), true)
		}
		stores := 0
		for _, f := range c.P.RepoFunctions() {
			if c.isTestFunc(f) {
				continue
			}
			for _, b := range f.Blocks {
				for _, in := range b.Instrs {
					st, ok := in.(*ssa.Store)
					if !ok {
						continue
					}
					fa, ok := st.Addr.(*ssa.FieldAddr)
					if !ok {
						continue
					}
					pt, ok := fa.X.Type().Underlying().(*types.Pointer)
					if !ok || !namedIs(pt.Elem(), endorsePkg, "Context") || !inputs[flow.FieldName(fa)] {
						continue
					}
					stores++
					bad := false
					for _, cf := range dominatingConds(b) {
						if msl.Derives(cf.Cond, isMode) {
							bad = true
						}
					}
					c.S.Check(!bad, "R6", load.FuncName(f)+":Context."+flow.FieldName(fa)+" filled in every mode", c.pos(st.Pos()), "the store is under no condition on a mode flag", "Context."+flow.FieldName(fa)+" feeds the golden measurement and is filled only in some modes (the store is conditional on DryRun/MeasurementOnly): the measurements reported by a dry or measurement-only run differ from what the real run signs")
				}
			}
		}
		c.S.Floor("R6", "stores to Context fields that feed the golden measurement", 3, stores)
	}
}

func condPos(i *ssa.If) token.Pos {
	if i.Cond.Pos().IsValid() {
		return i.Cond.Pos()
	}
	return i.Block().Parent().Pos()
}

// onlyBoundAsBoolFlag follows a pointer to a flag field forwards from one use: it may be the destination argument of
// pflag's BoolVar/BoolVarP, or an argument of a function of package cmd whose parameter is used in the same way.
// It returns why not (empty = fine) and where.
func onlyBoundAsBoolFlag(p ssa.Value, use ssa.Instruction, depth int) (string, token.Pos) {
	switch u := use.(type) {
	case *ssa.UnOp, *ssa.DebugRef:
		return "", 0
	case *ssa.Store:
		if u.Val == p {
			return "is stored in memory", u.Pos()
		}
		return "is written through", u.Pos()
	case ssa.CallInstruction:
		cal := u.Common().StaticCallee()
		if cal == nil {
			return "is passed to a dynamically dispatched call", u.Pos()
		}
		idx := -1
		for i, a := range u.Common().Args {
			if a == p {
				idx = i
			}
		}
		if idx < 0 {
			return "is used as a call target", u.Pos()
		}
		if cal.Pkg != nil && cal.Pkg.Pkg.Path() == "github.com/spf13/pflag" && (cal.Name() == "BoolVar" || cal.Name() == "BoolVarP") && idx == 1 {
			return "", 0
		}
		if load.RelPkg(cal) == "cmd" && depth < 3 && idx < len(cal.Params) && cal.Blocks != nil {
			par := cal.Params[idx]
			for _, r := range *par.Referrers() {
				if why, pos := onlyBoundAsBoolFlag(par, r, depth+1); why != "" {
					return why + " (through " + cal.Name() + ")", pos
				}
			}
			return "", 0
		}
		return "is passed to " + cal.Name(), u.Pos()
	}
	return fmt.Sprintf("is used by %T", use), use.Pos()
}

func callName(call ssa.CallInstruction) string {
	cc := call.Common()
	if cc.IsInvoke() {
		return typeShort(cc.Value.Type()) + "." + cc.Method.Name()
	}
	if f := cc.StaticCallee(); f != nil {
		return load.FuncName(f)
	}
	return "dynamic call"
}

func typeShort(t types.Type) string {
	return types.TypeString(t, func(p *types.Package) string { return p.Name() })
}

func callNameAt(v *esp.Violation, c *Ctx) string {
	// the violation message carries the call name after "Rn: "
	msg := v.Msg
	if i := indexOf(msg, ": "); i >= 0 {
		msg = msg[i+2:]
	}
	if i := indexOf(msg, " reachable"); i >= 0 {
		msg = msg[:i]
	}
	return msg
}

func indexOf(s, sub string) int {
	for i := 0; i+len(sub) <= len(s); i++ {
		if s[i:i+len(sub)] == sub {
			return i
		}
	}
	return -1
}

func isGoldenType(t types.Type) bool {
	for _, n := range []string{"VMGoldenMeasurement", "VMSevSnp", "VMTdx"} {
		if namedIs(t, repoPath("proto/endorsement"), n) {
			return true
		}
	}
	return false
}

func takesGolden(f *ssa.Function) bool {
	for _, p := range f.Params {
		if isGoldenType(p.Type()) {
			return true
		}
	}
	return false
}

// c15EveryTechnologyReported is R9: a measurement-only run reports what a real run would sign — for every technology
// in the document. In the function that branches on Context.MeasurementOnly, the blocks dominated by the true edge form
// the reporting region; the technology guards are the tests `<golden>.X != nil` in it (X a pointer-typed section of the
// golden measurement message). Every return in the region must have every guard on all its paths from the region's
// entry (a reachability test with the guard block removed).
func c15EveryTechnologyReported(c *Ctx) {
	endorsePkg := repoPath("endorse")
	epbPkg := repoPath("proto/endorsement")
	n := 0
	type regionT struct {
		f       *ssa.Function
		blocks  map[*ssa.BasicBlock]bool
		entries []*ssa.BasicBlock
	}
	var regions []regionT
	seenFn := map[*ssa.Function]bool{}
	for _, f := range c.P.RepoFunctions() {
		if load.RelPkg(f) != "endorse" || c.isTestFunc(f) || f.Blocks == nil {
			continue
		}
		blocks := map[*ssa.BasicBlock]bool{}
		for _, b := range f.Blocks {
			for _, cf := range dominatingConds(b) {
				if _, ok := boolFieldFlag(cf.Cond, endorsePkg, "Context", "MeasurementOnly"); ok && cf.Val {
					blocks[b] = true
				}
			}
		}
		if len(blocks) == 0 {
			continue
		}
		r := regionT{f: f, blocks: blocks}
		for b := range blocks {
			if id := b.Idom(); id == nil || !blocks[id] {
				r.entries = append(r.entries, b)
			}
		}
		regions = append(regions, r)
		// a same-package helper the branch hands the document to is part of the reporting code
		for b := range blocks {
			for _, in := range b.Instrs {
				call, ok := in.(ssa.CallInstruction)
				if !ok {
					continue
				}
				g := call.Common().StaticCallee()
				if g == nil || g.Blocks == nil || load.RelPkg(g) != "endorse" || seenFn[g] {
					continue
				}
				takes := false
				for _, p := range g.Params {
					if namedIs(p.Type(), epbPkg, "VMGoldenMeasurement") {
						takes = true
					}
				}
				if !takes {
					continue
				}
				seenFn[g] = true
				gr := regionT{f: g, blocks: map[*ssa.BasicBlock]bool{}, entries: []*ssa.BasicBlock{g.Blocks[0]}}
				for _, gb := range g.Blocks {
					gr.blocks[gb] = true
				}
				regions = append(regions, gr)
			}
		}
	}
	sort.Slice(regions, func(i, j int) bool { return regions[i].f.Pos() < regions[j].f.Pos() })
	for _, r := range regions {
		f, region := r.f, r.blocks
		type guard struct {
			b    *ssa.BasicBlock
			name string
		}
		var guards []guard
		for b := range region {
			gi, ok := b.Instrs[len(b.Instrs)-1].(*ssa.If)
			if !ok {
				continue
			}
			bo, ok := gi.Cond.(*ssa.BinOp)
			if !ok || (bo.Op != token.NEQ && bo.Op != token.EQL) || !isNilK(bo.Y) {
				continue
			}
			ld, ok := bo.X.(*ssa.UnOp)
			if !ok || ld.Op != token.MUL {
				continue
			}
			fa, ok := ld.X.(*ssa.FieldAddr)
			if !ok || !namedIs(fa.X.Type(), epbPkg, "VMGoldenMeasurement") {
				continue
			}
			guards = append(guards, guard{b, flow.FieldName(fa)})
		}
		sort.Slice(guards, func(i, j int) bool { return guards[i].b.Index < guards[j].b.Index })
		for _, g := range guards {
			n++
			// returns of the region reachable from its entry without passing g
			seen := map[*ssa.BasicBlock]bool{g.b: true}
			var skipped []string
			var walk func(b *ssa.BasicBlock)
			walk = func(b *ssa.BasicBlock) {
				if seen[b] || !region[b] {
					return
				}
				seen[b] = true
				if ret, ok := b.Instrs[len(b.Instrs)-1].(*ssa.Return); ok {
					if len(ret.Results) == 0 || isNilK(ret.Results[len(ret.Results)-1]) {
						skipped = append(skipped, c.pos(lastPos(b)))
					}
					return
				}
				for _, s := range b.Succs {
					walk(s)
				}
			}
			for _, e := range r.entries {
				walk(e)
			}
			sort.Strings(skipped)
			c.S.Check(len(skipped) == 0, "R9", load.FuncName(f)+":measurement-only reaches the "+g.name+" section", c.pos(lastPos(g.b)), "every successful return of the measurement-only code lies behind the test of this section",
				"the measurement-only code can return successfully (at "+strings.Join(skipped, ", ")+") without having looked at the "+g.name+" section of the document: its measurements are signed by a real run and not reported by a measurement-only run")
		}
	}
	c.S.Floor("R9", "technology guards in the measurement-only code", 2, n)
}
