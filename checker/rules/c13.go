package rules

import (
	"fmt"
	"go/constant"
	"go/token"
	"go/types"
	"strings"

	"golang.org/x/tools/go/ssa"

	"verif/checker/esp"
	"verif/checker/flow"
	"verif/checker/load"
)

func init() {
	register(&RuleSet{
		ID: "C13",
		Explanation: "R9 wherever package endorse compares two strings that both derive from a manifest entry's Digest, either both went through hex.EncodeToString or neither did (a key in one representation never equals a key in the other, so the comparison silently never matches and stale entries stay in the manifest); parameters are followed to the arguments of their call sites. " +
			"R1 (ESP): every ChangeOps.WriteOrCreateFiles call whose file contents are a marshalled VMLaunchEndorsement is reachable only in states where an existence probe of the workspace (a function of package endorse returning (bool, error) that invokes ChangeOps.ReadFile) returned false or output.AllowOverwrite returned true. " +
			"R2 (slice): where a VMEndorsementMap_Entry is built, Path and the written file path share one basename origin (the gate's result) and Digest derives from sha512.Sum384 of Context.Image. " +
			"R3 (ESP): the manifest write (file path derived from endorse.ManifestFile) happens only after an endorsement write succeeded; the marshalled map is the object the manifest was parsed into. " +
			"R4 (CFG): in the function that merges the new entry into the manifest list, no call that drops entries keyed by the new entry's digest or path is reachable after that digest/path was placed in the list (the fresh entry would be dropped with the stale one). " +
			"R6 (= C14.R6/R6b) the manifest parsed, extended and written back comes from this attempt's workspace and lives in an object allocated during the attempt. " +
			"R3c the manifest bytes handed to the workspace are prototext.Marshal's output with constant framing only (append / conversion / slicing); no other function is applied to them. " +
			"R5 every in-repo implementation of ChangeOps.WriteOrCreateFiles replaces a file's contents wholly (os.WriteFile / os.Create, or os.OpenFile with O_TRUNC and without O_APPEND), so a rewritten manifest or endorsement that got shorter keeps no stale tail. " +
			"R8 (= C14.R8) no workspace function returns nil after a failed read that was not found to be 'not found' (the existence probe of the overwrite gate included). " +
			"R7 (ESP) ChangeOps.TryCommit is never reached in a state where an endorsement file was written under the output directory (a call whose callee reaches an endorsement write and whose path argument derives from Context.OutDir) in the current workspace and no manifest write succeeded after it: the committed manifest maps the run's digest to the file the run wrote. " +
			"Not covered: the four-way merge preserving path/digest uniqueness over histories (a relational invariant over list contents), that the manifest parses back.",
		Assumptions: []string{"go/types, go/ssa, VTA call graph", "ChangeOps.ReadFile / IsNotFound faithfully report existence"},
		Run:         runC13,
	})
}

func runC13(c *Ctx) {
	c13DigestKeysAgree(c)
	// R6 = C14.R6/R6b: the manifest that is extended and written back is the one read from this attempt's workspace
	// into an object allocated during the attempt (a stale view drops entries committed in between).
	c.borrow("R6/C14.", runC14, func(rule, _ string) bool { return rule == "R6" || rule == "R6b" })
	// R8 = C14.R8: the existence probe behind the overwrite gate (and the manifest read) does not take a failed read
	// for an absent file: a probe that answers "absent" on a read error opens the gate over an existing endorsement.
	c.borrow("R8/C14.", runC14, func(rule, _ string) bool { return rule == "R8" })
	endorsePkg := repoPath("endorse")
	vf := c.fn("R0", "endorse", "VirtualFirmware")
	allow := c.fn("R0", "cmd/output", "AllowOverwrite")
	if vf == nil || allow == nil {
		return
	}
	sl := flow.NewSlicer(c.P)
	isMarshalEndorsement := func(v ssa.Value) bool {
		call, ok := v.(*ssa.Call)
		if !ok {
			return false
		}
		f := call.Call.StaticCallee()
		return f != nil && f.String() == "google.golang.org/protobuf/proto.Marshal" && len(call.Call.Args) == 1 &&
			typeMentions(call.Call.Args[0], repoPath("proto/endorsement"), "VMLaunchEndorsement")
	}
	manifestGlobal := func(v ssa.Value) bool {
		g, ok := v.(*ssa.Global)
		return ok && g.Name() == "ManifestFile" && g.Pkg.Pkg.Path() == endorsePkg
	}
	// A write is the workspace's WriteOrCreateFiles, or a call of a wrapper of it: a function of package endorse that
	// hands one of its own parameters on as the file list (writeBinaryFiles(ctx, cops, files)). The wrapper's call
	// site is then the write, with the wrapper's argument as its file list; the call inside the wrapper is not one.
	wrappers := map[*ssa.Function]int{}
	filesArg := func(call ssa.CallInstruction) ssa.Value {
		if invokeIs(call, endorsePkg, "ChangeOps", "WriteOrCreateFiles") {
			if args := call.Common().Args; len(args) >= 2 {
				return args[1]
			}
			return nil
		}
		if g := call.Common().StaticCallee(); g != nil {
			if i, ok := wrappers[g]; ok && i < len(call.Common().Args) {
				return call.Common().Args[i]
			}
		}
		return nil
	}
	for changed := true; changed; {
		changed = false
		for _, f := range c.P.RepoFunctions() {
			if load.RelPkg(f) != "endorse" || c.isTestFunc(f) {
				continue
			}
			if _, done := wrappers[f]; done {
				continue
			}
			for _, call := range callsIn(f, func(call ssa.CallInstruction) bool { return filesArg(call) != nil }) {
				for i, p := range f.Params {
					if filesArg(call) == ssa.Value(p) {
						wrappers[f] = i
						changed = true
					}
				}
			}
		}
	}
	isWrite := func(call ssa.CallInstruction) bool {
		fa := filesArg(call)
		if fa == nil {
			return false
		}
		if p, ok := fa.(*ssa.Parameter); ok {
			if _, isWrapper := wrappers[p.Parent()]; isWrapper {
				return false
			}
		}
		return true
	}
	writeKind := func(call ssa.CallInstruction) string {
		fa := filesArg(call)
		if fa == nil {
			return ""
		}
		kind := ""
		lsl := flow.NewSlicer(c.P)
		lsl.LiftParams = 0
		lsl.Visit(fa, func(v ssa.Value) bool {
			if isMarshalEndorsement(v) {
				kind = "endorsement"
				return false
			}
			if manifestGlobal(v) && kind == "" {
				kind = "manifest"
			}
			return true
		}, nil)
		return kind
	}
	// existence probes: functions of package endorse with results (bool, error) invoking ChangeOps.ReadFile
	probes := map[*ssa.Function]bool{}
	for _, f := range c.funcsCalling(func(call ssa.CallInstruction) bool { return invokeIs(call, endorsePkg, "ChangeOps", "ReadFile") }) {
		res := f.Signature.Results()
		if load.RelPkg(f) == "endorse" && res.Len() == 2 && res.At(0).Type().String() == "bool" && errIndex(f.Signature) == 1 {
			probes[f] = true
		}
	}
	c.S.Floor("R1", "existence probes in package endorse", 1, len(probes))
	const (
		evProbe = iota
		evAllow
		evWriteEnd
		evWriteManifest
		evWriteOut
		evCommit
		evNewWorkspace
	)
	const (
		bNotExists uint = iota
		bAllow
		bEndWritten
		bInOutWrite
		bOutPending
	)
	names := []string{"probe:absent", "overwrite:allowed", "endorsement:written", "in output-directory write", "output-directory endorsement newer than manifest"}
	// R7: calls in package endorse that write an endorsement file to a path under the output directory (the directory
	// the manifest indexes): the callee reaches an endorsement-kind write and a path argument derives from Context.OutDir
	outDirFns := map[*ssa.Function]bool{}
	for _, f := range c.P.RepoFunctions() {
		if load.RelPkg(f) != "endorse" || c.isTestFunc(f) {
			continue
		}
		for _, b := range f.Blocks {
			for _, in := range b.Instrs {
				if fa, ok := in.(*ssa.FieldAddr); ok && flow.FieldName(fa) == "OutDir" && typeMentions(fa.X, endorsePkg, "Context") {
					outDirFns[f] = true
				}
			}
		}
	}
	endWriteFns := map[*ssa.Function]bool{}
	for _, f := range c.funcsCalling(func(call ssa.CallInstruction) bool { return isWrite(call) && writeKind(call) == "endorsement" }) {
		endWriteFns[f] = true
	}
	reachesEndWrite := map[*ssa.Function]bool{}
	outWrite := map[ssa.Instruction]bool{}
	for _, f := range c.P.RepoFunctions() {
		if load.RelPkg(f) != "endorse" || c.isTestFunc(f) {
			continue
		}
		for _, call := range callsIn(f, func(call ssa.CallInstruction) bool {
			g := call.Common().StaticCallee()
			return g != nil && load.FuncInRepo(g) && !isWrite(call)
		}) {
			g := call.Common().StaticCallee()
			r, ok := reachesEndWrite[g]
			if !ok {
				for h := range c.reachable([]*ssa.Function{g}, func(h *ssa.Function) bool { return load.FuncInRepo(h) }) {
					if endWriteFns[h] {
						r = true
					}
				}
				reachesEndWrite[g] = r
			}
			if !r {
				continue
			}
			under := false
			for _, a := range call.Common().Args {
				switch a.Type().String() {
				case "string", "[]string":
				default:
					continue
				}
				lsl := flow.NewSlicer(c.P)
				lsl.LiftParams = 0
				lsl.Visit(a, func(v ssa.Value) bool {
					if cl, ok := v.(*ssa.Call); ok && outDirFns[cl.Call.StaticCallee()] {
						under = true
						return false
					}
					if fa, ok := v.(*ssa.FieldAddr); ok && flow.FieldName(fa) == "OutDir" {
						under = true
						return false
					}
					return true
				}, nil)
			}
			if under {
				outWrite[call.(ssa.Instruction)] = true
			}
		}
	}
	c.S.Floor("R7", "calls writing an endorsement file under the output directory", 1, len(outWrite))
	kinds := map[ssa.Instruction]string{}
	classify := func(in ssa.Instruction) (int, bool) {
		call, ok := in.(ssa.CallInstruction)
		if !ok {
			return 0, false
		}
		if outWrite[in] {
			return evWriteOut, true
		}
		if invokeIs(call, endorsePkg, "ChangeOps", "TryCommit") {
			return evCommit, true
		}
		if invokeIs(call, endorsePkg, "VersionControl", "GetChangeOps") {
			return evNewWorkspace, true
		}
		if f := call.Common().StaticCallee(); f != nil {
			if probes[f] {
				return evProbe, true
			}
			if f == allow {
				return evAllow, true
			}
		}
		if isWrite(call) {
			k, ok := kinds[in]
			if !ok {
				k = writeKind(call)
				kinds[in] = k
			}
			switch k {
			case "endorsement":
				return evWriteEnd, true
			case "manifest":
				return evWriteManifest, true
			}
		}
		return 0, false
	}
	relevant := c.relevantSet(func(in ssa.Instruction) bool { _, ok := classify(in); return ok })
	reached := map[int]int{}
	r := &esp.Rule{Name: "C13", KeyByChain: true}
	r.Relevant = func(f *ssa.Function) bool { return relevant[f] }
	r.Flag = func(v ssa.Value) (int, bool) { return boolFieldFlag(v, endorsePkg, "Context", "DryRun") }
	r.Match = func(in ssa.Instruction) []esp.Ev {
		id, ok := classify(in)
		if !ok {
			return nil
		}
		call := in.(ssa.CallInstruction)
		ev := esp.Ev{ID: id, Name: callName(call), ErrIdx: -1, BoolIdx: -1}
		switch id {
		case evProbe, evAllow:
			ev.BoolIdx = 0
		case evWriteEnd, evWriteManifest, evWriteOut:
			ev.ErrIdx = errIndex(call.Common().Signature())
		}
		reached[id]++
		return []esp.Ev{ev}
	}
	r.Step = func(x *esp.Ctx, s esp.State, ev esp.Ev, ph esp.Phase) (esp.State, string) {
		st := fmtState(names, s)
		switch ev.ID {
		case evProbe:
			if ph == esp.Fail { // returned false: file absent
				return s.Set(bNotExists), ""
			}
			if ph == esp.Ok {
				return s.Clear(bNotExists), ""
			}
		case evAllow:
			if ph == esp.Ok {
				return s.Set(bAllow), ""
			}
		case evWriteEnd:
			if ph == esp.AtCall && !s.Has(bNotExists) && !s.Has(bAllow) {
				return s, "R1: endorsement file written in state " + st + " with neither a negative existence probe nor overwrite permission"
			}
			if ph == esp.Ok {
				s = s.Set(bEndWritten)
				if s.Has(bInOutWrite) {
					s = s.Set(bOutPending)
				}
				return s, ""
			}
		case evWriteOut:
			if ph == esp.AtCall {
				return s.Set(bInOutWrite), ""
			}
			return s.Clear(bInOutWrite), ""
		case evNewWorkspace:
			// what an earlier attempt wrote went into a workspace that is gone
			return s.Clear(bOutPending).Clear(bInOutWrite), ""
		case evCommit:
			if ph == esp.AtCall && s.Has(bOutPending) {
				return s, "R7: the workspace is committed in state " + st + ": an endorsement file was written under the output directory and no manifest was written after it (the run's firmware digest does not map to the file it wrote)"
			}
		case evWriteManifest:
			if ph == esp.AtCall && !s.Has(bEndWritten) {
				return s, "R3: manifest written in state " + st + " before the endorsement file was written successfully"
			}
			if ph == esp.Ok {
				return s.Clear(bOutPending), ""
			}
		}
		return s, ""
	}
	e := c.engine(r)
	e.Run(vf, esp.State{})
	n := c.reportEngine(e, "ESP", func(v *esp.Violation) string {
		// identify by the last two frames of the call chain
		ch := v.Chain
		if len(ch) > 2 {
			ch = ch[len(ch)-2:]
		}
		s := v.Msg[:2] + ":"
		for i, f := range ch {
			if i > 0 {
				s += "→"
			}
			s += load.FuncName(f)
		}
		return s
	})
	c.S.Note("VirtualFirmware: %d configurations, %d violations", e.Configs, n)
	c.S.Floor("R1", "endorsement write sites reached", 1, reached[evWriteEnd])
	c.S.Floor("R3", "manifest write sites reached", 1, reached[evWriteManifest])
	c.S.Floor("R1", "existence probe calls reached", 1, reached[evProbe])
	c.S.Floor("R1", "AllowOverwrite calls reached", 1, reached[evAllow])
	c.S.Floor("R7", "output-directory endorsement writes reached", 1, reached[evWriteOut])
	c.S.Floor("R7", "workspace commits reached", 1, reached[evCommit])
	if n == 0 {
		c.S.OK("R7", "endorse.VirtualFirmware", c.pos(vf.Pos()), fmt.Sprintf("held on %d configurations", e.Configs), true)
	}
	if n == 0 {
		c.S.OK("R1", "endorse.VirtualFirmware", c.pos(vf.Pos()), fmt.Sprintf("held on %d configurations", e.Configs), true)
		c.S.OK("R3", "endorse.VirtualFirmware", c.pos(vf.Pos()), fmt.Sprintf("held on %d configurations", e.Configs), true)
	}

	// ---- R2: entry ↔ file ----
	entries := 0
	for _, f := range c.P.RepoFunctions() {
		if load.RelPkg(f) != "endorse" || c.isTestFunc(f) {
			continue
		}
		// composite literals of VMEndorsementMap_Entry: Alloc of that type
		for _, b := range f.Blocks {
			for _, in := range b.Instrs {
				al, ok := in.(*ssa.Alloc)
				if !ok || !namedIs(al.Type(), repoPath("proto/releases"), "VMEndorsementMap_Entry") {
					continue
				}
				entries++
				var pathVal, digestVal ssa.Value
				for _, ref := range *al.Referrers() {
					fa, ok := ref.(*ssa.FieldAddr)
					if !ok {
						continue
					}
					for _, r2 := range *fa.Referrers() {
						if st, ok := r2.(*ssa.Store); ok && st.Addr == fa {
							switch flow.FieldName(fa) {
							case "Path":
								pathVal = st.Val
							case "Digest":
								digestVal = st.Val
							}
						}
					}
				}
				construct := load.FuncName(f) + ":manifest entry"
				// Digest derives from sha512.Sum384(Context.Image)
				okDigest := false
				if digestVal != nil {
					sl.Visit(digestVal, func(v ssa.Value) bool {
						if call, ok := v.(*ssa.Call); ok {
							if cal := call.Call.StaticCallee(); cal != nil && cal.String() == "crypto/sha512.Sum384" {
								if sl.Derives(call.Call.Args[0], func(x ssa.Value) bool { return flow.IsFieldLoad(x, endorsePkg, "Context", "Image") }) {
									okDigest = true
								}
								return false
							}
						}
						return true
					}, nil)
				}
				c.S.Check(okDigest, "R2", construct+".Digest", c.pos(al.Pos()), "Digest = sha512.Sum384(Context.Image)", "manifest entry digest does not derive from SHA-384 of the supplied image")
				// Path shares a call origin with the path written by an endorsement write reached from f
				var checkPath func(f *ssa.Function, pathVal ssa.Value, depth int) (okPath, okFrom bool)
				checkPath = func(f *ssa.Function, pathVal ssa.Value, depth int) (okPath, okFrom bool) {
					if pathVal != nil {
						// the name may be chosen and the file written by one helper that returns the name: then the
						// value that helper returns is the recorded one, and the write is looked for inside it
						{
							src, idx := pathVal, 0
							if ex, ok := src.(*ssa.Extract); ok {
								src, idx = ex.Tuple, ex.Index
							}
							if hc, ok := src.(*ssa.Call); ok && depth < 2 {
								if g := hc.Call.StaticCallee(); g != nil && g != f && relevant[g] && !probes[g] && g.Blocks != nil && load.RelPkg(g) == "endorse" {
									ei := errIndex(g.Signature)
									all, n := true, 0
									allFrom := true
									for _, gb := range g.Blocks {
										ret, ok := gb.Instrs[len(gb.Instrs)-1].(*ssa.Return)
										if !ok || idx >= len(ret.Results) {
											continue
										}
										if ei >= 0 && !isNilK(ret.Results[ei]) {
											continue
										}
										n++
										p1, p2 := checkPath(g, ret.Results[idx], depth+1)
										all = all && p1
										allFrom = allFrom && p2
									}
									if n > 0 {
										return all, allFrom
									}
								}
							}
						}
						// the recorded value itself (or, where the entry is built in a helper, the argument it was handed)
						idset := map[ssa.Value]bool{}
						{
							isl := flow.NewSlicer(c.P)
							isl.LiftParams = 2
							isl.Visit(pathVal, func(v ssa.Value) bool {
								idset[v] = true
								switch v.(type) {
								case *ssa.Parameter, *ssa.Phi:
									return true
								}
								return false
							}, nil)
						}
						// the entry may be built in a helper that is handed the basename: origins are followed to the
						// helper's call sites, and the write is looked for in the helper and in its callers
						lsl2 := flow.NewSlicer(c.P)
						lsl2.LiftParams = 2
						po := map[ssa.Value]bool{}
						for _, o := range lsl2.Origins(pathVal) {
							if _, isCall := o.(*ssa.Call); isCall {
								po[o] = true
							}
						}
						if pc, ok := pathVal.(*ssa.Extract); ok {
							po[pc.Tuple] = true
						}
						scope := []*ssa.Function{f}
						if node := c.P.CallGraph().Nodes[f]; node != nil {
							for _, e := range node.In {
								if e.Site != nil && e.Site.Common().StaticCallee() == f && load.RelPkg(e.Caller.Func) == "endorse" && !c.isTestFunc(e.Caller.Func) {
									scope = append(scope, e.Caller.Func)
								}
							}
						}
						var wcalls []ssa.CallInstruction
						for _, sf := range scope {
							wcalls = append(wcalls, callsIn(sf, func(call ssa.CallInstruction) bool {
								cal := call.Common().StaticCallee()
								return cal != nil && relevant[cal] && !probes[cal] && cal != f
							})...)
						}
						// calls whose callee reaches an endorsement write: their string/[]string args
						for _, call := range wcalls {
							for _, a := range call.Common().Args {
								ts := a.Type().String()
								if ts != "string" && ts != "[]string" {
									continue
								}
								sl.Visit(a, func(v ssa.Value) bool {
									if po[v] {
										okPath = true
									}
									if ex, ok := v.(*ssa.Extract); ok && po[ex.Tuple] {
										okPath = true
									}
									if idset[v] {
										okFrom = true
									}
									return !(okPath && okFrom)
								}, nil)
							}
						}
					}
					return okPath, okFrom
				}
				okPath, okFrom := checkPath(f, pathVal, 0)
				c.S.Check(okPath, "R2", construct+".Path", c.pos(al.Pos()), "Path and the written file path share one basename origin", "manifest entry path and the path of the endorsement file written do not derive from one basename value")
				c.S.Check(okFrom, "R2", construct+".Path is what the file path is made of", c.pos(al.Pos()), "the path written is computed from the very value recorded as Path", "the manifest entry's Path is not the value the written file's path is computed from (it is derived separately, e.g. cut back out of the full path): for a name with a directory part the entry names another file than the one written")
			}
		}
	}
	c.S.Floor("R2", "manifest entry constructions in package endorse", 1, entries)

	// ---- R4: the entry just placed is not filtered out again ----
	// In the function that merges the new entry into the manifest list, a call that drops entries
	// (a list → list function of the package) keyed by the new entry's own digest or path must not be
	// reachable after the new digest/path has been placed in the list: it would drop the fresh entry too.
	isEntryList := func(t types.Type) bool {
		st, ok := t.Underlying().(*types.Slice)
		return ok && namedIs(st.Elem(), repoPath("proto/releases"), "VMEndorsementMap_Entry")
	}
	nMerge := 0
	for _, f := range c.P.RepoFunctions() {
		if load.RelPkg(f) != "endorse" || c.isTestFunc(f) || f.Blocks == nil {
			continue
		}
		sig := f.Signature
		if sig.Results().Len() != 1 || !isEntryList(sig.Results().At(0).Type()) {
			continue
		}
		var listP, entryP *ssa.Parameter
		for _, p := range f.Params {
			if isEntryList(p.Type()) {
				listP = p
			} else if namedIs(p.Type(), repoPath("proto/releases"), "VMEndorsementMap_Entry") {
				entryP = p
			}
		}
		if listP == nil || entryP == nil {
			continue
		}
		nMerge++
		fromEntry := func(v ssa.Value) bool {
			return sl.Derives(v, func(x ssa.Value) bool {
				pth := flow.PathOf(x)
				return pth.Root == ssa.Value(entryP) && len(pth.Fields) > 0 && (pth.Fields[0] == "Digest" || pth.Fields[0] == "Path")
			})
		}
		var placements, filters []ssa.Instruction
		for _, b := range f.Blocks {
			for _, in := range b.Instrs {
				switch x := in.(type) {
				case *ssa.Store:
					if fa, ok := x.Addr.(*ssa.FieldAddr); ok {
						if pt, ok := fa.X.Type().Underlying().(*types.Pointer); ok && namedIs(pt.Elem(), repoPath("proto/releases"), "VMEndorsementMap_Entry") {
							if n := flow.FieldName(fa); (n == "Digest" || n == "Path") && fa.X != ssa.Value(entryP) && fromEntry(x.Val) {
								placements = append(placements, x)
							}
						}
					}
					if x.Val == ssa.Value(entryP) {
						if _, isElem := x.Addr.(*ssa.IndexAddr); isElem {
							placements = append(placements, x) // append(entries, entry)
						}
					}
				case *ssa.Call:
					g := x.Call.StaticCallee()
					if g != nil && g != f && load.RelPkg(g) == "endorse" && g.Blocks != nil {
						// a helper that copies the new entry's digest/path into another entry is a placement
						passesEntry := false
						for _, a := range x.Call.Args {
							if a == ssa.Value(entryP) {
								passesEntry = true
							}
						}
						if passesEntry {
							for _, gb := range g.Blocks {
								for _, gi := range gb.Instrs {
									if st, ok := gi.(*ssa.Store); ok {
										if fa, ok := st.Addr.(*ssa.FieldAddr); ok {
											if pt, ok := fa.X.Type().Underlying().(*types.Pointer); ok && namedIs(pt.Elem(), repoPath("proto/releases"), "VMEndorsementMap_Entry") {
												if n := flow.FieldName(fa); n == "Digest" || n == "Path" {
													placements = append(placements, x)
												}
											}
										}
									}
								}
							}
						}
					}
					if g == nil || g == f || !load.FuncInRepo(g) || g.Signature.Results().Len() != 1 || !isEntryList(g.Signature.Results().At(0).Type()) {
						continue
					}
					takesList, keyed := false, false
					for _, a := range x.Call.Args {
						if isEntryList(a.Type()) {
							takesList = true
						} else if fromEntry(a) {
							keyed = true
						}
					}
					if takesList && keyed {
						filters = append(filters, x)
					}
				}
			}
		}
		after := func(a, b ssa.Instruction) bool { // b reachable after a
			if a.Block() == b.Block() {
				ia, ib := -1, -1
				for i, in := range a.Block().Instrs {
					if in == a {
						ia = i
					}
					if in == b {
						ib = i
					}
				}
				if ib > ia {
					return true
				}
			}
			seen := map[*ssa.BasicBlock]bool{}
			stack := append([]*ssa.BasicBlock{}, a.Block().Succs...)
			for len(stack) > 0 {
				x := stack[len(stack)-1]
				stack = stack[:len(stack)-1]
				if seen[x] {
					continue
				}
				seen[x] = true
				if x == b.Block() {
					return true
				}
				stack = append(stack, x.Succs...)
			}
			return false
		}
		bad := false
		for _, fl := range filters {
			for _, pl := range placements {
				if after(pl, fl) {
					bad = true
					c.S.Bad("R4", load.FuncName(f)+":entry dropped after placement", c.pos(fl.Pos()), fmt.Sprintf("entries matching the new entry's digest/path are dropped (%s) after the new digest/path was placed in the list at %s: the entry of the firmware just endorsed is removed with the stale one", callName(fl.(ssa.CallInstruction)), c.pos(pl.Pos())))
				}
			}
		}
		// R4b: the merge always places the new entry: every return follows a placement of the new digest and one of
		// the new path (the append of the entry itself places both); where a helper copies the fields, its stores stand
		// on every path through the helper — no condition (a timestamp comparison, say) leaves an existing entry as it was
		// while the endorsement file has already been rewritten
		placesField := func(pl ssa.Instruction, field string) (places, unconditional bool) {
			switch x := pl.(type) {
			case *ssa.Store:
				if _, isElem := x.Addr.(*ssa.IndexAddr); isElem {
					return true, true
				}
				if fa, ok := x.Addr.(*ssa.FieldAddr); ok && flow.FieldName(fa) == field {
					return true, true
				}
			case *ssa.Call:
				g := x.Call.StaticCallee()
				if g == nil || g.Blocks == nil {
					return false, false
				}
				for _, gb := range g.Blocks {
					for _, gi := range gb.Instrs {
						st, ok := gi.(*ssa.Store)
						if !ok {
							continue
						}
						fa, ok := st.Addr.(*ssa.FieldAddr)
						if !ok || flow.FieldName(fa) != field {
							continue
						}
						if pt, ok := fa.X.Type().Underlying().(*types.Pointer); !ok || !namedIs(pt.Elem(), repoPath("proto/releases"), "VMEndorsementMap_Entry") {
							continue
						}
						places = true
						all := true
						for _, rb := range g.Blocks {
							if _, isRet := rb.Instrs[len(rb.Instrs)-1].(*ssa.Return); isRet && !gb.Dominates(rb) {
								all = false
							}
						}
						if all {
							unconditional = true
						}
					}
				}
			}
			return places, unconditional
		}
		okPlaced, whyNot := true, ""
		for _, field := range []string{"Digest", "Path"} {
			// forward must-analysis: the field has been placed on every path to the end of a block
			gen := map[*ssa.BasicBlock]bool{}
			for _, pl := range placements {
				pf, un := placesField(pl, field)
				if pf && un {
					gen[pl.Block()] = true
				} else if pf && whyNot == "" {
					whyNot = fmt.Sprintf("the helper called at %s stores the new %s only on some of its paths", c.pos(pl.Pos()), field)
				}
			}
			out := map[*ssa.BasicBlock]bool{}
			for _, blk := range f.Blocks {
				out[blk] = true // top
			}
			for changed := true; changed; {
				changed = false
				for i, blk := range f.Blocks {
					in := i != 0 && len(blk.Preds) > 0
					for _, pr := range blk.Preds {
						if !out[pr] {
							in = false
						}
					}
					o := in || gen[blk]
					if o != out[blk] {
						out[blk] = o
						changed = true
					}
				}
			}
			for _, rb := range f.Blocks {
				ret, isRet := rb.Instrs[len(rb.Instrs)-1].(*ssa.Return)
				if isRet && !out[rb] {
					okPlaced = false
					if whyNot == "" {
						whyNot = fmt.Sprintf("the return at %s can be reached without a placement of the new %s", c.pos(ret.Pos()), field)
					}
				}
			}
		}
		c.S.Check(okPlaced, "R4", load.FuncName(f)+":new entry always placed", c.pos(f.Pos()), "every return follows a placement of the new digest and path", "the merge can return a list that does not hold the new entry's digest and path ("+whyNot+"): the endorsement file has been rewritten by then, so the manifest names a digest its file does not sign")
		c.S.Floor("R4", "placements of the new entry in "+load.FuncName(f), 1, len(placements))
		if !bad {
			c.S.OK("R4", load.FuncName(f)+":entry dropped after placement", c.pos(f.Pos()), fmt.Sprintf("%d drop calls keyed by the new entry, all before the %d placements", len(filters), len(placements)), true)
		}
	}
	c.S.Floor("R4", "manifest merge functions in package endorse", 1, nMerge)

	// ---- R3c: the manifest bytes written are the marshaller's output, only framed ----
	// Between prototext.Marshal of the manifest map and the File.Contents that is written, the bytes may be
	// prefixed / suffixed with constants (append, conversion, slicing) and nothing else: any other function applied
	// to them (whitespace normalisation, replacement, re-encoding) rewrites quoted digests and paths too.
	{
		isManifestMarshal := func(v ssa.Value) bool {
			ex, ok := v.(*ssa.Extract)
			if !ok || ex.Index != 0 {
				return false
			}
			call, ok := ex.Tuple.(*ssa.Call)
			if !ok {
				return false
			}
			cal := call.Call.StaticCallee()
			return cal != nil && cal.Name() == "Marshal" && cal.Pkg != nil && strings.HasSuffix(cal.Pkg.Pkg.Path(), "encoding/prototext") &&
				len(call.Call.Args) > 0 && typeMentions(call.Call.Args[len(call.Call.Args)-1], repoPath("proto/releases"), "VMEndorsementMap")
		}
		nW := 0
		for _, f := range c.P.RepoFunctions() {
			if load.RelPkg(f) != "endorse" || c.isTestFunc(f) {
				continue
			}
			for _, b := range f.Blocks {
				for _, in := range b.Instrs {
					st, ok := in.(*ssa.Store)
					if !ok {
						continue
					}
					fa, ok := st.Addr.(*ssa.FieldAddr)
					if !ok || !flow.IsFieldLoad(fa, endorsePkg, "File", "Contents") {
						continue
					}
					sawMarshal := false
					var offender *ssa.Call
					seen := map[ssa.Value]bool{}
					var walk func(v ssa.Value, d int, via *ssa.Call)
					walk = func(v ssa.Value, d int, via *ssa.Call) {
						if v == nil || seen[v] || d > 14 || offender != nil {
							return
						}
						seen[v] = true
						if isManifestMarshal(v) {
							sawMarshal = true
							if via != nil {
								offender = via
							}
							return
						}
						switch x := v.(type) {
						case *ssa.Const, *ssa.Global, *ssa.FreeVar:
						case *ssa.Parameter:
							// contents handed to a writing helper: look at what its callers pass
							fn := x.Parent()
							idx := -1
							for i, q := range fn.Params {
								if q == x {
									idx = i
								}
							}
							if n := c.P.CallGraph().Nodes[fn]; n != nil && idx >= 0 {
								for _, e := range n.In {
									if e.Site == nil || e.Site.Common().IsInvoke() || e.Site.Common().StaticCallee() != fn || idx >= len(e.Site.Common().Args) {
										continue
									}
									walk(e.Site.Common().Args[idx], d+1, via)
								}
							}
						case *ssa.Convert:
							walk(x.X, d+1, via)
						case *ssa.ChangeType:
							walk(x.X, d+1, via)
						case *ssa.Slice:
							walk(x.X, d+1, via)
						case *ssa.Phi:
							for _, e := range x.Edges {
								walk(e, d+1, via)
							}
						case *ssa.Alloc:
							// the array behind a variadic argument / a local buffer: what is stored into it
							for _, ref := range *x.Referrers() {
								switch r := ref.(type) {
								case *ssa.Store:
									if r.Addr == ssa.Value(x) {
										walk(r.Val, d+1, via)
									}
								case *ssa.IndexAddr:
									for _, r2 := range *r.Referrers() {
										if s2, ok := r2.(*ssa.Store); ok && s2.Addr == ssa.Value(r) {
											walk(s2.Val, d+1, via)
										}
									}
								}
							}
						case *ssa.UnOp:
							walk(x.X, d+1, via)
						case *ssa.Extract:
							// result of a helper of the package that prepares the contents: what the helper returns
							if hc, ok := x.Tuple.(*ssa.Call); ok {
								if h := hc.Call.StaticCallee(); h != nil && load.RelPkg(h) == "endorse" && h.Blocks != nil {
									for _, hb := range h.Blocks {
										if ret, ok := hb.Instrs[len(hb.Instrs)-1].(*ssa.Return); ok && x.Index < len(ret.Results) {
											walk(ret.Results[x.Index], d+1, via)
										}
									}
									return
								}
							}
							walk(x.Tuple, d+1, via)
						case *ssa.Call:
							if h := x.Call.StaticCallee(); h != nil && load.RelPkg(h) == "endorse" && h.Blocks != nil && h.Signature.Results().Len() == 1 {
								for _, hb := range h.Blocks {
									if ret, ok := hb.Instrs[len(hb.Instrs)-1].(*ssa.Return); ok && len(ret.Results) == 1 {
										walk(ret.Results[0], d+1, via)
									}
								}
								return
							}
							if bi, ok := x.Call.Value.(*ssa.Builtin); ok && bi.Name() == "append" {
								for _, a := range x.Call.Args {
									walk(a, d+1, via)
								}
								return
							}
							// any other call: a finding if the marshalled bytes flow into it (outermost such call is named)
							nv := via
							if nv == nil {
								nv = x
							}
							for _, a := range x.Call.Args {
								walk(a, d+1, nv)
							}
						}
					}
					walk(st.Val, 0, nil)
					if !sawMarshal && offender == nil {
						continue // not the manifest file
					}
					nW++
					det := ""
					if offender != nil {
						det = "the marshalled manifest passes through " + callName(offender) + " before it is written: a transformation of the text also rewrites the quoted digests and paths inside it, so an entry may no longer name its file or carry its digest"
					}
					c.S.Check(offender == nil, "R3c", load.FuncName(f)+":manifest bytes", c.pos(st.Pos()), "the bytes written are prototext.Marshal's output framed by constants", det)
				}
			}
		}
		c.S.Floor("R3c", "manifest contents stores in package endorse", 1, nW)
	}

	// ---- R5: workspace back ends replace files wholly ----
	// Every in-repo implementation of ChangeOps.WriteOrCreateFiles writes a file by replacing its contents: the
	// file-opening primitives in its closure are os.WriteFile / os.Create, or os.OpenFile with O_TRUNC. A write
	// that keeps the old tail of a longer file leaves a manifest that no longer parses (or a stale entry).
	{
		var impls []*ssa.Function
		for _, f := range c.P.RepoFunctions() {
			if c.isTestFunc(f) || f.Name() != "WriteOrCreateFiles" || f.Signature.Recv() == nil || f.Blocks == nil {
				continue
			}
			impls = append(impls, f)
		}
		nOpen := c.wholeFileWrites("R5", impls)
		c.S.Floor("R5", "in-repo implementations of ChangeOps.WriteOrCreateFiles", 1, len(impls))
		c.S.Floor("R5", "file-opening calls in their closures", 1, nOpen)
	}

	// ---- R3b: marshalled manifest map is the parsed object ----
	// package-wide: the object handed to prototext.Marshal for the manifest must be (an alias of) the
	// object the manifest was parsed into; aliases follow helper results (a reader that returns the
	// parsed map) and helper parameters (a writer that receives it).
	{
		mapType := func(v ssa.Value) bool { return typeMentions(v, repoPath("proto/releases"), "VMEndorsementMap") }
		var efns []*ssa.Function
		for _, f := range c.P.RepoFunctions() {
			if load.RelPkg(f) == "endorse" && !c.isTestFunc(f) && f.Blocks != nil {
				efns = append(efns, f)
			}
		}
		parsedObj := map[ssa.Value]bool{}
		returnsParsed := map[*ssa.Function]bool{}
		for _, f := range efns {
			for _, call := range callsIn(f, func(call ssa.CallInstruction) bool {
				return calleeIs(call, "google.golang.org/protobuf/encoding/prototext.Unmarshal") && len(call.Common().Args) == 2 && mapType(call.Common().Args[1])
			}) {
				parsedObj[unwrapIface(call.Common().Args[1])] = true
			}
		}
		// fixpoint over helpers returning a parsed object
		for changed := true; changed; {
			changed = false
			for _, f := range efns {
				if returnsParsed[f] {
					continue
				}
				for _, b := range f.Blocks {
					if ret, ok := b.Instrs[len(b.Instrs)-1].(*ssa.Return); ok {
						for _, rv := range ret.Results {
							if parsedObj[rv] {
								returnsParsed[f] = true
								changed = true
							}
						}
					}
				}
			}
			for _, f := range efns {
				for _, call := range callsIn(f, func(call ssa.CallInstruction) bool { return returnsParsed[call.Common().StaticCallee()] }) {
					cv := call.Value()
					if cv == nil {
						continue
					}
					cands := []ssa.Value{cv}
					for _, r := range nonDebugRefs(cv) {
						if ex, ok := r.(*ssa.Extract); ok {
							cands = append(cands, ex)
						}
					}
					for _, v := range cands {
						if mapType(v) && !parsedObj[v] {
							parsedObj[v] = true
							changed = true
						}
					}
				}
			}
		}
		var isParsed func(v ssa.Value, depth int) bool
		isParsed = func(v ssa.Value, depth int) bool {
			if parsedObj[v] {
				return true
			}
			prm, ok := v.(*ssa.Parameter)
			if !ok || depth > 3 {
				return false
			}
			idx := -1
			for i, q := range prm.Parent().Params {
				if q == prm {
					idx = i
				}
			}
			sites := 0
			for _, f := range efns {
				for _, call := range callsIn(f, func(call ssa.CallInstruction) bool { return call.Common().StaticCallee() == prm.Parent() }) {
					sites++
					if idx < 0 || idx >= len(call.Common().Args) || !isParsed(call.Common().Args[idx], depth+1) {
						return false
					}
				}
			}
			return sites > 0
		}
		nM := 0
		for _, f := range efns {
			for _, call := range callsIn(f, func(call ssa.CallInstruction) bool {
				return calleeIs(call, "google.golang.org/protobuf/encoding/prototext.Marshal") && len(call.Common().Args) == 1 && mapType(call.Common().Args[0])
			}) {
				nM++
				c.S.Check(isParsed(unwrapIface(call.Common().Args[0]), 0), "R3b", load.FuncName(f)+":manifest object", c.pos(call.Pos()), "the map marshalled into the manifest is the object the current manifest was parsed into", "the manifest written is not the marshalling of the map parsed from this attempt's manifest")
			}
		}
		c.S.Floor("R3b", "manifest marshalling sites in package endorse", 1, nM)
	}
}

func unwrapIface(v ssa.Value) ssa.Value {
	if mi, ok := v.(*ssa.MakeInterface); ok {
		return mi.X
	}
	return v
}

// extConstInt: integer value of an external package-level constant.
func (c *Ctx) extConstInt(pkg, name string) (int64, bool) {
	v := c.extConst(pkg, name)
	if v == nil {
		return 0, false
	}
	return constant.Int64Val(constant.ToInt(v))
}

// c13DigestKeysAgree is R9: the manifest merge identifies entries by digest through string keys. A comparison of two
// such keys is meaningful only when both are in one representation: the hex text of the digest, or its raw bytes.
// For every string ==/!= in package endorse whose two operands both derive from a VMEndorsementMap_Entry.Digest (the
// operands of helpers are followed to the call sites' arguments), the rule requires the same answer on both sides to
// "did this pass through hex.EncodeToString".
func c13DigestKeysAgree(c *Ctx) {
	sl := flow.NewSlicer(c.P)
	sl.LiftParams = 2
	isHex := func(v ssa.Value) bool {
		call, ok := v.(*ssa.Call)
		return ok && calleeIs(call, "encoding/hex.EncodeToString")
	}
	relPkg := repoPath("proto/releases")
	isDigest := func(v ssa.Value) bool {
		if fa, ok := v.(*ssa.FieldAddr); ok {
			return flow.IsFieldLoad(fa, relPkg, "VMEndorsementMap_Entry", "Digest")
		}
		if flow.IsFieldLoad(v, relPkg, "VMEndorsementMap_Entry", "Digest") {
			return true
		}
		if call, ok := v.(*ssa.Call); ok {
			if g := call.Call.StaticCallee(); g != nil && g.Name() == "GetDigest" && len(call.Call.Args) == 1 && namedIs(call.Call.Args[0].Type(), relPkg, "VMEndorsementMap_Entry") {
				return true
			}
		}
		return false
	}
	n := 0
	for _, f := range c.P.RepoFunctions() {
		if load.RelPkg(f) != "endorse" || c.isTestFunc(f) || f.Blocks == nil {
			continue
		}
		k := 0
		for _, b := range f.Blocks {
			for _, in := range b.Instrs {
				var x, y ssa.Value
				switch v := in.(type) {
				case *ssa.BinOp:
					if v.Op != token.EQL && v.Op != token.NEQ {
						continue
					}
					if bt, ok := v.X.Type().Underlying().(*types.Basic); !ok || bt.Info()&types.IsString == 0 {
						continue
					}
					x, y = v.X, v.Y
				case *ssa.Call:
					// the same comparison on bytes
					if !calleeIs(v, "bytes.Equal") || len(v.Call.Args) != 2 {
						continue
					}
					x, y = v.Call.Args[0], v.Call.Args[1]
				default:
					continue
				}
				if !sl.Derives(x, isDigest) || !sl.Derives(y, isDigest) {
					continue
				}
				n++
				k++
				hx, hy := sl.Derives(x, isHex), sl.Derives(y, isHex)
				c.S.Check(hx == hy, "R9", fmt.Sprintf("%s:digest comparison #%d", load.FuncName(f), k), c.pos(in.Pos()), "both digest keys are in one representation",
					"two digest keys are compared of which one is the hex text of a digest and the other its raw bytes: they never match, so the entry the comparison looks for is never found (a stale digest stays in the manifest, or a duplicate is added)")
			}
		}
	}
	c.S.Floor("R9", "comparisons of two digest keys in package endorse", 1, n)
}
