package rules

import (
	"fmt"
	"go/token"
	"go/types"
	"sort"
	"strings"

	"golang.org/x/tools/go/ssa"

	"verif/checker/esp"
	"verif/checker/flow"
	"verif/checker/load"
)

// C10 — signing-key rotation is failure-atomic.
//
// Events (all resolved by type, none by unexported name):
//
//	Create     invoke keys.ManagerInterface.CreateNewSigningKeyVersion
//	Info       invoke sign/types.CertificateAuthority.Primary{Signing,Root}KeyVersion
//	SignPrim   static call of sign/ops.CreateCertificateFromTemplate
//	SignStep   call of any function of package rotate from which SignPrim is
//	           reachable (wrappers transmit failure of the whole signing step)
//	SetPrimary invoke CertificateAuthorityMutation.SetPrimarySigningKeyVersion
//	Finalize   invoke CertificateAuthority.Finalize
//	DestroyOld invoke ManagerInterface.DestroyKeyVersion whose version operand
//	           derives from PrimarySigningKeyVersion (destroying the freshly
//	           created key as clean-up is not this event)
const (
	c10Create = iota
	c10Info
	c10SignPrim
	c10SignStep
	c10SetPrimary
	c10Finalize
	c10DestroyOld
	c10Step
	c10DestroyNew
)

const (
	bCreateOk uint = iota
	bSignOk
	bSign2Ok
	bFinOk
	bFailed
	bDestroyed
	bSetPrimary
	bInfoOk
)

var c10Names = []string{"Create:ok", "Sign:ok", "Sign2:ok", "Finalize:ok", "failed", "DestroyedOld", "SetPrimary", "Info:ok"}

func init() {
	register(&RuleSet{
		ID: "C10",
		Explanation: "R15 every sync mutex a function acquires is released on every path to a return (an Unlock of the same mutex, or a deferred one): an error path that returns with the authority or a key manager locked blocks every later use, so a later fault-free rotation cannot succeed. " +
			"R14 (= C12.R2) the no-clobber gate refuses an existing object itself (success only after a write or under keep_going), so the refusal comes before the manifest write. " +
			"ESP path simulation of rotate.Key and rotate.Bootstrap with summaries through their step helpers. " +
			"R1 old key destroyed only in states with Finalize:ok; R2 Finalize only with Create:ok∧Sign:ok, SetPrimary only with Sign:ok; " +
			"R3 no SetPrimary/Finalize/DestroyOld after any failed step; R4 nil return of Key ⇒ Create:ok∧Sign:ok∧Finalize:ok; " +
			"R7 a nil return happens only after the old key was destroyed or the previous primary version name was found empty. R5 Bootstrap: Finalize only after both signing steps succeeded, nil return ⇒ Finalize:ok. R6 the newly created key (operand derived from CreateNewSigningKeyVersion) is never destroyed once Finalize succeeded. R8 (shared with C11.R7) the storage-backed authority's certificate upload returns success after the gate only where the key version's manifest entry was found or appended, so a rotation retried after a fault cannot finalize a primary key that has no listed certificate. " +
			"Every fault position of the property's quantifier is the :fail edge of one of the tracked calls; crash points between calls are covered by R1's ordering. " +
			"R9 (= C11.R1/R2/R6) Finalize of the storage-backed authority writes the manifest last and never after a failed upload, and storage/ops.WriteFile returns nil only after Writer, Write and Close all succeeded — otherwise rotate.Key would destroy the old key although the new primary was not durably recorded. " +
			"R13 the file-backed key manager persists a created key by replacing the key file wholly (O_TRUNC, or O_EXCL without taking 'exists' for success). " +
			"R12 Signer.PublicKey implementations write nothing rooted at their receiver or in package-level state. " +
			"R11 every implementation of ManagerInterface.CreateNewSigningKeyVersion returns success only after a key-creating call (Create*/Generate*) succeeded in that call. " +
			"R10 context continuity: in the call closure of rotate.Key / rotate.Bootstrap no call receives a context rooted at context.Background()/TODO() (the operator's options, e.g. overwrite permission for the leftovers of a failed attempt, travel in the context). " +
			"Not covered: that the surviving state works (reload + sign), the later fault-free rotation, KMS/HSM behaviour.",
		Assumptions: []string{"go/types, go/ssa, VTA call graph", "multierr.Combine/Append return nil iff all arguments are nil", "fmt.Errorf/errors.New return non-nil", "interface methods of ManagerInterface/CertificateAuthority are opaque events"},
		Run:         runC10,
	})
}

func runC10(c *Ctx) {
	// R14 = C12.R2: an existing certificate object in the way of a rotation is refused by the no-clobber gate itself,
	// in front of the manifest write — not skipped silently and reported after the new key has been recorded as primary.
	c.borrow("R14/C12.", runC12, func(rule, _ string) bool { return rule == "R2" })
	// R9 = C11.R1/R2/R6: "durably recorded" rests on the storage-backed authority writing the manifest last, never
	// after a failed upload, and on the write primitive reporting a failed commit (Close) as an error.
	c.borrow("R9/C11.", runC11, func(rule, construct string) bool {
		// engine reports carry the rule "ESP" and name the clause at the head of the construct ("R2:<function>")
		esp := rule == "ESP" && (strings.HasPrefix(construct, "R1:") || strings.HasPrefix(construct, "R2:") || strings.HasPrefix(construct, "R6:"))
		return rule == "R1" || rule == "R2" || rule == "R6" || rule == "R13" || esp
	})
	// R15: a mutex taken anywhere in the repository's non-test code is released on every exit of the function that took
	// it — a failed step of a rotation must not leave the authority (or a key manager) locked for the next attempt.
	// (none on the present tree: the canary mutant C10-manifest-lock-leaked-on-read-error must fire)
	{
		var all []*ssa.Function
		for _, f := range c.P.RepoFunctions() {
			if !c.isTestFunc(f) {
				all = append(all, f)
			}
		}
		c.S.OK("R15", "repository:mutexes released on every exit", "", fmt.Sprintf("%d mutex acquire sites examined", c.lockPairingRule("R15", all)), false)
	}
	keysPkg := repoPath("keys")
	stypPkg := repoPath("sign/types")
	key := c.fn("R0", "rotate", "Key")
	boot := c.fn("R0", "rotate", "Bootstrap")
	signPrim := c.fn("R0", "sign/ops", "CreateCertificateFromTemplate")
	if key == nil || boot == nil || signPrim == nil {
		return
	}
	// R8: the storage-backed authority lists every certificate it uploads (shared with C11.R7): a
	// rotation that is retried after a fault must not end with a primary key that has no listed certificate.
	if fin := c.P.Method("sign/gcsca", "CertificateAuthority", "Finalize"); fin != nil {
		storPkg := repoPath("storage/storagei")
		wf := c.P.Func("storage/ops", "WriteFile")
		gates := c.gcscaGates()
		_, _ = storPkg, wf
		c.uploadEntryRule("R8", gates, c.reachable([]*ssa.Function{fin}, nil))
	}
	sl := flow.NewSlicer(c.P)
	isPSKV := func(v ssa.Value) bool {
		call, ok := v.(*ssa.Call)
		return ok && invokeIs(call, stypPkg, "CertificateAuthority", "PrimarySigningKeyVersion")
	}
	isCreate := func(v ssa.Value) bool {
		call, ok := v.(*ssa.Call)
		return ok && invokeIs(call, keysPkg, "ManagerInterface", "CreateNewSigningKeyVersion")
	}
	// functions of package rotate from which SignPrim is reachable
	signReach := c.relevantSet(func(in ssa.Instruction) bool {
		call, ok := in.(ssa.CallInstruction)
		return ok && call.Common().StaticCallee() == signPrim
	})
	prim := func(in ssa.Instruction) (int, bool) {
		call, ok := in.(ssa.CallInstruction)
		if !ok {
			return 0, false
		}
		switch {
		case invokeIs(call, keysPkg, "ManagerInterface", "CreateNewSigningKeyVersion"),
			invokeIs(call, keysPkg, "ManagerInterface", "CreateNewRootKey"),
			invokeIs(call, keysPkg, "ManagerInterface", "CreateFirstSigningKey"):
			return c10Create, true
		case invokeIs(call, stypPkg, "CertificateAuthority", "PrimarySigningKeyVersion"), invokeIs(call, stypPkg, "CertificateAuthority", "PrimaryRootKeyVersion"):
			return c10Info, true
		case call.Common().StaticCallee() == signPrim:
			return c10SignPrim, true
		case invokeIs(call, stypPkg, "CertificateAuthorityMutation", "SetPrimarySigningKeyVersion"):
			return c10SetPrimary, true
		case invokeIs(call, stypPkg, "CertificateAuthority", "Finalize"):
			return c10Finalize, true
		case invokeIs(call, keysPkg, "ManagerInterface", "DestroyKeyVersion"):
			args := call.Common().Args
			// (the version may arrive as a parameter of a helper that is handed it: followed to the call sites)
			lsl := flow.NewSlicer(c.P)
			lsl.LiftParams = 2
			if len(args) >= 2 && (sl.Derives(args[1], isPSKV) || lsl.Derives(args[1], isPSKV)) {
				return c10DestroyOld, true
			}
			if len(args) >= 2 && (sl.Derives(args[1], isCreate) || lsl.Derives(args[1], isCreate)) {
				return c10DestroyNew, true
			}
			return 0, false
		}
		return 0, false
	}
	relevant := c.relevantSet(func(in ssa.Instruction) bool { _, ok := prim(in); return ok })
	counts := map[int]int{}
	mkRule := func(bootstrap bool) *esp.Rule {
		r := &esp.Rule{Name: "C10"}
		r.Relevant = func(f *ssa.Function) bool { return relevant[f] && load.FuncInRepo(f) }
		// flag 0: the previous primary key version name (a string derived from
		// PrimarySigningKeyVersion) is non-empty
		r.Flag = func(v ssa.Value) (int, bool) {
			if v.Type().String() != "string" {
				return 0, false
			}
			if u, ok := v.(*ssa.UnOp); ok && u.Op == token.MUL {
				if _, isField := u.X.(*ssa.FieldAddr); isField && sl.Derives(v, isPSKV) {
					return 0, true
				}
			}
			return 0, false
		}
		r.Match = func(in ssa.Instruction) []esp.Ev {
			call, ok := in.(ssa.CallInstruction)
			if !ok {
				return nil
			}
			var evs []esp.Ev
			if id, ok := prim(in); ok {
				ei := errIndex(call.Common().Signature())
				name := [...]string{"Create", "Info", "SignPrim", "SignStep", "SetPrimary", "Finalize", "DestroyOld", "Step", "DestroyNew"}[id]
				evs = append(evs, esp.Ev{ID: id, Name: name, ErrIdx: ei, BoolIdx: -1})
				counts[id]++
			} else if f := call.Common().StaticCallee(); f != nil && load.FuncInRepo(f) && relevant[f] {
				if ei := errIndex(f.Signature); ei >= 0 {
					id := c10Step
					name := "step " + f.Name()
					if signReach[f] && load.RelPkg(f) == "rotate" {
						id, name = c10SignStep, "SignStep "+f.Name()
						counts[id]++
					}
					evs = append(evs, esp.Ev{ID: id, Name: name, ErrIdx: ei, BoolIdx: -1})
				}
			}
			return evs
		}
		r.Step = func(x *esp.Ctx, s esp.State, ev esp.Ev, ph esp.Phase) (esp.State, string) {
			st := fmtState(c10Names, s)
			switch ph {
			case esp.AtCall:
				switch ev.ID {
				case c10Create:
					if s.Has(bFailed) {
						return s, "R3: a key is created after a failed step, state " + st + " (the operation is about to be refused, and the key it leaves behind can sign although no certificate authority records it)"
					}
				case c10DestroyOld:
					msg := ""
					if !s.Has(bFinOk) {
						msg = "R1: old signing key destroyed in state " + st + " without Finalize:ok (a fault or crash here leaves the recorded primary key destroyed)"
					} else if s.Has(bFailed) {
						msg = "R3: old signing key destroyed after a failed step, state " + st
					}
					return s.Set(bDestroyed), msg
				case c10DestroyNew:
					if s.Has(bFinOk) {
						return s, "R6: the newly created key is destroyed in state " + st + " after Finalize recorded it as primary (the recorded primary becomes a dead key)"
					}
					return s, ""
				case c10Finalize:
					if s.Has(bFailed) {
						return s, "R3: Finalize reached after a failed step, state " + st
					}
					if bootstrap {
						if !s.Has(bSignOk) || !s.Has(bSign2Ok) {
							return s, "R5: Bootstrap finalizes in state " + st + " without both signing steps having succeeded"
						}
					} else if !s.Has(bCreateOk) || !s.Has(bSignOk) {
						return s, "R2: Finalize reached in state " + st + " without Create:ok∧Sign:ok"
					}
				case c10SetPrimary:
					if bootstrap {
						return s.Set(bSetPrimary), ""
					}
					if s.Has(bFailed) {
						return s.Set(bSetPrimary), "R3: SetPrimarySigningKeyVersion after a failed step, state " + st
					}
					if !s.Has(bSignOk) {
						return s.Set(bSetPrimary), "R2: primary moved to the new key in state " + st + " without Sign:ok (uncertified key becomes primary)"
					}
					return s.Set(bSetPrimary), ""
				}
				return s, ""
			case esp.Ok:
				switch ev.ID {
				case c10Create:
					return s.Set(bCreateOk), ""
				case c10Info:
					return s.Set(bInfoOk), ""
				case c10SignStep:
					if bootstrap && s.Has(bSignOk) && !s.Has(bSign2Ok) {
						// second outermost signing step; nested wrappers of one
						// signing step are told apart by the primitive count below
						return s, ""
					}
					return s, ""
				case c10SignPrim:
					if s.Has(bSignOk) {
						return s.Set(bSign2Ok), ""
					}
					return s.Set(bSignOk), ""
				case c10Finalize:
					return s.Set(bFinOk), ""
				}
				return s, ""
			case esp.Fail:
				if ev.ID == c10DestroyNew {
					return s, "" // best-effort clean-up of the unused new key
				}
				return s.Set(bFailed), ""
			}
			return s, ""
		}
		r.AtReturn = func(x *esp.Ctx, s esp.State, rets []esp.Abs) string {
			errA := rets[len(rets)-1]
			if errA == esp.NonZero {
				return ""
			}
			st := fmtState(c10Names, s)
			if bootstrap {
				if !s.Has(bFinOk) || !s.Has(bSignOk) || !s.Has(bSign2Ok) {
					return "R5: Bootstrap may return nil in state " + st
				}
				return ""
			}
			if s.Has(bFailed) {
				return "R4: rotate.Key may return a nil error after a failed step, state " + st
			}
			if !s.Has(bCreateOk) || !s.Has(bSignOk) || !s.Has(bFinOk) {
				return "R4: rotate.Key may return a nil error in state " + st + " (needs Create:ok∧Sign:ok∧Finalize:ok)"
			}
			if !s.Has(bDestroyed) && s.Flag(0) != esp.Zero {
				return "R7: rotate.Key may report success without having destroyed the previous primary key although one existed, state " + st
			}
			return ""
		}
		return r
	}

	// SignPrim success must be what Sign:ok means: a wrapper that swallows the
	// primitive's failure would show up as "Sign step ok in a failed state";
	// covered by R3/R4 because bFailed is sticky.
	for _, tc := range []struct {
		fn   *ssa.Function
		boot bool
		name string
	}{{key, false, "rotate.Key"}, {boot, true, "rotate.Bootstrap"}} {
		for k := range counts {
			delete(counts, k)
		}
		r := mkRule(tc.boot)
		e := c.engine(r)
		outs := e.Run(tc.fn, esp.State{})
		nilExits := 0
		for _, o := range outs {
			rets := esp.DecodeRets(o.Rets)
			if rets[len(rets)-1] != esp.NonZero {
				nilExits++
			}
		}
		n := c.reportEngine(e, "ESP", func(v *esp.Violation) string {
			return tc.name + ":" + v.Msg[:2] + ":" + load.FuncName(v.Fn)
		})
		c.S.Note("%s: %d configurations, %d exit outcomes (%d with possibly-nil error), %d violations", tc.name, e.Configs, len(outs), nilExits, n)
		if n == 0 {
			for _, rr := range []string{"R1", "R2", "R3", "R4", "R6", "R7"} {
				if tc.boot {
					continue
				}
				c.S.OK(rr, tc.name, c.pos(tc.fn.Pos()), fmt.Sprintf("held on all %d explored configurations", e.Configs), true)
			}
			if tc.boot {
				c.S.OK("R5", tc.name, c.pos(tc.fn.Pos()), fmt.Sprintf("held on all %d explored configurations", e.Configs), true)
			}
		}
		if !tc.boot {
			c.S.Floor("R0", "Create events reached from rotate.Key", 1, counts[c10Create])
			c.S.Floor("R0", "Finalize events reached from rotate.Key", 1, counts[c10Finalize])
			c.S.Floor("R0", "DestroyOld events reached from rotate.Key", 1, counts[c10DestroyOld])
			c.S.Floor("R0", "SetPrimary events reached from rotate.Key", 1, counts[c10SetPrimary])
			c.S.Floor("R0", "signing primitive calls reached from rotate.Key", 1, counts[c10SignPrim])
			c.S.Floor("R0", "nil-error exits of rotate.Key", 1, nilExits)
		} else {
			c.S.Floor("R0", "Finalize events reached from rotate.Bootstrap", 1, counts[c10Finalize])
			c.S.Floor("R0", "signing primitive calls reached from rotate.Bootstrap", 1, counts[c10SignPrim])
			c.S.Floor("R0", "nil-error exits of rotate.Bootstrap", 1, nilExits)
		}
	}
	// R10: the operator's options travel in the context. Every context handed on inside the rotation's call closure
	// is the caller's context or derived from it with context.With…; a fresh root context (context.Background /
	// context.TODO) would silently drop them (for instance the permission to overwrite the leftovers of a failed
	// attempt, on which the "later fault-free rotation succeeds" clause rests).
	c.contextContinuity("R10", []*ssa.Function{key, boot})

	// R13: a key manager that persists keys stores the key it just created. The file-opening primitives in the
	// closures of the Create* methods of the file-backed manager replace the file wholly (or create it exclusively and
	// fail if it exists): a retried rotation regenerates a key under the same deterministic name, and a persisted
	// copy that silently stays the first attempt's key no longer matches the certificate after a restart.
	{
		var roots []*ssa.Function
		for _, f := range c.P.RepoFunctions() {
			if c.isTestFunc(f) || load.RelPkg(f) != "testing/nonprod/localkm" || f.Signature.Recv() == nil || f.Blocks == nil || f.Synthetic != "" || f.Parent() != nil {
				continue
			}
			if strings.HasPrefix(f.Name(), "Create") {
				roots = append(roots, f)
			}
		}
		nOpen := c.wholeFileWrites("R13", roots)
		c.S.Floor("R13", "key-creating methods of the file-backed key manager", 3, len(roots))
		c.S.Floor("R13", "file-opening calls in their closures", 3, nOpen)
	}

	// R12: reading a key's public half does not write the signer. The certificate of a new key version is made from
	// what Signer.PublicKey returns for its name; a PublicKey that keeps an answer (a per-name cache) returns the
	// abandoned first attempt's key after a retried rotation generated a new key under the same deterministic name.
	{
		nPub := 0
		for _, f := range c.P.RepoFunctions() {
			if c.isTestFunc(f) || f.Name() != "PublicKey" || f.Signature.Recv() == nil || f.Blocks == nil || f.Parent() != nil || f.Synthetic != "" || len(f.Params) == 0 {
				continue
			}
			if rel := load.RelPkg(f); strings.HasPrefix(rel, "testing/test") {
				continue
			}
			nPub++
			recv := f.Params[0]
			clo := c.reachable([]*ssa.Function{f}, func(g *ssa.Function) bool { return load.FuncInRepo(g) })
			delete(clo, nil)
			eff := &flow.Effects{P: c.P, Funcs: clo, Roots: map[*ssa.Function]bool{f: true}}
			bad := 0
			for _, w := range eff.Writes() {
				for _, rt := range w.Shared() {
					if rt.V == ssa.Value(recv) || rt.Kind == flow.GlobalRoot {
						bad++
						c.S.Bad("R12", load.FuncName(f)+":read-only", c.pos(w.Instr.Pos()), "PublicKey writes "+w.What+" of the signer (or of package-level state): an answer kept per key-version name outlives the key, and the certificate of a key regenerated under that name is made for the old key")
					}
				}
			}
			if bad == 0 {
				c.S.OK("R12", load.FuncName(f)+":read-only", c.pos(f.Pos()), "writes nothing that outlives the call", false)
			}
		}
		c.S.Floor("R12", "Signer.PublicKey implementations", 2, nPub)
	}

	// R11: every implementation of ManagerInterface.CreateNewSigningKeyVersion returns, on success, a key version it
	// created in this call: a nil-error return follows a successful key-creating call (a method or function whose
	// name starts with Create or Generate — the signer's GenerateSigningKey, the KMS client's CreateCryptoKeyVersion,
	// the embedded manager's own CreateNewSigningKeyVersion). Handing back a remembered version would let a retried
	// rotation certify the current primary as "new" and then destroy it as "previous".
	{
		nImpl := 0
		for _, f := range c.P.RepoFunctions() {
			if c.isTestFunc(f) || f.Name() != "CreateNewSigningKeyVersion" || f.Signature.Recv() == nil || f.Blocks == nil || errIndex(f.Signature) < 0 {
				continue
			}
			nImpl++
			const bMade uint = 0
			r := &esp.Rule{Name: "C10.R11"}
			region := map[*ssa.Function]bool{}
			for _, g := range unexportedRegion(f) {
				if g != f {
					region[g] = true
				}
			}
			r.Relevant = func(g *ssa.Function) bool { return region[g] }
			r.Match = func(in ssa.Instruction) []esp.Ev {
				call, ok := in.(ssa.CallInstruction)
				if !ok {
					return nil
				}
				name := ""
				if call.Common().IsInvoke() {
					name = call.Common().Method.Name()
				} else if cal := call.Common().StaticCallee(); cal != nil && !region[cal] {
					name = cal.Name()
				} else if _, isParam := call.Common().Value.(*ssa.Parameter); isParam && cal == nil {
					// an operation handed to a helper as a function value (k.createAndSave(ctx, k.T.CreateNewSigningKeyVersion)):
					// it creates a key if every function that can arrive there does
					all := true
					cs := c.P.Callees(call)
					for _, g := range cs {
						n := strings.TrimSuffix(g.Name(), "$bound")
						if !strings.HasPrefix(n, "Create") && !strings.HasPrefix(n, "Generate") {
							all = false
						}
						name = n
					}
					if !all || len(cs) == 0 {
						name = ""
					}
				}
				if strings.HasPrefix(name, "Create") || strings.HasPrefix(name, "Generate") {
					return []esp.Ev{{ID: 0, Name: "key created by " + callName(call), ErrIdx: errIndex(call.Common().Signature()), BoolIdx: -1}}
				}
				return nil
			}
			r.Step = func(x *esp.Ctx, s esp.State, ev esp.Ev, ph esp.Phase) (esp.State, string) {
				if ph == esp.Ok || (ph == esp.AtCall && ev.ErrIdx < 0) {
					return s.Set(bMade), ""
				}
				return s, ""
			}
			ei := errIndex(f.Signature)
			r.AtReturn = func(x *esp.Ctx, s esp.State, rets []esp.Abs) string {
				if rets[ei] == esp.NonZero || s.Has(bMade) {
					return ""
				}
				return "R11: the key manager may return a key version without having created one in this call: a retried rotation can be handed an existing version (the current primary), certify it as new and destroy it as the previous key"
			}
			e := c.engine(r)
			e.Run(f, esp.State{})
			if c.reportEngine(e, "R11", func(v *esp.Violation) string { return load.FuncName(f) + ":creates what it returns" }) == 0 {
				c.S.OK("R11", load.FuncName(f)+":creates what it returns", c.pos(f.Pos()), fmt.Sprintf("success only after a key-creating call succeeded (%d configurations)", e.Configs), true)
			}
		}
		c.S.Floor("R11", "implementations of CreateNewSigningKeyVersion", 2, nImpl)
	}
}

// contextContinuity: in the repo call closure of roots, no call receives a context.Context that originates from
// context.Background() / context.TODO().
func (c *Ctx) contextContinuity(rule string, roots []*ssa.Function) {
	isCtx := func(t types.Type) bool { return namedIs(t, "context", "Context") }
	clo := c.reachable(roots, nil)
	var fns []*ssa.Function
	for f := range clo {
		if f != nil && f.Blocks != nil && !c.isTestFunc(f) && !isTestingPkg(load.RelPkg(f)) {
			fns = append(fns, f)
		}
	}
	sort.Slice(fns, func(i, j int) bool { return fns[i].Pos() < fns[j].Pos() })
	n, bad := 0, 0
	var fresh func(v ssa.Value, d int, seen map[ssa.Value]bool) *ssa.Call
	fresh = func(v ssa.Value, d int, seen map[ssa.Value]bool) *ssa.Call {
		if v == nil || d > 8 || seen[v] {
			return nil
		}
		seen[v] = true
		switch x := v.(type) {
		case *ssa.Call:
			if cal := x.Call.StaticCallee(); cal != nil && cal.Pkg != nil && cal.Pkg.Pkg.Path() == "context" {
				switch cal.Name() {
				case "Background", "TODO":
					return x
				}
				if len(x.Call.Args) > 0 && isCtx(x.Call.Args[0].Type()) {
					return fresh(x.Call.Args[0], d+1, seen)
				}
				return nil
			}
			// a repo helper that builds the context: look at what it returns
			if cal := x.Call.StaticCallee(); cal != nil && cal.Blocks != nil && load.FuncInRepo(cal) {
				for _, b := range cal.Blocks {
					if ret, ok := b.Instrs[len(b.Instrs)-1].(*ssa.Return); ok {
						for _, r := range ret.Results {
							if isCtx(r.Type()) {
								if k := fresh(r, d+1, seen); k != nil {
									return k
								}
							}
						}
					}
				}
			}
		case *ssa.Extract:
			return fresh(x.Tuple, d+1, seen)
		case *ssa.Phi:
			for _, e := range x.Edges {
				if k := fresh(e, d+1, seen); k != nil {
					return k
				}
			}
		case *ssa.MakeInterface:
			return fresh(x.X, d+1, seen)
		case *ssa.ChangeInterface:
			return fresh(x.X, d+1, seen)
		case *ssa.UnOp:
			if al, ok := x.X.(*ssa.Alloc); ok {
				for _, ref := range *al.Referrers() {
					if st, ok := ref.(*ssa.Store); ok && st.Addr == al {
						if k := fresh(st.Val, d+1, seen); k != nil {
							return k
						}
					}
				}
			}
		}
		return nil
	}
	for _, f := range fns {
		for _, call := range callsIn(f, func(ssa.CallInstruction) bool { return true }) {
			if cal := call.Common().StaticCallee(); cal != nil && cal.Pkg != nil && cal.Pkg.Pkg.Path() == "context" {
				continue
			}
			for _, a := range call.Common().Args {
				if !isCtx(a.Type()) {
					continue
				}
				n++
				if k := fresh(a, 0, map[ssa.Value]bool{}); k != nil {
					bad++
					c.S.Bad(rule, load.FuncName(f)+"→"+callName(call)+":context", c.pos(call.Pos()), "the context handed to this call starts from "+callName(k)+" ("+c.pos(k.Pos())+") instead of the caller's context: options carried by the context (overwrite permission, output settings, deadlines) are dropped for everything below")
				}
			}
		}
	}
	c.S.Count("context_arguments_examined", n)
	if bad == 0 {
		c.S.OK(rule, "rotation closure:context continuity", "", fmt.Sprintf("%d context arguments in %d functions, none rooted at context.Background/TODO", n, len(fns)), true)
	}
}
