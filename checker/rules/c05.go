package rules

import (
	"fmt"
	"go/constant"
	"go/token"
	"go/types"
	"sort"
	"strings"

	"golang.org/x/tools/go/ssa"

	"verif/checker/esp"
	"verif/checker/flow"
	"verif/checker/load"
)

func init() {
	register(&RuleSet{
		ID: "C05",
		Explanation: "R12 the bank list handed to the unaccepted-memory computation of package ovmf is the very list its caller was handed (a parameter, or a field of the parser it was handed), not a derivative. " +
			"R11 (T19, as C04.R12) in package tdx a quotient used as a stride (work split into equal shares) has its remainder dealt with. " +
			"R10 nothing in ovmf/tdx writes into storage obtained from a section's HostBuffer while section buffers share a backing array kept across sections. " +
			"R1 declared order: every sort call in package ovmf sorts a slice allocated in the same function (a copy), so the declared order of metadata sections / regions / RAM banks is never permuted in place; tdx.MRTD extends the measurement by ranging over the regions the parser returned, in that order. " +
			"R2 per-page sequence (ESP on the region measurement loop): within an iteration the page-add record precedes the extension records, both take the same page address expression, and extension is reachable only where the flag computed from the ExtendMR attribute or MeasureAllRegions is true. " +
			"R3 hand-off block order (ESP on the hand-off builder — the function of package ovmf that writes an EFIHOBHandoffInfoTable): hand-off table → descriptors of the private (declared) resources → descriptors of the unaccepted resources → end-of-list marker → zero padding, and the buffer has no other writer. " +
			"R4 table agreement: the section-type switches of the metadata validator and of the parser accept the same set of constants and both reject every other type. " +
			"R5 sweep cursor: in the RAM-minus-sections sweep (the two-list function of package ovmf), every advance of the section cursor that is shared by all RAM banks is dominated, within the iteration, by the edge `section empty` or `value computed from the section <= a field of the current bank` — the invariant the function states in its own comment; this decides that one clause of the interval subtraction, not the subtraction. " +
			"R6 (= C06.R8, TDX constructs) the launch options of each measurement inside the shape loop are set in that iteration: a legacy/early-accept setting does not leak into another configuration's MRTD. " +
			"R8 (= C08.T14) the loop that builds the material regions appends exactly one region per declared section on every path, so the index saved for the TD HOB section addresses the TD HOB region. " +
			"R9 launch mode dispatch (ESP with the two LaunchOptions flags): tdx.MRTD reaches the early-accept extractor only with DisableUnacceptedMemory true, the legacy measure-all extractor only with it false and MeasureAllRegions true, the default extractor only with both false. " +
			"R7 no write in the closure of tdx.MRTD / tdx.UnsignedTDX goes to a package-level variable. " +
			"Not covered: the SHA-384 stream contents, the interval subtraction that derives unaccepted memory, RAM-bank table values (numeric clauses).",
		Assumptions: []string{"go/types, go/ssa, VTA call graph"},
		Run:         runC05,
	})
}

func runC05(c *Ctx) {
	defer c05SectionBuffers(c)
	defer func() {
		// R11 (T19, as C04.R12): where the measured bytes are split into equal shares, the remainder is not lost
		var fns []*ssa.Function
		for _, f := range c.P.RepoFunctions() {
			if load.RelPkg(f) == "tdx" && !c.isTestFunc(f) {
				fns = append(fns, f)
			}
		}
		nq := c.partitionRemainderRule("R11", fns)
		c.S.OK("R11", "tdx:stride quotients", "", fmt.Sprintf("%d quotients used as a stride examined", nq), false)
	}()
	// R8 = C08.T14: the region list built from the declared sections stays in step with the section list (the TD
	// hand-off block is generated for the region at the index saved for the TD HOB section).
	c.borrow("R8/C08.", runC08, func(rule, _ string) bool { return rule == "T14" })
	// R9: launch mode → region extraction. tdx.MRTD hands the image to exactly the extractor of the requested launch
	// mode (table confirmed against the three exported ovmf entry points and the LaunchOptions documentation):
	//   DisableUnacceptedMemory            → ExtractMaterialGuestPhysicalRegionsNoUnacceptedMemory (early accept)
	//   ¬DisableUnacceptedMemory ∧ MeasureAllRegions → ExtractMaterialGuestPhysicalRegionsTDHOBBug   (legacy measure-all)
	//   neither                            → ExtractMaterialGuestPhysicalRegions                      (default)
	if mrtd := c.P.Func("tdx", "MRTD"); mrtd != nil {
		tdxPkg := repoPath("tdx")
		region := map[*ssa.Function]bool{}
		for _, g := range unexportedRegion(mrtd) {
			if g != mrtd {
				region[g] = true
			}
		}
		ext := map[*ssa.Function]int{}
		for i, n := range []string{"ExtractMaterialGuestPhysicalRegionsNoUnacceptedMemory", "ExtractMaterialGuestPhysicalRegionsTDHOBBug", "ExtractMaterialGuestPhysicalRegions"} {
			if f := c.fn("R9", "ovmf", n); f != nil {
				ext[f] = i
			}
		}
		nExt := 0
		r := &esp.Rule{Name: "C05.R9"}
		r.Relevant = func(g *ssa.Function) bool { return region[g] }
		r.Flag = func(v ssa.Value) (int, bool) {
			return boolFieldFlag(v, tdxPkg, "LaunchOptions", "DisableUnacceptedMemory", "MeasureAllRegions")
		}
		r.Match = func(in ssa.Instruction) []esp.Ev {
			if call, ok := in.(ssa.CallInstruction); ok {
				if i, ok := ext[call.Common().StaticCallee()]; ok {
					nExt++
					return []esp.Ev{{ID: i, Name: callName(call), ErrIdx: -1, BoolIdx: -1}}
				}
			}
			return nil
		}
		r.Step = func(x *esp.Ctx, s esp.State, ev esp.Ev, ph esp.Phase) (esp.State, string) {
			if ph != esp.AtCall {
				return s, ""
			}
			early, all := s.Flag(0), s.Flag(1)
			ok := false
			switch ev.ID {
			case 0:
				ok = early == esp.NonZero
			case 1:
				ok = early == esp.Zero && all == esp.NonZero
			case 2:
				ok = early == esp.Zero && all == esp.Zero
			}
			if !ok {
				return s, fmt.Sprintf("R9: %s is reached with DisableUnacceptedMemory %s and MeasureAllRegions %s: the regions (and the TD hand-off block's early-accept attributes) are those of another launch mode than the one requested", ev.Name, early, all)
			}
			return s, ""
		}
		e := c.engine(r)
		e.Run(mrtd, esp.State{})
		n := c.reportEngine(e, "R9", func(v *esp.Violation) string { return "tdx.MRTD:launch mode → extractor" })
		c.S.Floor("R9", "region extraction calls reached from tdx.MRTD", 3, nExt)
		if n == 0 {
			c.S.OK("R9", "tdx.MRTD:launch mode → extractor", c.pos(mrtd.Pos()), fmt.Sprintf("each extractor is reached only under its launch mode (%d configurations)", e.Configs), true)
		}
	}
	// R7: the MRTD computation keeps no package-level state
	c.noGlobalWrites("R7", c.P.Func("tdx", "MRTD"))
	c.noGlobalWrites("R7", c.P.Func("tdx", "UnsignedTDX"))
	// R6 = C06.R8 on the TDX side: each golden MRTD is computed with the launch options of the configuration
	// it is labelled with (no setting left over from another loop iteration).
	c.borrow("R6/C06.", runC06, func(rule, construct string) bool {
		return (rule == "R8" || rule == "R7") && strings.Contains(construct, "tdx.")
	})
	abiPkg := repoPath("ovmf/abi")
	sl := flow.NewSlicer(c.P)
	// ---------------- R1 ----------------
	c.S.Floor("R1", "sort calls in package ovmf", 1, c.sortOnCopiesRule("R1", func(f *ssa.Function) bool { return load.RelPkg(f) == "ovmf" }))
	mrtd := c.fn("R1", "tdx", "MRTD")
	var initRegion *ssa.Function
	if mrtd != nil {
		// the measurement loop ranges over the parser's result
		okRange := false
		for _, call := range callsIn(mrtd, func(call ssa.CallInstruction) bool {
			f := call.Common().StaticCallee()
			return f != nil && load.RelPkg(f) == "tdx" && f.Signature.Recv() != nil && errIndex(f.Signature) >= 0 && len(call.Common().Args) == 2
		}) {
			initRegion = call.Common().StaticCallee()
			arg := call.Common().Args[1]
			// element of the regions slice obtained from an ovmf.Extract* call, indexed by the loop counter
			if sl.Derives(arg, func(v ssa.Value) bool {
				cv, ok := v.(*ssa.Call)
				if !ok {
					return false
				}
				cal := cv.Call.StaticCallee()
				return cal != nil && load.RelPkg(cal) == "ovmf" && strings.HasPrefix(cal.Name(), "ExtractMaterialGuestPhysicalRegions")
			}) {
				if ld, ok := arg.(*ssa.UnOp); ok {
					if ia, ok := ld.X.(*ssa.IndexAddr); ok {
						if _, isPhi := stripAddConst(ia.Index).(*ssa.Phi); isPhi {
							okRange = true
						}
					}
				}
			}
		}
		c.S.Check(okRange, "R1", "tdx.MRTD:region order", c.pos(mrtd.Pos()), "regions are measured by ranging over the parser's result in order", "regions are not measured in the order the parser returned them")
	}

	// ---------------- R2 ----------------
	if initRegion != nil {
		name := load.FuncName(initRegion)
		leafShape := func(f *ssa.Function) string {
			if f == nil || load.RelPkg(f) != "tdx" || f.Signature.Recv() == nil || f == initRegion {
				return ""
			}
			// leaf records: methods taking (gpa uint64) or (gpa uint64, data []byte) that extend the digest
			ps := f.Signature.Params()
			if ps.Len() == 1 && ps.At(0).Type().String() == "uint64" {
				return "add"
			}
			if ps.Len() == 2 && ps.At(0).Type().String() == "uint64" && ps.At(1).Type().String() == "[]byte" {
				return "extend"
			}
			return ""
		}
		// a method of that shape that itself calls record methods (initPage(gpa, page): page-add, then the page's
		// chunks) is a step of the sequence, not a record: it is summarised
		composite := map[*ssa.Function]bool{}
		for _, g := range unexportedRegion(initRegion) {
			if g == initRegion {
				continue
			}
			if len(callsIn(g, func(call ssa.CallInstruction) bool { return leafShape(call.Common().StaticCallee()) != "" })) > 0 {
				composite[g] = true
			}
		}
		isLeaf := func(call ssa.CallInstruction) (string, bool) {
			f := call.Common().StaticCallee()
			if composite[f] {
				return "", false
			}
			k := leafShape(f)
			return k, k != ""
		}
		const bAdded uint = 0
		nAdd, nExt := 0, 0
		var addArg, extArg ssa.Value
		addArgs, extArgs := map[ssa.Value]bool{}, map[ssa.Value]bool{}
		r := &esp.Rule{Name: "C05.R2"}
		r.Relevant = func(g *ssa.Function) bool { return composite[g] }
		r.Flag = func(v ssa.Value) (int, bool) {
			// the measure-bytes flag: a boolean φ / value derived from TDVFAttributes & ExtendMR or MeasureAllRegions
			if v.Type().String() != "bool" {
				return 0, false
			}
			switch v.(type) {
			case *ssa.Phi, *ssa.BinOp, *ssa.Call:
				// a φ / expression over the attribute, or the result of a helper computing it
			default:
				return 0, false
			}
			if sl.Derives(v, func(x ssa.Value) bool {
				return flow.IsFieldLoad(x, repoPath("ovmf"), "MaterialGuestPhysicalRegion", "TDVFAttributes")
			}) {
				return 0, true
			}
			return 0, false
		}
		r.Match = func(in ssa.Instruction) []esp.Ev {
			call, ok := in.(ssa.CallInstruction)
			if !ok {
				return nil
			}
			if k, ok := isLeaf(call); ok {
				if k == "add" {
					nAdd++
					addArg = call.Common().Args[1]
					addArgs[addArg] = true
					return []esp.Ev{{ID: 0, Name: "page-add record", ErrIdx: -1, BoolIdx: -1}}
				}
				nExt++
				extArg = call.Common().Args[1]
				extArgs[extArg] = true
				return []esp.Ev{{ID: 1, Name: "extension record", ErrIdx: -1, BoolIdx: -1}}
			}
			return nil
		}
		r.Step = func(x *esp.Ctx, s esp.State, ev esp.Ev, ph esp.Phase) (esp.State, string) {
			switch ev.ID {
			case 0:
				return s.Set(bAdded), ""
			case 1:
				if s.Flag(0) != esp.NonZero {
					return s, "R2: page contents are extended where the extend-measurement flag is not known true"
				}
				if !s.Has(bAdded) {
					return s, "R2: page contents are extended before any page-add record"
				}
			}
			return s, ""
		}
		e := c.engine(r)
		e.Run(initRegion, esp.State{})
		n := c.reportEngine(e, "R2", func(v *esp.Violation) string { return name + ":page sequence" })
		c.S.Floor("R2", "page-add record sites", 1, nAdd)
		c.S.Floor("R2", "extension record sites", 1, nExt)
		if n == 0 {
			c.S.OK("R2", name+":page sequence", c.pos(initRegion.Pos()), fmt.Sprintf("add before extend; extend only under the flag (%d configurations)", e.Configs), true)
		}
		// same address expression, add dominates extend in the loop body
		if addArg != nil && extArg != nil {
			sameAddr := func(addArg, extArg ssa.Value) bool {
				if addArg == extArg {
					return true
				}
				a, aok := addArg.(*ssa.BinOp)
				b, bok := extArg.(*ssa.BinOp)
				if aok && bok && a.Op == b.Op && a.X == b.X && a.Y == b.Y {
					return true
				}
				// the chunk addresses of a page: the page's address plus the offset of the chunk within it
				if bok && b.Op == token.ADD && (b.X == addArg || b.Y == addArg) {
					return true
				}
				// base + page for the page, base + offset for its chunks, where the chunk counter starts at the page's offset
				if aok && bok && a.Op == token.ADD && b.Op == token.ADD {
					for _, pr := range [][4]ssa.Value{{a.X, a.Y, b.X, b.Y}, {a.X, a.Y, b.Y, b.X}, {a.Y, a.X, b.X, b.Y}, {a.Y, a.X, b.Y, b.X}} {
						if pr[0] != pr[2] {
							continue
						}
						if ph, ok := pr[3].(*ssa.Phi); ok {
							for _, e := range ph.Edges {
								if e == pr[1] {
									return true
								}
							}
						}
					}
				}
				return false
			}
			// every extension record is addressed like (one of) the page-add records
			same := true
			matchesAdd := func(ea ssa.Value) bool {
				for aa := range addArgs {
					if sameAddr(aa, ea) {
						return true
					}
				}
				return false
			}
			for ea := range extArgs {
				found := matchesAdd(ea)
				// a helper extending one page chunk by chunk is handed the page's address: parameter + offset, where
				// every caller passes the address it gave to the page-add record
				if b, ok := ea.(*ssa.BinOp); ok && !found && b.Op == token.ADD {
					for _, op := range []ssa.Value{b.X, b.Y} {
						prm, ok := op.(*ssa.Parameter)
						if !ok {
							continue
						}
						idx := -1
						for i, q := range prm.Parent().Params {
							if q == prm {
								idx = i
							}
						}
						node := c.P.CallGraph().Nodes[prm.Parent()]
						if idx < 0 || node == nil || len(node.In) == 0 {
							continue
						}
						all := true
						for _, e := range node.In {
							if e.Site == nil || e.Site.Common().StaticCallee() != prm.Parent() || idx >= len(e.Site.Common().Args) || !matchesAdd(e.Site.Common().Args[idx]) {
								all = false
							}
						}
						found = found || all
					}
				}
				same = same && found
			}
			c.S.Check(same, "R2", name+":record address", c.pos(initRegion.Pos()), "page-add and extension records carry the same address expression", "page-add and extension records are given different addresses")
		}
	}

	// ---------------- R3 hand-off block ----------------
	var builders []*ssa.Function
	for _, f := range c.P.RepoFunctions() {
		if load.RelPkg(f) != "ovmf" || c.isTestFunc(f) {
			continue
		}
		// the function that writes the hand-off table into the block (the table value itself may be prepared by a
		// helper; descriptor loops and padding may be helpers too: they are summarised below)
		if len(callsIn(f, func(call ssa.CallInstruction) bool {
			cal := call.Common().StaticCallee()
			return cal != nil && cal.Name() == "WriteTo" && cal.Signature.Recv() != nil && namedIs(cal.Signature.Recv().Type(), abiPkg, "EFIHOBHandoffInfoTable")
		})) > 0 {
			builders = append(builders, f)
		}
	}
	c.S.Floor("R3", "hand-off block builders in package ovmf", 1, len(builders))
	for _, f := range builders {
		name := load.FuncName(f)
		const (
			evHandoff = iota
			evDesc
			evEnd
			evPad
		)
		const (
			bHandoff uint = iota
			bPrivate
			bUnaccepted
			bEnd
			bPad
		)
		names := []string{"handoff", "private", "unaccepted", "end", "padding"}
		sysMem := c.extConst(abiPkg, "EFIResourceSystemMemory")
		unacc := c.extConst(abiPkg, "EFIResourceMemoryUnaccepted")
		seen := map[int]int{}
		listed := 0
		r := &esp.Rule{Name: "C05.R3"}
		hobRegion := map[*ssa.Function]bool{}
		for _, g := range unexportedRegion(f) {
			if g != f {
				hobRegion[g] = true
			}
		}
		r.Relevant = func(g *ssa.Function) bool { return hobRegion[g] }
		r.Match = func(in ssa.Instruction) []esp.Ev {
			call, ok := in.(ssa.CallInstruction)
			if !ok {
				return nil
			}
			cal := call.Common().StaticCallee()
			if cal == nil {
				return nil
			}
			switch {
			case cal.Name() == "WriteTo" && cal.Signature.Recv() != nil && namedIs(cal.Signature.Recv().Type(), abiPkg, "EFIHOBHandoffInfoTable"):
				seen[evHandoff]++
				return []esp.Ev{{ID: evHandoff, Name: "hand-off table", ErrIdx: -1, BoolIdx: -1}}
			case cal.Name() == "WriteTo" && cal.Signature.Recv() != nil && namedIs(cal.Signature.Recv().Type(), abiPkg, "EFIHOBGenericHeader"):
				seen[evEnd]++
				return []esp.Ev{{ID: evEnd, Name: "end-of-list marker", ErrIdx: -1, BoolIdx: -1}}
			case load.RelPkg(cal) == "ovmf" && len(call.Common().Args) >= 3 && namedIs(call.Common().Args[0].Type(), abiPkg, "EFIResourceType"):
				seen[evDesc]++
				kind := "?"
				if k, ok := call.Common().Args[0].(*ssa.Const); ok && k.Value != nil {
					if sysMem != nil && constant.Compare(constant.ToInt(k.Value), token.EQL, constant.ToInt(sysMem)) {
						kind = "private"
					} else if unacc != nil && constant.Compare(constant.ToInt(k.Value), token.EQL, constant.ToInt(unacc)) {
						kind = "unaccepted"
					}
				}
				return []esp.Ev{{ID: evDesc, Name: "resource descriptor (" + kind + ")", ErrIdx: -1, BoolIdx: -1, Data: kind}}
			case cal.Name() == "WriteTo" && cal.Signature.Recv() != nil && namedIs(cal.Signature.Recv().Type(), abiPkg, "EFIHOBResourceDescriptor") &&
				!(len(in.Parent().Params) > 0 && namedIs(in.Parent().Params[0].Type(), abiPkg, "EFIResourceType")):
				// (not the write inside a typed helper such as appendTDHobResource(type, …, w), which is an event itself)
				// a descriptor taken from a prepared list (its kind was decided where the list was built: stage A below)
				seen[evDesc]++
				listed++
				return []esp.Ev{{ID: evDesc, Name: "resource descriptor (from the prepared list)", ErrIdx: -1, BoolIdx: -1, Data: "listed"}}
			case calleeIs(call, "(*bytes.Buffer).Write"):
				seen[evPad]++
				return []esp.Ev{{ID: evPad, Name: "padding write", ErrIdx: -1, BoolIdx: -1}}
			}
			return nil
		}
		r.Step = func(x *esp.Ctx, s esp.State, ev esp.Ev, ph esp.Phase) (esp.State, string) {
			if ph != esp.AtCall {
				return s, ""
			}
			st := fmtState(names, s)
			switch ev.ID {
			case evHandoff:
				if s.A != 0 {
					return s.Set(bHandoff), "R3: the hand-off table is written in state " + st + ", not first"
				}
				return s.Set(bHandoff), ""
			case evDesc:
				switch ev.Data {
				case "private":
					if !s.Has(bHandoff) || s.Has(bUnaccepted) || s.Has(bEnd) {
						return s.Set(bPrivate), "R3: a declared-section descriptor is written in state " + st
					}
					return s.Set(bPrivate), ""
				case "unaccepted":
					if !s.Has(bHandoff) || s.Has(bEnd) {
						return s.Set(bUnaccepted), "R3: an unaccepted-memory descriptor is written in state " + st
					}
					return s.Set(bUnaccepted), ""
				case "listed":
					if !s.Has(bHandoff) || s.Has(bEnd) {
						return s.Set(bPrivate), "R3: the prepared descriptors are written in state " + st
					}
					return s.Set(bPrivate), ""
				default:
					return s, "R3: a resource descriptor of a type other than system memory / unaccepted memory is written into the hand-off block"
				}
			case evEnd:
				if !s.Has(bHandoff) || s.Has(bEnd) {
					return s.Set(bEnd), "R3: the end-of-list marker is written in state " + st
				}
				return s.Set(bEnd), ""
			case evPad:
				if !s.Has(bEnd) {
					return s.Set(bPad), "R3: padding is written in state " + st + " before the end-of-list marker"
				}
				return s.Set(bPad), ""
			}
			return s, ""
		}
		r.AtReturn = func(x *esp.Ctx, s esp.State, rets []esp.Abs) string {
			if len(rets) > 0 && rets[len(rets)-1] != esp.NonZero && (!s.Has(bHandoff) || !s.Has(bEnd)) {
				return "R3: the hand-off block can be returned in state " + fmtState(names, s) + " without table and end marker"
			}
			return ""
		}
		e := c.engine(r)
		e.Run(f, esp.State{})
		n := c.reportEngine(e, "R3", func(v *esp.Violation) string { return name + ":record order" })
		// Stage A: where the builder serialises a prepared list of descriptors, the list is put together by a function
		// of the package that makes the descriptors in the required order — every system-memory (declared section)
		// descriptor before any unaccepted-memory one — and the builder is handed that function's result.
		if listed > 0 {
			isDescCtor := func(call ssa.CallInstruction) bool {
				cal := call.Common().StaticCallee()
				return cal != nil && load.RelPkg(cal) == "ovmf" && len(call.Common().Args) >= 3 && namedIs(call.Common().Args[0].Type(), abiPkg, "EFIResourceType")
			}
			var producers []*ssa.Function
			for _, pf := range c.P.RepoFunctions() {
				if load.RelPkg(pf) == "ovmf" && !c.isTestFunc(pf) && pf != f && !hobRegion[pf] && len(callsIn(pf, isDescCtor)) > 0 {
					producers = append(producers, pf)
				}
			}
			c.S.Floor("R3", "functions preparing the descriptor list serialised by "+name, 1, len(producers))
			for _, pf := range producers {
				made := 0
				pr := &esp.Rule{Name: "C05.R3a"}
				pr.Relevant = func(*ssa.Function) bool { return false }
				pr.Match = func(in ssa.Instruction) []esp.Ev {
					call, ok := in.(ssa.CallInstruction)
					if !ok || !isDescCtor(call) {
						return nil
					}
					made++
					kind := "?"
					if k, ok := call.Common().Args[0].(*ssa.Const); ok && k.Value != nil {
						if sysMem != nil && constant.Compare(constant.ToInt(k.Value), token.EQL, constant.ToInt(sysMem)) {
							kind = "private"
						} else if unacc != nil && constant.Compare(constant.ToInt(k.Value), token.EQL, constant.ToInt(unacc)) {
							kind = "unaccepted"
						}
					}
					return []esp.Ev{{ID: evDesc, Name: "descriptor made (" + kind + ")", ErrIdx: -1, BoolIdx: -1, Data: kind}}
				}
				pr.Step = func(x *esp.Ctx, s esp.State, ev esp.Ev, ph esp.Phase) (esp.State, string) {
					if ph != esp.AtCall {
						return s, ""
					}
					switch ev.Data {
					case "private":
						if s.Has(bUnaccepted) {
							return s.Set(bPrivate), "R3: a declared-section descriptor is put on the list after an unaccepted-memory one"
						}
						return s.Set(bPrivate), ""
					case "unaccepted":
						return s.Set(bUnaccepted), ""
					}
					return s, "R3: a resource descriptor of a type other than system memory / unaccepted memory is put on the hand-off list"
				}
				pe := c.engine(pr)
				pe.Run(pf, esp.State{})
				seen[evDesc] += made
				if c.reportEngine(pe, "R3", func(v *esp.Violation) string { return load.FuncName(pf) + ":list order" }) == 0 {
					c.S.OK("R3", load.FuncName(pf)+":list order", c.pos(pf.Pos()), fmt.Sprintf("declared-section descriptors before unaccepted-memory ones (%d configurations)", pe.Configs), true)
				}
			}
			// the list the builder serialises is a producer's result
			linked := false
			for _, site := range c.funcsCalling(func(call ssa.CallInstruction) bool { return call.Common().StaticCallee() == f }) {
				for _, call := range callsIn(site, func(call ssa.CallInstruction) bool { return call.Common().StaticCallee() == f }) {
					for _, a := range call.Common().Args {
						if st, ok := a.Type().Underlying().(*types.Slice); !ok || !namedIs(st.Elem(), abiPkg, "EFIHOBResourceDescriptor") {
							continue
						}
						if sl.Derives(a, func(v ssa.Value) bool {
							pc, ok := v.(*ssa.Call)
							if !ok {
								return false
							}
							for _, pf := range producers {
								if pc.Call.StaticCallee() == pf {
									return true
								}
							}
							return false
						}) {
							linked = true
						}
					}
				}
			}
			c.S.Check(linked, "R3", name+":serialises the prepared list", c.pos(f.Pos()), "the list written is the result of the function that prepares it", "the descriptor list the builder serialises does not come from the function that prepares the descriptors in order")
		}
		c.S.Floor("R3", "resource descriptor writes in "+name, 2, seen[evDesc])
		c.S.Floor("R3", "end-of-list writes in "+name, 1, seen[evEnd])
		if n == 0 {
			c.S.OK("R3", name+":record order", c.pos(f.Pos()), fmt.Sprintf("table → private → unaccepted → end → padding on all %d configurations", e.Configs), true)
		}
	}

	// R3b: the hand-off block is always laid out. Every function of package ovmf that calls a hand-off block builder
	// (the parser's driver) reaches each of its possibly-successful returns only through that call: no configuration
	// (an empty bank list, a launch mode) returns the region list with the TD hand-off section's buffer left unwritten.
	nDrivers := 0
	isBuilder := map[*ssa.Function]bool{}
	for _, bf := range builders {
		isBuilder[bf] = true
	}
	for _, f := range c.P.RepoFunctions() {
		if load.RelPkg(f) != "ovmf" || c.isTestFunc(f) || f.Blocks == nil || isBuilder[f] {
			continue
		}
		bcalls := callsIn(f, func(call ssa.CallInstruction) bool { return isBuilder[call.Common().StaticCallee()] })
		if len(bcalls) == 0 {
			continue
		}
		ei := errIndex(f.Signature)
		if ei < 0 {
			continue
		}
		nDrivers++
		ok, at := true, f.Pos()
		for _, b := range f.Blocks {
			ret, isRet := b.Instrs[len(b.Instrs)-1].(*ssa.Return)
			if !isRet {
				continue
			}
			ev := ret.Results[ei]
			// a refusal: an error made here, or one found non-nil
			if call, isCall := ev.(*ssa.Call); isCall {
				if g := call.Call.StaticCallee(); g != nil && (g.String() == "fmt.Errorf" || g.String() == "errors.New") {
					continue
				}
			}
			nonNil := false
			for _, cf := range dominatingConds(b) {
				if bo, isB := cf.Cond.(*ssa.BinOp); isB && isNilK(bo.Y) && bo.X == ev && (bo.Op == token.NEQ) == cf.Val {
					nonNil = true
				}
			}
			if nonNil {
				continue
			}
			through := false
			for _, bc := range bcalls {
				if bc.Block().Dominates(b) {
					through = true
				}
			}
			if !through {
				ok, at = false, ret.Pos()
			}
		}
		c.S.Check(ok, "R3", load.FuncName(f)+":hand-off block always laid out", c.pos(at), "every possibly-successful return follows the call of the hand-off block builder", "the parser can return its region list without having called the hand-off block builder: the TD hand-off section is measured as whatever its buffer held (zero pages) instead of the generated block")
	}
	c.S.Floor("R3", "callers of the hand-off block builder in package ovmf", 1, nDrivers)

	// R12: the RAM banks are the caller's. The unaccepted-memory computation (the function of package ovmf that takes
	// the declared private regions and the guest RAM banks, both []GuestPhysicalRegion, and returns the unaccepted
	// ranges) is handed, as its bank list, the bank list its caller was handed — the very parameter, not a sorted,
	// merged or filtered derivative: the hand-off block has one unaccepted descriptor per uncovered part of *each*
	// bank, so the identity and order of the banks is part of what is measured.
	{
		isRegionList := func(t types.Type) bool {
			sl, ok := t.Underlying().(*types.Slice)
			return ok && namedIs(sl.Elem(), repoPath("ovmf"), "GuestPhysicalRegion")
		}
		nSites := 0
		for _, g := range c.P.RepoFunctions() {
			if load.RelPkg(g) != "ovmf" || c.isTestFunc(g) || g.Blocks == nil {
				continue
			}
			sig := g.Signature
			if sig.Params().Len() != 2 || sig.Results().Len() != 1 || !isRegionList(sig.Params().At(0).Type()) || !isRegionList(sig.Params().At(1).Type()) || !isRegionList(sig.Results().At(0).Type()) {
				continue
			}
			for _, f := range c.funcsCalling(func(call ssa.CallInstruction) bool { return call.Common().StaticCallee() == g }) {
				if c.isTestFunc(f) {
					continue
				}
				for _, call := range callsIn(f, func(call ssa.CallInstruction) bool { return call.Common().StaticCallee() == g }) {
					nSites++
					banks := call.Common().Args[1]
					ok := false
					for _, p := range f.Params {
						if banks == ssa.Value(p) {
							ok = true
						}
					}
					// or a field of the parser / options the caller was handed, read as it is
					if ld, isLd := banks.(*ssa.UnOp); isLd && ld.Op == token.MUL {
						if fa, isFA := ld.X.(*ssa.FieldAddr); isFA && ownsValue(fa.X, f) {
							ok = true
						}
					}
					c.S.Check(ok, "R12", load.FuncName(f)+"→"+g.Name()+":bank list", c.pos(call.Pos()), "the bank list is the caller's own, unchanged", "the RAM bank list handed to "+g.Name()+" is not the list the caller was given (it has been sorted, merged or filtered on the way): banks that touch are no longer described one by one, and the hand-off block — which is measured — has other unaccepted-memory descriptors than the launch builds")
				}
			}
		}
		c.S.Floor("R12", "calls of the unaccepted-memory computation", 1, nSites)
	}

	// ---------------- R4 table agreement ----------------
	secType := func(v ssa.Value) bool {
		return sl.Derives(v, func(x ssa.Value) bool {
			return flow.IsFieldLoad(x, abiPkg, "TDXMetadataSection", "SectionType")
		})
	}
	type tab struct {
		f      *ssa.Function
		consts map[int64]bool
		defErr bool
	}
	var tabs []tab
	for _, f := range c.P.RepoFunctions() {
		if load.RelPkg(f) != "ovmf" || c.isTestFunc(f) {
			continue
		}
		cs := switchConsts(f, secType)
		if len(cs) >= 3 {
			tabs = append(tabs, tab{f, cs, chainDefaultIsError(f, secType)})
		}
	}
	c.S.Floor("R4", "TDX section-type switches in package ovmf", 2, len(tabs))
	declared := map[int64]string{}
	if ap := c.P.Pkg("ovmf/abi"); ap != nil {
		for _, nm := range ap.Pkg.Scope().Names() {
			if strings.HasPrefix(nm, "TDXMetadataSectionType") {
				if k := c.extConst(abiPkg, nm); k != nil {
					v, _ := constant.Int64Val(constant.ToInt(k))
					declared[v] = nm
				}
			}
		}
	}
	for _, t := range tabs {
		name := load.FuncName(t.f)
		var missing, extra []string
		for v, nm := range declared {
			if !t.consts[v] {
				missing = append(missing, nm)
			}
		}
		for v := range t.consts {
			if _, ok := declared[v]; !ok {
				extra = append(extra, fmt.Sprint(v))
			}
		}
		sort.Strings(missing)
		sort.Strings(extra)
		c.S.Check(len(missing) == 0 && len(extra) == 0, "R4", name+":section types", c.pos(t.f.Pos()), fmt.Sprintf("handles exactly the %d declared section types", len(declared)), fmt.Sprintf("section types not handled: %v; undeclared values handled: %v", missing, extra))
		c.S.Check(t.defErr, "R4", name+":unknown section type", c.pos(t.f.Pos()), "unknown section types are rejected", "an unknown section type is not rejected")
	}
	for i := 1; i < len(tabs); i++ {
		same := len(tabs[i].consts) == len(tabs[0].consts)
		for v := range tabs[i].consts {
			if !tabs[0].consts[v] {
				same = false
			}
		}
		c.S.Check(same, "R4", load.FuncName(tabs[0].f)+" ↔ "+load.FuncName(tabs[i].f), c.pos(tabs[i].f.Pos()), "validator and parser accept the same section types", "validator and parser accept different sets of section types")
	}

	// ---------------- R5 sweep cursor (stated invariant) ----------------
	// The RAM-minus-sections sweep keeps one cursor into the sorted section list across all RAM
	// banks; its own comment states the invariant "forall k < cursor, section[k].end() <= bank.Start".
	// Structural necessary condition: every increment of such a shared cursor is dominated, within
	// the iteration, by the edge "element is empty" or "something computed from the element <= a
	// field of the current outer element" (not its end). Skipping an element on any other ground can
	// drop the part of it that lies in a later bank.
	nCursor := 0
	for _, f := range c.P.RepoFunctions() {
		if load.RelPkg(f) != "ovmf" || c.isTestFunc(f) || f.Blocks == nil {
			continue
		}
		sig := f.Signature
		isGPRs := func(t types.Type) bool {
			st, ok := t.Underlying().(*types.Slice)
			return ok && namedIs(st.Elem(), repoPath("ovmf"), "GuestPhysicalRegion")
		}
		nGPRs := 0
		for i := 0; i < sig.Params().Len(); i++ {
			if isGPRs(sig.Params().At(i).Type()) {
				nGPRs++
			}
		}
		hasGPRsResult := false
		for i := 0; i < sig.Results().Len(); i++ {
			if isGPRs(sig.Results().At(i).Type()) {
				hasGPRsResult = true
			}
		}
		if nGPRs == 0 || !hasGPRsResult {
			continue
		}
		loops := naturalLoops(f)
		for _, L := range loops {
			for _, in := range L.Header.Instrs {
				cur, ok := in.(*ssa.Phi)
				if !ok {
					break
				}
				if bt, ok := cur.Type().Underlying().(*types.Basic); !ok || bt.Kind() != types.Int {
					continue
				}
				// carried across an enclosing loop: some edge is a φ of another loop's header
				shared := false
				var incs []*ssa.BinOp
				for _, e := range cur.Edges {
					if ph, ok := e.(*ssa.Phi); ok && ph != cur {
						for _, L2 := range loops {
							if L2 != L && L2.Header == ph.Block() && L2.Body[L.Header] {
								shared = true
							}
						}
					}
					// or carried across the caller's loop: the sweep of one outer element is a helper that takes the
					// cursor as a parameter and returns it, and a call site feeds the result back into that argument
					// through a loop φ
					if par, ok := e.(*ssa.Parameter); ok && cursorCarriedByCaller(c, f, par, cur) {
						shared = true
					}
					if bo, ok := e.(*ssa.BinOp); ok && bo.Op == token.ADD && bo.X == ssa.Value(cur) {
						if k, ok := constInt(bo.Y); ok && k == 1 {
							incs = append(incs, bo)
						}
					}
				}
				if !shared || len(incs) == 0 {
					continue
				}
				// element cell: the local that receives SA[cur]
				var elem *ssa.Alloc
				for _, r := range nonDebugRefs(cur) {
					ia, ok := r.(*ssa.IndexAddr)
					if !ok || ia.Index != ssa.Value(cur) {
						continue
					}
					for _, r2 := range nonDebugRefs(ia) {
						if ld, ok := r2.(*ssa.UnOp); ok && ld.Op == token.MUL {
							for _, r3 := range nonDebugRefs(ld) {
								if st, ok := r3.(*ssa.Store); ok && st.Val == ssa.Value(ld) {
									if al, ok := st.Addr.(*ssa.Alloc); ok {
										elem = al
									}
								}
							}
						}
					}
				}
				if elem == nil {
					continue
				}
				nCursor++
				fromElem := func(v ssa.Value) bool {
					return derivesLocally(v, func(x ssa.Value) bool {
						switch y := x.(type) {
						case *ssa.UnOp:
							if y.Op != token.MUL {
								return false
							}
							if y.X == ssa.Value(elem) {
								return true
							}
							if fa, ok := y.X.(*ssa.FieldAddr); ok && fa.X == ssa.Value(elem) {
								return true
							}
						case *ssa.Call:
							for _, a := range y.Call.Args {
								if ld, ok := a.(*ssa.UnOp); ok && ld.Op == token.MUL && ld.X == ssa.Value(elem) {
									return true
								}
							}
						}
						return false
					})
				}
				outerField := func(v ssa.Value) bool {
					ld, ok := stripConv(v).(*ssa.UnOp)
					if !ok || ld.Op != token.MUL {
						return false
					}
					fa, ok := ld.X.(*ssa.FieldAddr)
					if !ok {
						return false
					}
					al, ok := fa.X.(*ssa.Alloc)
					return ok && al != elem && namedIs(al.Type(), repoPath("ovmf"), "GuestPhysicalRegion")
				}
				justifies := func(cf condFact) string {
					op, other, ok := relFact(cf, fromElem)
					if !ok {
						return ""
					}
					if k, isK := constInt(other); isK && k == 0 && op == token.EQL {
						return "element is empty"
					}
					if (op == token.LEQ || op == token.LSS) && outerField(other) && !fromElem(other) {
						return "element ends at or before the current outer element's start"
					}
					return ""
				}
				for _, inc := range incs {
					justified := ""
					for _, cf := range dominatingConds(inc.Block()) {
						if !L.Body[cf.Block] {
							continue
						}
						if j := justifies(cf); j != "" {
							justified = j
						}
					}
					// `if empty || endsBefore { cursor++ }`: two edges enter the increment, each justified
					if justified == "" && everyPathThroughEdge(L, inc.Block(), func(cf condFact) bool { return justifies(cf) != "" }) {
						justified = "element is empty or ends at or before the current outer element's start (on every edge into the increment)"
					}
					construct := load.FuncName(f) + ":cursor advance"
					c.S.Check(justified != "", "R5", construct, c.pos(inc.Pos()), "shared cursor advanced because the "+justified,
						"the cursor into the sorted section list is shared by all RAM banks, and here it is advanced without the edge `element empty` or `element ≤ current bank start` (the invariant stated in the function: every skipped section ends before the current bank starts): a section that continues into the next bank is skipped there and reported as unaccepted memory")
				}
			}
		}
	}
	c.S.Floor("R5", "cursors shared across the outer loop of a two-list sweep in package ovmf", 1, nCursor)
}

// sortOnCopiesRule: every sort call in the selected functions sorts a slice
// allocated in the same function (a copy), so declared orders survive.
func (c *Ctx) sortOnCopiesRule(rule string, sel func(*ssa.Function) bool) int {
	nSort := 0
	for _, f := range c.P.RepoFunctions() {
		if !sel(f) || c.isTestFunc(f) {
			continue
		}
		for _, call := range callsIn(f, func(call ssa.CallInstruction) bool {
			cal := call.Common().StaticCallee()
			if cal == nil {
				return false
			}
			if o := cal.Origin(); o != nil {
				cal = o
			}
			n := cal.String()
			return strings.HasPrefix(n, "slices.Sort") || strings.HasPrefix(n, "golang.org/x/exp/slices.Sort") || n == "sort.Slice" || n == "sort.SliceStable" || n == "sort.Sort" || n == "sort.Stable"
		}) {
			nSort++
			arg := call.Common().Args[0]
			if mi, ok := arg.(*ssa.MakeInterface); ok {
				arg = mi.X
			}
			eff := &flow.Effects{P: c.P, Funcs: map[*ssa.Function]bool{f: true}, Roots: map[*ssa.Function]bool{f: true}}
			fresh := true
			for _, r := range eff.ProvenanceOf(arg, f) {
				if r.Kind != flow.Fresh {
					fresh = false
				}
			}
			// an unexported helper that sorts the list it is handed: every caller hands it a slice it made itself
			if !fresh && f.Object() != nil && !f.Object().Exported() {
				onlyParams := true
				var prm *ssa.Parameter
				for _, r := range eff.ProvenanceOf(arg, f) {
					if r.Kind == flow.Fresh {
						continue
					}
					q, isP := r.V.(*ssa.Parameter)
					if r.Kind != flow.Param || !isP || q.Parent() != f {
						onlyParams = false
						continue
					}
					prm = q
				}
				if onlyParams && prm != nil {
					idx := -1
					for i, q := range f.Params {
						if q == prm {
							idx = i
						}
					}
					if node := c.P.CallGraph().Nodes[f]; node != nil && idx >= 0 {
						all, n := true, 0
						for _, e := range node.In {
							if e.Site == nil || c.isTestFunc(e.Caller.Func) {
								continue
							}
							if e.Site.Common().StaticCallee() != f || idx >= len(e.Site.Common().Args) {
								all = false
								continue
							}
							n++
							cf := e.Caller.Func
							ceff := &flow.Effects{P: c.P, Funcs: map[*ssa.Function]bool{cf: true}, Roots: map[*ssa.Function]bool{cf: true}}
							for _, r := range ceff.ProvenanceOf(e.Site.Common().Args[idx], cf) {
								if r.Kind != flow.Fresh {
									all = false
								}
							}
							// … and does not look at it again afterwards (its order would have changed under it)
							if usedAfter(e.Site.Common().Args[idx], e.Site) {
								all = false
							}
						}
						fresh = all && n > 0
					}
				}
			}
			c.S.Check(fresh, rule, load.FuncName(f)+":sort", c.pos(call.Pos()), "sorts a slice allocated in this function (a copy)", "a caller's slice is sorted in place: the declared order of sections / regions is lost")
		}
	}
	return nSort
}

// cursorCarriedByCaller: f returns (a value derived from) the loop cursor cur, which starts at f's parameter par, and
// at some call site the argument for par is a loop-header φ one of whose edges is that call's own result.
func cursorCarriedByCaller(c *Ctx, f *ssa.Function, par *ssa.Parameter, cur *ssa.Phi) bool {
	idx := -1
	for i, p := range f.Params {
		if p == par {
			idx = i
		}
	}
	if idx < 0 {
		return false
	}
	// which result carries the cursor
	res := -1
	for _, b := range f.Blocks {
		if ret, ok := b.Instrs[len(b.Instrs)-1].(*ssa.Return); ok {
			for i, r := range ret.Results {
				if r == ssa.Value(cur) {
					res = i
				}
				if ph, ok := r.(*ssa.Phi); ok {
					for _, e := range ph.Edges {
						if e == ssa.Value(cur) {
							res = i
						}
					}
				}
			}
		}
	}
	if res < 0 {
		return false
	}
	n := c.P.CallGraph().Nodes[f]
	if n == nil {
		return false
	}
	for _, e := range n.In {
		if e.Site == nil || e.Site.Common().StaticCallee() != f || idx >= len(e.Site.Common().Args) {
			continue
		}
		ph, ok := e.Site.Common().Args[idx].(*ssa.Phi)
		if !ok {
			continue
		}
		for _, pe := range ph.Edges {
			if ex, ok := pe.(*ssa.Extract); ok && ex.Tuple == e.Site.Value() && ex.Index == res {
				return true
			}
			if pe == ssa.Value(e.Site.Value()) && f.Signature.Results().Len() == 1 {
				return true
			}
		}
	}
	return false
}

// c05SectionBuffers — R10: the bytes a section is measured with are not overwritten through another section's buffer.
// A section's HostBuffer may share its backing array with other sections' buffers (one run of zero pages kept in a
// variable that outlives the section loop) only if nothing in the measurement packages writes into storage obtained
// from a HostBuffer (an element store, copy, append over a re-slice, a bytes.Buffer built over a re-slice): with both,
// building one section's contents in place (the TD hand-off block) changes what the others are measured with.
func c05SectionBuffers(c *Ctx) {
	ovmfPkg := repoPath("ovmf")
	isHB := func(v ssa.Value) bool {
		fa, ok := v.(*ssa.FieldAddr)
		return ok && flow.FieldName(fa) == "HostBuffer" && namedIs(fa.X.Type(), ovmfPkg, "MaterialGuestPhysicalRegion")
	}
	// does slice value v come (through re-slicing / φ / conversions) from a load of a HostBuffer field?
	var fromHB func(v ssa.Value, d int) bool
	fromHB = func(v ssa.Value, d int) bool {
		if d > 8 {
			return false
		}
		switch x := v.(type) {
		case *ssa.UnOp:
			return x.Op == token.MUL && isHB(x.X)
		case *ssa.Slice:
			return fromHB(x.X, d+1)
		case *ssa.Phi:
			for _, e := range x.Edges {
				if fromHB(e, d+1) {
					return true
				}
			}
		case *ssa.ChangeType:
			return fromHB(x.X, d+1)
		}
		return false
	}
	type site struct {
		f    *ssa.Function
		pos  token.Pos
		what string
	}
	var writes []site
	var shared []site
	nStores := 0
	for _, f := range c.P.RepoFunctions() {
		rel := load.RelPkg(f)
		if (rel != "ovmf" && rel != "tdx") || c.isTestFunc(f) {
			continue
		}
		for _, b := range f.Blocks {
			for _, in := range b.Instrs {
				switch x := in.(type) {
				case *ssa.Store:
					if ia, ok := x.Addr.(*ssa.IndexAddr); ok && fromHB(ia.X, 0) {
						writes = append(writes, site{f, x.Pos(), "an element store"})
					}
					if isHB(x.Addr) {
						nStores++
						// a buffer kept in a cell that outlives this store (captured variable, package variable, field of
						// another object) into which a fresh allocation is stored somewhere: the next section gets the same one
						var walk func(v ssa.Value, d int)
						seen := map[ssa.Value]bool{}
						walk = func(v ssa.Value, d int) {
							if d > 8 || seen[v] {
								return
							}
							seen[v] = true
							switch y := v.(type) {
							case *ssa.Slice:
								walk(y.X, d+1)
							case *ssa.Phi:
								for _, e := range y.Edges {
									walk(e, d+1)
								}
							case *ssa.ChangeType:
								walk(y.X, d+1)
							case *ssa.UnOp:
								if y.Op != token.MUL {
									return
								}
								var cellStores []ssa.Value
								switch cell := y.X.(type) {
								case *ssa.FreeVar:
									cellStores = storesToCapturedCell(cell)
								case *ssa.Global:
									sl := flow.NewSlicer(c.P)
									sl.Visit(y, func(z ssa.Value) bool {
										if _, ok := z.(*ssa.MakeSlice); ok {
											cellStores = append(cellStores, z)
										}
										return true
									}, nil)
								case *ssa.FieldAddr:
									if !isHB(cell) {
										cellStores = flow.NewSlicer(c.P).FieldStores(flow.StructFieldKey(cell.X.Type(), cell.Field))
									}
								}
								for _, sv := range cellStores {
									if _, ok := sv.(*ssa.MakeSlice); ok {
										shared = append(shared, site{f, x.Pos(), "a buffer kept in " + y.X.Name() + " across sections"})
										return
									}
								}
							}
						}
						walk(x.Val, 0)
					}
				case *ssa.Call:
					if bi, ok := x.Call.Value.(*ssa.Builtin); ok {
						switch bi.Name() {
						case "copy":
							if fromHB(x.Call.Args[0], 0) {
								writes = append(writes, site{f, x.Pos(), "a copy"})
							}
						case "append":
							if sl, ok := x.Call.Args[0].(*ssa.Slice); ok && sl.High != nil && fromHB(sl.X, 0) {
								writes = append(writes, site{f, x.Pos(), "an append over a re-slice"})
							}
						}
						continue
					}
					if cal := x.Call.StaticCallee(); cal != nil && cal.String() == "bytes.NewBuffer" && len(x.Call.Args) == 1 {
						if sl, ok := x.Call.Args[0].(*ssa.Slice); ok && fromHB(sl.X, 0) {
							writes = append(writes, site{f, x.Pos(), "a bytes.Buffer built over a re-slice"})
						}
					}
				}
			}
		}
	}
	c.S.Floor("R10", "stores to MaterialGuestPhysicalRegion.HostBuffer in ovmf/tdx", 2, nStores)
	if len(writes) > 0 && len(shared) > 0 {
		for _, w := range writes {
			c.S.Bad("R10", load.FuncName(w.f)+":writes section storage", c.pos(w.pos), fmt.Sprintf("%s writes into storage obtained from a section's HostBuffer while sections share a backing array (%s, %s in %s): other sections are measured with the bytes written here", w.what, shared[0].what, c.pos(shared[0].pos), load.FuncName(shared[0].f)))
		}
		return
	}
	c.S.OK("R10", "ovmf/tdx:section buffers", "", fmt.Sprintf("%d HostBuffer stores; %d writes into section storage, %d shared backing arrays: never both", nStores, len(writes), len(shared)), true)
}

// storesToCapturedCell: the values stored into the variable a closure captured (in the enclosing function and in all
// of its closures).
func storesToCapturedCell(fv *ssa.FreeVar) []ssa.Value {
	fn := fv.Parent()
	idx := -1
	for i, v := range fn.FreeVars {
		if v == fv {
			idx = i
		}
	}
	parent := fn.Parent()
	if idx < 0 || parent == nil {
		return nil
	}
	var cell ssa.Value
	for _, b := range parent.Blocks {
		for _, in := range b.Instrs {
			if mc, ok := in.(*ssa.MakeClosure); ok && mc.Fn == fn && idx < len(mc.Bindings) {
				cell = mc.Bindings[idx]
			}
		}
	}
	if cell == nil {
		return nil
	}
	var out []ssa.Value
	if refs := cell.Referrers(); refs != nil {
		for _, r := range *refs {
			if st, ok := r.(*ssa.Store); ok && st.Addr == cell {
				out = append(out, st.Val)
			}
			// other closures capturing the same cell
			if mc, ok := r.(*ssa.MakeClosure); ok {
				for i, bnd := range mc.Bindings {
					if bnd != cell {
						continue
					}
					g := mc.Fn.(*ssa.Function)
					if i >= len(g.FreeVars) {
						continue
					}
					if rr := g.FreeVars[i].Referrers(); rr != nil {
						for _, r2 := range *rr {
							if st, ok := r2.(*ssa.Store); ok && st.Addr == ssa.Value(g.FreeVars[i]) {
								out = append(out, st.Val)
							}
						}
					}
				}
			}
		}
	}
	return out
}


// usedAfter: the value v (or, when v is a load of a local variable, that variable) is used by an instruction that can
// execute after the call `site` (other than the call itself).
func usedAfter(v ssa.Value, site ssa.CallInstruction) bool {
	sb := site.Block()
	idxOf := func(in ssa.Instruction) int {
		for i, x := range in.Block().Instrs {
			if x == in {
				return i
			}
		}
		return -1
	}
	si := idxOf(site.(ssa.Instruction))
	after := func(u ssa.Instruction) bool {
		if u == site.(ssa.Instruction) || u.Block() == nil {
			return false
		}
		if _, dbg := u.(*ssa.DebugRef); dbg {
			return false
		}
		if u.Block() == sb {
			return idxOf(u) > si
		}
		// reachable from the call's block
		seen := map[*ssa.BasicBlock]bool{}
		stack := append([]*ssa.BasicBlock{}, sb.Succs...)
		for len(stack) > 0 {
			x := stack[len(stack)-1]
			stack = stack[:len(stack)-1]
			if seen[x] {
				continue
			}
			seen[x] = true
			if x == u.Block() {
				return true
			}
			stack = append(stack, x.Succs...)
		}
		return false
	}
	vals := []ssa.Value{v}
	if ld, ok := v.(*ssa.UnOp); ok && ld.Op == token.MUL {
		if al, ok := ld.X.(*ssa.Alloc); ok {
			vals = append(vals, al)
		}
	}
	for _, x := range vals {
		refs := x.Referrers()
		if refs == nil {
			continue
		}
		for _, u := range *refs {
			if after(u) {
				return true
			}
		}
	}
	return false
}
