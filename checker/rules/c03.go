package rules

import (
	"fmt"
	"go/constant"
	"go/token"
	"go/types"
	"strings"

	"golang.org/x/tools/go/ssa"

	"verif/checker/flow"
	"verif/checker/load"
)

func init() {
	register(&RuleSet{
		ID: "C03",
		Explanation: "R11 (= C02.R1 on verify.SNP, C02.R5 collection) a measurement listed for a configuration is the one the verifier compares a launch with that configuration against; the TDX policy's allow-list is collected from every listed row. " +
			"R10 (= C06.R13) the provenance the request names (ClSpec, Commit) is stored into the signed document on every successful path. " +
			"R9 the CLI's output back end (IO.Create implementations of gcetcbendorsement/cmd) opens files replacing their contents (os.Create / os.WriteFile / O_TRUNC): re-emitted signed pieces carry no stale tail. " +
			"R1 same bytes: in endorse.SignDoc the bytes stored in the endorsement's SerializedUefiGolden and the operand of the SHA-256 whose result is signed are one SSA value, the result of the single proto.Marshal of the document; the signature stored is Signer.Sign's result; the verification core never re-serialises (C01.R1b). " +
			"R2 parameter agreement (siblings): every rsa.PSSOptions literal in production code is {PSSSaltLengthEqualsHash, SHA-256}; every digest handed to Signer.Sign / rsa.SignPSS / rsa.VerifyPSS comes from sha256.Sum256; certificate templates and the verifier use x509.SHA256WithRSAPSS; any extended key usage a template sets is acceptable to every x509 chain verification site of the repository (no KeyUsages = ServerAuth, Any matches all); KMS keys are created with RSA_SIGN_PSS_4096_SHA256; the documented openssl command (value of the constant format in OpensslVerifyShellCmd) names pss padding, salt length 32, sha256 digest and sha256 MGF1. " +
			"R3 one key name: the key version handed to CA.Certificate, CA.CABundle and Signer.Sign in SignDoc is one value obtained from PrimarySigningKeyVersion. " +
			"R4 raw output: InspectPayload / InspectSignature write the field bytes themselves (C19.R5). " +
			"R5 (= C20.R1) the Cloud KMS signer returns a signature only behind the response-CRC, verified-digest/data and options guards, so the bytes signed are the digest SignDoc computed. " +
			"R6 (= C11.R4/R4b/R7) in the storage-backed authority a key version's manifest entry names the object uploaded for it through the gate, so the certificate SignDoc embeds is the signing key's own. " +
			"R8 (= C01.R2) the chain check hands x509 exactly {Roots: caller roots, CurrentTime: caller time}. " +
			"R7 no write in the call closures of endorse.SignDoc, rotate.Key and rotate.Bootstrap goes to a package-level variable (no process-wide cache of keys, certificates or signatures). " +
			"Not covered: that verification succeeds (runtime cryptography), validity windows, rotation histories, storage-backed versus in-memory authorities.",
		Assumptions: []string{"go/types, go/ssa", "crypto/rsa, crypto/x509 semantics"},
		Run:         runC03,
	})
}

func runC03(c *Ctx) {
	// R10 = C06.R13: the verifier refuses a document dated after the provenance cut-over that names neither a
	// changelist nor a commit, so the signer must not drop the provenance the request names: GoldenMeasurement stores
	// ClSpec and Commit on every successful path.
	c.borrow("R10/C06.", runC06, func(rule, _ string) bool { return rule == "R13" })
	// R11 = C02.R1: "every measurement it lists is accepted for its configuration" — when the launch VMSA count is
	// named, verify.SNP accepts only after comparing the reported measurement with the entry listed for that count
	// (an SVSM measurement stands in for the count 1 only), and refuses only when that entry is absent or differs.
	c.borrow("R11/C02.", runC02, func(rule, construct string) bool {
		return (rule == "R1" && strings.Contains(construct, "verify.SNP")) || (rule == "R5" && strings.Contains(construct, "collection exhaustive"))
	})
	// R9: what the inspection commands emit (payload, signature, certificate) are the stored signed bytes: the CLI's
	// output back end (in-repo implementations of the IO interface's Create in gcetcbendorsement/cmd) replaces an
	// existing file wholly — a shorter re-emission over a longer file must not keep the old tail, or the emitted
	// payload no longer verifies under the emitted signature.
	{
		var impls []*ssa.Function
		for _, f := range c.P.RepoFunctions() {
			if c.isTestFunc(f) || load.RelPkg(f) != "gcetcbendorsement/cmd" || f.Name() != "Create" || f.Signature.Recv() == nil || f.Blocks == nil || f.Parent() != nil || f.Synthetic != "" {
				continue
			}
			impls = append(impls, f)
		}
		nOpen := c.wholeFileWrites("R9", impls)
		c.S.Floor("R9", "output back ends (IO.Create implementations) of the CLI", 1, len(impls))
		c.S.Floor("R9", "file-opening calls in their closures", 1, nOpen)
	}
	// R5 = C20.R1: a Cloud KMS signature is only handed to SignDoc after the service confirmed that it signed the
	// digest that was sent (a digest damaged in transit yields a well-formed signature that does not verify).
	c.borrow("R5/C20.", runC20, func(rule, _ string) bool { return rule == "R1" })
	// R8 = C01.R2: the verifier's chain check runs at exactly the caller's verification time with the caller's roots
	// (a shifted or widened time refuses endorsements inside the validity of both certificates).
	c.borrow("R8/C01.", runC01, func(rule, _ string) bool { return rule == "R2" })
	// R7: signing and certification keep no package-level state (a process-wide memo of public keys, certificates or
	// signatures outlives the key material it was computed from: a later certificate or document is built from a
	// stale entry and does not verify).
	for _, root := range []*ssa.Function{c.P.Func("endorse", "SignDoc"), c.P.Func("rotate", "Key"), c.P.Func("rotate", "Bootstrap")} {
		c.noGlobalWrites("R7", root)
	}
	// R6 = C11.R4/R4b/R7: the certificate object recorded for a key version in the storage-backed authority is the one
	// uploaded for it through the gate (a manifest entry pointing a new key at an older object makes SignDoc embed a
	// certificate for another key: the endorsement no longer verifies).
	c.borrow("R6/C11.", runC11, func(rule, construct string) bool {
		return rule == "R4" || rule == "R4b" || rule == "R7" || ((rule == "ESP") && (strings.HasPrefix(construct, "R4:") || strings.HasPrefix(construct, "R7:")))
	})
	epbPkg := repoPath("proto/endorsement")
	stypPkg := repoPath("sign/types")
	sd := c.fn("R1", "endorse", "SignDoc")
	sl := flow.NewSlicer(c.P)
	if sd != nil {
		var marshal *ssa.Call
		nm := 0
		for _, call := range callsIn(sd, func(call ssa.CallInstruction) bool {
			return calleeIs(call, "google.golang.org/protobuf/proto.Marshal") && !typeMentions(call.Common().Args[0], epbPkg, "VMGoldenMeasurement")
		}) {
			_ = call
			nm++
		}
		// the golden measurement may be marshalled in SignDoc or in a helper that returns the bytes
		for _, ms := range c.goldenMarshalSites(sd, epbPkg) {
			nm++
			marshal = ms.site
		}
		c.S.Check(marshal != nil && nm == 1, "R1", "endorse.SignDoc:single marshal", c.pos(sd.Pos()), "the golden measurement is marshalled exactly once", fmt.Sprintf("%d proto.Marshal calls in SignDoc", nm))
		if marshal != nil {
			var bytesVal ssa.Value
			for _, r := range nonDebugRefs(marshal) {
				if ex, ok := r.(*ssa.Extract); ok && ex.Index == 0 {
					bytesVal = ex
				}
			}
			// stored payload
			okStore, okSig := false, false
			var signCall *ssa.Call
			for _, call := range callsIn(sd, func(call ssa.CallInstruction) bool { return invokeIs(call, stypPkg, "Signer", "Sign") }) {
				signCall = call.(*ssa.Call)
			}
			// the signature may be made by an unexported helper that hashes the payload it is given and returns
			// Signer.Sign's results as they are (signPayload(ctx, signer, key, payload))
			var signHelper *ssa.Function
			var signInner *ssa.Call
			payloadParam := -1
			if signCall == nil {
				for _, call := range callsIn(sd, func(call ssa.CallInstruction) bool {
					g := call.Common().StaticCallee()
					return g != nil && g.Pkg == sd.Pkg && g.Blocks != nil && (g.Object() == nil || !g.Object().Exported())
				}) {
					g := call.Common().StaticCallee()
					inner := callsIn(g, func(call ssa.CallInstruction) bool { return invokeIs(call, stypPkg, "Signer", "Sign") })
					if len(inner) != 1 {
						continue
					}
					ic := inner[0].(*ssa.Call)
					// returned as it is
					direct := false
					for _, gb := range g.Blocks {
						if ret, ok := gb.Instrs[len(gb.Instrs)-1].(*ssa.Return); ok && len(ret.Results) == 2 {
							e0, ok0 := ret.Results[0].(*ssa.Extract)
							if ok0 && e0.Tuple == ssa.Value(ic) && e0.Index == 0 {
								direct = true
							}
						}
					}
					if !direct {
						continue
					}
					// the digest signed is SHA-256 of one of the helper's parameters
					sl.Visit(ic.Call.Args[2], func(v ssa.Value) bool {
						if hc, ok := v.(*ssa.Call); ok && calleeIs(hc, "crypto/sha256.Sum256") {
							for i, p := range g.Params {
								if hc.Call.Args[0] == ssa.Value(p) {
									payloadParam = i
								}
							}
							return false
						}
						return true
					}, nil)
					if payloadParam >= 0 {
						signHelper, signInner = g, ic
						signCall = call.(*ssa.Call)
					}
				}
			}
			_ = signInner
			for _, b := range sd.Blocks {
				for _, in := range b.Instrs {
					st, ok := in.(*ssa.Store)
					if !ok {
						continue
					}
					fa, ok := st.Addr.(*ssa.FieldAddr)
					if !ok || !namedIs(fa.X.Type(), epbPkg, "VMLaunchEndorsement") {
						continue
					}
					switch flow.FieldName(fa) {
					case "SerializedUefiGolden":
						okStore = st.Val == bytesVal
					case "Signature":
						if ex, ok := st.Val.(*ssa.Extract); ok && signCall != nil && ex.Tuple == signCall && ex.Index == 0 {
							okSig = true
						}
					}
				}
			}
			c.S.Check(okStore, "R1", "endorse.SignDoc:stored payload", c.pos(marshal.Pos()), "SerializedUefiGolden is the marshal result itself", "the stored payload is not the byte slice that was produced by the single marshal")
			c.S.Check(okSig, "R1", "endorse.SignDoc:stored signature", c.pos(marshal.Pos()), "Signature is Signer.Sign's result", "the stored signature is not the result of Signer.Sign")
			// digest operand
			okDigest := false
			if signCall != nil && signHelper != nil {
				okDigest = payloadParam < len(signCall.Call.Args) && signCall.Call.Args[payloadParam] == bytesVal
			} else if signCall != nil {
				sl.Visit(signCall.Call.Args[2], func(v ssa.Value) bool {
					if call, ok := v.(*ssa.Call); ok && calleeIs(call, "crypto/sha256.Sum256") {
						if call.Call.Args[0] == bytesVal {
							okDigest = true
						}
						return false
					}
					return true
				}, nil)
			}
			c.S.Check(okDigest, "R1", "endorse.SignDoc:signed digest", c.pos(marshal.Pos()), "the signed digest is SHA-256 of the very bytes that are stored", "the digest that is signed is not SHA-256 over the stored payload bytes")
			// R3
			if signCall != nil {
				// in SignDoc and the unexported helpers it is split into: the key-version argument of each of the three
				// requests has exactly one string origin, the one PrimarySigningKeyVersion call of the region
				okKey := true
				uses := 0
				var primaries []ssa.Value
				region := unexportedRegion(sd)
				for _, rf := range region {
					for _, call := range callsIn(rf, func(call ssa.CallInstruction) bool {
						return invokeIs(call, stypPkg, "CertificateAuthority", "PrimarySigningKeyVersion")
					}) {
						primaries = append(primaries, call.Value())
					}
				}
				ksl := flow.NewSlicer(c.P)
				ksl.LiftParams = 2
				ksl.OpaqueInvokes = true
				for _, rf := range region {
					for _, call := range callsIn(rf, func(call ssa.CallInstruction) bool {
						return invokeIs(call, stypPkg, "CertificateAuthority", "Certificate") || invokeIs(call, stypPkg, "CertificateAuthority", "CABundle") || invokeIs(call, stypPkg, "Signer", "Sign")
					}) {
						uses++
						nPrim, nOther := 0, 0
						for _, o := range ksl.Origins(call.Common().Args[1]) {
							isStr := o.Type().String() == "string"
							if tup, ok := o.Type().(*types.Tuple); ok && tup.Len() > 0 && tup.At(0).Type().String() == "string" {
								isStr = true
							}
							if !isStr {
								continue
							}
							if len(primaries) == 1 && o == primaries[0] {
								nPrim++
							} else {
								nOther++
							}
						}
						if nPrim != 1 || nOther != 0 {
							okKey = false
						}
					}
				}
				c.S.Check(okKey && len(primaries) == 1 && uses == 3, "R3", "endorse.SignDoc:one key name", c.pos(signCall.Pos()), "certificate, bundle and signature use one key version from PrimarySigningKeyVersion", "certificate, CA bundle and signature are not all requested for the one primary signing key version")
			}
		}
	}

	// ---- R2 ----
	c.pssOptionSites("R2", nil, 5)
	// digests handed to signing / verification
	nd := 0
	for _, f := range c.P.RepoFunctions() {
		if c.isTestFunc(f) || isTestingPkg(load.RelPkg(f)) {
			continue
		}
		for _, call := range callsIn(f, func(call ssa.CallInstruction) bool {
			return calleeIs(call, "crypto/rsa.SignPSS") || calleeIs(call, "crypto/rsa.VerifyPSS")
		}) {
			nd++
			args := call.Common().Args
			hashArg, digestArg := args[2], args[3]
			if calleeIs(call, "crypto/rsa.VerifyPSS") {
				hashArg, digestArg = args[1], args[2]
			}
			okHash := false
			if k, ok := hashArg.(*ssa.Const); ok {
				if want := c.extConst("crypto", "SHA256"); want != nil && k.Value != nil && constant.Compare(k.Value, token.EQL, want) {
					okHash = true
				}
			}
			lsl := flow.NewSlicer(c.P)
			lsl.LiftParams = 2
			okDig := lsl.Derives(digestArg, func(v ssa.Value) bool {
				cc, ok := v.(*ssa.Call)
				return ok && calleeIs(cc, "crypto/sha256.Sum256")
			}) || lsl.Derives(digestArg, func(v ssa.Value) bool { return flow.IsFieldLoad(v, stypPkg, "Digest", "SHA256") })
			c.S.Check(okHash && okDig, "R2", load.FuncName(f)+":"+callName(call), c.pos(call.Pos()), "hash is SHA-256 and the digest is a SHA-256 digest", "RSA-PSS primitive is not given crypto.SHA256 with a SHA-256 digest")
		}
	}
	c.S.Floor("R2", "rsa.SignPSS / rsa.VerifyPSS call sites", 1, nd)
	// certificate templates
	want509 := c.extConst("crypto/x509", "SHA256WithRSAPSS")
	nt := 0
	for _, f := range c.P.RepoFunctions() {
		if c.isTestFunc(f) || isTestingPkg(load.RelPkg(f)) {
			continue
		}
		for _, b := range f.Blocks {
			for _, in := range b.Instrs {
				st, ok := in.(*ssa.Store)
				if !ok {
					continue
				}
				fa, ok := st.Addr.(*ssa.FieldAddr)
				if !ok || !flow.IsFieldLoad(fa, "crypto/x509", "Certificate", "SignatureAlgorithm") {
					continue
				}
				nt++
				k, isK := st.Val.(*ssa.Const)
				ok = isK && want509 != nil && k.Value != nil && constant.Compare(k.Value, token.EQL, want509)
				c.S.Check(ok, "R2", load.FuncName(f)+":template algorithm", c.pos(st.Pos()), "certificate template uses SHA256WithRSAPSS", "certificate template does not request SHA256-RSA-PSS")
			}
		}
	}
	c.S.Floor("R2", "certificate templates setting SignatureAlgorithm", 2, nt)
	// extended key usage: what templates put into signing certificates must be acceptable to what the
	// verifiers ask for (crypto/x509: no KeyUsages in VerifyOptions means ServerAuth; a certificate
	// without the extension is good for every usage; ExtKeyUsageAny on either side matches all)
	{
		type ekuSite struct {
			f    *ssa.Function
			pos  token.Pos
			set  map[int64]bool
			what string
		}
		var templates, verifiers []ekuSite
		for _, f := range c.P.RepoFunctions() {
			if c.isTestFunc(f) {
				continue
			}
			for _, b := range f.Blocks {
				for _, in := range b.Instrs {
					switch x := in.(type) {
					case *ssa.Store:
						fa, ok := x.Addr.(*ssa.FieldAddr)
						if !ok || !flow.IsFieldLoad(fa, "crypto/x509", "Certificate", "ExtKeyUsage") {
							continue
						}
						ks, ok := sliceLiteralConsts(x.Val)
						if !ok {
							c.S.Unk("R2", load.FuncName(f)+":template extended key usage", c.pos(x.Pos()), "extended key usage of a certificate template is not a literal list")
							continue
						}
						if len(ks) == 0 {
							continue
						}
						set := map[int64]bool{}
						for _, k := range ks {
							set[k] = true
						}
						templates = append(templates, ekuSite{f, x.Pos(), set, fmt.Sprint(ks)})
					case *ssa.Call:
						if !methodCallIs(x, "crypto/x509", "Certificate", "Verify") || isTestingPkg(load.RelPkg(f)) {
							continue
						}
						// the VerifyOptions value: loaded from a local literal
						set := map[int64]bool{1: true} // ExtKeyUsageServerAuth
						what := "default (ServerAuth)"
						if len(x.Call.Args) >= 2 {
							if ld, ok := x.Call.Args[1].(*ssa.UnOp); ok {
								if al, ok := ld.X.(*ssa.Alloc); ok {
									for _, r := range nonDebugRefs(al) {
										if fa, ok := r.(*ssa.FieldAddr); ok && flow.FieldName(fa) == "KeyUsages" {
											for _, r2 := range nonDebugRefs(fa) {
												if st, ok := r2.(*ssa.Store); ok {
													if ks, ok := sliceLiteralConsts(st.Val); ok && len(ks) > 0 {
														set = map[int64]bool{}
														for _, k := range ks {
															set[k] = true
														}
														what = fmt.Sprint(ks)
													}
												}
											}
										}
									}
								}
							}
						}
						verifiers = append(verifiers, ekuSite{f, x.Pos(), set, what})
					}
				}
			}
		}
		c.S.Floor("R2", "x509 chain verification sites", 2, len(verifiers))
		bad := 0
		for _, t := range templates {
			for _, v := range verifiers {
				okk := t.set[0] || v.set[0]
				for k := range t.set {
					if v.set[k] {
						okk = true
					}
				}
				if !okk {
					bad++
					c.S.Bad("R2", load.FuncName(t.f)+":template extended key usage vs "+load.FuncName(v.f), c.pos(t.pos), fmt.Sprintf("the template restricts the certificate to extended key usages %s, but %s (%s) verifies chains asking for %s: every certificate issued from this template is rejected there", t.what, load.FuncName(v.f), c.pos(v.pos), v.what))
				}
			}
		}
		if bad == 0 {
			c.S.OK("R2", "certificate templates ↔ chain verifiers:extended key usage", "", fmt.Sprintf("%d templates set an extended key usage; each is acceptable to all %d chain verification sites", len(templates), len(verifiers)), false)
		}
	}
	// KMS algorithm
	wantKms := c.extConst(kmspbPkg, "CryptoKeyVersion_RSA_SIGN_PSS_4096_SHA256")
	nk := 0
	for _, f := range c.P.RepoFunctions() {
		if load.RelPkg(f) != "keys/gcpkms" || c.isTestFunc(f) {
			continue
		}
		for _, b := range f.Blocks {
			for _, in := range b.Instrs {
				st, ok := in.(*ssa.Store)
				if !ok {
					continue
				}
				fa, ok := st.Addr.(*ssa.FieldAddr)
				if !ok || !flow.IsFieldLoad(fa, kmspbPkg, "CryptoKeyVersionTemplate", "Algorithm") {
					continue
				}
				nk++
				k, isK := st.Val.(*ssa.Const)
				ok = isK && wantKms != nil && k.Value != nil && constant.Compare(k.Value, token.EQL, wantKms)
				c.S.Check(ok, "R2", load.FuncName(f)+":KMS key algorithm", c.pos(st.Pos()), "key created as RSA_SIGN_PSS_4096_SHA256", "KMS key is not created for RSA-PSS-4096/SHA-256 signing")
			}
		}
	}
	c.S.Floor("R2", "KMS key templates", 2, nk)
	// openssl command constant
	if f := c.fn("R2", "gcetcbendorsement", "OpensslVerifyShellCmd"); f != nil {
		text := ""
		for _, b := range f.Blocks {
			for _, in := range b.Instrs {
				if call, ok := in.(*ssa.Call); ok && calleeIs(call, "fmt.Sprintf") {
					if k, ok := call.Call.Args[0].(*ssa.Const); ok && k.Value != nil && k.Value.Kind() == constant.String {
						text = constant.StringVal(k.Value)
					}
				}
			}
		}
		var missing []string
		for _, p := range []string{"rsa_padding_mode:pss", "rsa_pss_saltlen:32", "digest:sha256", "rsa_mgf1_md:sha256", "dgst -sha256"} {
			if !strings.Contains(text, p) {
				missing = append(missing, p)
			}
		}
		c.S.Check(len(missing) == 0, "R2", "gcetcbendorsement.OpensslVerifyShellCmd:parameters", c.pos(f.Pos()), "documented openssl flow names PSS, salt 32, SHA-256, MGF1-SHA-256", fmt.Sprintf("the documented openssl command lacks parameters %v: the independent check would not agree with the signer", missing))
	}
	// R4 = C19.R5 is decided under C19; here only the anchors' existence is re-confirmed
	for _, n := range []string{"InspectPayload", "InspectSignature"} {
		if f := c.fn("R4", "gcetcbendorsement", n); f != nil {
			p := rawOperandPath(c, f)
			want := map[string]string{"InspectPayload": "SerializedUefiGolden", "InspectSignature": "Signature"}[n]
			c.S.Check(p == want, "R4", "gcetcbendorsement."+n+":bytes", c.pos(f.Pos()), "writes the endorsement's "+want+" bytes untouched", "does not write the endorsement's "+want+" field itself")
		}
	}
}

// rawOperandPath: the single field name of the endorsement parameter handed to WriteBytesForm in f.
func rawOperandPath(c *Ctx, f *ssa.Function) string {
	wbf := c.P.Func("gcetcbendorsement", "WriteBytesForm")
	for _, call := range callsIn(f, func(call ssa.CallInstruction) bool { return wbf != nil && call.Common().StaticCallee() == wbf }) {
		p := flow.PathOf(call.Common().Args[0])
		if _, ok := p.Root.(*ssa.Parameter); ok && len(p.Fields) == 1 {
			return p.Fields[0]
		}
	}
	return ""
}

// sliceLiteralConsts: v is nil or a slice literal of integer constants
// (new [n]T; element stores; slice) — returns the constants.
func sliceLiteralConsts(v ssa.Value) ([]int64, bool) {
	if isNilK(v) {
		return nil, true
	}
	sl, ok := v.(*ssa.Slice)
	if !ok {
		return nil, false
	}
	al, ok := sl.X.(*ssa.Alloc)
	if !ok {
		return nil, false
	}
	var out []int64
	for _, r := range nonDebugRefs(al) {
		ia, ok := r.(*ssa.IndexAddr)
		if !ok {
			continue
		}
		for _, r2 := range nonDebugRefs(ia) {
			if st, ok := r2.(*ssa.Store); ok && st.Addr == ssa.Value(ia) {
				k, ok := constInt(st.Val)
				if !ok {
					return nil, false
				}
				out = append(out, k)
			}
		}
	}
	return out, true
}
