package rules

import (
	"fmt"
	"go/token"
	"go/types"
	"strings"

	"golang.org/x/tools/go/ssa"

	"verif/checker/load"
)

// isReaderRead: a call of Read([]byte) (int, error) on an io.Reader or a
// concrete reader (bytes.Reader, bytes.Buffer, os.File ...).
func isReaderRead(call ssa.CallInstruction) bool {
	cc := call.Common()
	sig := cc.Signature()
	if sig.Params().Len() != 1 || sig.Results().Len() != 2 {
		return false
	}
	if sig.Params().At(0).Type().String() != "[]byte" || sig.Results().At(0).Type().String() != "int" {
		return false
	}
	if cc.IsInvoke() {
		return cc.Method.Name() == "Read"
	}
	f := cc.StaticCallee()
	return f != nil && f.Name() == "Read" && f.Signature.Recv() != nil
}

// readCountRule (T3/R5): every Read call in the given packages has its count
// result compared with something (the requested length), i.e. short reads are
// not silently accepted.
func (c *Ctx) readCountRule(rule string, rels []string, floor int) {
	want := map[string]bool{}
	for _, r := range rels {
		want[r] = true
	}
	n := 0
	for _, f := range c.P.RepoFunctions() {
		if c.isTestFunc(f) || !want[load.RelPkg(f)] {
			continue
		}
		isFull := func(call ssa.CallInstruction) bool {
			cal := call.Common().StaticCallee()
			return cal != nil && (cal.String() == "io.ReadFull" || cal.String() == "io.ReadAtLeast")
		}
		for _, call := range callsIn(f, func(call ssa.CallInstruction) bool { return isReaderRead(call) || isFull(call) }) {
			if _, isDefer := call.(*ssa.Defer); isDefer {
				continue
			}
			// a type's own Read method delegating to its inner reader returns the count to its caller
			if f.Name() == "Read" && f.Signature.Recv() != nil {
				continue
			}
			n++
			cv := call.Value()
			checked := false
			if cv != nil {
				for _, r := range nonDebugRefs(cv) {
					ex, ok := r.(*ssa.Extract)
					if !ok {
						continue
					}
					if ex.Index != 0 {
						// io.ReadFull reports a short read through its error: testing or returning that error is the check
						if isFull(call) && ex.Index == 1 {
							for _, u := range nonDebugRefs(ex) {
								switch u := u.(type) {
								case *ssa.BinOp:
									if u.Op == token.EQL || u.Op == token.NEQ {
										checked = true
									}
								case *ssa.Return:
									checked = true
								}
							}
						}
						continue
					}
					for _, u := range nonDebugRefs(ex) {
						switch u := u.(type) {
						case *ssa.BinOp:
							switch u.Op {
							case token.EQL, token.NEQ, token.LSS, token.GTR, token.LEQ, token.GEQ:
								checked = true
							}
						case *ssa.Convert:
							for _, u2 := range nonDebugRefs(u) {
								if b, ok := u2.(*ssa.BinOp); ok && (b.Op == token.EQL || b.Op == token.NEQ || b.Op == token.LSS) {
									checked = true
								}
							}
						case *ssa.Return:
							checked = true // handed to the caller
						}
					}
				}
			}
			c.S.Check(checked, rule, load.FuncName(f)+":Read count", c.pos(call.Pos()), "the number of bytes read is compared with the number requested (or io.ReadFull's error is tested)", "the byte count of Read is ignored: a truncated input is accepted and the rest of the buffer stays zero")
		}
	}
	c.S.Floor(rule, "Read calls in "+strings.Join(rels, ", "), floor, n)
}

func fmtInt(n int64) string { return fmt.Sprintf("%d", n) }

var _ = types.Typ
