package rules

import (
	"fmt"
	"go/constant"
	"go/token"
	"go/types"
	"sort"
	"strings"

	"golang.org/x/tools/go/ssa"

	"verif/checker/esp"
	"verif/checker/flow"
	"verif/checker/load"
)

func init() {
	register(&RuleSet{
		ID: "C01",
		Explanation: "R6 a function that calls recover() hands the recovered panic on as a non-nil error: it stores a value into an error-typed variable of the function it is deferred in (the named result); a recovering closure that writes no such variable makes the enclosing verification step return its zero value — nil, i.e. accepted — whenever anything inside it panics. " +
			"R1 verification core (functions of package verify calling (*x509.Certificate).CheckSignature): ESP — a possibly-nil error return only after the chain check and the signature check both returned nil; content of the golden measurement is consumed for acceptance (functions taking *VMGoldenMeasurement, bytes.Equal on its fields) only after the signature check; static operands — chain check gets RootsOfTrust/Now of the options parameter, the signature is checked with the certificate returned by that chain check, algorithm constant x509.SHA256WithRSAPSS, message = the very field bytes that were unmarshalled into the golden measurement whose Cert was chain-checked (access-path equality, no store to the field anywhere in the repo's production code), signature operand = the endorsement's Signature. " +
			"R3c the CLI's root-of-trust pool builders return a pool allocated empty by x509.NewCertPool (never the host store, a clone or a shared pool). " +
			"R2 chain check (functions of package verify calling (*x509.Certificate).Verify): nil return only after Verify:ok on the certificate parsed from parameter 0, VerifyOptions has exactly Roots←parameter 1 and CurrentTime←parameter 2, Verify only after roots≠nil is known, returned certificate is the verified one. " +
			"R3 entry points (exported functions / returned closures of verify, gcetcbendorsement, gcetcbendorsement/cmd that return error and receive roots of trust by type, plus CLI RunE functions that build a root pool): a possibly-nil return only after a call, that returned nil, of the core, of another entry point, or of go-sev-guest validate.SnpAttestation; every options literal carrying a CertPool built there takes pool and time from the entry point's own options (CLI: from the pool builder and the backend's Now), never from time.Now()/a fresh or system pool. " +
			"R4 SNP registration: the options passed to validate.SnpAttestation have CertTableOptions stored in the same function with a map entry of Kind validate.CertEntryRequire whose Validate is the result of verify.SNP[Family]ValidateFunc. " +
			"R5 sibling verifier sign/ops: PSS options constants and chain options. " +
			"Not covered: the cryptography itself (x509/rsa trusted); go-sev-guest's contract that a required cert-table validator must return nil is assumed.",
		Assumptions: []string{"go/types, go/ssa, VTA call graph", "crypto/x509 Verify/CheckSignature semantics", "go-sev-guest validate.SnpAttestation returns nil only if every CertEntryRequire validator returned nil", "fmt.Errorf returns non-nil"},
		Run:         runC01,
	})
}

const (
	x509CheckSig = "(*crypto/x509.Certificate).CheckSignature"
	x509Verify   = "(*crypto/x509.Certificate).Verify"
)

func isCertPool(t types.Type) bool { return namedIs(t, "crypto/x509", "CertPool") }

// poolFieldIndex returns the index of a *x509.CertPool field in struct type t (behind pointers), or -1.
func poolField(t types.Type) (*types.Struct, int) {
	for {
		if p, ok := t.(*types.Pointer); ok {
			t = p.Elem()
			continue
		}
		break
	}
	st, ok := t.Underlying().(*types.Struct)
	if !ok {
		return nil, -1
	}
	for i := 0; i < st.NumFields(); i++ {
		if isCertPool(st.Field(i).Type()) {
			return st, i
		}
	}
	return nil, -1
}

func receivesRoots(f *ssa.Function) bool {
	vals := []ssa.Value{}
	for _, p := range f.Params {
		vals = append(vals, p)
	}
	for _, fv := range f.FreeVars {
		vals = append(vals, fv)
	}
	for _, v := range vals {
		t := v.Type()
		// free variables are **T cells
		for i := 0; i < 2; i++ {
			if isCertPool(t) {
				return true
			}
			if _, idx := poolField(t); idx >= 0 {
				return true
			}
			if p, ok := t.(*types.Pointer); ok {
				t = p.Elem()
			}
		}
	}
	return false
}

func returnsError(f *ssa.Function) bool { return errIndex(f.Signature) >= 0 }

func runC01(c *Ctx) {
	c01RecoveredPanicsAreErrors(c)
	verifyPkg := repoPath("verify")
	epbPkg := repoPath("proto/endorsement")
	sl := flow.NewSlicer(c.P)

	var chains []*ssa.Function
	cores, regionOf := c.verifyCores()
	for _, f := range c.funcsCalling(func(call ssa.CallInstruction) bool { return calleeIs(call, x509Verify) }) {
		if load.RelPkg(f) == "verify" {
			chains = append(chains, f)
		}
	}
	c.S.Floor("R1", "verification cores (exported functions of package verify reaching x509 CheckSignature through unexported helpers)", 1, len(cores))
	c.S.Floor("R2", "chain-check functions (callers of x509 Verify in package verify)", 1, len(chains))
	// a chain check is the (cert bytes, roots, time) function; when the Verify call sits in an unexported helper with
	// a single caller, the caller is the chain check (see R2)
	chainTop := map[*ssa.Function]bool{}
	for _, d := range chains {
		ch := d
		for i := 0; i < 2; i++ {
			if len(ch.Params) == 3 && isCertBytes(ch.Params[0].Type()) {
				break
			}
			var callers []*ssa.Function
			if node := c.P.CallGraph().Nodes[ch]; node != nil {
				for _, e := range node.In {
					if e.Site != nil && e.Site.Common().StaticCallee() == ch && load.RelPkg(e.Caller.Func) == "verify" && !c.isTestFunc(e.Caller.Func) {
						callers = append(callers, e.Caller.Func)
					}
				}
			}
			if len(callers) != 1 || (ch.Object() != nil && ch.Object().Exported()) {
				break
			}
			chainTop[ch] = true // the helper belongs to the chain check too
			ch = callers[0]
		}
		chainTop[ch] = true
	}
	isChain := func(f *ssa.Function) bool { return chainTop[f] }
	isCore := func(f *ssa.Function) bool {
		for _, g := range cores {
			if f == g {
				return true
			}
		}
		return false
	}
	var algoConst int64 = -1
	if xp := c.P.ExtPkg("crypto/x509"); xp != nil {
		if k, ok := xp.Pkg.Scope().Lookup("SHA256WithRSAPSS").(*types.Const); ok {
			algoConst, _ = constant.Int64Val(k.Val())
		}
	}

	// ---------------- R1 ----------------
	for _, core := range cores {
		name := load.FuncName(core)
		region := regionOf[core]
		var regionFns []*ssa.Function
		for g := range region {
			if !isChain(g) {
				regionFns = append(regionFns, g)
			}
		}
		sort.Slice(regionFns, func(i, j int) bool { return regionFns[i].Pos() < regionFns[j].Pos() })
		inRegion := func(f *ssa.Function) bool { return f != nil && region[f] && !isChain(f) }
		slr := flow.NewSlicer(c.P)
		slr.LiftParams = 3
		const (
			evCC = iota
			evCS
			evConsume
		)
		const (
			bCC uint = iota
			bCS
		)
		names := []string{"chain:ok", "signature:ok"}
		// golden objects: targets of proto.Unmarshal in core
		var goldens []ssa.Value
		var unmarshalSrc = map[ssa.Value]ssa.Value{}
		for _, rf := range regionFns {
			for _, call := range callsIn(rf, func(call ssa.CallInstruction) bool {
				return calleeIs(call, "google.golang.org/protobuf/proto.Unmarshal") && len(call.Common().Args) == 2 && typeMentions(call.Common().Args[1], epbPkg, "VMGoldenMeasurement")
			}) {
				g := unwrapIface(call.Common().Args[1])
				goldens = append(goldens, g)
				unmarshalSrc[g] = call.Common().Args[0]
			}
		}
		fromGolden := func(v ssa.Value) bool {
			return slr.Derives(v, func(x ssa.Value) bool {
				for _, g := range goldens {
					if x == g {
						return true
					}
				}
				return false
			})
		}
		classify := func(in ssa.Instruction) (int, bool) {
			call, ok := in.(ssa.CallInstruction)
			if !ok {
				return 0, false
			}
			if f := call.Common().StaticCallee(); f != nil {
				if isChain(f) {
					return evCC, true
				}
				if calleeIs(call, x509CheckSig) {
					return evCS, true
				}
				if inRegion(in.Parent()) && !inRegion(f) {
					if load.FuncInRepo(f) && !flow.IsProtoGetter(f) && !strings.HasPrefix(load.RelPkg(f), "proto/") {
						for _, a := range call.Common().Args {
							if namedIs(a.Type(), epbPkg, "VMGoldenMeasurement") || namedIs(a.Type(), epbPkg, "VMSevSnp") || namedIs(a.Type(), epbPkg, "VMTdx") {
								return evConsume, true
							}
						}
					}
					if f.String() == "bytes.Equal" {
						for _, a := range call.Common().Args {
							if fromGolden(a) {
								return evConsume, true
							}
						}
					}
				}
			}
			return 0, false
		}
		reached := map[int]int{}
		r := &esp.Rule{Name: "C01.R1"}
		r.Relevant = func(f *ssa.Function) bool { return inRegion(f) && f != core } // unexported helpers of the core are summarised; everything else is an event
		r.Match = func(in ssa.Instruction) []esp.Ev {
			id, ok := classify(in)
			if !ok {
				return nil
			}
			call := in.(ssa.CallInstruction)
			reached[id]++
			ev := esp.Ev{ID: id, Name: callName(call), ErrIdx: -1, BoolIdx: -1}
			if id != evConsume {
				ev.ErrIdx = errIndex(call.Common().Signature())
			}
			return []esp.Ev{ev}
		}
		r.Step = func(x *esp.Ctx, s esp.State, ev esp.Ev, ph esp.Phase) (esp.State, string) {
			switch ev.ID {
			case evCC:
				if ph == esp.Ok {
					return s.Set(bCC), ""
				}
			case evCS:
				if ph == esp.AtCall && !s.Has(bCC) {
					return s, "R1: signature checked in state " + fmtState(names, s) + " before the certificate chain check succeeded"
				}
				if ph == esp.Ok {
					return s.Set(bCS), ""
				}
			case evConsume:
				if ph == esp.AtCall && !s.Has(bCS) {
					return s, "R1c: " + ev.Name + " consumes golden-measurement content in state " + fmtState(names, s) + " before the signature check succeeded"
				}
			}
			return s, ""
		}
		r.AtReturn = func(x *esp.Ctx, s esp.State, rets []esp.Abs) string {
			if rets[len(rets)-1] == esp.NonZero {
				return ""
			}
			if !s.Has(bCC) || !s.Has(bCS) {
				return "R1: " + name + " may accept (nil error) in state " + fmtState(names, s) + " without chain:ok∧signature:ok"
			}
			return ""
		}
		e := c.engine(r)
		e.Run(core, esp.State{})
		n := c.reportEngine(e, "R1", func(v *esp.Violation) string { return name + ":" + strings.SplitN(v.Msg, ":", 2)[0] })
		c.S.Floor("R1", "chain-check calls in "+name, 1, reached[evCC])
		c.S.Floor("R1", "signature-check calls in "+name, 1, reached[evCS])
		if n == 0 {
			c.S.OK("R1", name+":paths", c.pos(core.Pos()), fmt.Sprintf("acceptance only after chain:ok∧signature:ok; %d consumers of golden content all after signature:ok (%d configurations)", reached[evConsume], e.Configs), true)
		}

		// static operand rules. Operands are access paths; where a call sits in a helper of the
		// region, the path is lifted through the helper's parameters to the call sites, up to the core.
		lift := func(v ssa.Value, depth int) []flow.AccessPath { return liftPaths(v, core, regionFns, depth) }
		all := func(ps []flow.AccessPath, pred func(flow.AccessPath) bool) bool {
			if len(ps) == 0 {
				return false
			}
			for _, p := range ps {
				if !pred(p) {
					return false
				}
			}
			return true
		}
		optParam := optionsParam(core)
		nChainCalls := 0
		for _, rf := range regionFns {
			for _, cc := range callsIn(rf, func(call ssa.CallInstruction) bool {
				f := call.Common().StaticCallee()
				return f != nil && isChain(f)
			}) {
				nChainCalls++
				args := cc.Common().Args
				if len(args) != 3 || optParam == nil {
					c.S.Unk("R1a", name+":chain-check operands", c.pos(cc.Pos()), "unexpected chain-check signature or no options parameter on the core")
					continue
				}
				fieldOfOpts := func(v ssa.Value, typ func(types.Type) bool) bool {
					return typ(v.Type()) && all(lift(v, 0), func(p flow.AccessPath) bool { return p.Root == ssa.Value(optParam) && len(p.Fields) == 1 })
				}
				okRoots := fieldOfOpts(args[1], isCertPool)
				okNow := fieldOfOpts(args[2], func(t types.Type) bool { return namedIs(t, "time", "Time") })
				c.S.Check(okRoots, "R1a", name+":roots", c.pos(cc.Pos()), "chain check uses the options parameter's roots of trust", "chain check is not given the caller's roots of trust: "+flow.Describe(args[1]))
				c.S.Check(okNow, "R1a", name+":time", c.pos(cc.Pos()), "chain check uses the options parameter's verification time", "chain check is not given the caller's verification time: "+flow.Describe(args[2]))
				// cert bytes: field Cert of a golden object
				var golden ssa.Value
				for _, g := range goldens {
					if all(lift(args[0], 0), func(p flow.AccessPath) bool { return p.Root == g && len(p.Fields) == 1 && p.Fields[0] == "Cert" }) {
						golden = g
					}
				}
				c.S.Check(golden != nil, "R1b", name+":certificate source", c.pos(cc.Pos()), "certificate is the Cert field of the golden measurement unmarshalled here", "the chain-checked certificate is not the embedded Cert of the unmarshalled golden measurement: "+flow.Describe(args[0]))
				for _, rf2 := range regionFns {
					for _, cs := range callsIn(rf2, func(call ssa.CallInstruction) bool { return calleeIs(call, x509CheckSig) }) {
						a := cs.Common().Args
						// receiver is result 0 of this chain check
						recvOK := all(lift(a[0], 0), func(p flow.AccessPath) bool {
							ex, ok := p.Root.(*ssa.Extract)
							return ok && len(p.Fields) == 0 && ex.Tuple == cc.Value() && ex.Index == 0
						})
						c.S.Check(recvOK, "R1b", name+":signing certificate", c.pos(cs.Pos()), "signature checked with the certificate returned by the chain check", "signature is checked with a certificate other than the one returned by the chain check: "+flow.Describe(a[0]))
						k, isK := a[1].(*ssa.Const)
						algOK := isK && k.Value != nil && algoConst >= 0 && k.Int64() == algoConst
						c.S.Check(algOK, "R1b", name+":algorithm", c.pos(cs.Pos()), "algorithm constant is x509.SHA256WithRSAPSS", "signature algorithm operand is not the constant x509.SHA256WithRSAPSS")
						// message = bytes unmarshalled into golden: same access path, rooted at a parameter of the core
						msgOK := false
						var msgRoot ssa.Value
						if golden != nil {
							srcs := lift(unmarshalSrc[golden], 0)
							msgOK = all(lift(a[2], 0), func(mp flow.AccessPath) bool {
								if _, isParam := mp.Root.(*ssa.Parameter); !isParam || len(mp.Fields) != 1 || mp.Fields[0] != "SerializedUefiGolden" {
									return false
								}
								msgRoot = mp.Root
								return all(srcs, func(sp flow.AccessPath) bool { return sp.Equal(mp) })
							})
						}
						c.S.Check(msgOK, "R1b", name+":signed bytes", c.pos(cs.Pos()), "verified message is the stored SerializedUefiGolden field that was unmarshalled (same access path)", "the verified message is not exactly the stored payload bytes that were parsed: "+flow.Describe(a[2]))
						sigOK := all(lift(a[3], 0), func(sp flow.AccessPath) bool {
							return msgRoot != nil && sp.Root == msgRoot && len(sp.Fields) == 1 && sp.Fields[0] == "Signature"
						})
						c.S.Check(sigOK, "R1b", name+":signature operand", c.pos(cs.Pos()), "signature operand is the endorsement's Signature field", "signature operand is not the endorsement's Signature field: "+flow.Describe(a[3]))
					}
				}
			}
		}
		_ = nChainCalls
		// no re-serialisation in the core's closure and no store to the payload field in production code
		nMarshal := 0
		for f := range c.reachable([]*ssa.Function{core}, nil) {
			nMarshal += len(callsIn(f, func(call ssa.CallInstruction) bool { return calleeIs(call, "google.golang.org/protobuf/proto.Marshal") }))
		}
		c.S.Check(nMarshal == 0, "R1b", name+":no re-serialisation", c.pos(core.Pos()), "no proto.Marshal in the core's closure", fmt.Sprintf("%d proto.Marshal calls in the verification core's closure (payload may be re-serialised)", nMarshal))
	}
	// stores to SerializedUefiGolden outside signing
	{
		bad := 0
		for _, f := range c.P.RepoFunctions() {
			rel := load.RelPkg(f)
			if c.isTestFunc(f) || isTestingPkg(rel) || rel == "endorse" || rel == "proto/endorsement" {
				continue
			}
			for _, b := range f.Blocks {
				for _, in := range b.Instrs {
					if st, ok := in.(*ssa.Store); ok {
						if fa, ok := st.Addr.(*ssa.FieldAddr); ok && flow.IsFieldLoad(fa, epbPkg, "VMLaunchEndorsement", "SerializedUefiGolden") {
							if rel == "verify" || strings.HasPrefix(rel, "gcetcbendorsement") || strings.HasPrefix(rel, "extract") {
								bad++
								c.S.Bad("R1b", load.FuncName(f)+":payload store", c.pos(st.Pos()), "verifier-side code writes the endorsement payload field")
							}
						}
					}
				}
			}
		}
		if bad == 0 {
			c.S.OK("R1b", "verifier packages:payload immutable", "", "no store to VMLaunchEndorsement.SerializedUefiGolden in verify/gcetcbendorsement/extract", true)
		}
	}

	// ---------------- R2 ----------------
	for _, direct := range chains {
		// the chain check is the function with (cert bytes, roots, time) parameters; the Verify call itself may sit in
		// an unexported helper that function calls (chainsToRootsAt(cert, roots, now)): lift to the single caller
		ch := direct
		chRegion := map[*ssa.Function]bool{}
		viaSite := map[*ssa.Function]ssa.CallInstruction{} // helper → its one call site
		for i := 0; i < 2 && len(ch.Params) != 3 || (i < 2 && len(ch.Params) == 3 && !isCertBytes(ch.Params[0].Type())); i++ {
			var sites []ssa.CallInstruction
			var caller *ssa.Function
			if node := c.P.CallGraph().Nodes[ch]; node != nil {
				for _, e := range node.In {
					if e.Site != nil && e.Site.Common().StaticCallee() == ch && load.RelPkg(e.Caller.Func) == "verify" && !c.isTestFunc(e.Caller.Func) {
						sites = append(sites, e.Site)
						caller = e.Caller.Func
					}
				}
			}
			if len(sites) != 1 || (ch.Object() != nil && ch.Object().Exported()) {
				break
			}
			chRegion[ch] = true
			viaSite[ch] = sites[0]
			ch = caller
		}
		// resolve a helper's parameter to what the chain function passes for it
		var resolve func(v ssa.Value) ssa.Value
		resolve = func(v ssa.Value) ssa.Value {
			for i := 0; i < 3; i++ {
				p, ok := v.(*ssa.Parameter)
				if !ok || p.Parent() == ch {
					return v
				}
				site, ok := viaSite[p.Parent()]
				if !ok {
					return v
				}
				idx := -1
				for j, q := range p.Parent().Params {
					if q == p {
						idx = j
					}
				}
				if idx < 0 || idx >= len(site.Common().Args) {
					return v
				}
				v = site.Common().Args[idx]
			}
			return v
		}
		name := load.FuncName(ch)
		if len(ch.Params) != 3 {
			c.S.Unk("R2", name+":signature", c.pos(ch.Pos()), "chain check does not have (cert bytes, roots, time) parameters")
			continue
		}
		// the same-package helpers the chain function is split into (guards, the Verify call) are summarised
		for _, g := range unexportedRegion(ch) {
			if g != ch {
				chRegion[g] = true
			}
		}
		const bV uint = 0
		verifyCalls := 0
		r := &esp.Rule{Name: "C01.R2"}
		r.Relevant = func(g *ssa.Function) bool { return chRegion[g] }
		r.Track = func(v ssa.Value) bool { return v == ssa.Value(ch.Params[1]) }
		r.Match = func(in ssa.Instruction) []esp.Ev {
			if call, ok := in.(ssa.CallInstruction); ok && calleeIs(call, x509Verify) {
				verifyCalls++
				return []esp.Ev{{ID: 0, Name: "x509 Verify", ErrIdx: errIndex(call.Common().Signature()), BoolIdx: -1}}
			}
			return nil
		}
		r.Step = func(x *esp.Ctx, s esp.State, ev esp.Ev, ph esp.Phase) (esp.State, string) {
			if ph == esp.AtCall {
				// the pool this Verify call is given: the Roots field of its options literal (a helper's own parameter
				// carries the caller's knowledge about it), else the chain function's pool parameter
				var pool ssa.Value = ch.Params[1]
				if call, ok := x.Instr.(ssa.CallInstruction); ok && len(call.Common().Args) >= 2 {
					if ld, ok := call.Common().Args[1].(*ssa.UnOp); ok {
						if al, ok := ld.X.(*ssa.Alloc); ok {
							for _, ref := range *al.Referrers() {
								if fa, ok := ref.(*ssa.FieldAddr); ok && flow.FieldName(fa) == "Roots" {
									for _, r2 := range *fa.Referrers() {
										if st, ok := r2.(*ssa.Store); ok && st.Addr == fa {
											pool = st.Val
										}
									}
								}
							}
						}
					}
				}
				if x.Eval(pool) != esp.NonZero {
					return s, "R2: Verify reachable while the root pool may be nil (a nil pool silently means the system roots)"
				}
			}
			if ph == esp.Ok {
				return s.Set(bV), ""
			}
			return s, ""
		}
		r.AtReturn = func(x *esp.Ctx, s esp.State, rets []esp.Abs) string {
			if rets[len(rets)-1] != esp.NonZero && !s.Has(bV) {
				return "R2: chain check may return nil without x509 Verify having succeeded"
			}
			return ""
		}
		e := c.engine(r)
		e.Run(ch, esp.State{})
		n := c.reportEngine(e, "R2", func(v *esp.Violation) string { return name + ":paths" })
		if n == 0 {
			c.S.OK("R2", name+":paths", c.pos(ch.Pos()), fmt.Sprintf("nil return only after Verify:ok; Verify only with roots≠nil (%d configurations)", e.Configs), true)
		}
		var vcalls []ssa.CallInstruction
		vcalls = append(vcalls, callsIn(ch, func(call ssa.CallInstruction) bool { return calleeIs(call, x509Verify) })...)
		for g := range chRegion {
			vcalls = append(vcalls, callsIn(g, func(call ssa.CallInstruction) bool { return calleeIs(call, x509Verify) })...)
		}
		// a named result kept in a cell (the function has a deferred closure): the one non-nil value stored into it
		cellValue := func(v ssa.Value) ssa.Value {
			ld, ok := v.(*ssa.UnOp)
			if !ok || ld.Op != token.MUL {
				return v
			}
			cell, ok := ld.X.(*ssa.Alloc)
			if !ok || cell.Referrers() == nil {
				return v
			}
			var val ssa.Value
			n := 0
			for _, r := range *cell.Referrers() {
				switch x := r.(type) {
				case *ssa.Store:
					if x.Addr != ssa.Value(cell) || isNilK(x.Val) {
						continue
					}
					if self, ok := x.Val.(*ssa.UnOp); ok && self.Op == token.MUL && self.X == ssa.Value(cell) {
						continue // `return cert, err` with named results stores the cell into itself
					}
					n++
					val = x.Val
				case *ssa.MakeClosure:
					// a closure may only clear the cell (store nil) — checked through its free variable
					fn, _ := x.Fn.(*ssa.Function)
					for i, b := range x.Bindings {
						if b != ssa.Value(cell) || fn == nil || i >= len(fn.FreeVars) {
							continue
						}
						for _, fr := range *fn.FreeVars[i].Referrers() {
							if st, ok := fr.(*ssa.Store); ok && st.Addr == ssa.Value(fn.FreeVars[i]) && !isNilK(st.Val) {
								n += 2
							}
						}
					}
				}
			}
			if n == 1 {
				return val
			}
			return v
		}
		for _, vc := range vcalls {
			a := append([]ssa.Value(nil), vc.Common().Args...)
			a[0] = cellValue(resolve(a[0]))
			// receiver parsed from param 0
			recvOK := false
			if ex, ok := a[0].(*ssa.Extract); ok {
				if pc, ok := ex.Tuple.(*ssa.Call); ok && calleeIs(pc, "crypto/x509.ParseCertificate") && pc.Call.Args[0] == ch.Params[0] {
					recvOK = true
				}
			}
			c.S.Check(recvOK, "R2", name+":verified certificate", c.pos(vc.Pos()), "Verify runs on the certificate parsed from parameter 0", "Verify does not run on the certificate parsed from the given bytes")
			// options literal
			fields := map[string]ssa.Value{}
			okLit := false
			if ld, ok := a[1].(*ssa.UnOp); ok {
				if al, ok := ld.X.(*ssa.Alloc); ok {
					okLit = true
					for _, ref := range *al.Referrers() {
						if fa, ok := ref.(*ssa.FieldAddr); ok {
							for _, r2 := range *fa.Referrers() {
								if st, ok := r2.(*ssa.Store); ok && st.Addr == fa {
									fields[flow.FieldName(fa)] = st.Val
								}
							}
						}
					}
				}
			}
			var fnames []string
			for k := range fields {
				fnames = append(fnames, k)
			}
			sort.Strings(fnames)
			ok := okLit && len(fields) == 2 && fields["Roots"] != nil && fields["CurrentTime"] != nil && resolve(fields["Roots"]) == ssa.Value(ch.Params[1]) && resolve(fields["CurrentTime"]) == ssa.Value(ch.Params[2])
			c.S.Check(ok, "R2", name+":verify options", c.pos(vc.Pos()), "VerifyOptions = {Roots: parameter 1, CurrentTime: parameter 2}", fmt.Sprintf("VerifyOptions is not exactly {Roots: caller roots, CurrentTime: caller time}; fields set: %v", fnames))
			// returned certificate is the verified one
			retOK := true
			for _, b := range ch.Blocks {
				if ret, ok := b.Instrs[len(b.Instrs)-1].(*ssa.Return); ok {
					if k, isK := ret.Results[0].(*ssa.Const); isK && k.Value == nil {
						continue
					}
					if cellValue(ret.Results[0]) != a[0] {
						retOK = false
					}
				}
			}
			c.S.Check(retOK, "R2", name+":returned certificate", c.pos(vc.Pos()), "returns the verified certificate", "chain check returns a certificate other than the one it verified")
		}
	}

	// ---------------- R3 entry points ----------------
	var snpAtt *ssa.Function
	if vp := c.P.ExtPkg("github.com/google/go-sev-guest/validate"); vp != nil {
		snpAtt = vp.Func("SnpAttestation")
	}
	var entries []*ssa.Function
	poolBuilders := map[*ssa.Function]bool{}
	for _, f := range c.P.RepoFunctions() {
		if c.isTestFunc(f) {
			continue
		}
		rel := load.RelPkg(f)
		if rel != "verify" && rel != "gcetcbendorsement" && rel != "gcetcbendorsement/cmd" {
			continue
		}
		if rel == "gcetcbendorsement/cmd" && f.Signature.Results().Len() == 2 && isCertPool(f.Signature.Results().At(0).Type()) {
			poolBuilders[f] = true
		}
	}
	// R3c: a pool builder of the CLI hands out a pool it allocated empty (x509.NewCertPool) and filled itself: no
	// other producer of a *x509.CertPool (the host's TLS store, a clone of something, a package-level pool) reaches
	// its result, so the trusted set is exactly what the builder added.
	{
		var bs []*ssa.Function
		for f := range poolBuilders {
			bs = append(bs, f)
		}
		sort.Slice(bs, func(i, j int) bool { return bs[i].Pos() < bs[j].Pos() })
		for _, f := range bs {
			psl := flow.NewSlicer(c.P)
			bad := ""
			nret := 0
			for _, b := range f.Blocks {
				ret, ok := b.Instrs[len(b.Instrs)-1].(*ssa.Return)
				if !ok || len(ret.Results) == 0 {
					continue
				}
				nret++
				psl.Visit(ret.Results[0], func(v ssa.Value) bool {
					if !isCertPool(v.Type()) {
						if ex, ok := v.(*ssa.Extract); !ok || !isCertPool(ex.Type()) {
							// only follow the pool itself (what is added to it is R3's and the readers' business)
							if _, isTuple := v.Type().(*types.Tuple); !isTuple {
								return false
							}
						}
					}
					switch x := v.(type) {
					case *ssa.Call:
						if cal := x.Call.StaticCallee(); cal != nil && cal.Pkg == f.Pkg && cal.Blocks != nil {
							return true // a helper of the builder: the slicer descends into what it returns
						}
						if cal := x.Call.StaticCallee(); cal == nil || cal.String() != "crypto/x509.NewCertPool" {
							bad = "the pool returned comes from " + callName(x)
						}
						return false
					case *ssa.Global:
						bad = "the pool returned is the package-level " + x.Name()
						return false
					case *ssa.Parameter:
						bad = "the pool returned is the caller's own object " + x.Name()
						return false
					}
					return true
				}, nil)
			}
			if nret > 0 {
				c.S.Check(bad == "", "R3c", load.FuncName(f)+":pool origin", c.pos(f.Pos()), "the pool handed out is allocated empty by x509.NewCertPool in the builder", bad+", not from x509.NewCertPool: certificates the caller never named become roots of trust")
			}
		}
		c.S.Floor("R3c", "root-of-trust pool builders in the CLI", 1, len(bs))
	}
	for _, f := range c.P.RepoFunctions() {
		if c.isTestFunc(f) || !returnsError(f) || isChain(f) || poolBuilders[f] {
			continue
		}
		rel := load.RelPkg(f)
		if rel != "verify" && rel != "gcetcbendorsement" && rel != "gcetcbendorsement/cmd" {
			continue
		}
		top := f
		for top.Parent() != nil {
			top = top.Parent()
		}
		exported := top.Object() != nil && top.Object().Exported()
		if receivesRoots(f) && (exported || f.Parent() != nil && receivesRoots(f)) {
			if f.Parent() != nil || exported {
				entries = append(entries, f)
				continue
			}
		}
		// CLI: functions that obtain a pool from a pool builder
		if rel == "gcetcbendorsement/cmd" && len(callsIn(f, func(call ssa.CallInstruction) bool {
			cal := call.Common().StaticCallee()
			return cal != nil && poolBuilders[cal]
		})) > 0 {
			entries = append(entries, f)
		}
	}
	// the validation functions handed to go-sev-guest are entry points whichever way they are written (closure over
	// the options, or a method of a struct holding them)
	for _, m := range c.validatorMakers() {
		rel := load.RelPkg(m)
		if rel != "verify" && rel != "gcetcbendorsement" {
			continue
		}
		for _, b := range validatorBodies(m) {
			dup := false
			for _, e := range entries {
				if e == b {
					dup = true
				}
			}
			if !dup {
				entries = append(entries, b)
			}
		}
	}
	c.S.Floor("R3", "entry points that receive or build roots of trust", 8, len(entries))
	entrySet := map[*ssa.Function]bool{}
	for _, f := range entries {
		entrySet[f] = true
	}
	isAuth := func(call ssa.CallInstruction) bool {
		for _, f := range c.P.Callees(call) {
			if isCore(f) || entrySet[f] || (snpAtt != nil && f == snpAtt) {
				return true
			}
		}
		return false
	}
	litSeen := map[*ssa.Alloc]bool{}
	for _, ent := range entries {
		name := load.FuncName(ent)
		entTop := ent
		if isCore(ent) {
			c.S.OK("R3", name+":is core", c.pos(ent.Pos()), "the verification core itself (R1)", false)
			continue
		}
		const bAuth uint = 0
		authCalls := 0
		r := &esp.Rule{Name: "C01.R3"}
		// --show (public flag name) prints the equivalent openssl command and
		// verifies nothing: returning nil there is not an acceptance.
		showField, haveShow := c.flagBoundField("gcetcbendorsement/cmd", "show")
		r.Flag = func(v ssa.Value) (int, bool) {
			if !haveShow {
				return 0, false
			}
			if u, ok := v.(*ssa.UnOp); ok && u.Op == token.MUL {
				if fa, ok := u.X.(*ssa.FieldAddr); ok && flow.StructFieldKey(fa.X.Type(), fa.Field) == showField {
					return 0, true
				}
			}
			return 0, false
		}
		// the entry point may be split into unexported helpers (one of which makes the verification call): they are
		// summarised; other entry points and the cores stay opaque events
		entRegion := map[*ssa.Function]bool{}
		for _, g := range unexportedRegion(ent) {
			if g != ent && !entrySet[g] && !isCore(g) && !isChain(g) {
				entRegion[g] = true
			}
		}
		r.Relevant = func(g *ssa.Function) bool { return entRegion[g] }
		r.Match = func(in ssa.Instruction) []esp.Ev {
			if call, ok := in.(ssa.CallInstruction); ok && isAuth(call) {
				authCalls++
				return []esp.Ev{{ID: 0, Name: "auth " + callName(call), ErrIdx: errIndex(call.Common().Signature()), BoolIdx: -1}}
			}
			return nil
		}
		r.Step = func(x *esp.Ctx, s esp.State, ev esp.Ev, ph esp.Phase) (esp.State, string) {
			if ph == esp.Ok {
				return s.Set(bAuth), ""
			}
			return s, ""
		}
		r.AtReturn = func(x *esp.Ctx, s esp.State, rets []esp.Abs) string {
			if rets[len(rets)-1] != esp.NonZero && !s.Has(bAuth) {
				if s.Flag(0) == esp.NonZero {
					return "" // --show mode
				}
				if authCalls == 0 {
					return "R3: " + name + " receives roots of trust but can return nil without ever reaching the signature/chain verification"
				}
				return "R3: " + name + " may accept (nil error) on a path that did not pass a successful verification call"
			}
			return ""
		}
		e := c.engine(r)
		e.Run(ent, esp.State{})
		n := c.reportEngine(e, "R3", func(v *esp.Violation) string { return name + ":acceptance" })
		if n == 0 {
			c.S.OK("R3", name+":acceptance", c.pos(ent.Pos()), fmt.Sprintf("nil return only after a successful verification call (%d auth call sites, %d configurations)", authCalls, e.Configs), true)
		}
		// options literals with a pool built here
		isCLI := load.RelPkg(ent) == "gcetcbendorsement/cmd"
		// the literal may be built by an unexported helper of the entry point (its own parameters are then "the caller's")
		for _, lf := range unexportedRegion(ent) {
			if lf != entTop && (entrySet[lf] || isCore(lf) || isChain(lf)) {
				continue
			}
			ent := lf
			name := name
			if lf != entTop {
				name = load.FuncName(lf)
			}
			for _, b := range ent.Blocks {
				for _, in := range b.Instrs {
					al, ok := in.(*ssa.Alloc)
					if !ok || litSeen[al] {
						continue
					}
					st, pidx := poolField(al.Type())
					if pidx < 0 {
						continue
					}
					litSeen[al] = true
					stores := map[int]ssa.Value{}
					copiedFromOwned := false
					for _, ref := range *al.Referrers() {
						// whole-struct copy `x := *opts`: every field is the caller's
						if s2, ok := ref.(*ssa.Store); ok && s2.Addr == al {
							if ld, ok := s2.Val.(*ssa.UnOp); ok && ld.Op == token.MUL && ownsValue(ld.X, ent) {
								copiedFromOwned = true
							}
						}
						if fa, ok := ref.(*ssa.FieldAddr); ok {
							for _, r2 := range *fa.Referrers() {
								if s2, ok := r2.(*ssa.Store); ok && s2.Addr == fa {
									stores[fa.Field] = s2.Val
								}
							}
						}
					}
					construct := name + ":" + typeShort(al.Type().(*types.Pointer).Elem())
					pv := stores[pidx]
					okPool := (pv == nil && copiedFromOwned) || (pv != nil && c.poolFromCaller(sl, pv, ent, isCLI, poolBuilders))
					c.S.Check(okPool, "R3b", construct+".roots", c.pos(al.Pos()), "roots of trust forwarded from the caller", "options built here do not carry the caller's roots of trust")
					for i := 0; i < st.NumFields(); i++ {
						if st.Field(i).Name() == "Now" && namedIs(st.Field(i).Type(), "time", "Time") {
							tv := stores[i]
							okT := (tv == nil && copiedFromOwned) || (tv != nil && c.timeFromCaller(sl, tv, ent, isCLI))
							c.S.Check(okT, "R3b", construct+".time", c.pos(al.Pos()), "verification time forwarded from the caller", "options built here do not carry the caller's verification time (zero time or wall clock)")
						}
					}
				}
			}
		}
	}

	// ---------------- R4 SNP registration ----------------
	if snpAtt != nil {
		n4 := 0
		for _, f := range entries {
			for _, call := range callsIn(f, func(call ssa.CallInstruction) bool { return call.Common().StaticCallee() == snpAtt }) {
				n4++
				name := load.FuncName(f)
				vopts := call.Common().Args[1]
				// find store to CertTableOptions of the same object in f
				var mapVal ssa.Value
				for _, b := range f.Blocks {
					for _, in := range b.Instrs {
						if st, ok := in.(*ssa.Store); ok {
							if fa, ok := st.Addr.(*ssa.FieldAddr); ok && flow.FieldName(fa) == "CertTableOptions" && fa.X == vopts {
								mapVal = st.Val
							}
						}
					}
				}
				// the options may come from an unexported helper that builds them and registers the entry before
				// returning them: look at the object that helper returns
				if mapVal == nil {
					src := vopts
					if ex, ok := src.(*ssa.Extract); ok {
						src = ex.Tuple
					}
					if hc, ok := src.(*ssa.Call); ok {
						if g := hc.Call.StaticCallee(); g != nil && g.Pkg == f.Pkg && g.Blocks != nil {
							var obj ssa.Value
							one := true
							for _, gb := range g.Blocks {
								if ret, ok := gb.Instrs[len(gb.Instrs)-1].(*ssa.Return); ok && len(ret.Results) > 0 {
									if k, isK := ret.Results[0].(*ssa.Const); isK && k.IsNil() {
										continue
									}
									if obj != nil && obj != ret.Results[0] {
										one = false
									}
									obj = ret.Results[0]
								}
							}
							if obj != nil && one {
								for _, gb := range g.Blocks {
									for _, in := range gb.Instrs {
										if st, ok := in.(*ssa.Store); ok {
											if fa, ok := st.Addr.(*ssa.FieldAddr); ok && flow.FieldName(fa) == "CertTableOptions" && fa.X == obj {
												mapVal = st.Val
											}
										}
									}
								}
							}
						}
					}
				}
				if mapVal == nil {
					c.S.Bad("R4", name+":registration", c.pos(call.Pos()), "validate.SnpAttestation is called with options whose CertTableOptions are not set in this function: the endorsement validator is not registered")
					continue
				}
				required, fromMaker, entriesN := false, false, 0
				// the table may be built by an unexported helper that returns it
				if hc, ok := mapVal.(*ssa.Call); ok {
					if g := hc.Call.StaticCallee(); g != nil && load.FuncInRepo(g) && g.Blocks != nil {
						var made ssa.Value
						one := true
						for _, gb := range g.Blocks {
							if ret, ok := gb.Instrs[len(gb.Instrs)-1].(*ssa.Return); ok && len(ret.Results) > 0 {
								if made != nil && made != ret.Results[0] {
									one = false
								}
								made = ret.Results[0]
							}
						}
						if _, isMM := made.(*ssa.MakeMap); isMM && one {
							mapVal = made
						}
					}
				}
				if mm, ok := mapVal.(*ssa.MakeMap); ok {
					for _, ref := range *mm.Referrers() {
						mu, ok := ref.(*ssa.MapUpdate)
						if !ok {
							continue
						}
						entriesN++
						if al, ok := mu.Value.(*ssa.Alloc); ok {
							for _, r2 := range *al.Referrers() {
								fa, ok := r2.(*ssa.FieldAddr)
								if !ok {
									continue
								}
								for _, r3 := range *fa.Referrers() {
									st, ok := r3.(*ssa.Store)
									if !ok || st.Addr != fa {
										continue
									}
									switch flow.FieldName(fa) {
									case "Kind":
										if k, ok := st.Val.(*ssa.Const); ok {
											want := c.extConst("github.com/google/go-sev-guest/validate", "CertEntryRequire")
											required = want != nil && k.Value != nil && constant.Compare(k.Value, token.EQL, want)
										}
									case "Validate":
										if vc, ok := st.Val.(*ssa.Call); ok {
											if cal := vc.Call.StaticCallee(); cal != nil && load.RelPkg(cal) == "verify" && strings.HasSuffix(cal.Name(), "ValidateFunc") {
												fromMaker = true
											}
										}
									}
								}
							}
						}
					}
				}
				c.S.Check(entriesN >= 1 && required, "R4", name+":entry kind", c.pos(call.Pos()), "cert-table entry is CertEntryRequire", "the endorsement cert-table entry is not of kind CertEntryRequire (a missing entry would be accepted)")
				c.S.Check(fromMaker, "R4", name+":validator", c.pos(call.Pos()), "Validate is the closure of verify.SNP[Family]ValidateFunc", "the cert-table validator is not the verify package's validator closure")
			}
		}
		c.S.Floor("R4", "validate.SnpAttestation call sites in entry points", 1, n4)
	}

	// ---------------- R5 sibling verifier ----------------
	c.pssOptionSites("R5", []string{"sign/ops"}, 1)
	if vc := c.P.Func("sign/ops", "VerifyChain"); vc != nil && len(vc.Params) == 4 {
		for _, call := range callsIn(vc, func(call ssa.CallInstruction) bool { return calleeIs(call, x509Verify) }) {
			fields := literalFields(call.Common().Args[1])
			ok := fields["CurrentTime"] == vc.Params[3] && fields["Roots"] != nil
			c.S.Check(ok, "R5", "sign/ops.VerifyChain:verify options", c.pos(call.Pos()), "chain verified against the CA bundle pool at the caller's time", "VerifyChain does not verify at the caller's time against the CA bundle")
		}
	}
	_ = verifyPkg
}

func (c *Ctx) extConst(pkg, name string) constant.Value {
	p := c.P.ExtPkg(pkg)
	if p == nil {
		return nil
	}
	if k, ok := p.Pkg.Scope().Lookup(name).(*types.Const); ok {
		return k.Val()
	}
	return nil
}

// literalFields returns the field stores of a struct literal passed by value
// (load of an Alloc) or by pointer (the Alloc).
func literalFields(v ssa.Value) map[string]ssa.Value {
	out := map[string]ssa.Value{}
	var al *ssa.Alloc
	switch x := v.(type) {
	case *ssa.UnOp:
		al, _ = x.X.(*ssa.Alloc)
	case *ssa.Alloc:
		al = x
	case *ssa.MakeInterface:
		return literalFields(x.X)
	}
	if al == nil {
		return out
	}
	for _, ref := range *al.Referrers() {
		if fa, ok := ref.(*ssa.FieldAddr); ok {
			for _, r2 := range *fa.Referrers() {
				if st, ok := r2.(*ssa.Store); ok && st.Addr == fa {
					out[flow.FieldName(fa)] = st.Val
				}
			}
		}
	}
	return out
}

// optionsParam returns the parameter of f that is a pointer to a struct with a CertPool field.
func optionsParam(f *ssa.Function) *ssa.Parameter {
	for _, p := range f.Params {
		if _, idx := poolField(p.Type()); idx >= 0 {
			return p
		}
	}
	return nil
}

// isFieldOfParam: v is a direct load of a field (of type satisfying typ) of parameter p.
func isFieldOfParam(v ssa.Value, p *ssa.Parameter, typ func(types.Type) bool) bool {
	ap := flow.PathOf(v)
	return ap.Root == p && len(ap.Fields) == 1 && typ(v.Type())
}

// ownsValue: v is a parameter or free variable (or a load through the heap
// cell of a captured variable) of ent or of its enclosing functions.
func ownsValue(v ssa.Value, ent *ssa.Function) bool {
	for i := 0; i < 8; i++ {
		switch x := v.(type) {
		case *ssa.Parameter:
			for f := ent; f != nil; f = f.Parent() {
				if x.Parent() == f {
					return true
				}
			}
			return false
		case *ssa.FreeVar:
			return x.Parent() == ent
		case *ssa.UnOp:
			v = x.X
		case *ssa.FieldAddr:
			v = x.X // a field of a record the function was handed (a validator object holding the caller's options)
		default:
			return false
		}
	}
	return false
}

func (c *Ctx) forbiddenTrustSource(v ssa.Value) bool {
	if call, ok := v.(*ssa.Call); ok {
		if f := call.Call.StaticCallee(); f != nil {
			switch f.String() {
			case "time.Now", "crypto/x509.NewCertPool", "crypto/x509.SystemCertPool":
				return true
			}
		}
	}
	return false
}

func (c *Ctx) poolFromCaller(sl *flow.Slicer, v ssa.Value, ent *ssa.Function, cli bool, builders map[*ssa.Function]bool) bool {
	ap := flow.PathOf(v)
	if len(ap.Fields) == 1 && isCertPool(v.Type()) && ownsValue(ap.Root, ent) {
		return true
	}
	if cli {
		if ex, ok := v.(*ssa.Extract); ok {
			if call, ok := ex.Tuple.(*ssa.Call); ok {
				if f := call.Call.StaticCallee(); f != nil && builders[f] {
					return true
				}
			}
		}
	}
	return false
}

func (c *Ctx) timeFromCaller(sl *flow.Slicer, v ssa.Value, ent *ssa.Function, cli bool) bool {
	ap := flow.PathOf(v)
	if len(ap.Fields) == 1 && ap.Fields[0] == "Now" {
		if ownsValue(ap.Root, ent) {
			return true
		}
		if cli {
			// backend.Now: field Now of the CLI backend object obtained from the context
			return !c.forbiddenTrustSource(ap.Root)
		}
	}
	return false
}

// pssOptionSites checks every rsa.PSSOptions literal in the given packages.
func (c *Ctx) pssOptionSites(rule string, rels []string, floor int) int {
	want := map[string]bool{}
	for _, r := range rels {
		want[r] = true
	}
	eqHash := c.extConst("crypto/rsa", "PSSSaltLengthEqualsHash")
	sha256 := c.extConst("crypto", "SHA256")
	n := 0
	for _, f := range c.P.RepoFunctions() {
		if c.isTestFunc(f) || (len(want) > 0 && !want[load.RelPkg(f)]) {
			continue
		}
		for _, b := range f.Blocks {
			for _, in := range b.Instrs {
				al, ok := in.(*ssa.Alloc)
				if !ok || !namedIs(al.Type(), "crypto/rsa", "PSSOptions") {
					continue
				}
				n++
				fields := literalFields(al)
				okSalt, okHash := false, false
				if k, ok := fields["SaltLength"].(*ssa.Const); ok && eqHash != nil && k.Value != nil {
					okSalt = constant.Compare(k.Value, token.EQL, eqHash)
				}
				if k, ok := fields["Hash"].(*ssa.Const); ok && sha256 != nil && k.Value != nil {
					okHash = constant.Compare(k.Value, token.EQL, sha256)
				}
				c.S.Check(okSalt && okHash, rule, load.FuncName(f)+":PSSOptions", c.pos(al.Pos()), "PSS options = {SaltLength: EqualsHash, Hash: SHA256}", "rsa.PSSOptions literal differs from {PSSSaltLengthEqualsHash, SHA-256}: signer and verifier would disagree")
			}
		}
	}
	c.S.Floor(rule, "rsa.PSSOptions literals", floor, n)
	return n
}

// flagBoundField finds the struct field whose address is registered for the
// public command-line flag `name` (pflag XxxVar(&obj.field, name, ...)) in the
// given package.
func (c *Ctx) flagBoundField(rel, name string) (flow.FieldKey, bool) {
	for _, f := range c.P.RepoFunctions() {
		if load.RelPkg(f) != rel || c.isTestFunc(f) {
			continue
		}
		for _, call := range callsIn(f, func(call ssa.CallInstruction) bool {
			cal := call.Common().StaticCallee()
			if cal == nil || !strings.HasSuffix(cal.Name(), "Var") || len(call.Common().Args) < 3 {
				return false
			}
			k, ok := call.Common().Args[2].(*ssa.Const)
			return ok && k.Value != nil && k.Value.Kind() == constant.String && constant.StringVal(k.Value) == name
		}) {
			if fa, ok := call.Common().Args[1].(*ssa.FieldAddr); ok {
				return flow.StructFieldKey(fa.X.Type(), fa.Field), true
			}
		}
	}
	return flow.FieldKey{}, false
}

// verifyCores: the verification core is the exported function of package verify
// from which the x509 signature check is reached through unexported helpers
// only (so that splitting it into helpers changes nothing); its region is the
// core plus those helpers.
func (c *Ctx) verifyCores() (cores []*ssa.Function, regionOf map[*ssa.Function]map[*ssa.Function]bool) {
	regionOf = map[*ssa.Function]map[*ssa.Function]bool{}
	var vfuncs []*ssa.Function
	for _, f := range c.P.RepoFunctions() {
		if load.RelPkg(f) == "verify" && !c.isTestFunc(f) && f.Blocks != nil {
			vfuncs = append(vfuncs, f)
		}
	}
	exported := func(f *ssa.Function) bool {
		return f.Parent() == nil && f.Object() != nil && f.Object().Exported()
	}
	callees := func(f *ssa.Function) []*ssa.Function {
		var out []*ssa.Function
		for _, call := range callsIn(f, func(ssa.CallInstruction) bool { return true }) {
			if g := call.Common().StaticCallee(); g != nil && load.RelPkg(g) == "verify" && g.Blocks != nil {
				out = append(out, g)
			}
		}
		out = append(out, f.AnonFuncs...)
		return out
	}
	for _, f := range vfuncs {
		if !exported(f) {
			continue
		}
		// region: f + unexported functions reachable without passing through another exported one
		region := map[*ssa.Function]bool{f: true}
		stack := []*ssa.Function{f}
		for len(stack) > 0 {
			x := stack[len(stack)-1]
			stack = stack[:len(stack)-1]
			for _, g := range callees(x) {
				if region[g] || exported(g) {
					continue
				}
				region[g] = true
				stack = append(stack, g)
			}
		}
		hasSig := false
		for g := range region {
			if len(callsIn(g, func(call ssa.CallInstruction) bool { return calleeIs(call, x509CheckSig) })) > 0 {
				hasSig = true
			}
		}
		if hasSig {
			cores = append(cores, f)
			regionOf[f] = region
		}
	}
	// Several exported functions (and validator closures) may share one unexported function that does the whole
	// verification (endorsementProto(endorsement, opts, …) called by Endorsement, EndorsementProto and the validator):
	// that shared function is then the core — it is the frame that holds the endorsement and the options — and the
	// exported ones are entry points that reach it (R3).
	subRegion := func(g *ssa.Function) map[*ssa.Function]bool {
		region := map[*ssa.Function]bool{g: true}
		stack := []*ssa.Function{g}
		for len(stack) > 0 {
			x := stack[len(stack)-1]
			stack = stack[:len(stack)-1]
			for _, h := range callees(x) {
				if region[h] || exported(h) {
					continue
				}
				region[h] = true
				stack = append(stack, h)
			}
		}
		return region
	}
	sigIn := func(region map[*ssa.Function]bool) bool {
		for g := range region {
			if len(callsIn(g, func(call ssa.CallInstruction) bool { return calleeIs(call, x509CheckSig) })) > 0 {
				return true
			}
		}
		return false
	}
	if len(cores) > 1 {
		shared := map[*ssa.Function]int{}
		for _, core := range cores {
			for g := range regionOf[core] {
				if g == core || g.Parent() != nil {
					continue
				}
				// a direct callee of the exported function (or of its closures) whose own region holds the check
				direct := false
				for x := range regionOf[core] {
					if x != core && x.Parent() == nil {
						continue
					}
					for _, call := range callsIn(x, func(call ssa.CallInstruction) bool { return call.Common().StaticCallee() == g }) {
						_ = call
						direct = true
					}
				}
				if direct && sigIn(subRegion(g)) {
					shared[g]++
				}
			}
		}
		var lifted []*ssa.Function
		for g, n := range shared {
			if n >= 2 {
				lifted = append(lifted, g)
			}
		}
		if len(lifted) == 1 {
			g := lifted[0]
			var kept []*ssa.Function
			for _, core := range cores {
				if !regionOf[core][g] {
					kept = append(kept, core)
				} else {
					delete(regionOf, core)
				}
			}
			cores = append(kept, g)
			regionOf[g] = subRegion(g)
		}
	}
	sort.Slice(cores, func(i, j int) bool { return cores[i].Pos() < cores[j].Pos() })
	return cores, regionOf
}

// liftPaths: the access path of v; where its root is a parameter of a helper
// (a function of regionFns other than top), the path is re-rooted at every call
// site of that helper in the region, recursively up to top.
func liftPaths(v ssa.Value, top *ssa.Function, regionFns []*ssa.Function, depth int) []flow.AccessPath {
	ap := flow.PathOf(v)
	// the object may have been made by a helper of the region that returns it (unmarshalGolden(bytes) (*T, error)):
	// the root is then the one object every non-nil return of that helper hands out
	if depth <= 4 {
		src, idx := ap.Root, 0
		if ex, ok := src.(*ssa.Extract); ok {
			src, idx = ex.Tuple, ex.Index
		}
		if hc, ok := src.(*ssa.Call); ok {
			if h := hc.Call.StaticCallee(); h != nil && h.Blocks != nil {
				in := false
				for _, f := range regionFns {
					if f == h {
						in = true
					}
				}
				if in {
					var obj ssa.Value
					one := true
					for _, hb := range h.Blocks {
						ret, ok := hb.Instrs[len(hb.Instrs)-1].(*ssa.Return)
						if !ok || idx >= len(ret.Results) {
							continue
						}
						if k, isK := ret.Results[idx].(*ssa.Const); isK && k.IsNil() {
							continue
						}
						if obj != nil && obj != ret.Results[idx] {
							one = false
						}
						obj = ret.Results[idx]
					}
					if _, isAlloc := obj.(*ssa.Alloc); isAlloc && one {
						return []flow.AccessPath{{Root: obj, Fields: ap.Fields}}
					}
				}
			}
		}
	}
	prm, ok := ap.Root.(*ssa.Parameter)
	if !ok || prm.Parent() == top || depth > 4 {
		return []flow.AccessPath{ap}
	}
	inRegion := false
	for _, f := range regionFns {
		if f == prm.Parent() {
			inRegion = true
		}
	}
	if !inRegion {
		return []flow.AccessPath{ap}
	}
	idx := -1
	for i, q := range prm.Parent().Params {
		if q == prm {
			idx = i
		}
	}
	var out []flow.AccessPath
	for _, rf := range regionFns {
		for _, call := range callsIn(rf, func(call ssa.CallInstruction) bool { return call.Common().StaticCallee() == prm.Parent() }) {
			if idx < 0 || idx >= len(call.Common().Args) {
				continue
			}
			for _, up := range liftPaths(call.Common().Args[idx], top, regionFns, depth+1) {
				out = append(out, flow.AccessPath{Root: up.Root, Fields: append(append([]string{}, up.Fields...), ap.Fields...)})
			}
		}
	}
	if len(out) == 0 {
		return []flow.AccessPath{ap}
	}
	return out
}

// unexportedRegion: top plus the unexported functions of its package reachable
// from it by static calls without passing through an exported function.
func unexportedRegion(top *ssa.Function) []*ssa.Function {
	seen := map[*ssa.Function]bool{top: true}
	out := []*ssa.Function{top}
	stack := []*ssa.Function{top}
	for len(stack) > 0 {
		x := stack[len(stack)-1]
		stack = stack[:len(stack)-1]
		var next []*ssa.Function
		for _, call := range callsIn(x, func(ssa.CallInstruction) bool { return true }) {
			if g := call.Common().StaticCallee(); g != nil && g.Blocks != nil && g.Pkg == top.Pkg {
				next = append(next, g)
			}
		}
		next = append(next, x.AnonFuncs...)
		for _, g := range next {
			if seen[g] || (g.Parent() == nil && g.Object() != nil && g.Object().Exported()) {
				continue
			}
			seen[g] = true
			out = append(out, g)
			stack = append(stack, g)
		}
	}
	sort.Slice(out, func(i, j int) bool { return out[i].Pos() < out[j].Pos() })
	return out
}

func isCertBytes(t types.Type) bool { return t.String() == "[]byte" }

// c01RecoveredPanicsAreErrors is R6: in the repository's non-test code, every function that calls the builtin recover
// turns what it recovered into an error of the function it protects: it contains a store into a captured variable of
// type error (the enclosing function's named result). A recovering closure without such a store (for instance one
// that declares a new `err` with := and only logs it) lets the enclosing function return the zero values of its
// results after a panic: for a validator that is a nil error — acceptance without a completed verification.
func c01RecoveredPanicsAreErrors(c *Ctx) {
	n := 0
	for _, f := range c.P.RepoFunctions() {
		if c.isTestFunc(f) || f.Blocks == nil {
			continue
		}
		var rec ssa.CallInstruction
		for _, b := range f.Blocks {
			for _, in := range b.Instrs {
				if call, ok := in.(ssa.CallInstruction); ok {
					if bi, ok := call.Common().Value.(*ssa.Builtin); ok && bi.Name() == "recover" {
						rec = call
					}
				}
			}
		}
		if rec == nil {
			continue
		}
		n++
		storesErr := false
		for _, b := range f.Blocks {
			for _, in := range b.Instrs {
				st, ok := in.(*ssa.Store)
				if !ok {
					continue
				}
				fv, ok := st.Addr.(*ssa.FreeVar)
				if !ok {
					continue
				}
				if pt, ok := fv.Type().Underlying().(*types.Pointer); ok && types.Identical(pt.Elem(), types.Universe.Lookup("error").Type()) && !isNilK(st.Val) {
					storesErr = true
				}
			}
		}
		c.S.Check(storesErr, "R6", load.FuncName(f)+":recovered panic becomes an error", c.pos(rec.Pos()), "the recovering function stores an error into a variable of the function it protects",
			"recover() is called but nothing is stored into an error variable of the enclosing function: after a panic the protected function returns its zero results — a nil error, which a caller reads as success (a validator accepts without having finished verifying)")
	}
	c.S.OK("R6", "repository:recovering functions", "", fmt.Sprintf("%d functions calling recover() examined", n), false)
}
