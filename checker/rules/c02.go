package rules

import (
	"fmt"
	"go/constant"
	"go/token"
	"go/types"
	"strings"

	"golang.org/x/tools/go/ssa"

	"verif/checker/esp"
	"verif/checker/flow"
	"verif/checker/load"
)

func init() {
	register(&RuleSet{
		ID: "C02",
		Explanation: "R11 where a validation entry point derives its policy from the endorsement (TdxPolicy / SevPolicy), a failed derivation ends the validation: from the error edge of that call no path reaches a call of the guest libraries' validators or a successful return — a fallback to the base policy would validate without the endorsed measurement in the policy. " +
			"R10 where SNP options were given the technology check runs: a call of verify.SNP in package verify is conditional only on those options being non-nil and on conditions whose other side refuses. " +
			"R9 the caller's endorsement is the reference: in a validator whose options can name the endorsement (field Endorsement) and that consults it, another endorsement is produced (extracted, unmarshalled, verified from bytes) only where that field was found nil. " +
			"R1 verify.SNP (ESP with flags ExpectedLaunchVMSAs≠0, Measurement≠nil): a possibly-nil return needs the true edge of a bytes.Equal between the options' Measurement and an endorsed value — for a named count the endorsed value must come from the map lookup keyed by that count (or the SVSM field) — unless nothing was requested; a failed comma-ok / empty-SVSM presence test never reaches a nil return. " +
			"R2 validator closure: the measurement handed on is the report's; the verification call is reached only behind the equal edge of len(m) vs abi.MeasurementSize. " +
			"R3 core: nil return only on the len(ExpectedUefiSha384)==0 edge or after bytes.Equal(ExpectedUefiSha384, golden.Digest) was true. " +
			"R4 SevPolicy: Policy.Measurement is stored only from the comma-ok-true lookup keyed by LaunchVmsas; LaunchVmsas==0 without AllowUnspecifiedVmsas cannot return nil; a named count returns nil only after the measurement was stored. " +
			"R5 TdxPolicy: AnyMrTd is stored only where the allow-list is known non-empty; rows are appended only from GetMrtd() of rows that passed the RamGib filter. " +
			"R6 the named configuration is forwarded: --launch_vmsas / --ram_gib reach SevValidateOptions.ExpectedLaunchVmsas / TdxValidateOptions.ExpectedRAMGiB in every CLI function calling the validators; library literals forward ExpectedLaunchVmsas / ExpectedRAMGiB to policy and SNP options. " +
			"R8 (= C01.R1/R3) every accepting path of every entry point passes the signature and chain verification of the endorsement whose measurements are compared. " +
			"R7 (= C01.R4) the validator closure that performs R1/R2 is registered as a required certificate-table entry in SevValidate (an allow-missing or absent registration lets go-sev-guest discard its verdict). " +
			"Not covered: byte-level behaviour of bytes.Equal and of the go-sev-guest / go-tdx-guest policy engines; one-bit neighbours as inputs; which count the SVSM measurement belongs to.",
		Assumptions: []string{"go/types, go/ssa", "bytes.Equal", "go-sev-guest / go-tdx-guest validate the policy fields they are given; an empty AnyMrTd disables the MRTD check in go-tdx-guest"},
		Run:         runC02,
	})
}

func isLenOf(v ssa.Value, pred func(ssa.Value) bool) bool {
	call, ok := v.(*ssa.Call)
	if !ok {
		return false
	}
	b, ok := call.Call.Value.(*ssa.Builtin)
	return ok && b.Name() == "len" && len(call.Call.Args) == 1 && pred(call.Call.Args[0])
}

func isBytesEqual(in ssa.Instruction) (*ssa.Call, bool) {
	call, ok := in.(*ssa.Call)
	if !ok {
		return nil, false
	}
	f := call.Call.StaticCallee()
	return call, f != nil && f.String() == "bytes.Equal"
}

func runC02(c *Ctx) {
	c02PolicyFailureIsFatal(c)
	defer c02PinnedEndorsement(c)
	defer c02TechnologyCheckNotSkipped(c)
	// R7 = C01.R4: the closure that compares the measurement only decides anything if go-sev-guest must call it.
	c.borrow("R7/C01.", runC01, func(rule, _ string) bool { return rule == "R4" })
	// R8 = C01.R1/R3: "the measurement is listed by the endorsement" only means something if the endorsement that
	// lists it is authentic — every accepting path passes the signature and chain checks.
	c.borrow("R8/C01.", runC01, func(rule, _ string) bool {
		return rule == "R1" || rule == "R1a" || rule == "R1b" || rule == "R1c" || rule == "R3" || rule == "R3b"
	})
	verifyPkg := repoPath("verify")
	epbPkg := repoPath("proto/endorsement")
	gcePkg := repoPath("gcetcbendorsement")
	sl := flow.NewSlicer(c.P)
	_ = sl
	optMeas := func(v ssa.Value) bool { return flow.IsFieldLoad(v, verifyPkg, "SNPOptions", "Measurement") }
	optCount := func(v ssa.Value) bool { return flow.IsFieldLoad(v, verifyPkg, "SNPOptions", "ExpectedLaunchVMSAs") }
	svsm := func(v ssa.Value) bool { return flow.IsFieldLoad(v, epbPkg, "VMSevSnp", "SvsmMeasurement") }
	measMap := func(v ssa.Value) bool { return flow.IsFieldLoad(v, epbPkg, "VMSevSnp", "Measurements") }

	// ---------------- R1: verify.SNP ----------------
	snp := c.fn("R1", "verify", "SNP")
	if snp != nil {
		// verify.SNP and the unexported helpers it may be split into; operands are followed through
		// the helpers' parameters to their call sites
		snpRegion := map[*ssa.Function]bool{}
		for _, g := range unexportedRegion(snp) {
			snpRegion[g] = true
		}
		sl := flow.NewSlicer(c.P)
		sl.LiftParams = 3
		keyedLookup := func(v ssa.Value) bool {
			lk, ok := v.(*ssa.Lookup)
			return ok && sl.Derives(lk.X, measMap) && sl.Derives(lk.Index, optCount)
		}
		const (
			evEq = iota
			evPresent
		)
		const (
			bEqKeyed uint = iota
			bEqAny
			bAbsent
		)
		names := []string{"eqKeyed:true", "eqAny:true", "configAbsent"}
		nEq, nPresent := 0, 0
		r := &esp.Rule{Name: "C02.R1"}
		r.Relevant = func(f *ssa.Function) bool { return snpRegion[f] && f != snp }
		r.Flag = func(v ssa.Value) (int, bool) {
			if u, ok := v.(*ssa.UnOp); ok && u.Op == token.MUL {
				if optCount(v) {
					return 0, true
				}
				if optMeas(v) {
					return 1, true
				}
			}
			if p, ok := v.(*ssa.Parameter); ok && snpRegion[p.Parent()] && p.Parent() != snp {
				// a helper's parameter that is always given the option's value
				if sl.Derives(p, optCount) {
					return 0, true
				}
				if sl.Derives(p, optMeas) {
					return 1, true
				}
			}
			return 0, false
		}
		r.Match = func(in ssa.Instruction) []esp.Ev {
			if call, ok := isBytesEqual(in); ok {
				a0, a1 := call.Call.Args[0], call.Call.Args[1]
				var endorsed ssa.Value
				if sl.Derives(a0, optMeas) {
					endorsed = a1
				} else if sl.Derives(a1, optMeas) {
					endorsed = a0
				}
				if endorsed == nil {
					return nil
				}
				kind := ""
				if sl.Derives(endorsed, keyedLookup) || sl.Derives(endorsed, svsm) {
					kind = "keyed"
				} else if sl.Derives(endorsed, measMap) {
					kind = "any"
				}
				if kind == "" {
					return nil
				}
				nEq++
				return []esp.Ev{{ID: evEq, Name: "bytes.Equal(report measurement, endorsed " + kind + ")", ErrIdx: -1, BoolIdx: 0, Data: kind}}
			}
			// presence tests
			switch v := in.(type) {
			case *ssa.Extract:
				if lk, ok := v.Tuple.(*ssa.Lookup); ok && lk.CommaOk && v.Index == 1 && keyedLookup(lk) {
					nPresent++
					return []esp.Ev{{ID: evPresent, Name: "comma-ok of Measurements[count]", ErrIdx: -1, BoolIdx: 0}}
				}
			case *ssa.BinOp:
				if (v.Op == token.GTR || v.Op == token.NEQ) && isLenOf(v.X, func(x ssa.Value) bool { return sl.Derives(x, svsm) }) {
					if k, ok := v.Y.(*ssa.Const); ok && isZeroIntConst(k) {
						nPresent++
						return []esp.Ev{{ID: evPresent, Name: "len(SvsmMeasurement) > 0", ErrIdx: -1, BoolIdx: 0}}
					}
				}
			}
			return nil
		}
		r.Step = func(x *esp.Ctx, s esp.State, ev esp.Ev, ph esp.Phase) (esp.State, string) {
			switch ev.ID {
			case evEq:
				if ph == esp.Ok {
					if ev.Data == "keyed" {
						return s.Set(bEqKeyed), ""
					}
					return s.Set(bEqAny), ""
				}
			case evPresent:
				if ph == esp.Fail {
					return s.Set(bAbsent), ""
				}
				if ph == esp.Ok {
					return s.Clear(bAbsent), ""
				}
			}
			return s, ""
		}
		r.AtReturn = func(x *esp.Ctx, s esp.State, rets []esp.Abs) string {
			if rets[len(rets)-1] == esp.NonZero {
				return ""
			}
			st := fmtState(names, s)
			if s.Has(bAbsent) {
				return "R1: verify.SNP may accept although the endorsement lists no measurement for the named configuration, state " + st
			}
			if s.Flag(0) == esp.Zero {
				if s.Flag(1) == esp.Zero || s.Has(bEqAny) || s.Has(bEqKeyed) {
					return ""
				}
				return "R1: verify.SNP may accept a given measurement without any successful comparison against the endorsed values, state " + st
			}
			if !s.Has(bEqKeyed) {
				return "R1: verify.SNP may accept for a named VMSA count without a successful comparison against the measurement endorsed for that count, state " + st
			}
			return ""
		}
		e := c.engine(r)
		e.Run(snp, esp.State{})
		n := c.reportEngine(e, "R1", func(v *esp.Violation) string { return "verify.SNP:acceptance" })
		c.S.Floor("R1", "measurement comparisons in verify.SNP", 2, nEq)
		c.S.Floor("R1", "presence tests in verify.SNP", 1, nPresent)
		if n == 0 {
			c.S.OK("R1", "verify.SNP:acceptance", c.pos(snp.Pos()), fmt.Sprintf("held on %d configurations", e.Configs), true)
		}
	}

	// ---------------- R2: validator closure ----------------
	var measSize int64 = -1
	if k := c.extConst("github.com/google/go-sev-guest/abi", "MeasurementSize"); k != nil {
		measSize, _ = constant.Int64Val(k)
	}
	reportMeas := func(v ssa.Value) bool {
		call, ok := v.(*ssa.Call)
		if !ok {
			return false
		}
		f := call.Call.StaticCallee()
		return f != nil && f.Name() == "GetMeasurement" && f.Signature.Recv() != nil && namedIs(f.Signature.Recv().Type(), "github.com/google/go-sev-guest/proto/sevsnp", "Report")
	}
	nClos := 0
	var vbodies []*ssa.Function
	for _, m := range c.validatorMakers() {
		if load.RelPkg(m) == "verify" {
			vbodies = append(vbodies, validatorBodies(m)...)
		}
	}
	for _, f := range vbodies {
		if len(f.Params) < 2 {
			continue
		}
		att := f.Params[len(f.Params)-2] // the attestation (a method body has its receiver in front)
		nClos++
		name := load.FuncName(f)
		isVerifyCall := func(cal *ssa.Function) bool {
			return cal != nil && load.RelPkg(cal) == "verify" && returnsError(cal) && optionsParam(cal) != nil
		}
		region := map[*ssa.Function]bool{}
		for _, g := range unexportedRegion(f) {
			if g != f && !isVerifyCall(g) {
				region[g] = true
			}
		}
		sl := flow.NewSlicer(c.P)
		sl.LiftParams = 3
		const bLen uint = 0
		const bMeas uint = 1
		gates, auths := 0, 0
		r := &esp.Rule{Name: "C02.R2"}
		r.Relevant = func(g *ssa.Function) bool { return region[g] }
		r.Match = func(in ssa.Instruction) []esp.Ev {
			switch v := in.(type) {
			case *ssa.BinOp:
				if v.Op == token.EQL || v.Op == token.NEQ {
					k, ok := v.Y.(*ssa.Const)
					if ok && k.Value != nil && k.Value.Kind() == constant.Int && k.Int64() == measSize && isLenOf(v.X, func(x ssa.Value) bool { return sl.Derives(x, reportMeas) }) {
						gates++
						return []esp.Ev{{ID: 0, Name: "len(measurement) " + v.Op.String() + " MeasurementSize", ErrIdx: -1, BoolIdx: 0, Data: v.Op}}
					}
				}
			case ssa.CallInstruction:
				cal := v.Common().StaticCallee()
				if isVerifyCall(cal) {
					auths++
					return []esp.Ev{{ID: 1, Name: "verify " + cal.Name(), ErrIdx: -1, BoolIdx: -1}}
				}
			case *ssa.Store:
				if fa, ok := v.Addr.(*ssa.FieldAddr); ok && flow.IsFieldLoad(fa, verifyPkg, "SNPOptions", "Measurement") && sl.Derives(v.Val, reportMeas) {
					return []esp.Ev{{ID: 2, Name: "SNPOptions.Measurement ← report measurement", ErrIdx: -1, BoolIdx: -1}}
				}
			}
			return nil
		}
		r.Step = func(x *esp.Ctx, s esp.State, ev esp.Ev, ph esp.Phase) (esp.State, string) {
			switch ev.ID {
			case 0:
				op := ev.Data.(token.Token)
				if (op == token.NEQ && ph == esp.Fail) || (op == token.EQL && ph == esp.Ok) {
					return s.Set(bLen), ""
				}
			case 1:
				if ph == esp.AtCall && !s.Has(bLen) {
					return s, "R2: endorsement verification reached without the report measurement having passed the full-length check"
				}
				if ph == esp.AtCall && !s.Has(bMeas) {
					return s, "R2m: endorsement verification reached on a path where the options' Measurement was not set from this report (a stale or caller-pinned value would be compared instead)"
				}
			case 2:
				return s.Set(bMeas), ""
			}
			return s, ""
		}
		e := c.engine(r)
		e.Run(f, esp.State{})
		n := c.reportEngine(e, "R2", func(v *esp.Violation) string {
			if strings.HasPrefix(v.Msg, "R2m") {
				return name + ":measurement always set"
			}
			return name + ":length gate"
		})
		c.S.Floor("R2", "length comparisons in "+name, 1, gates)
		c.S.Floor("R2", "verification calls in "+name, 1, auths)
		if n == 0 {
			c.S.OK("R2", name+":length gate", c.pos(f.Pos()), "verification only behind len(measurement)==MeasurementSize", true)
		}
		// the measurement handed on is the report's
		handed := 0
		handedIn := []*ssa.Function{f}
		for g := range region {
			handedIn = append(handedIn, g)
		}
		for _, g := range handedIn {
			for _, b := range g.Blocks {
				for _, in := range b.Instrs {
					st, ok := in.(*ssa.Store)
					if !ok {
						continue
					}
					fa, ok := st.Addr.(*ssa.FieldAddr)
					if !ok || !flow.IsFieldLoad(fa, verifyPkg, "SNPOptions", "Measurement") {
						continue
					}
					handed++
					okV := sl.Derives(st.Val, reportMeas) && sl.Derives(st.Val, func(x ssa.Value) bool { return x == att })
					c.S.Check(okV, "R2", name+":measurement source", c.pos(st.Pos()), "SNPOptions.Measurement is the attestation report's measurement", "the measurement handed to the endorsement check is not the attestation report's measurement")
				}
			}
		}
		c.S.Floor("R2", "stores of the per-call measurement in "+name, 1, handed)
	}
	c.S.Floor("R2", "validator closures in package verify", 1, nClos)

	// ---------------- R3: digest in the core ----------------
	expDigest := func(v ssa.Value) bool { return flow.IsFieldLoad(v, verifyPkg, "Options", "ExpectedUefiSha384") }
	goldenDigest := func(v ssa.Value) bool { return flow.IsFieldLoad(v, epbPkg, "VMGoldenMeasurement", "Digest") }
	// the comparison may sit in a helper that receives the expected digest as a parameter
	sl3 := flow.NewSlicer(c.P)
	sl3.LiftParams = 3
	expDigestD := func(v ssa.Value) bool { return expDigest(v) || sl3.Derives(v, expDigest) }
	r3cores, r3regions := c.verifyCores()
	for _, core := range r3cores {
		name := load.FuncName(core)
		region := r3regions[core]
		const bEq uint = 0
		nEq := 0
		r := &esp.Rule{Name: "C02.R3"}
		r.Relevant = func(f *ssa.Function) bool { return region[f] && f != core }
		r.Flag = func(v ssa.Value) (int, bool) {
			if isLenOf(v, expDigestD) {
				return 0, true
			}
			return 0, false
		}
		r.Match = func(in ssa.Instruction) []esp.Ev {
			if call, ok := isBytesEqual(in); ok {
				a0, a1 := call.Call.Args[0], call.Call.Args[1]
				if (expDigestD(a0) && sl3.Derives(a1, goldenDigest)) || (expDigestD(a1) && sl3.Derives(a0, goldenDigest)) {
					nEq++
					return []esp.Ev{{ID: 0, Name: "bytes.Equal(expected digest, endorsed digest)", ErrIdx: -1, BoolIdx: 0}}
				}
			}
			return nil
		}
		r.Step = func(x *esp.Ctx, s esp.State, ev esp.Ev, ph esp.Phase) (esp.State, string) {
			if ph == esp.Ok {
				return s.Set(bEq), ""
			}
			return s, ""
		}
		r.AtReturn = func(x *esp.Ctx, s esp.State, rets []esp.Abs) string {
			if rets[len(rets)-1] == esp.NonZero || s.Flag(0) == esp.Zero || s.Has(bEq) {
				return ""
			}
			return "R3: " + name + " may accept while an expected firmware digest was supplied and not found equal to the endorsed digest"
		}
		e := c.engine(r)
		e.Run(core, esp.State{})
		n := c.reportEngine(e, "R3", func(v *esp.Violation) string { return name + ":digest" })
		c.S.Floor("R3", "digest comparisons in "+name, 1, nEq)
		if n == 0 {
			c.S.OK("R3", name+":digest", c.pos(core.Pos()), "nil return only with no expected digest or after the digests compared equal", true)
		}
	}

	// ---------------- R4: SevPolicy ----------------
	if sp := c.fn("R4", "gcetcbendorsement", "SevPolicy"); sp != nil {
		cpbPkg := "github.com/google/go-sev-guest/proto/check"
		launch := func(v ssa.Value) bool { return flow.IsFieldLoad(v, gcePkg, "SevPolicyOptions", "LaunchVmsas") }
		isMeasStore := func(in ssa.Instruction) (*ssa.Store, bool) {
			st, ok := in.(*ssa.Store)
			if !ok {
				return nil, false
			}
			fa, ok := st.Addr.(*ssa.FieldAddr)
			return st, ok && flow.IsFieldLoad(fa, cpbPkg, "Policy", "Measurement")
		}
		const bStored uint = 0
		nStores := 0
		r := &esp.Rule{Name: "C02.R4"}
		var storesCell func(ssa.Instruction) bool
		defer func() { _ = storesCell }()
		relevant := map[*ssa.Function]bool{}
		r.Relevant = func(f *ssa.Function) bool { return relevant[f] && load.RelPkg(f) == "gcetcbendorsement" }
		r.Flag = func(v ssa.Value) (int, bool) {
			if u, ok := v.(*ssa.UnOp); ok && u.Op == token.MUL {
				if launch(v) {
					return 0, true
				}
				if flow.IsFieldLoad(v, gcePkg, "SevPolicyOptions", "AllowUnspecifiedVmsas") {
					return 1, true
				}
			}
			return 0, false
		}
		// decisions computed into a record first and applied later (update.setMeasurement) are followed as cells
		storesCell = recordBoolCells(c, r, 2, "gcetcbendorsement")
		relevant = c.relevantSet(func(in ssa.Instruction) bool {
			_, ok := isMeasStore(in)
			return ok || storesCell(in)
		})
		// the helpers that compute what is stored into the cells (endorsedMeasurement → (meas, set, err)) are summarised too
		for _, g := range unexportedRegion(sp) {
			relevant[g] = true
		}
		r.Match = func(in ssa.Instruction) []esp.Ev {
			if _, ok := isMeasStore(in); ok {
				nStores++
				return []esp.Ev{{ID: 0, Name: "store Policy.Measurement", ErrIdx: -1, BoolIdx: -1}}
			}
			return nil
		}
		r.Step = func(x *esp.Ctx, s esp.State, ev esp.Ev, ph esp.Phase) (esp.State, string) {
			return s.Set(bStored), ""
		}
		r.AtReturn = func(x *esp.Ctx, s esp.State, rets []esp.Abs) string {
			if rets[len(rets)-1] == esp.NonZero {
				return ""
			}
			if s.Flag(0) == esp.Zero {
				if s.Flag(1) != esp.NonZero {
					return "R4: SevPolicy may succeed with no VMSA count named and AllowUnspecifiedVmsas not set"
				}
				return ""
			}
			if !s.Has(bStored) {
				return "R4: SevPolicy may succeed for a named VMSA count without placing the endorsed measurement in the policy"
			}
			return ""
		}
		e := c.engine(r)
		e.Run(sp, esp.State{})
		n := c.reportEngine(e, "R4", func(v *esp.Violation) string { return "gcetcbendorsement.SevPolicy:paths" })
		c.S.Floor("R4", "stores to Policy.Measurement reached from SevPolicy", 1, nStores)
		if n == 0 {
			c.S.OK("R4", "gcetcbendorsement.SevPolicy:paths", c.pos(sp.Pos()), fmt.Sprintf("held on %d configurations", e.Configs), true)
		}
		// value stored: comma-ok lookup keyed by LaunchVmsas, on its true edge
		for f := range relevant {
			if load.RelPkg(f) != "gcetcbendorsement" {
				continue
			}
			for _, b := range f.Blocks {
				for _, in := range b.Instrs {
					st, ok := isMeasStore(in)
					if !ok {
						continue
					}
					okV := false
					why := "the value is not the comma-ok lookup of the endorsed measurement for LaunchVmsas"
					// the value may be parked in a record field (u.measurement) and come from a helper that returns it
					// (endorsedMeasurement(sev) (meas, set, err)): follow it to where it is produced
					val, at := st.Val, b
					for hop := 0; hop < 3; hop++ {
						if ld, ok := val.(*ssa.UnOp); ok && ld.Op == token.MUL {
							if fa, ok := ld.X.(*ssa.FieldAddr); ok {
								vals := flow.NewSlicer(c.P).FieldStores(flow.StructFieldKey(fa.X.Type(), fa.Field))
								if len(vals) == 1 {
									val = vals[0]
									if in2, ok := val.(ssa.Instruction); ok {
										at = in2.Block()
									}
									continue
								}
							}
						}
						if ex, ok := val.(*ssa.Extract); ok {
							if hc, ok := ex.Tuple.(*ssa.Call); ok {
								if g := hc.Call.StaticCallee(); g != nil && load.RelPkg(g) == "gcetcbendorsement" && g.Blocks != nil {
									var cand ssa.Value
									var candBlock *ssa.BasicBlock
									n := 0
									for _, gb := range g.Blocks {
										if ret, ok := gb.Instrs[len(gb.Instrs)-1].(*ssa.Return); ok && ex.Index < len(ret.Results) {
											if k, isK := ret.Results[ex.Index].(*ssa.Const); isK && k.IsNil() {
												continue
											}
											n++
											cand, candBlock = ret.Results[ex.Index], gb
										}
									}
									if n == 1 {
										val, at = cand, candBlock
										continue
									}
								}
							}
						}
						break
					}
					if ex, ok := val.(*ssa.Extract); ok && ex.Index == 0 {
						// (the lookup may sit in a helper that is handed the count and the endorsement: parameters are followed
						// to the arguments at the call sites)
						psl := flow.NewSlicer(c.P)
						psl.LiftParams = 2
						if lk, ok := ex.Tuple.(*ssa.Lookup); ok && lk.CommaOk && psl.Derives(lk.Index, launch) && psl.Derives(lk.X, measMap) {
							why = "the store is not dominated by the comma-ok true edge of that lookup"
							for _, cf := range dominatingConds(at) {
								if oke, ok := cf.Cond.(*ssa.Extract); ok && oke.Tuple == lk && oke.Index == 1 && cf.Val {
									okV = true
								}
							}
						}
					}
					c.S.Check(okV, "R4", load.FuncName(f)+":Policy.Measurement value", c.pos(st.Pos()), "Policy.Measurement ← Measurements[LaunchVmsas] on the found edge", why)
				}
			}
		}
	}

	// ---------------- R5: TdxPolicy ----------------
	if tp := c.fn("R5", "gcetcbendorsement", "TdxPolicy"); tp != nil {
		tcpbPkg := "github.com/google/go-tdx-guest/proto/checkconfig"
		getMrtd := func(v ssa.Value) bool {
			call, ok := v.(*ssa.Call)
			if !ok {
				return false
			}
			f := call.Call.StaticCallee()
			return f != nil && f.Name() == "GetMrtd" && f.Signature.Recv() != nil && namedIs(f.Signature.Recv().Type(), epbPkg, "VMTdx_Measurement")
		}
		isListStore := func(in ssa.Instruction) (*ssa.Store, bool) {
			st, ok := in.(*ssa.Store)
			if !ok {
				return nil, false
			}
			fa, ok := st.Addr.(*ssa.FieldAddr)
			return st, ok && flow.IsFieldLoad(fa, tcpbPkg, "TDQuoteBodyPolicy", "AnyMrTd")
		}
		ramOpt := func(v ssa.Value) bool { return flow.IsFieldLoad(v, gcePkg, "TdxPolicyOptions", "RAMGiB") }
		getRam := func(v ssa.Value) bool {
			call, ok := v.(*ssa.Call)
			if !ok {
				return false
			}
			f := call.Call.StaticCallee()
			return f != nil && f.Name() == "GetRamGib" && f.Signature.Recv() != nil && namedIs(f.Signature.Recv().Type(), epbPkg, "VMTdx_Measurement")
		}
		relevant := c.relevantSet(func(in ssa.Instruction) bool { _, ok := isListStore(in); return ok })
		const bRamMatch uint = 0
		nStores, nAppends := 0, 0
		is2D := func(t types.Type) bool { return t.String() == "[][]byte" }
		tpRegion := map[*ssa.Function]bool{}
		for _, g := range unexportedRegion(tp) {
			tpRegion[g] = true
			relevant[g] = true
		}
		sl := flow.NewSlicer(c.P)
		sl.LiftParams = 3
		r := &esp.Rule{Name: "C02.R5"}
		r.Relevant = func(f *ssa.Function) bool { return relevant[f] && load.RelPkg(f) == "gcetcbendorsement" && f != tp }
		r.Flag = func(v ssa.Value) (int, bool) {
			if isLenOf(v, func(x ssa.Value) bool { return is2D(x.Type()) }) {
				return 0, true
			}
			if u, ok := v.(*ssa.UnOp); ok && u.Op == token.MUL && ramOpt(v) {
				return 1, true
			}
			if p, ok := v.(*ssa.Parameter); ok && tpRegion[p.Parent()] && p.Parent() != tp && sl.Derives(p, ramOpt) {
				return 1, true
			}
			return 0, false
		}
		r.Match = func(in ssa.Instruction) []esp.Ev {
			if _, ok := isListStore(in); ok {
				nStores++
				return []esp.Ev{{ID: 0, Name: "store AnyMrTd", ErrIdx: -1, BoolIdx: -1}}
			}
			switch v := in.(type) {
			case *ssa.Store:
				if ia, ok := v.Addr.(*ssa.IndexAddr); ok && is2D(ia.X.Type()) {
					nAppends++
					return []esp.Ev{{ID: 1, Name: "element write to MRTD allow-list", ErrIdx: -1, BoolIdx: -1}}
				}
			case *ssa.Call:
				if b, ok := v.Call.Value.(*ssa.Builtin); ok && b.Name() == "append" && is2D(v.Type()) {
					nAppends++
					return []esp.Ev{{ID: 1, Name: "append to MRTD allow-list", ErrIdx: -1, BoolIdx: -1}}
				}
			case *ssa.BinOp:
				if (v.Op == token.NEQ || v.Op == token.EQL) && ((sl.Derives(v.X, getRam) && sl.Derives(v.Y, ramOpt)) || (sl.Derives(v.Y, getRam) && sl.Derives(v.X, ramOpt))) {
					return []esp.Ev{{ID: 2, Name: "row RamGib " + v.Op.String() + " requested RAMGiB", ErrIdx: -1, BoolIdx: 0, Data: v.Op}}
				}
			case *ssa.Next:
				return []esp.Ev{{ID: 3, Name: "next row", ErrIdx: -1, BoolIdx: -1}}
			case *ssa.Phi:
			}
			return nil
		}
		r.Step = func(x *esp.Ctx, s esp.State, ev esp.Ev, ph esp.Phase) (esp.State, string) {
			switch ev.ID {
			case 0:
				if ph == esp.AtCall && s.Flag(0) != esp.NonZero {
					return s, "R5: MRTD allow-list stored into the policy where it may be empty (an empty any_mr_td disables the MRTD check: every quote is accepted)"
				}
			case 1:
				if ph != esp.AtCall {
					return s, ""
				}
				okSrc := false
				if call, isCall := x.Instr.(*ssa.Call); isCall {
					for _, a := range call.Call.Args[1:] {
						if sl.Derives(a, getMrtd) {
							okSrc = true
						}
					}
				} else if st, isSt := x.Instr.(*ssa.Store); isSt {
					okSrc = sl.Derives(st.Val, getMrtd)
				}
				if !okSrc {
					return s, "R5: a value that is not an endorsed row's MRTD is appended to the allow-list"
				}
				if s.Flag(1) != esp.Zero && !s.Has(bRamMatch) {
					return s, "R5: a row's MRTD is appended although a RAM size was requested and the row was not found to match it"
				}
				// the list is non-empty from here on
				return s.WithFlag(0, esp.NonZero), ""
			case 2:
				op := ev.Data.(token.Token)
				if (op == token.NEQ && ph == esp.Fail) || (op == token.EQL && ph == esp.Ok) {
					return s.Set(bRamMatch), ""
				}
				if ph != esp.AtCall {
					return s.Clear(bRamMatch), ""
				}
			case 3:
				return s.Clear(bRamMatch), ""
			}
			return s, ""
		}
		e := c.engine(r)
		e.Run(tp, esp.State{})
		n := c.reportEngine(e, "R5", func(v *esp.Violation) string { return "gcetcbendorsement.TdxPolicy:" + load.FuncName(v.Fn) })
		c.S.Floor("R5", "stores to AnyMrTd reached from TdxPolicy", 1, nStores)
		c.S.Floor("R5", "element writes (append / indexed store) to the MRTD allow-list", 1, nAppends)
		// indexed-store idiom: the element index must be the counter that bounds the kept prefix
		for f := range relevant {
			if load.RelPkg(f) != "gcetcbendorsement" {
				continue
			}
			for _, b := range f.Blocks {
				for _, in := range b.Instrs {
					st, ok := in.(*ssa.Store)
					if !ok {
						continue
					}
					ia, ok := st.Addr.(*ssa.IndexAddr)
					if !ok || !is2D(ia.X.Type()) {
						continue
					}
					// truncations of the same base
					var highs []ssa.Value
					if refs := ia.X.Referrers(); refs != nil {
						for _, r := range *refs {
							if sli, ok := r.(*ssa.Slice); ok && sli.X == ia.X && sli.High != nil {
								highs = append(highs, sli.High)
							}
						}
					}
					if len(highs) == 0 {
						continue
					}
					idxRoot := stripAddConst(ia.Index)
					okIdx := false
					for _, h := range highs {
						if stripAddConst(h) == idxRoot {
							okIdx = true
						}
					}
					c.S.Check(okIdx, "R5", load.FuncName(f)+":allow-list index", c.pos(st.Pos()), "elements are written at the counter that bounds the kept prefix", "allow-list elements are written at an index other than the counter that bounds the kept prefix: the kept prefix can contain unset (empty) entries, which go-tdx-guest treats as match-anything")
				}
			}
		}
		if n == 0 {
			c.S.OK("R5", "gcetcbendorsement.TdxPolicy:paths", c.pos(tp.Pos()), fmt.Sprintf("held on %d configurations", e.Configs), true)
		}
		// R5c: the collection looks at every endorsed row. A loop of TdxPolicy's region that puts a row's MRTD into the
		// allow-list is left only when the rows are exhausted (at its header) or to refuse with an error: no break or
		// successful return on the first match — an endorsement lists one MRTD per (RAM size, early-accept) pair, and
		// each of them is a measurement a launch with that RAM size may report.
		nColl := 0
		for _, g := range unexportedRegion(tp) {
			if g.Blocks == nil {
				continue
			}
			for _, L := range naturalLoops(g) {
				collects := false
				for lb := range L.Body {
					for _, in := range lb.Instrs {
						var elem ssa.Value
						switch x := in.(type) {
						case *ssa.Call:
							if bi, ok := x.Call.Value.(*ssa.Builtin); ok && bi.Name() == "append" && len(x.Call.Args) == 2 {
								elem = x.Call.Args[1]
							}
						case *ssa.Store:
							if _, ok := x.Addr.(*ssa.IndexAddr); ok {
								elem = x.Val
							}
						}
						if elem != nil && sl.Derives(elem, func(v ssa.Value) bool {
							call, ok := v.(*ssa.Call)
							if !ok {
								return false
							}
							cal := call.Call.StaticCallee()
							return cal != nil && cal.Name() == "GetMrtd"
						}) {
							collects = true
						}
					}
				}
				if !collects {
					continue
				}
				// the innermost loop that holds the append is the one to look at
				inner := true
				for _, L2 := range naturalLoops(g) {
					if L2 != L && len(L2.Body) < len(L.Body) && L.Body[L2.Header] {
						for lb := range L2.Body {
							for _, in := range lb.Instrs {
								if call, ok := in.(*ssa.Call); ok {
									if bi, ok := call.Call.Value.(*ssa.Builtin); ok && bi.Name() == "append" {
										inner = false
									}
								}
							}
						}
					}
				}
				if !inner {
					continue
				}
				nColl++
				ok, at := true, L.Header.Instrs[0].Pos()
				for _, ed := range L.exitEdges() {
					from, to := ed[0], ed[1]
					if from == L.Header || isErrorExit(to) {
						continue
					}
					ok, at = false, lastPos(from)
				}
				c.S.Check(ok, "R5", load.FuncName(g)+":collection exhaustive", c.pos(at), "the collecting loop is left only when the rows are exhausted or with an error", "the loop that collects the endorsed MRTDs can be left before all rows were looked at (a break or return after a match): a measurement the endorsement lists for the same RAM size (the early-accept variant) is missing from the allow-list and a launch that reports it is refused")
			}
		}
		c.S.Floor("R5", "loops collecting endorsed MRTDs in TdxPolicy's region", 1, nColl)
	}

	// ---------------- R6: named configuration is forwarded ----------------
	type fwd struct {
		fnRel, fn                 string
		dstPkg, dstType, dstField string
		src                       func(ssa.Value) bool
		srcDesc                   string
	}
	rows := []fwd{
		{"gcetcbendorsement", "SevValidate", gcePkg, "SevPolicyOptions", "LaunchVmsas", func(v ssa.Value) bool {
			return flow.IsFieldLoad(v, gcePkg, "SevValidateOptions", "ExpectedLaunchVmsas")
		}, "SevValidateOptions.ExpectedLaunchVmsas"},
		{"gcetcbendorsement", "SevValidate", verifyPkg, "SNPOptions", "ExpectedLaunchVMSAs", func(v ssa.Value) bool {
			return flow.IsFieldLoad(v, gcePkg, "SevValidateOptions", "ExpectedLaunchVmsas")
		}, "SevValidateOptions.ExpectedLaunchVmsas"},
		{"gcetcbendorsement", "TdxValidate", gcePkg, "TdxPolicyOptions", "RAMGiB", func(v ssa.Value) bool { return flow.IsFieldLoad(v, gcePkg, "TdxValidateOptions", "ExpectedRAMGiB") }, "TdxValidateOptions.ExpectedRAMGiB"},
	}
	for _, row := range rows {
		f := c.fn("R6", row.fnRel, row.fn)
		if f == nil {
			continue
		}
		c.checkForward("R6", f, row.dstPkg, row.dstType, row.dstField, row.src, row.srcDesc, 1)
	}
	// CLI rows, discovered through the public flag names
	for _, cli := range []struct{ flag, callee, dstType, dstField string }{
		{"launch_vmsas", "SevValidate", "SevValidateOptions", "ExpectedLaunchVmsas"},
		{"ram_gib", "TdxValidate", "TdxValidateOptions", "ExpectedRAMGiB"},
	} {
		fk, ok := c.flagBoundField("gcetcbendorsement/cmd", cli.flag)
		if !ok {
			c.S.Unk("R6", "cmd:flag "+cli.flag, "", "public flag not registered in gcetcbendorsement/cmd")
			continue
		}
		target := c.P.Func("gcetcbendorsement", cli.callee)
		n := 0
		for _, f := range c.funcsCalling(func(call ssa.CallInstruction) bool { return target != nil && call.Common().StaticCallee() == target }) {
			if load.RelPkg(f) != "gcetcbendorsement/cmd" {
				continue
			}
			n++
			src := func(v ssa.Value) bool {
				if u, ok := v.(*ssa.UnOp); ok && u.Op == token.MUL {
					if fa, ok := u.X.(*ssa.FieldAddr); ok {
						return flow.StructFieldKey(fa.X.Type(), fa.Field) == fk
					}
				}
				return false
			}
			c.checkForward("R6", f, gcePkg, cli.dstType, cli.dstField, src, "the value of --"+cli.flag, 1)
		}
		c.S.Floor("R6", "CLI functions calling "+cli.callee, 1, n)
	}
	_ = strings.Join
}

// checkForward: every literal of dstType built in f stores dstField from a value deriving from src.
func (c *Ctx) checkForward(rule string, f *ssa.Function, dstPkg, dstType, dstField string, src func(ssa.Value) bool, srcDesc string, floor int) {
	// the literal may be built in an unexported helper the function is split into; what the helper is given is
	// followed to its call sites
	sl := flow.NewSlicer(c.P)
	sl.LiftParams = 2
	n := 0
	for _, rf := range unexportedRegion(f) {
		for _, b := range rf.Blocks {
			for _, in := range b.Instrs {
				al, ok := in.(*ssa.Alloc)
				if !ok || !namedIs(al.Type(), dstPkg, dstType) {
					continue
				}
				n++
				fields := literalFields(al)
				v := fields[dstField]
				ok = v != nil && sl.Derives(v, src)
				c.S.Check(ok, rule, load.FuncName(f)+":"+dstType+"."+dstField, c.pos(al.Pos()), dstField+" ← "+srcDesc, fmt.Sprintf("%s.%s is not set from %s: the configuration the caller named is silently ignored", dstType, dstField, srcDesc))
			}
		}
	}
	c.S.Floor(rule, dstType+" literals in "+load.FuncName(f), floor, n)
}

// stripAddConst removes "+ const" and conversions: the underlying counter value.
func stripAddConst(v ssa.Value) ssa.Value {
	for i := 0; i < 6; i++ {
		switch x := v.(type) {
		case *ssa.BinOp:
			if x.Op == token.ADD {
				if _, ok := x.Y.(*ssa.Const); ok {
					v = x.X
					continue
				}
			}
			return v
		case *ssa.Convert:
			v = x.X
			continue
		default:
			return v
		}
	}
	return v
}

// c02PinnedEndorsement is R9: where a validator's options can name the endorsement to check against (a field
// `Endorsement *VMLaunchEndorsement`) and the validator consults it, the caller's endorsement is the reference:
// another endorsement is produced (extracted from the attestation, unmarshalled from fetched bytes, verified from a
// serialized form) only where that field was found nil. The attestation's certificate table comes from the host; an
// endorsement found there must not displace the one the caller pinned.
func c02PinnedEndorsement(c *Ctx) {
	epbPkg := repoPath("proto/endorsement")
	verifyEnd := c.P.Func("verify", "Endorsement")
	isEndPtr := func(t types.Type) bool {
		p, ok := t.Underlying().(*types.Pointer)
		return ok && namedIs(p.Elem(), epbPkg, "VMLaunchEndorsement")
	}
	hasPinField := func(t types.Type) bool {
		p, ok := t.Underlying().(*types.Pointer)
		if !ok {
			return false
		}
		st, ok := p.Elem().Underlying().(*types.Struct)
		if !ok {
			return false
		}
		for i := 0; i < st.NumFields(); i++ {
			if st.Field(i).Name() == "Endorsement" && isEndPtr(st.Field(i).Type()) {
				return true
			}
		}
		return false
	}
	pinLoad := func(v ssa.Value) bool {
		u, ok := v.(*ssa.UnOp)
		if !ok || u.Op != token.MUL {
			return false
		}
		fa, ok := u.X.(*ssa.FieldAddr)
		return ok && flow.FieldName(fa) == "Endorsement" && hasPinField(fa.X.Type())
	}
	readsPin := func(g *ssa.Function) bool {
		for _, b := range g.Blocks {
			for _, in := range b.Instrs {
				if v, ok := in.(ssa.Value); ok && pinLoad(v) {
					return true
				}
			}
		}
		return false
	}
	// a foreign endorsement is produced here
	produces := func(in ssa.Instruction) bool {
		switch x := in.(type) {
		case *ssa.Alloc:
			return namedIs(x.Type(), epbPkg, "VMLaunchEndorsement") && x.Heap
		case *ssa.Call:
			g := x.Call.StaticCallee()
			if g == nil {
				return false
			}
			if verifyEnd != nil && g == verifyEnd {
				return true
			}
			if flow.IsProtoGetter(g) {
				return false
			}
			res := g.Signature.Results()
			return res.Len() >= 1 && isEndPtr(res.At(0).Type()) && !strings.HasPrefix(g.Name(), "Clone")
		}
		return false
	}
	// dominated by "the pinned endorsement is nil"
	underNil := func(b *ssa.BasicBlock) bool {
		for _, cf := range dominatingConds(b) {
			bo, ok := cf.Cond.(*ssa.BinOp)
			if !ok || (bo.Op != token.EQL && bo.Op != token.NEQ) || !isNilK(bo.Y) {
				continue
			}
			if pinLoad(bo.X) && (bo.Op == token.EQL) == cf.Val {
				return true
			}
		}
		return false
	}
	n := 0
	for _, f := range c.P.RepoFunctions() {
		rel := load.RelPkg(f)
		if (rel != "gcetcbendorsement" && rel != "verify") || c.isTestFunc(f) || f.Blocks == nil {
			continue
		}
		// entry: a function that itself consults the pinned endorsement (whatever its shape: exported function,
		// closure, method of a validator record that holds the options)
		if !readsPin(f) {
			continue
		}
		region := unexportedRegion(f)
		n++
		// helpers that produce a foreign endorsement somewhere not under the nil test (transitively)
		inRegion := map[*ssa.Function]bool{}
		for _, g := range region {
			inRegion[g] = true
		}
		exposed := map[*ssa.Function]token.Pos{}
		for round := 0; round < 4; round++ {
			for _, g := range region {
				if _, done := exposed[g]; done || g == f {
					continue
				}
				for _, b := range g.Blocks {
					for _, in := range b.Instrs {
						bad := produces(in)
						if call, ok := in.(*ssa.Call); ok {
							if h := call.Call.StaticCallee(); h != nil && inRegion[h] {
								_, bad = exposed[h] // a helper of the region is judged by what it does
							}
						}
						if bad && !underNil(b) {
							if _, done := exposed[g]; !done {
								exposed[g] = in.Pos()
							}
						}
					}
				}
			}
		}
		bad := ""
		var at token.Pos
		for _, b := range f.Blocks {
			for _, in := range b.Instrs {
				site := produces(in)
				what := "an endorsement is produced here"
				if call, ok := in.(*ssa.Call); ok {
					if h := call.Call.StaticCallee(); h != nil && inRegion[h] && h != f {
						site = false
						if p, ex := exposed[h]; ex {
							site = true
							what = "helper " + h.Name() + " produces an endorsement at " + c.pos(p)
						}
					}
				}
				if site && !underNil(b) && bad == "" {
					bad, at = what, in.Pos()
				}
			}
		}
		name := load.FuncName(f) + ":the caller's endorsement is the reference"
		if bad != "" {
			c.S.Bad("R9", name, c.pos(at), "the options can name the endorsement to check against, but "+bad+" on a path where that field was not found nil: an endorsement taken from the (host-supplied) attestation or fetched by measurement can displace the one the caller pinned, and a measurement listed only there is accepted")
		} else {
			c.S.OK("R9", name, c.pos(f.Pos()), "other endorsements are produced only where the options' Endorsement is nil", true)
		}
	}
	c.S.Floor("R9", "validators that consult an Endorsement field of their options", 3, n)
}

// c02TechnologyCheckNotSkipped is R10: where technology options were given, the technology check runs. Every call of
// verify.SNP from another function of package verify is conditional only on (a) the options value it is handed being
// non-nil and (b) conditions whose other side refuses with an error; a further condition that steps over the call
// and goes on (the endorsement has no sev_snp section, a flag) accepts a launch whose measurement the endorsement does
// not list — an absent section must be refused by the check itself, not waved through in front of it.
func c02TechnologyCheckNotSkipped(c *Ctx) {
	snp := c.P.Func("verify", "SNP")
	if snp == nil {
		c.S.Unk("R10", "anchor:verify.SNP", "", "function not found")
		return
	}
	n := 0
	for _, f := range c.P.RepoFunctions() {
		if load.RelPkg(f) != "verify" || c.isTestFunc(f) || f == snp || f.Blocks == nil {
			continue
		}
		for i, call := range callsIn(f, func(call ssa.CallInstruction) bool { return call.Common().StaticCallee() == snp }) {
			n++
			args := call.Common().Args
			bad, at := "", call.Pos()
			for _, cf := range dominatingConds(call.Block()) {
				// (a) the nil test of the options handed to the check
				if bo, ok := cf.Cond.(*ssa.BinOp); ok && (bo.Op == token.EQL || bo.Op == token.NEQ) && isNilK(bo.Y) && len(args) == 2 && samePointerValue(bo.X, args[1]) {
					continue
				}
				// (b) an earlier step's error: the side without the call is that step's failure
				if bo, ok := cf.Cond.(*ssa.BinOp); ok && (bo.Op == token.EQL || bo.Op == token.NEQ) && isNilK(bo.Y) && isErrorType(bo.X.Type()) {
					continue
				}
				// (c) the side that does not lead to the call refuses
				if cf.Block != nil && len(cf.Block.Succs) == 2 {
					other := cf.Block.Succs[0]
					if cf.Val {
						other = cf.Block.Succs[1]
					}
					if isErrorExit(other) {
						continue
					}
				}
				bad = "a condition other than \"options given\" steps over the technology check: " + flow.Describe(cf.Cond)
				if in, ok := cf.Cond.(ssa.Instruction); ok {
					at = in.Pos()
				}
			}
			construct := load.FuncName(f) + ":technology check not skipped"
			if i > 0 {
				construct = fmt.Sprintf("%s #%d", construct, i+1)
			}
			c.S.Check(bad == "", "R10", construct, c.pos(at), "verify.SNP is called whenever SNP options were given (other conditions on the way refuse)", bad+": with SNP options given, an endorsement for which the condition is false is accepted without its measurements having been compared")
		}
	}
	c.S.Floor("R10", "calls of verify.SNP from package verify", 1, n)
}

// c02PolicyFailureIsFatal is R11. See the Explanation.
func c02PolicyFailureIsFatal(c *Ctx) {
	n := 0
	for _, f := range c.P.RepoFunctions() {
		if load.RelPkg(f) != "gcetcbendorsement" || c.isTestFunc(f) || f.Blocks == nil {
			continue
		}
		for _, call := range callsIn(f, func(call ssa.CallInstruction) bool {
			g := call.Common().StaticCallee()
			return g != nil && load.RelPkg(g) == "gcetcbendorsement" && (g.Name() == "TdxPolicy" || g.Name() == "SevPolicy")
		}) {
			cv, ok := call.(*ssa.Call)
			if !ok {
				continue
			}
			ei := errIndex(cv.Call.Signature())
			if ei < 0 {
				continue
			}
			// the error edges: blocks entered on `err != nil` for this call's error
			var starts []*ssa.BasicBlock
			for _, b := range f.Blocks {
				iff, ok := b.Instrs[len(b.Instrs)-1].(*ssa.If)
				if !ok {
					continue
				}
				bo, ok := iff.Cond.(*ssa.BinOp)
				if !ok || !isNilK(bo.Y) {
					continue
				}
				ex, ok := bo.X.(*ssa.Extract)
				if !ok || ex.Tuple != ssa.Value(cv) || ex.Index != ei {
					continue
				}
				switch bo.Op {
				case token.NEQ:
					starts = append(starts, b.Succs[0])
				case token.EQL:
					starts = append(starts, b.Succs[1])
				}
			}
			if len(starts) == 0 {
				continue
			}
			n++
			bad := ""
			seen := map[*ssa.BasicBlock]bool{}
			var walk func(b *ssa.BasicBlock)
			walk = func(b *ssa.BasicBlock) {
				if seen[b] || bad != "" {
					return
				}
				seen[b] = true
				for _, in := range b.Instrs {
					if cc, ok := in.(ssa.CallInstruction); ok {
						if g := cc.Common().StaticCallee(); g != nil && g.Pkg != nil && (strings.HasSuffix(g.Pkg.Pkg.Path(), "go-tdx-guest/validate") || strings.HasSuffix(g.Pkg.Pkg.Path(), "go-sev-guest/validate") || strings.HasSuffix(g.Pkg.Pkg.Path(), "go-tdx-guest/verify") || strings.HasSuffix(g.Pkg.Pkg.Path(), "go-sev-guest/verify")) {
							bad = "reaches " + callName(cc) + " at " + c.pos(cc.Pos())
						}
					}
					if ret, ok := in.(*ssa.Return); ok {
						if fe := errIndex(f.Signature); fe >= 0 && fe < len(ret.Results) && isNilK(ret.Results[fe]) {
							bad = "returns nil at " + c.pos(ret.Pos())
						}
					}
				}
				for _, s := range b.Succs {
					walk(s)
				}
			}
			for _, st := range starts {
				walk(st)
			}
			c.S.Check(bad == "", "R11", load.FuncName(f)+":"+callName(call)+" failure ends the validation", c.pos(call.Pos()), "from the error edge of the policy derivation every path returns an error",
				"after the policy derivation failed the validation goes on ("+bad+"): the attestation is then validated under a policy that does not carry the endorsed measurement (the base policy as given) — for a base policy without a measurement list, any measurement is accepted")
		}
	}
	c.S.Floor("R11", "policy derivations in validation entry points", 1, n)
}
