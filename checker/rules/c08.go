package rules

import (
	"fmt"
	"go/token"
	"go/types"
	"os"
	"sort"
	"strings"

	"golang.org/x/tools/go/ssa"

	"verif/checker/flow"
	"verif/checker/load"
)

func init() {
	register(&RuleSet{
		ID:      "C08",
		Arch386: true,
		Explanation: "Closure W = repo functions reachable from sev.LaunchDigest, sev.UnsignedSnp, tdx.MRTD, tdx.UnsignedTDX, ovmf.SevData.ExtractFromFirmware and ovmf.ExtractMaterialGuestPhysicalRegions*. " +
			"T2 allocation and work proportional to declared sizes: make / Grow whose size derives from a decoded integer wider than 8 bits, and loop bounds of loops that hash or allocate whose bound derives from a decoded 64-bit integer, must be dominated by an ordering comparison of that value with a constant or a length (32-bit decoded sizes are accepted as type-bounded for loop trip counts, not for allocations). " +
			"T1 a repo function that returns a bare pointer and has a `return nil` path (the fixed-size decoders refuse short input that way) has its result nil-checked before every dereference. T4 every function of W with constant offsets into a []byte parameter has a sufficient length guard. T5 no explicit panic / Must* on non-constant input in W (one named suppression: a compile-time table check). " +
			"T7 narrow arithmetic: a multiplication of a decoded count by a constant element size carried out in 32 bits or less and feeding a comparison, a slice bound, an index or an allocation must be done after widening to 64 bits or be dominated by an upper-bound check of the count (sums of decoded offsets and sizes are validated relationally elsewhere and are not decided here). " +
			"T9 the page loops of the SEV measurement run only after the address-range/alignment check returned nil, and that check returns nil only behind every one of its tests (no bypassing return). " +
			"T10 sentinel index: the result of a bytes/strings/slices Index-family search (−1 = not found) used as an index, slice bound or allocation size needs a dominating sign test of that very value. T11 x[len(x)−k] / x[:len(x)−k] needs a dominating condition on that very slice value establishing len(x) ≥ k (one named suppression with reason in C07). T12 +,−,*,<< on a decoded operand carried out in fewer bits than the integer type its result is then converted to needs a dominating upper bound of the operand. T13 (ESP) a []byte sliced at bounds that move with a loop counter, in a loop that runs up to a value not computed from the buffer's length, is reached only on paths where executed checks relate that value to the buffer length through some chain of comparisons (decides that a relating chain exists, not that it is arithmetically sufficient). " +
			"T15 loop progress: every loop of W is an iterator loop, a counted loop (an integer loop variable moved strictly on every back edge and compared in an exit test), a consumption loop (decreased on every back edge by a decoded amount that a dominating check makes positive: the GUID-table walk), or the one sweep loop (unacceptedMemRanges: a back edge that keeps the cursor lies behind two non-emptiness tests and two failed ordering tests, which make the consumed intersection non-empty); any other loop shape is counted as unclassified in evidence and gets no verdict. " +
			"T27 a loop `i <= b` over an unsigned counter with a constant step needs b known below something (a bound at the top of the range makes the test always true: the counter wraps and the loop never ends). " +
			"T26 a constant slice bound or index on a slice that is a call result or a field value (x.GetSignature()[:8]) needs len ≥ that constant established for that very slice. " +
			"T25 an integer division or remainder by a non-constant happens only behind a dominating condition on that very value that excludes zero. " +
			"T24 a conversion of a slice to an array ([N]T(x)) happens only where len(x) ≥ N is established for that slice. " +
			"T22 (= C18.R13, discarded errors) the error of a layout decoder is dropped only where the decoder fails on the length of its argument alone and is given exactly that many bytes. " +
			"T21 a difference of two non-constant integers that is unsigned, or used as an index / slice bound / allocation size, is taken only where the subtrahend is known to be no larger than the minuend (dominating comparison of the same values, transitively, shifted form, by construction, helper postcondition, established by every caller, or — signed — every use behind diff ≥ 0); named value exceptions by package and operand shape. " +
			"T20 an element of a package-level array taken at a non-constant index is bounded below the array length by the dominating comparisons of the index with constants. " +
			"T16 every field decoded from the image (a field of an ovmf/abi structure) that bounds a slice of a []byte in package ovmf is upper-bounded somewhere in the package: a refusing comparison puts it on the smaller-or-equal side of something anchored in a length (len(x), a constant, another such field), or ties it by != to such a field. " +
			"T14 (ESP) lock step: where an index saved from a loop is used after the loop to index a slice field that the loop appends to, every iteration of that loop appends to the field exactly once on every path. " +
			"Not covered: general absence of panics for non-constant indices (would need a relational numeric domain sound under wrap-around), wall-time bounds as numbers.",
		Assumptions: []string{"go/types, go/ssa, VTA call graph", "encoding/binary"},
		Run:         runC08,
	})
}

func c08Roots(c *Ctx) []*ssa.Function {
	var roots []*ssa.Function
	add := func(f *ssa.Function) {
		if f != nil {
			roots = append(roots, f)
		}
	}
	add(c.P.Func("sev", "LaunchDigest"))
	add(c.P.Func("sev", "UnsignedSnp"))
	add(c.P.Func("tdx", "MRTD"))
	add(c.P.Func("tdx", "UnsignedTDX"))
	add(c.P.Method("ovmf", "SevData", "ExtractFromFirmware"))
	for _, n := range []string{"ExtractMaterialGuestPhysicalRegions", "ExtractMaterialGuestPhysicalRegionsTDHOBBug", "ExtractMaterialGuestPhysicalRegionsNoUnacceptedMemory", "GetFwGUIDTable", "GetFwGUIDToBlockMap"} {
		add(c.P.Func("ovmf", n))
	}
	return roots
}

func runC08(c *Ctx) {
	// T22 = C18.R13 (discarded errors): the error of a decoder of the layout packages is thrown away only where the
	// decoder fails on the length of its argument alone and is handed exactly that many bytes. A decoder that gains
	// another way to refuse while a caller still drops its error hands a nil record to the analysis, which
	// dereferences it.
	c.borrow("T22/C18.", runC18, func(rule, construct string) bool {
		return rule == "R13" && strings.Contains(construct, "discarded error")
	})
	roots := c08Roots(c)
	if !c.S.Floor("T0", "firmware-analysis entry points resolved", 9, len(roots)) {
		return
	}
	W := c.reachable(roots, func(f *ssa.Function) bool {
		return load.FuncInRepo(f) && !strings.HasPrefix(load.RelPkg(f), "proto/") && !strings.HasPrefix(load.RelPkg(f), "cmd/output")
	})
	var fns []*ssa.Function
	for f := range W {
		if f != nil && f.Blocks != nil {
			fns = append(fns, f)
		}
	}
	sort.Slice(fns, func(i, j int) bool { return fns[i].Pos() < fns[j].Pos() })
	c.S.Floor("T0", "functions in the firmware-analysis closure", 50, len(fns))

	c.allocRule("T2", fns, W, nil)
	c.loopBoundRule("T2", fns)
	pk := map[string]bool{}
	for _, f := range fns {
		pk[load.RelPkg(f)] = true
	}
	var rels []string
	for r := range pk {
		rels = append(rels, r)
	}
	sort.Strings(rels)
	c.guardRule("T4", rels, W, 5)
	c.panicRule("T5", fns, map[string]string{
		"tdx.regionsForShape:panic": "guards a compile-time table of machine shapes (constants only); no image byte reaches it",
	})
	c.narrowArithRule("T7", fns)
	c.nullableResultRule("T1", fns)
	c.sentinelRule("T10", fns)
	c.lenMinusRule("T11", fns, map[string]string{})
	c.S.OK("T24", "measurement closure:slice-to-array conversions", "", fmt.Sprintf("%d conversions of a slice to an array examined", c.sliceToArrayRule("T24", fns)), false)
	c.S.OK("T25", "measurement closure:divisions by a non-constant", "", fmt.Sprintf("%d integer divisions or remainders by a non-constant examined", c.divisorRule("T25", fns)), false)
	c.S.OK("T26", "measurement closure:constant bounds on computed slices", "", fmt.Sprintf("%d constant slice bounds / indexes on call results and field values examined", c.constBoundRule("T26", fns)), false)
	c.S.OK("T27", "measurement closure:inclusive loop bounds", "", fmt.Sprintf("%d loops with an inclusive bound on an unsigned counter examined", c.inclusiveBoundRule("T27", fns)), false)
	c.widenAfterArithRule("T12", fns)
	// sweep loops (a cursor that some iterations keep in place): confirmed by reading — today exactly one, the
	// private-section sweep of ovmf.unacceptedMemRanges. An iteration that keeps the cursor shrinks the current RAM
	// bank by its intersection with the current section; that consumes something only if the intersection is not
	// empty, i.e. both regions are non-empty (two Length == 0 tests failed) and they overlap (the two ordering
	// tests `section ends before the bank` / `section starts after the bank` failed).
	sweep := func(f *ssa.Function, L *loop, phi *ssa.Phi, back *ssa.BasicBlock) (bool, string) {
		empties := map[ssa.Value]bool{}
		order := 0
		for _, cf := range append(dominatingConds(back), edgeCond(back, L.Header)...) {
			if !L.Body[cf.Block] {
				continue
			}
			bo, ok := cf.Cond.(*ssa.BinOp)
			if !ok {
				continue
			}
			isLen := func(v ssa.Value) (ssa.Value, bool) {
				p := flow.PathOf(stripConv(v))
				if n := len(p.Fields); n > 0 && p.Fields[n-1] == "Length" {
					return p.Root, true
				}
				return nil, false
			}
			isBound := func(v ssa.Value) bool {
				v = stripConv(v)
				if call, ok := v.(*ssa.Call); ok {
					if g := call.Call.StaticCallee(); g != nil && g.Signature.Recv() != nil && g.Signature.Params().Len() == 0 {
						return true // region.end()
					}
				}
				p := flow.PathOf(v)
				return len(p.Fields) > 0 && p.Fields[len(p.Fields)-1] == "Start"
			}
			switch bo.Op {
			case token.EQL, token.NEQ:
				zero := func(v ssa.Value) bool { k, ok := v.(*ssa.Const); return ok && isZeroIntConst(k) }
				nonEmpty := (bo.Op == token.EQL && !cf.Val) || (bo.Op == token.NEQ && cf.Val)
				if root, ok := isLen(bo.X); ok && zero(bo.Y) && nonEmpty {
					empties[root] = true
				}
			case token.LEQ, token.GEQ, token.LSS, token.GTR:
				if !cf.Val && isBound(bo.X) && isBound(bo.Y) {
					order++
				}
			}
		}
		if len(empties) >= 2 && order >= 2 {
			return true, ""
		}
		return false, fmt.Sprintf("found %d of 2 non-emptiness tests and %d of 2 failed ordering tests before the back edge", len(empties), order)
	}
	nL, nSw := c.loopProgressRule("T15", fns, sweep)
	c.S.Floor("T15", "loops in the firmware-analysis closure", 10, nL)
	c.S.Floor("T15", "sweep loops", 1, nSw)
	c.S.Floor("T14", "slice fields indexed by a counter saved from the loop that fills them", 1, c.lockStepRule("T14", fns))
	c.S.Floor("T13", "slices at loop-carried bounds under a foreign loop bound", 1, c.foreignBoundSliceRule("T13", fns))
	c.S.Floor("T16", "image slices of package ovmf bounded by decoded fields", 1, c.decodedBoundRule("T16"))
	c.S.Note("T20: %d non-constant accesses to package-level arrays in the firmware-analysis closure", c.tableIndexRule("T20", fns))
	c.S.Floor("T21", "differences of two non-constant values used as bounds (or unsigned) in the firmware-analysis closure", 5, c.guardedSubRule("T21", fns, t21Reasons, os.Getenv("VCHECK_SURVEY") != ""))
	if os.Getenv("VCHECK_SURVEY") != "" {
		c.surveyAccesses(fns)
	}

	// ---- T9 ----
	high := c.P.Func("sev", "ProductHighAddress")
	nLoops := 0
	if high != nil {
		checkers := map[*ssa.Function]bool{}
		for _, f := range fns {
			if load.RelPkg(f) == "sev" && errIndex(f.Signature) >= 0 && len(callsIn(f, func(call ssa.CallInstruction) bool { return call.Common().StaticCallee() == high })) > 0 {
				// the function that compares against the product's address limit
				hasCmp := false
				for _, b := range f.Blocks {
					for _, in := range b.Instrs {
						if bo, ok := in.(*ssa.BinOp); ok && (bo.Op == token.GTR || bo.Op == token.LSS || bo.Op == token.GEQ || bo.Op == token.LEQ) {
							hasCmp = true
						}
					}
				}
				if hasCmp && f.Signature.Results().Len() == 1 {
					checkers[f] = true
				}
			}
		}
		c.S.Floor("T9", "address-range check functions in package sev", 1, len(checkers))
		// a function whose every nil return stands behind the nil result of a checker (or hands a checker's result
		// on) is a checker too: the check may be split into an alignment part and a range part behind one front
		soleErr := func(f *ssa.Function) bool {
			return f.Signature.Results().Len() == 1 && errIndex(f.Signature) == 0
		}
		for round := 0; round < 3; round++ {
			for _, f := range fns {
				if load.RelPkg(f) != "sev" || checkers[f] || !soleErr(f) || f.Blocks == nil {
					continue
				}
				cks := callsIn(f, func(call ssa.CallInstruction) bool { return checkers[call.Common().StaticCallee()] })
				if len(cks) == 0 {
					continue
				}
				all, nOK := true, 0
				for _, b := range f.Blocks {
					ret, ok := b.Instrs[len(b.Instrs)-1].(*ssa.Return)
					if !ok {
						continue
					}
					v := ret.Results[0]
					if isNilK(v) {
						guarded := false
						for _, ck := range cks {
							if cv := ck.Value(); cv != nil && errKnownNil(b, cv) {
								guarded = true
							}
						}
						all = all && guarded
						nOK++
						continue
					}
					if call, ok := v.(*ssa.Call); ok && checkers[call.Call.StaticCallee()] {
						nOK++
					}
				}
				if all && nOK > 0 {
					checkers[f] = true
				}
			}
		}
		is4K := func(call *ssa.Call) bool {
			cal := call.Call.StaticCallee()
			return cal != nil && cal.Signature.Recv() != nil && namedIs(cal.Signature.Recv().Type(), repoPath("sev"), "SnpMeasurement") && strings.HasSuffix(cal.Name(), "4K")
		}
		calls4K := func(g *ssa.Function) bool {
			for _, b := range g.Blocks {
				for _, in := range b.Instrs {
					if call, ok := in.(*ssa.Call); ok && is4K(call) {
						return true
					}
				}
			}
			return false
		}
		// loopsOverParam: g has a loop that calls one of its function-typed parameters (a page iterator)
		loopsOverParam := func(g *ssa.Function) bool {
			if g == nil || g.Blocks == nil || !load.FuncInRepo(g) {
				return false
			}
			for _, L := range naturalLoops(g) {
				for lb := range L.Body {
					for _, in := range lb.Instrs {
						if call, ok := in.(*ssa.Call); ok {
							if _, isP := call.Call.Value.(*ssa.Parameter); isP && !call.Call.IsInvoke() {
								return true
							}
						}
					}
				}
			}
			return false
		}
		type loopSite struct {
			b   *ssa.BasicBlock
			pos token.Pos
		}
		// the places of f from which the measurement is extended page by page: a loop around a *4K call, or the call
		// of a page iterator that is handed a closure making the *4K call
		pageLoopSites := func(f *ssa.Function) []loopSite {
			var out []loopSite
			for _, L := range naturalLoops(f) {
				extends := false
				for lb := range L.Body {
					for _, in := range lb.Instrs {
						if call, ok := in.(*ssa.Call); ok && is4K(call) {
							extends = true
						}
					}
				}
				if extends {
					out = append(out, loopSite{L.Header, L.Header.Instrs[0].Pos()})
				}
			}
			for _, b := range f.Blocks {
				for _, in := range b.Instrs {
					call, ok := in.(*ssa.Call)
					if !ok || !loopsOverParam(call.Call.StaticCallee()) {
						continue
					}
					for _, a := range call.Call.Args {
						var fn *ssa.Function
						switch x := a.(type) {
						case *ssa.MakeClosure:
							fn, _ = x.Fn.(*ssa.Function)
						case *ssa.Function:
							fn = x
						}
						if fn != nil && calls4K(fn) {
							out = append(out, loopSite{b, call.Pos()})
						}
					}
				}
			}
			return out
		}
		// T9b: the check returning nil means that every one of its tests was evaluated and passed — no
		// nil return bypasses a test (an early `return nil` would let unaligned sizes reach the page loop)
		guardCheckers := map[*ssa.Function]bool{}
		for _, f := range fns {
			if load.RelPkg(f) != "sev" || f.Parent() != nil {
				continue
			}
			if len(pageLoopSites(f)) > 0 {
				for _, call := range callsIn(f, func(call ssa.CallInstruction) bool { return checkers[call.Common().StaticCallee()] }) {
					guardCheckers[call.Common().StaticCallee()] = true
				}
			}
		}
		// the parts a guarding check is made of (functions of the package returning just an error that it calls) are
		// held to the same rule
		for round := 0; round < 3; round++ {
			for ck := range guardCheckers {
				for _, call := range callsIn(ck, func(call ssa.CallInstruction) bool {
					g := call.Common().StaticCallee()
					return g != nil && load.RelPkg(g) == "sev" && g.Blocks != nil && soleErr(g)
				}) {
					guardCheckers[call.Common().StaticCallee()] = true
				}
			}
		}
		for ck := range guardCheckers {
			var errChecks, nilRets []*ssa.BasicBlock
			for _, b := range ck.Blocks {
				switch last := b.Instrs[len(b.Instrs)-1].(type) {
				case *ssa.If:
					for _, sc := range b.Succs {
						if ret, ok := sc.Instrs[len(sc.Instrs)-1].(*ssa.Return); ok && len(ret.Results) == 1 && !isNilK(ret.Results[0]) && len(sc.Preds) == 1 {
							if call, isCall := ret.Results[0].(*ssa.Call); isCall && guardCheckers[call.Call.StaticCallee()] {
								continue // handing on a part's verdict is a success path of this function, not a refusal
							}
							errChecks = append(errChecks, b)
						}
					}
				case *ssa.Return:
					if len(last.Results) == 1 && isNilK(last.Results[0]) {
						nilRets = append(nilRets, b)
					} else if len(last.Results) == 1 {
						if call, isCall := last.Results[0].(*ssa.Call); isCall && guardCheckers[call.Call.StaticCallee()] {
							nilRets = append(nilRets, b) // may be nil: the part's verdict
						}
					}
				}
			}
			okAll := len(nilRets) > 0
			for _, r := range nilRets {
				for _, e := range errChecks {
					if !e.Dominates(r) {
						okAll = false
					}
				}
			}
			c.S.Check(okAll, "T9", load.FuncName(ck)+":all tests before success", c.pos(ck.Pos()), fmt.Sprintf("every nil return is behind all %d tests of the check", len(errChecks)), "the range/alignment check can return nil without having evaluated all of its tests: the page loop's slicing relies on every one of them")
		}
		for _, f := range fns {
			if load.RelPkg(f) != "sev" || f.Parent() != nil {
				continue
			}
			for i, site := range pageLoopSites(f) {
				nLoops++
				ok := false
				for _, call := range callsIn(f, func(call ssa.CallInstruction) bool { return checkers[call.Common().StaticCallee()] }) {
					if cv := call.Value(); cv != nil && errKnownNil(site.b, cv) {
						ok = true
					}
				}
				construct := load.FuncName(f) + ":page loop"
				if i > 0 {
					construct = fmt.Sprintf("%s %d", construct, i+1)
				}
				c.S.Check(ok, "T9", construct, c.pos(site.pos), "page loop runs only after the range/alignment check returned nil", "the page loop is reachable without the address-range and alignment check having succeeded")
			}
		}
	}
	c.S.Floor("T9", "SEV page loops", 2, nLoops)
}

// loopBoundRule: loops that hash or allocate and whose bound derives from a
// decoded 64-bit integer must be dominated by a bound check.
func (c *Ctx) loopBoundRule(rule string, fns []*ssa.Function) {
	fwd := c.readForwarders()
	cache := map[*ssa.Function]map[ssa.Value]bool{}
	n := 0
	for _, f := range fns {
		for _, L := range naturalLoops(f) {
			work := false
			for lb := range L.Body {
				for _, in := range lb.Instrs {
					switch x := in.(type) {
					case *ssa.MakeSlice:
						work = true
					case *ssa.Call:
						if cal := x.Call.StaticCallee(); cal != nil && load.FuncInRepo(cal) {
							// callee hashes / extends a digest
							for g := range c.reachable([]*ssa.Function{cal}, nil) {
								if len(callsIn(g, func(cc ssa.CallInstruction) bool {
									cc2 := cc.Common()
									if cc2.IsInvoke() && cc2.Method.Name() == "Write" {
										return true
									}
									return calleeIs(cc, "crypto/sha512.Sum384")
								})) > 0 {
									work = true
								}
							}
						}
					}
				}
			}
			if !work {
				continue
			}
			// the loop condition: an ordering comparison in the header (or its first block) with a loop exit
			for lb := range L.Body {
				iff, ok := lb.Instrs[len(lb.Instrs)-1].(*ssa.If)
				if !ok {
					continue
				}
				exits := false
				for _, s := range lb.Succs {
					if !L.Body[s] {
						exits = true
					}
				}
				bo, ok := iff.Cond.(*ssa.BinOp)
				if !ok || !exits {
					continue
				}
				switch bo.Op {
				case token.LSS, token.LEQ, token.GTR, token.GEQ:
				default:
					continue
				}
				for _, side := range []ssa.Value{bo.X, bo.Y} {
					if _, isK := side.(*ssa.Const); isK {
						continue
					}
					// skip the induction variable (a header φ)
					if p, ok := stripConv(side).(*ssa.Phi); ok && p.Block() == L.Header {
						continue
					}
					origin, bits, decoded := c.decodedOrigin(side, fwd, cache)
					carrier := c.lastCarrier
					if !decoded {
						continue
					}
					if sb := basicBitsOf(stripConv(side).Type()); sb < bits {
						bits = sb
					}
					n++
					construct := load.FuncName(f) + ":loop bounded by " + strings.TrimPrefix(origin, "binary.")
					if bits <= 32 {
						c.S.OK(rule, construct, c.pos(iff.Pos()), fmt.Sprintf("bound is a %d-bit decoded value (trip count type-bounded)", bits), true)
						continue
					}
					if boundedBefore(L.Header, side) || lenEqualBefore(L.Header, side) {
						c.S.OK(rule, construct, c.pos(iff.Pos()), "decoded 64-bit bound is checked against a length/constant before the loop", true)
						continue
					}
					if carrier != "" {
						construct = "loop bounded by " + carrier
					}
					c.S.Bad(rule, construct, c.pos(iff.Pos()), fmt.Sprintf("a loop in %s that hashes or allocates runs up to a 64-bit size taken from the image (%s) with no preceding bound: run time unrelated to the image size", load.FuncName(f), origin))
				}
			}
		}
	}
	c.S.Count("loop_bounds_examined", n)
}

// decodedWidth: the narrowest integer width on the slice from v down to its decoded source.
func decodedWidth(c *Ctx, v ssa.Value) int {
	w := basicBitsOf(v.Type())
	sl := flow.NewSlicer(c.P)
	sl.LiftParams = 2
	sl.Visit(v, func(x ssa.Value) bool {
		if b, ok := x.Type().Underlying().(*types.Basic); ok && b.Info()&types.IsInteger != 0 {
			if bb := basicBits(b); bb < w {
				w = bb
			}
		}
		if call, ok := x.(*ssa.Call); ok {
			if f := call.Call.StaticCallee(); f != nil && f.Pkg != nil && f.Pkg.Pkg.Path() == "encoding/binary" {
				return false
			}
		}
		return true
	}, nil)
	return w
}

// lenEqualBefore: the header is dominated by the equal edge of v == len(x) / != false edge.
func lenEqualBefore(b *ssa.BasicBlock, v ssa.Value) bool {
	for _, cf := range dominatingConds(b) {
		bo, ok := cf.Cond.(*ssa.BinOp)
		if !ok || (bo.Op != token.EQL && bo.Op != token.NEQ) {
			continue
		}
		if (bo.Op == token.EQL) != cf.Val {
			continue
		}
		isLen := func(x ssa.Value) bool {
			x = stripConv(x)
			call, ok := x.(*ssa.Call)
			if !ok {
				return false
			}
			bi, ok := call.Call.Value.(*ssa.Builtin)
			return ok && bi.Name() == "len"
		}
		same := func(x ssa.Value) bool {
			a, s := stripConv(x), stripConv(v)
			if a == s {
				return true
			}
			pa, ps := flow.PathOf(a), flow.PathOf(s)
			return len(pa.Fields) > 0 && pa.Equal(ps)
		}
		if (same(bo.X) && isLen(bo.Y)) || (same(bo.Y) && isLen(bo.X)) {
			return true
		}
	}
	return false
}

// narrowArithRule: T7.
func (c *Ctx) narrowArithRule(rule string, fns []*ssa.Function) {
	fwd := c.readForwarders()
	cache := map[*ssa.Function]map[ssa.Value]bool{}
	n := 0
	for _, f := range fns {
		rel := load.RelPkg(f)
		if rel != "ovmf" && rel != "ovmf/abi" {
			continue
		}
		for _, b := range f.Blocks {
			for _, in := range b.Instrs {
				bo, ok := in.(*ssa.BinOp)
				if !ok {
					continue
				}
				bt, ok := bo.Type().Underlying().(*types.Basic)
				if !ok || bt.Info()&types.IsInteger == 0 || basicBits(bt) > 32 || bt.Kind() == types.Int || bt.Kind() == types.Uint {
					if !(ok && c.Arch == "386" && (bt.Kind() == types.Int || bt.Kind() == types.Uint)) {
						continue
					}
				}
				var decodedSide ssa.Value
				kind := ""
				switch bo.Op {
				case token.MUL:
					_, kx := bo.X.(*ssa.Const)
					_, ky := bo.Y.(*ssa.Const)
					if kx == ky {
						continue
					}
					decodedSide = bo.X
					if kx {
						decodedSide = bo.Y
					}
					kind = "multiplication by a constant"
				default:
					continue
				}
				origin, _, decoded := c.decodedOrigin(decodedSide, fwd, cache)
				if !decoded {
					continue
				}
				// does the result feed a comparison, slice bound, index or loop bound?
				feeds := ""
				var walk func(v ssa.Value, d int)
				seen := map[ssa.Value]bool{}
				walk = func(v ssa.Value, d int) {
					if d > 4 || seen[v] || feeds != "" {
						return
					}
					seen[v] = true
					for _, r := range nonDebugRefs(v) {
						switch u := r.(type) {
						case *ssa.BinOp:
							switch u.Op {
							case token.LSS, token.GTR, token.LEQ, token.GEQ, token.EQL, token.NEQ:
								feeds = "a comparison"
							default:
								walk(u, d+1)
							}
						case *ssa.Slice:
							feeds = "a slice bound"
						case *ssa.IndexAddr:
							if u.Index == v {
								feeds = "an index"
							}
						case *ssa.Convert:
							walk(u, d+1)
						case *ssa.Phi:
							walk(u, d+1)
						case *ssa.MakeSlice:
							feeds = "an allocation size"
						}
					}
				}
				walk(bo, 0)
				if feeds == "" {
					continue
				}
				n++
				construct := load.FuncName(f) + ":" + kind + " (" + strings.TrimPrefix(origin, "binary.") + ")"
				if boundedBefore(b, decodedSide) {
					c.S.OK(rule, construct, c.pos(bo.Pos()), "decoded operand is bounded before the narrow arithmetic", true)
					continue
				}
				c.S.Bad(rule, construct, c.pos(bo.Pos()), fmt.Sprintf("%s in %d-bit arithmetic on a value taken from the image feeds %s: it can wrap and defeat the check", kind, basicBits(bt), feeds))
			}
		}
	}
	c.S.Count("narrow_arith_sites", n)
	c.S.OK(rule, "ovmf:narrow arithmetic", "", fmt.Sprintf("%d narrow arithmetic sites on decoded values examined", n), false)
}

// nullableResultRule: results of repo functions of the form func(...) *T that
// can return nil must be nil-checked before being dereferenced.
func (c *Ctx) nullableResultRule(rule string, fns []*ssa.Function) {
	nullable := map[*ssa.Function]bool{}
	for _, f := range c.P.RepoFunctions() {
		res := f.Signature.Results()
		if res.Len() != 1 {
			continue
		}
		if _, isPtr := res.At(0).Type().Underlying().(*types.Pointer); !isPtr {
			continue
		}
		for _, b := range f.Blocks {
			if ret, ok := b.Instrs[len(b.Instrs)-1].(*ssa.Return); ok && isNilK(ret.Results[0]) {
				nullable[f] = true
			}
		}
	}
	n := 0
	for _, f := range fns {
		for _, call := range callsIn(f, func(call ssa.CallInstruction) bool { return nullable[call.Common().StaticCallee()] }) {
			cv := call.Value()
			if cv == nil {
				continue
			}
			for _, r := range nonDebugRefs(cv) {
				var at ssa.Instruction
				switch u := r.(type) {
				case *ssa.FieldAddr:
					if u.X == cv {
						at = u
					}
				case *ssa.UnOp:
					if u.Op == token.MUL && u.X == cv {
						at = u
					}
				}
				if at == nil {
					continue
				}
				n++
				ok := false
				for _, cf := range dominatingConds(at.Block()) {
					if bo, isB := cf.Cond.(*ssa.BinOp); isB && isNilK(bo.Y) && bo.X == cv && (bo.Op == token.NEQ) == cf.Val && (bo.Op == token.NEQ || bo.Op == token.EQL) {
						ok = true
					}
				}
				c.S.Check(ok, rule, load.FuncName(f)+":result of "+call.Common().StaticCallee().Name(), c.pos(at.Pos()), "nil result checked before the dereference", "the callee returns nil for input it refuses, and the result is dereferenced without a nil check")
			}
		}
	}
	c.S.Count("nullable_result_derefs", n)
}

// t21Reasons: differences whose safety rests on a value argument (interval algebra, constant ranges), by package and
// operand shape. Confirmed by reading; one line of reason each.
var t21Reasons = map[string]string{
	"ovmf: end() - end()":                               "the intersection lies inside the bank it was cut from, so it ends no later than the bank",
	"ovmf: minPhysicalAddress() - maxPhysicalAddress()": "start = max of the starts and end = min of the ends of two regions just found to overlap: start < end",
	"sev: (ProductHighAddress()+k) - guestLen":          "guestLen is a uint32 and the product's high address is at least 2^47",
}
