package rules

import (
	"fmt"
	"go/constant"
	"go/token"
	"go/types"
	"sort"
	"strings"

	"golang.org/x/tools/go/ssa"

	"verif/checker/esp"
	"verif/checker/flow"
	"verif/checker/load"
)

const kmspbPkg = "cloud.google.com/go/kms/apiv1/kmspb"

func init() {
	register(&RuleSet{
		ID: "C20",
		Explanation: "R5c in a listing loop of keys/gcpkms (a loop that contains a List* call of the KMS client) an error variable carried from one page to the next is only ever extended: the value it has on a back edge derives from the value it had at the loop head (multierr.Append(result, …)), so a failure on an earlier page is not overwritten by a clean later page. " +
			"R1 (ESP on gcpkms.(*Signer).Sign): a nil-error return is reachable only after (a) the equal edge of a comparison between a CRC32C of response.GetSignature() and response.GetSignatureCrc32C(), (b)/(c) GetVerifiedDigestCrc32C / GetVerifiedDataCrc32C returned true or the request field was found nil, (d) the type assertion to *rsa.PSSOptions succeeded and the options compared equal to the literal {EqualsHash, SHA-256}; (e) the request literal always carries both checksums (wrapperspb.Int64 of a CRC32C, the digest checksum over the digest bytes sent) so (b)/(c) cannot be skipped; the table is crc32.MakeTable(crc32.Castagnoli). " +
			"R5 every function of keys/gcpkms that issues DestroyCryptoKeyVersion returns a non-nil error on every path on which that request failed. " +
			"R2 (CFG, paging loops = loops in keys/gcpkms around a KeyManagementServiceClient.List* call): the loop-carried page token is this iteration's GetNextPageToken(); every back edge is dominated by the non-empty edge of a comparison of that token with \"\"; every non-error exit of the loop at its own nesting level is dominated by the empty edge (early returns from the inner item loop are allowed). " +
			"R3 (ESP, pollers): functions returning a key-version name return a nil error only after State == ENABLED was observed on the latest poll (or from another poller); a polling loop has a select on ctx.Done() and every back edge of the loop passes it. " +
			"R4 (CFG): the destroyable-state table covers every CryptoKeyVersionState constant of kmspb except UNSPECIFIED, maps exactly ENABLED and DISABLED to true, and defaults to an error; the destroy call in the wipeout loop is gated only by that table's verdict. " +
			"Not covered: the service's behaviour, bit-level CRC properties, that polling eventually ends.",
		Assumptions: []string{"go/types, go/ssa", "kmspb getters", "wrapperspb.Int64 never returns nil", "Cloud KMS list calls return an empty next_page_token exactly on the last page"},
		Run:         runC20,
	})
}

func kmsGetter(v ssa.Value, typ, name string) bool {
	call, ok := v.(*ssa.Call)
	if !ok {
		return false
	}
	f := call.Call.StaticCallee()
	return f != nil && f.Name() == name && f.Signature.Recv() != nil && namedIs(f.Signature.Recv().Type(), kmspbPkg, typ)
}

func isKMSClientCall(call ssa.CallInstruction, prefix string) bool {
	cc := call.Common()
	return cc.IsInvoke() && strings.HasPrefix(cc.Method.Name(), prefix) && methodFromIface(cc.Method, kmspbPkg, "KeyManagementServiceClient")
}

func runC20(c *Ctx) {
	c20ErrorsAccumulateAcrossPages(c)
	sl := flow.NewSlicer(c.P)
	sl.Transparent = func(f *ssa.Function) bool {
		switch f.String() {
		case "hash/crc32.Checksum", "google.golang.org/protobuf/types/known/wrapperspb.Int64":
			return true
		}
		return false
	}
	// ---------------- R1 ----------------
	sign := c.method("R1", "keys/gcpkms", "Signer", "Sign")
	if sign != nil {
		respSig := func(v ssa.Value) bool { return kmsGetter(v, "AsymmetricSignResponse", "GetSignature") }
		respSigCrc := func(v ssa.Value) bool { return kmsGetter(v, "AsymmetricSignResponse", "GetSignatureCrc32C") }
		isChecksum := func(v ssa.Value) bool {
			call, ok := v.(*ssa.Call)
			return ok && calleeIs(call, "hash/crc32.Checksum")
		}
		const (
			evCrc = iota
			evVerDigest
			evVerData
			evAssert
			evOptsEq
			evSignCall
		)
		const (
			bCrc uint = iota
			bVerDigest
			bVerData
			bAssert
			bOptsEq
			bSigned
		)
		names := []string{"signatureCRC:equal", "verifiedDigest", "verifiedData", "optsType:ok", "opts:equal", "signed"}
		seen := map[int]int{}
		narrowed := false
		r := &esp.Rule{Name: "C20.R1"}
		// local closures (checksum helper) and helpers of the package the guards may be factored into
		r.Relevant = func(f *ssa.Function) bool {
			return f.Parent() == sign || (load.RelPkg(f) == "keys/gcpkms" && f != sign)
		}
		r.Flag = func(v ssa.Value) (int, bool) {
			if kmsGetter(v, "AsymmetricSignRequest", "GetDigestCrc32C") {
				return 0, true
			}
			if kmsGetter(v, "AsymmetricSignRequest", "GetDataCrc32C") {
				return 1, true
			}
			return 0, false
		}
		r.Match = func(in ssa.Instruction) []esp.Ev {
			if in.Parent() == nil || (in.Parent() != sign && in.Parent().Parent() != sign && load.RelPkg(in.Parent()) != "keys/gcpkms") {
				return nil
			}
			switch v := in.(type) {
			case *ssa.BinOp:
				if v.Op == token.EQL || v.Op == token.NEQ {
					// CRC comparison
					dx := sl.Derives(v.X, respSig) && (sl.Derives(v.X, isChecksum) || derivesLocalChecksum(c, sl, v.X))
					dy := sl.Derives(v.Y, respSigCrc)
					ex := sl.Derives(v.Y, respSig) && (sl.Derives(v.Y, isChecksum) || derivesLocalChecksum(c, sl, v.Y))
					ey := sl.Derives(v.X, respSigCrc)
					if (dx && dy) || (ex && ey) {
						for _, side := range []ssa.Value{v.X, v.Y} {
							if sl.Derives(side, respSigCrc) && narrowsChecksum(sl, side, respSigCrc) {
								narrowed = true
							}
						}
						seen[evCrc]++
						return []esp.Ev{{ID: evCrc, Name: "crc32c(signature) " + v.Op.String() + " signature_crc32c", ErrIdx: -1, BoolIdx: 0, Data: v.Op}}
					}
					// options struct comparison
					if namedIs(v.X.Type(), "crypto/rsa", "PSSOptions") && namedIs(v.Y.Type(), "crypto/rsa", "PSSOptions") {
						seen[evOptsEq]++
						return []esp.Ev{{ID: evOptsEq, Name: "PSS options " + v.Op.String() + " wanted", ErrIdx: -1, BoolIdx: 0, Data: v.Op}}
					}
				}
			case *ssa.Extract:
				if ta, ok := v.Tuple.(*ssa.TypeAssert); ok && ta.CommaOk && v.Index == 1 && namedIs(ta.AssertedType, "crypto/rsa", "PSSOptions") {
					seen[evAssert]++
					return []esp.Ev{{ID: evAssert, Name: "opts.(*rsa.PSSOptions) ok", ErrIdx: -1, BoolIdx: 0}}
				}
			case *ssa.Call:
				if kmsGetter(v, "AsymmetricSignResponse", "GetVerifiedDigestCrc32C") {
					seen[evVerDigest]++
					return []esp.Ev{{ID: evVerDigest, Name: "GetVerifiedDigestCrc32C", ErrIdx: -1, BoolIdx: 0}}
				}
				if kmsGetter(v, "AsymmetricSignResponse", "GetVerifiedDataCrc32C") {
					seen[evVerData]++
					return []esp.Ev{{ID: evVerData, Name: "GetVerifiedDataCrc32C", ErrIdx: -1, BoolIdx: 0}}
				}
				if isKMSClientCall(v, "AsymmetricSign") {
					seen[evSignCall]++
					return []esp.Ev{{ID: evSignCall, Name: "AsymmetricSign", ErrIdx: 1, BoolIdx: -1}}
				}
			}
			return nil
		}
		r.Step = func(x *esp.Ctx, s esp.State, ev esp.Ev, ph esp.Phase) (esp.State, string) {
			if ph == esp.AtCall {
				return s, ""
			}
			truth := ph == esp.Ok
			switch ev.ID {
			case evCrc:
				if (ev.Data.(token.Token) == token.EQL) == truth {
					return s.Set(bCrc), ""
				}
			case evOptsEq:
				if (ev.Data.(token.Token) == token.EQL) == truth {
					return s.Set(bOptsEq), ""
				}
			case evAssert:
				if truth {
					return s.Set(bAssert), ""
				}
			case evVerDigest:
				if truth {
					return s.Set(bVerDigest), ""
				}
			case evVerData:
				if truth {
					return s.Set(bVerData), ""
				}
			case evSignCall:
				if truth {
					return s.Set(bSigned), ""
				}
			}
			return s, ""
		}
		r.AtReturn = func(x *esp.Ctx, s esp.State, rets []esp.Abs) string {
			if rets[len(rets)-1] == esp.NonZero {
				return ""
			}
			st := fmtState(names, s)
			var missing []string
			if !s.Has(bCrc) {
				missing = append(missing, "response signature checksum not found equal")
			}
			if !s.Has(bVerDigest) && s.Flag(0) != esp.Zero {
				missing = append(missing, "service did not confirm the digest checksum")
			}
			if !s.Has(bVerData) && s.Flag(1) != esp.Zero {
				missing = append(missing, "service did not confirm the data checksum")
			}
			if !s.Has(bAssert) || !s.Has(bOptsEq) {
				missing = append(missing, "signer options not established to be RSA-PSS/SHA-256")
			}
			if len(missing) > 0 {
				return "R1: Sign may return a signature in state " + st + ": " + strings.Join(missing, "; ")
			}
			return ""
		}
		e := c.engine(r)
		e.Run(sign, esp.State{})
		n := c.reportEngine(e, "R1", func(v *esp.Violation) string { return "gcpkms.Signer.Sign:guards" })
		for id, nm := range map[int]string{evCrc: "signature CRC comparisons", evVerDigest: "verified-digest checks", evVerData: "verified-data checks", evAssert: "options type assertions", evOptsEq: "options comparisons", evSignCall: "AsymmetricSign calls"} {
			c.S.Floor("R1", nm+" in Sign", 1, seen[id])
		}
		if n == 0 {
			c.S.OK("R1", "gcpkms.Signer.Sign:guards", c.pos(sign.Pos()), fmt.Sprintf("signature returned only behind all guards (%d configurations)", e.Configs), true)
		}
		c.S.Check(!narrowed, "R1", "gcpkms.Signer.Sign:checksum width", c.pos(sign.Pos()), "the response checksum is compared at its full width", "the response's signature_crc32c is narrowed before the comparison: corruptions in the dropped bits are not detected")
		// returned value is the response signature
		for _, b := range sign.Blocks {
			if ret, ok := b.Instrs[len(b.Instrs)-1].(*ssa.Return); ok {
				if k, isK := ret.Results[0].(*ssa.Const); isK && k.Value == nil {
					continue
				}
				c.S.Check(sl.Derives(ret.Results[0], respSig), "R1", "gcpkms.Signer.Sign:returned value", c.pos(ret.Pos()), "returned bytes are response.GetSignature()", "returned signature is not the checked response signature")
			}
		}
		// (d) constant literal
		c.pssOptionSites("R1d", []string{"keys/gcpkms"}, 1)
		// (e) request literal
		nreq := 0
		for _, b := range sign.Blocks {
			for _, in := range b.Instrs {
				al, ok := in.(*ssa.Alloc)
				if !ok || !namedIs(al.Type(), kmspbPkg, "AsymmetricSignRequest") {
					continue
				}
				nreq++
				fields := literalFields(al)
				for _, fn := range []string{"DigestCrc32C", "DataCrc32C"} {
					v := fields[fn]
					ok := false
					if call, isCall := v.(*ssa.Call); isCall && calleeIs(call, "google.golang.org/protobuf/types/known/wrapperspb.Int64") {
						ok = sl.Derives(call.Call.Args[0], isChecksum) || derivesLocalChecksum(c, sl, call.Call.Args[0])
					}
					c.S.Check(ok, "R1e", "gcpkms.Signer.Sign:request."+fn, c.pos(al.Pos()), fn+" always set from a CRC32C", "request does not always carry "+fn+": the service-side verification flag check can be skipped")
				}
				// digest checksum over the digest sent
				dv := fields["DigestCrc32C"]
				okSame := false
				if dv != nil {
					digestParamField := func(x ssa.Value) bool { return flow.IsFieldLoad(x, repoPath("sign/types"), "Digest", "SHA256") }
					okSame = sl.Derives(dv, digestParamField) && fields["Digest"] != nil && sl.Derives(fields["Digest"], digestParamField)
				}
				c.S.Check(okSame, "R1e", "gcpkms.Signer.Sign:digest checksum input", c.pos(al.Pos()), "digest checksum computed over the digest bytes that are sent", "digest checksum is not computed over the digest bytes that are sent")
			}
		}
		c.S.Floor("R1e", "AsymmetricSignRequest literals in Sign", 1, nreq)
		// table
		cast := c.extConst("hash/crc32", "Castagnoli")
		ntab := 0
		for f := range c.reachable([]*ssa.Function{sign}, nil) {
			for _, call := range callsIn(f, func(call ssa.CallInstruction) bool { return calleeIs(call, "hash/crc32.Checksum") }) {
				ntab++
				ok := false
				if ld, isLd := call.Common().Args[1].(*ssa.UnOp); isLd {
					if g, isG := ld.X.(*ssa.Global); isG {
						stores := sl.FieldStores(flow.FieldKey{}) // force index
						_ = stores
						for _, v := range globalStores(c, g) {
							if mk, isCall := v.(*ssa.Call); isCall && calleeIs(mk, "hash/crc32.MakeTable") {
								if k, isK := mk.Call.Args[0].(*ssa.Const); isK && cast != nil && k.Value != nil && constant.Compare(k.Value, token.EQL, cast) {
									ok = true
								}
							}
						}
					}
				}
				c.S.Check(ok, "R1", load.FuncName(f)+":crc table", c.pos(call.Pos()), "CRC32C (Castagnoli) table", "checksum is not computed with the Castagnoli table Cloud KMS uses")
			}
		}
		c.S.Floor("R1", "crc32.Checksum calls reachable from Sign", 1, ntab)
	}

	// ---------------- R2 paging loops ----------------
	nloops := 0
	// pagingLoop checks one loop L (of a function whose loops are `loops`) around `call`, which fetches one page:
	// tokenArg is what the call is given as the page token, respVal recognises the page it returns and nextTok the
	// next-page token of that page. The call is a List request of the KMS client, or — in a paging driver — the call of
	// the function parameter that makes that request.
	pagingLoop := func(loops []*loop, L *loop, call *ssa.Call, name string, tokenArg ssa.Value, respVal, nextTok func(ssa.Value) bool, accumulates bool) {
		// carried token: header φ of string type flowing into the request's PageToken
		var tokPhi *ssa.Phi
		for _, hi := range L.Header.Instrs {
			phi, ok := hi.(*ssa.Phi)
			if !ok {
				break
			}
			if phi.Type().String() != "string" {
				continue
			}
			if tokenArg != nil && sl.Derives(tokenArg, func(v ssa.Value) bool { return v == phi }) {
				tokPhi = phi
			}
		}
		if tokPhi == nil {
			c.S.Bad("R2", name+":token", c.pos(call.Pos()), "the request's page token is not loop-carried: every iteration lists the same page")
			return
		}
		okCarry := true
		for i, pred := range L.Header.Preds {
			if L.Body[pred] && !nextTok(tokPhi.Edges[i]) {
				okCarry = false
			}
		}
		c.S.Check(okCarry, "R2", name+":token", c.pos(tokPhi.Pos()), "carried token is this iteration's GetNextPageToken()", "the token carried into the next iteration is not this response's next_page_token")
		tokCond := func(want bool) func(cf condFact) bool {
			// want=true: token known non-empty; false: known empty
			return func(cf condFact) bool {
				bo, ok := cf.Cond.(*ssa.BinOp)
				if !ok || (bo.Op != token.EQL && bo.Op != token.NEQ) {
					return false
				}
				var other ssa.Value
				if isEmptyStr(bo.Y) {
					other = bo.X
				} else if isEmptyStr(bo.X) {
					other = bo.Y
				}
				if other == nil || !nextTok(other) {
					return false
				}
				nonEmpty := (bo.Op == token.NEQ) == cf.Val
				return nonEmpty == want
			}
		}
		hasCond := func(b *ssa.BasicBlock, p func(condFact) bool) bool {
			for _, cf := range dominatingConds(b) {
				if L.Body[cf.Block] && p(cf) {
					return true
				}
			}
			return false
		}
		// continuation flag: `for tok, more := "", true; more; more = tok != ""` — the header tests a boolean
		// φ whose value on every back edge is the non-empty test of this iteration's next page token (and
		// the constant true on entry): going round ⇔ token non-empty, leaving at the header ⇔ token empty
		var flagPhi *ssa.Phi
		if iff, ok := L.Header.Instrs[len(L.Header.Instrs)-1].(*ssa.If); ok {
			if phi, ok := iff.Cond.(*ssa.Phi); ok && phi.Block() == L.Header && len(L.Header.Succs) == 2 && L.Body[L.Header.Succs[0]] != L.Body[L.Header.Succs[1]] {
				// "more" flag: the loop goes on while it is true; "last" flag (`for !last`): while it is false
				more := L.Body[L.Header.Succs[0]]
				good := true
				for i, e := range phi.Edges {
					pred := L.Header.Preds[i]
					if L.Body[pred] {
						bo, isB := e.(*ssa.BinOp)
						if !isB || !tokCond(more)(condFact{Cond: bo, Val: true, Block: pred}) {
							good = false
						}
					} else if k, isK := e.(*ssa.Const); !isK || k.Value == nil || k.Value.Kind() != constant.Bool || constant.BoolVal(k.Value) != more {
						good = false
					}
				}
				if good {
					flagPhi = phi
				}
			}
		}
		okBack := true
		for _, back := range L.Backs {
			edge := flagPhi != nil
			if iff, ok := back.Instrs[len(back.Instrs)-1].(*ssa.If); ok {
				// the back edge itself may be an edge of the token test
				for i, s := range back.Succs {
					if s == L.Header && tokCond(true)(normalizeCond(iff.Cond, i == 0, back)) {
						edge = true
					}
				}
			}
			if !edge && !hasCond(back, tokCond(true)) {
				okBack = false
			}
		}
		c.S.Check(okBack, "R2", name+":back edge", c.pos(L.Header.Instrs[0].Pos()), "goes round only with a non-empty next page token", "the loop goes round without having checked that the next page token is non-empty (an empty token restarts the listing from the first page: non-termination when the last page is full)")
		// exits
		okExit := true
		why := ""
		for _, ed := range L.exitEdges() {
			from, to := ed[0], ed[1]
			inner := innermostLoopOf(loops, from)
			if inner != nil && inner != L && len(inner.Body) < len(L.Body) {
				continue // early return from the inner item loop
			}
			if isErrorExit(to) || isFoundExit(to) {
				continue
			}
			if flagPhi != nil && from == L.Header {
				continue // the continuation flag is false exactly when the token was empty
			}
			// the edge itself may be the empty-token edge: from ends in If on the token
			edgeOK := hasCond(to, tokCond(false)) && len(to.Preds) == 1
			if !edgeOK {
				if iff, ok := from.Instrs[len(from.Instrs)-1].(*ssa.If); ok {
					for i, s := range from.Succs {
						if s == to && tokCond(false)(normalizeCond(iff.Cond, i == 0, from)) {
							edgeOK = true
						}
					}
				}
			}
			if !edgeOK && hasCond(from, tokCond(false)) {
				edgeOK = true
			}
			if !edgeOK {
				// an early find decided by a helper: the edge is the true/false edge of a repo function's boolean result,
				// the function was handed (part of) this page and looks at its elements (not only at its length)
				if iff, ok := from.Instrs[len(from.Instrs)-1].(*ssa.If); ok {
					cond := ssa.Value(iff.Cond)
					if u, ok := cond.(*ssa.UnOp); ok && u.Op == token.NOT {
						cond = u.X
					}
					if hc, ok := cond.(*ssa.Call); ok {
						if g := hc.Call.StaticCallee(); g != nil && load.FuncInRepo(g) && g.Blocks != nil {
							lsl := flow.NewSlicer(c.P)
							for ai, a := range hc.Call.Args {
								if ai >= len(g.Params) || !lsl.Derives(a, respVal) {
									continue
								}
								if _, isSlice := a.Type().Underlying().(*types.Slice); !isSlice {
									continue
								}
								for _, gb := range g.Blocks {
									for _, gi := range gb.Instrs {
										if ia, ok := gi.(*ssa.IndexAddr); ok && ia.X == ssa.Value(g.Params[ai]) {
											edgeOK = true
										}
										if rg, ok := gi.(*ssa.Range); ok && rg.X == ssa.Value(g.Params[ai]) {
											edgeOK = true
										}
									}
								}
							}
						}
					}
				}
			}
			if !edgeOK {
				okExit = false
				why = "exit at " + c.pos(lastPos(from))
			}
		}
		// loop-carried selections (pointer-typed header φ other than the token) are never reset to a possibly-nil value
		for _, hi := range L.Header.Instrs {
			phi, ok := hi.(*ssa.Phi)
			if !ok {
				break
			}
			if _, isPtr := phi.Type().Underlying().(*types.Pointer); !isPtr {
				continue
			}
			okMono := true
			seenV := map[ssa.Value]bool{}
			var leaf func(v ssa.Value, d int)
			leaf = func(v ssa.Value, d int) {
				if v == phi || seenV[v] || d > 20 {
					return
				}
				seenV[v] = true
				if p2, ok := v.(*ssa.Phi); ok {
					for _, e := range p2.Edges {
						leaf(e, d+1)
					}
					return
				}
				// an element of the response list, or a value known non-nil
				if ex, ok := v.(*ssa.Extract); ok {
					if _, isNext := ex.Tuple.(*ssa.Next); isNext {
						return
					}
				}
				if u, ok := v.(*ssa.UnOp); ok {
					if _, isIdx := u.X.(*ssa.IndexAddr); isIdx {
						return
					}
				}
				if in, ok := v.(ssa.Instruction); ok {
					for _, cf := range dominatingCondsOfUse(phi, v, L) {
						if bo, ok := cf.Cond.(*ssa.BinOp); ok && isNilK(bo.Y) && bo.X == v && (bo.Op == token.NEQ) == cf.Val {
							return
						}
					}
					_ = in
				}
				okMono = false
			}
			for i, pred := range L.Header.Preds {
				if L.Body[pred] {
					leaf(phi.Edges[i], 0)
				}
			}
			c.S.Check(okMono, "R2", name+":carried selection "+phi.Comment, c.pos(phi.Pos()), "a candidate carried across pages is only replaced by a listed element or a value known non-nil", "a candidate selected on an earlier page can be overwritten with a possibly-nil value on a later page: versions seen earlier are forgotten")
		}
		// values computed from this page's response may leave the loop only through an
		// accumulator (loop-carried φ) or an early "found" return
		okAcc := true
		accWhy := ""
		headerPhis := map[ssa.Value]bool{}
		for _, hi := range L.Header.Instrs {
			if phi, ok := hi.(*ssa.Phi); ok {
				headerPhis[phi] = true
			}
		}
		for lb := range L.Body {
			for _, li := range lb.Instrs {
				v, ok := li.(ssa.Value)
				if !ok || headerPhis[v] {
					continue
				}
				refs := v.Referrers()
				if refs == nil {
					continue
				}
				for _, u := range *refs {
					ub := u.Block()
					if ub == nil || L.Body[ub] {
						continue
					}
					if _, isDbg := u.(*ssa.DebugRef); isDbg {
						continue
					}
					// used after the loop
					fromResp, viaAcc := false, false
					lsl := flow.NewSlicer(c.P)
					lsl.Visit(v, func(x ssa.Value) bool {
						if headerPhis[x] && x != tokPhi {
							viaAcc = true
							return false
						}
						if respVal(x) {
							fromResp = true
						}
						return true
					}, nil)
					if !fromResp || viaAcc {
						continue
					}
					if isFoundExit(ub) || isErrorExit(ub) {
						continue
					}
					// early return taken from inside the inner item loop
					fromInner := len(ub.Preds) > 0
					for _, pb := range ub.Preds {
						il := innermostLoopOf(loops, pb)
						if il == nil || il == L || len(il.Body) >= len(L.Body) {
							fromInner = false
						}
					}
					if _, isRet := ub.Instrs[len(ub.Instrs)-1].(*ssa.Return); isRet && fromInner {
						continue
					}
					okAcc = false
					accWhy = c.pos(u.Pos())
				}
			}
		}
		if !accumulates {
			okAcc = true // a driver never sees the page: what is kept across pages is the fetcher's business
		}
		c.S.Check(okAcc, "R2", name+":accumulation", c.pos(L.Header.Instrs[0].Pos()), "what is used after the loop is accumulated across pages (or an early find)", "a value computed from the last page only is used after the loop (at "+accWhy+"): results of earlier pages are forgotten")
		c.S.Check(okExit, "R2", name+":exit", c.pos(L.Header.Instrs[0].Pos()), "leaves only on an empty next page token (or an error / an early find)", "the listing loop can stop while the service still has pages ("+why+"): versions beyond a short page are never seen")
	}
	for _, f := range c.P.RepoFunctions() {
		if load.RelPkg(f) != "keys/gcpkms" || c.isTestFunc(f) {
			continue
		}
		loops := naturalLoops(f)
		for _, b := range f.Blocks {
			for _, in := range b.Instrs {
				call, ok := in.(*ssa.Call)
				if !ok || !isKMSClientCall(call, "List") {
					continue
				}
				L := innermostLoopOf(loops, b)
				name := load.FuncName(f) + ":" + call.Call.Method.Name()
				respVal := func(v ssa.Value) bool {
					ex, ok := v.(*ssa.Extract)
					return ok && ex.Tuple == call && ex.Index == 0
				}
				nextTok := func(v ssa.Value) bool {
					cv, ok := v.(*ssa.Call)
					if !ok {
						return false
					}
					cal := cv.Call.StaticCallee()
					return cal != nil && cal.Name() == "GetNextPageToken" && len(cv.Call.Args) == 1 && respVal(cv.Call.Args[0])
				}
				var tokenArg ssa.Value
				if len(call.Call.Args) >= 2 {
					tokenArg = call.Call.Args[1]
				}
				if L != nil {
					nloops++
					pagingLoop(loops, L, call, name, tokenArg, respVal, nextTok, true)
					continue
				}
				// no loop here: the request may be made by a page fetcher (a function that is given the page token and
				// returns the next one) that a paging driver calls in a loop
				if why := c20PageFetcher(c, sl, f, call, tokenArg, nextTok, name, func(g *ssa.Function, gl []*loop, GL *loop, gc *ssa.Call) {
					gResp := func(v ssa.Value) bool {
						ex, ok := v.(*ssa.Extract)
						return ok && ex.Tuple == gc && ex.Index == 0
					}
					pagingLoop(gl, GL, gc, name+" via "+g.Name(), gc.Call.Args[0], gResp, gResp, false)
				}); why != "" {
					c.S.Bad("R2", name+":loop", c.pos(call.Pos()), "paged listing call is not in a loop: only the first page is processed ("+why+")")
					continue
				}
				nloops++
			}
		}
	}
	c.S.Floor("R2", "paging loops in keys/gcpkms", 3, nloops)

	// ---------------- R5 a refused destroy is reported ----------------
	// Every function of keys/gcpkms that issues DestroyCryptoKeyVersion returns a non-nil error on every path on
	// which that request failed (whatever its status code): wipeout and rotation account for a version only when
	// the service confirmed its destruction.
	{
		nD := 0
		for _, f := range c.P.RepoFunctions() {
			if load.RelPkg(f) != "keys/gcpkms" || c.isTestFunc(f) || errIndex(f.Signature) < 0 {
				continue
			}
			if len(callsIn(f, func(call ssa.CallInstruction) bool { return isKMSClientCall(call, "DestroyCryptoKeyVersion") })) == 0 {
				continue
			}
			nD++
			const bFailed uint = 0
			r := &esp.Rule{Name: "C20.R5"}
			r.Relevant = func(*ssa.Function) bool { return false }
			r.Match = func(in ssa.Instruction) []esp.Ev {
				if call, ok := in.(ssa.CallInstruction); ok && isKMSClientCall(call, "DestroyCryptoKeyVersion") {
					return []esp.Ev{{ID: 0, Name: "destroy request", ErrIdx: errIndex(call.Common().Signature()), BoolIdx: -1}}
				}
				return nil
			}
			r.Step = func(x *esp.Ctx, s esp.State, ev esp.Ev, ph esp.Phase) (esp.State, string) {
				if ph == esp.Fail {
					return s.Set(bFailed), ""
				}
				return s, ""
			}
			ei := errIndex(f.Signature)
			r.AtReturn = func(x *esp.Ctx, s esp.State, rets []esp.Abs) string {
				if s.Has(bFailed) && rets[ei] != esp.NonZero {
					return "R5: the function may return a nil error although a DestroyCryptoKeyVersion request failed: the version is accounted for as destroyed while the service refused (it may still be ENABLED)"
				}
				return ""
			}
			e := c.engine(r)
			e.Run(f, esp.State{})
			if c.reportEngine(e, "R5", func(v *esp.Violation) string { return load.FuncName(f) + ":refused destroy reported" }) == 0 {
				c.S.OK("R5", load.FuncName(f)+":refused destroy reported", c.pos(f.Pos()), fmt.Sprintf("a failed destroy request always surfaces as an error (%d configurations)", e.Configs), true)
			}
		}
		c.S.Floor("R5", "functions issuing DestroyCryptoKeyVersion", 1, nD)
	}

	// ---------------- R3 pollers ----------------
	enabled := c.extConst(kmspbPkg, "CryptoKeyVersion_ENABLED")
	getState := func(v ssa.Value) bool { return kmsGetter(v, "CryptoKeyVersion", "GetState") }
	pollers := map[*ssa.Function]bool{}
	for _, f := range c.P.RepoFunctions() {
		if load.RelPkg(f) != "keys/gcpkms" || c.isTestFunc(f) || f.Parent() != nil {
			continue
		}
		res := f.Signature.Results()
		if res.Len() == 2 && res.At(0).Type().String() == "string" && errIndex(f.Signature) == 1 {
			reach := c.reachable([]*ssa.Function{f}, func(g *ssa.Function) bool { return load.RelPkg(g) == "keys/gcpkms" })
			for g := range reach {
				if len(callsIn(g, func(call ssa.CallInstruction) bool {
					return isKMSClientCall(call, "GetCryptoKeyVersion") || isKMSClientCall(call, "ListCryptoKeyVersions") || isKMSClientCall(call, "CreateCryptoKeyVersion")
				})) > 0 {
					pollers[f] = true
				}
			}
		}
	}
	c.S.Floor("R3", "key-version pollers / creators returning a version name", 2, len(pollers))
	var pl []*ssa.Function
	for f := range pollers {
		pl = append(pl, f)
	}
	sort.Slice(pl, func(i, j int) bool { return pl[i].Pos() < pl[j].Pos() })
	for _, f := range pl {
		name := load.FuncName(f)
		const bEnabled uint = 0
		r := &esp.Rule{Name: "C20.R3"}
		// a same-package helper that is not itself a poller and makes the observation (one fetch, classified by state) is
		// followed into: its "ready" result stays correlated with the ENABLED test it made
		r.Relevant = func(g *ssa.Function) bool {
			if g == nil || g.Blocks == nil || pollers[g] || load.RelPkg(g) != "keys/gcpkms" || c.isTestFunc(g) {
				return false
			}
			for _, b := range g.Blocks {
				for _, in := range b.Instrs {
					if call, ok := in.(*ssa.Call); ok && (isKMSClientCall(call, "GetCryptoKeyVersion") || isKMSClientCall(call, "CreateCryptoKeyVersion")) {
						return true
					}
				}
			}
			return false
		}
		r.Match = func(in ssa.Instruction) []esp.Ev {
			switch v := in.(type) {
			case *ssa.BinOp:
				if (v.Op == token.EQL || v.Op == token.NEQ) && sl.Derives(v.X, getState) {
					if k, ok := v.Y.(*ssa.Const); ok && enabled != nil && k.Value != nil && constant.Compare(k.Value, token.EQL, enabled) {
						return []esp.Ev{{ID: 0, Name: "state " + v.Op.String() + " ENABLED", ErrIdx: -1, BoolIdx: 0, Data: v.Op}}
					}
				}
			case *ssa.Call:
				if cal := v.Call.StaticCallee(); cal != nil && pollers[cal] {
					return []esp.Ev{{ID: 1, Name: "poller " + cal.Name(), ErrIdx: 1, BoolIdx: -1}}
				}
				if isKMSClientCall(v, "GetCryptoKeyVersion") || isKMSClientCall(v, "CreateCryptoKeyVersion") {
					return []esp.Ev{{ID: 2, Name: callName(v), ErrIdx: -1, BoolIdx: -1}}
				}
			}
			return nil
		}
		r.Step = func(x *esp.Ctx, s esp.State, ev esp.Ev, ph esp.Phase) (esp.State, string) {
			switch ev.ID {
			case 0:
				if ph != esp.AtCall && (ev.Data.(token.Token) == token.EQL) == (ph == esp.Ok) {
					return s.Set(bEnabled), ""
				}
			case 1:
				if ph == esp.Ok {
					return s.Set(bEnabled), ""
				}
				if ph == esp.AtCall {
					return s.Clear(bEnabled), ""
				}
			case 2:
				return s.Clear(bEnabled), "" // a new observation invalidates the previous verdict
			}
			return s, ""
		}
		r.AtReturn = func(x *esp.Ctx, s esp.State, rets []esp.Abs) string {
			if x.Fn != f {
				return ""
			}
			if rets[1] != esp.NonZero && !s.Has(bEnabled) {
				return "R3: " + name + " may return a key version without having observed it ENABLED"
			}
			return ""
		}
		e := c.engine(r)
		e.Run(f, esp.State{})
		n := c.reportEngine(e, "R3", func(v *esp.Violation) string { return name + ":enabled" })
		if n == 0 {
			c.S.OK("R3", name+":enabled", c.pos(f.Pos()), fmt.Sprintf("nil error only after ENABLED was observed (%d configurations)", e.Configs), true)
		}
		// polling loops have a ctx.Done() select
		loops := naturalLoops(f)
		for _, b := range f.Blocks {
			for _, in := range b.Instrs {
				call, ok := in.(*ssa.Call)
				if !ok || !isKMSClientCall(call, "GetCryptoKeyVersion") {
					continue
				}
				L := innermostLoopOf(loops, b)
				if L == nil {
					continue
				}
				hasDone := false
				var selBlocks []*ssa.BasicBlock
				for lb := range L.Body {
					for _, li := range lb.Instrs {
						if sel, ok := li.(*ssa.Select); ok && sel.Blocking {
							for _, st := range sel.States {
								if dc, ok := st.Chan.(*ssa.Call); ok && dc.Call.IsInvoke() && dc.Call.Method.Name() == "Done" {
									hasDone = true
									selBlocks = append(selBlocks, lb)
								}
							}
						}
					}
				}
				c.S.Check(hasDone, "R3", name+":cancellation", c.pos(call.Pos()), "polling loop selects on ctx.Done()", "polling loop cannot be cancelled (no select on ctx.Done())")
				// every way round the loop passes the select: no iteration polls again without waiting
				// for the timer or the context (a `continue` above the select spins and ignores cancellation)
				if hasDone {
					everyRound := true
					for _, back := range L.Backs {
						dom := false
						for _, sb := range selBlocks {
							if sb.Dominates(back) {
								dom = true
							}
						}
						if !dom {
							everyRound = false
						}
					}
					c.S.Check(everyRound, "R3", name+":wait on every round", c.pos(call.Pos()), "every back edge of the polling loop passes the select on ctx.Done()", "the polling loop can go round without passing its select on ctx.Done(): it polls again at once, and cancellation or expiry of the context is not observed on that path")
				}
			}
		}
	}

	// ---------------- R4 state table ----------------
	stateType := "CryptoKeyVersion_CryptoKeyVersionState"
	var tables []*ssa.Function
	for _, f := range c.P.RepoFunctions() {
		if load.RelPkg(f) != "keys/gcpkms" || c.isTestFunc(f) || len(f.Params) != 1 || !namedIs(f.Params[0].Type(), kmspbPkg, stateType) {
			continue
		}
		res := f.Signature.Results()
		if res.Len() == 2 && res.At(0).Type().String() == "bool" && errIndex(f.Signature) == 1 {
			tables = append(tables, f)
		}
	}
	c.S.Floor("R4", "destroyable-state tables (func(state) (bool, error))", 1, len(tables))
	allStates := map[int64]string{}
	if kp := c.P.ExtPkg(kmspbPkg); kp != nil {
		for _, n := range kp.Pkg.Scope().Names() {
			if k, ok := kp.Pkg.Scope().Lookup(n).(*types.Const); ok && namedIs(k.Type(), kmspbPkg, stateType) {
				v, _ := constant.Int64Val(k.Val())
				allStates[v] = strings.TrimPrefix(n, "CryptoKeyVersion_")
			}
		}
	}
	for _, f := range tables {
		name := load.FuncName(f)
		verdict := map[int64]string{}
		for _, b := range f.Blocks {
			iff, ok := b.Instrs[len(b.Instrs)-1].(*ssa.If)
			if !ok {
				continue
			}
			bo, ok := iff.Cond.(*ssa.BinOp)
			if !ok || bo.Op != token.EQL || bo.X != f.Params[0] {
				continue
			}
			k, ok := bo.Y.(*ssa.Const)
			if !ok || k.Value == nil {
				continue
			}
			kv, _ := constant.Int64Val(k.Value)
			verdict[kv] = returnVerdict(b.Succs[0])
		}
		// table form: `v, known := table[state]` on a package-level map literal that only init fills; the verdict for a
		// state is its constant entry, and a state without an entry takes the !known edge
		mapDefault := ""
		for _, b := range f.Blocks {
			for _, in := range b.Instrs {
				lk, ok := in.(*ssa.Lookup)
				if !ok || !lk.CommaOk || lk.Index != ssa.Value(f.Params[0]) {
					continue
				}
				ld, ok := lk.X.(*ssa.UnOp)
				if !ok {
					continue
				}
				g, ok := ld.X.(*ssa.Global)
				if !ok {
					continue
				}
				// entries: MapUpdates on the map stored into the global by the package initialiser; no other writer
				otherWriter := false
				for _, pf := range c.P.RepoFunctions() {
					if pf.Pkg != f.Pkg {
						continue
					}
					for _, pb := range pf.Blocks {
						for _, pin := range pb.Instrs {
							switch x := pin.(type) {
							case *ssa.Store:
								if x.Addr == ssa.Value(g) {
									if pf.Name() != "init" {
										otherWriter = true
									} else if mm, ok := x.Val.(*ssa.MakeMap); ok {
										for _, r := range nonDebugRefs(mm) {
											if mu, ok := r.(*ssa.MapUpdate); ok {
												kk, ok1 := mu.Key.(*ssa.Const)
												vv, ok2 := mu.Value.(*ssa.Const)
												if ok1 && ok2 && kk.Value != nil && vv.Value != nil && vv.Value.Kind() == constant.Bool {
													kv, _ := constant.Int64Val(kk.Value)
													verdict[kv] = fmt.Sprint(constant.BoolVal(vv.Value))
												}
											}
										}
									}
								}
							case *ssa.MapUpdate:
								if l2, ok := x.Map.(*ssa.UnOp); ok && l2.X == ssa.Value(g) {
									otherWriter = true
								}
							}
						}
					}
				}
				if otherWriter {
					verdict = map[int64]string{} // the table can change at run time: nothing is known about it
				}
				// the !known edge returns an error
				for _, r := range nonDebugRefs(lk) {
					if ex, ok := r.(*ssa.Extract); ok && ex.Index == 1 {
						errRet := func(b *ssa.BasicBlock) bool {
							for i := 0; i < 3 && b != nil; i++ {
								if ret, ok := b.Instrs[len(b.Instrs)-1].(*ssa.Return); ok && len(ret.Results) == 2 {
									k, isK := ret.Results[1].(*ssa.Const)
									return !isK || !k.IsNil()
								}
								if len(b.Succs) != 1 {
									return false
								}
								b = b.Succs[0]
							}
							return false
						}
						for _, u := range nonDebugRefs(ex) {
							if iff, ok := u.(*ssa.If); ok && errRet(iff.Block().Succs[1]) {
								mapDefault = "error"
							}
							if not, ok := u.(*ssa.UnOp); ok && not.Op == token.NOT {
								for _, u2 := range nonDebugRefs(not) {
									if iff, ok := u2.(*ssa.If); ok && errRet(iff.Block().Succs[0]) {
										mapDefault = "error"
									}
								}
							}
						}
					}
				}
			}
		}
		// default: the block reached when all comparisons fail
		def := mapDefault
		for _, b := range f.Blocks {
			if ret, ok := b.Instrs[len(b.Instrs)-1].(*ssa.Return); ok {
				if _, isCall := ret.Results[1].(*ssa.Call); isCall {
					def = "error"
				}
			}
		}
		var missing, wrong []string
		for v, n := range allStates {
			if v == 0 {
				continue
			}
			got, ok := verdict[v]
			if !ok {
				missing = append(missing, n)
				continue
			}
			want := "false"
			if n == "ENABLED" || n == "DISABLED" {
				want = "true"
			}
			if got != want {
				wrong = append(wrong, fmt.Sprintf("%s→%s (want %s)", n, got, want))
			}
		}
		sort.Strings(missing)
		sort.Strings(wrong)
		c.S.Check(len(missing) == 0, "R4", name+":exhaustive", c.pos(f.Pos()), fmt.Sprintf("covers all %d non-zero states of kmspb", len(allStates)-1), fmt.Sprintf("states not covered by the table: %v", missing))
		c.S.Check(len(wrong) == 0, "R4", name+":mapping", c.pos(f.Pos()), "exactly ENABLED and DISABLED are destroyable", fmt.Sprintf("wrong verdicts: %v", wrong))
		c.S.Check(def == "error", "R4", name+":default", c.pos(f.Pos()), "unknown states are an error", "unknown states do not produce an error")
		// the destroy call in the wipeout loop is gated only by the table's verdict
		for _, g := range c.funcsCalling(func(call ssa.CallInstruction) bool { return call.Common().StaticCallee() == f }) {
			if load.RelPkg(g) != "keys/gcpkms" {
				continue
			}
			loops := naturalLoops(g)
			for _, tcall := range callsIn(g, func(call ssa.CallInstruction) bool { return call.Common().StaticCallee() == f }) {
				L := innermostLoopOf(loops, tcall.Block())
				nd := 0
				// the destroy request itself, or a call of a package function that issues it (the manager's own
				// DestroyKeyVersion reused by wipeout)
				destroys := func(call ssa.CallInstruction) bool {
					if isKMSClientCall(call, "DestroyCryptoKeyVersion") {
						return true
					}
					cal := call.Common().StaticCallee()
					if cal == nil || cal == g || load.RelPkg(cal) != "keys/gcpkms" {
						return false
					}
					return len(callsIn(cal, func(c2 ssa.CallInstruction) bool { return isKMSClientCall(c2, "DestroyCryptoKeyVersion") })) > 0
				}
				for _, d := range callsIn(g, destroys) {
					// the verdict is asked per version: inside the version loop, or in a helper that handles one
					// version (then the whole helper is the scope)
					if L != nil && !L.Body[d.Block()] {
						continue
					}
					if L == nil && !tcall.Block().Dominates(d.Block()) {
						continue
					}
					nd++
					ok := true
					gated := false
					for _, cf := range dominatingConds(d.Block()) {
						if L != nil && (!L.Body[cf.Block] || cf.Block == L.Header) {
							continue
						}
						if ex, isEx := cf.Cond.(*ssa.Extract); isEx && ex.Tuple == tcall.Value() && ex.Index == 0 {
							if cf.Val {
								gated = true
							} else {
								ok = false
							}
							continue
						}
						// the verdict's own error found nil: an unknown state has no verdict to act on
						if bo, isB := cf.Cond.(*ssa.BinOp); isB && isNilK(bo.Y) {
							if ex, isEx := bo.X.(*ssa.Extract); isEx && ex.Tuple == tcall.Value() && ex.Index == 1 && (bo.Op == token.EQL) == cf.Val {
								continue
							}
						}
						ok = false
					}
					c.S.Check(ok && gated, "R4", load.FuncName(g)+":destroy gating", c.pos(d.Pos()), "every destroyable version reaches DestroyCryptoKeyVersion", "a destroyable key version can be skipped (the destroy call is gated by something other than the state table's verdict)")
				}
				c.S.Floor("R4", "destroy calls in the loop of "+load.FuncName(g), 1, nd)
			}
		}
	}
}

func isEmptyStr(v ssa.Value) bool {
	k, ok := v.(*ssa.Const)
	return ok && k.Value != nil && k.Value.Kind() == constant.String && constant.StringVal(k.Value) == ""
}

func normalizeCond(cond ssa.Value, val bool, b *ssa.BasicBlock) condFact {
	for {
		if u, ok := cond.(*ssa.UnOp); ok && u.Op == token.NOT {
			cond, val = u.X, !val
			continue
		}
		break
	}
	return condFact{cond, val, b}
}

func lastPos(b *ssa.BasicBlock) token.Pos {
	for i := len(b.Instrs) - 1; i >= 0; i-- {
		if p := b.Instrs[i].Pos(); p.IsValid() {
			return p
		}
	}
	return token.NoPos
}

// isErrorExit: the block returns a definitely non-nil error.
func isErrorExit(b *ssa.BasicBlock) bool {
	for i := 0; i < 3 && b != nil; i++ {
		last := b.Instrs[len(b.Instrs)-1]
		if ret, ok := last.(*ssa.Return); ok {
			if len(ret.Results) == 0 {
				return false
			}
			ev := ret.Results[len(ret.Results)-1]
			// a named result (the function has deferred calls): the value returned is what this block last stored
			// into the result's cell
			if ld, ok := ev.(*ssa.UnOp); ok && ld.Op == token.MUL {
				if cell, ok := ld.X.(*ssa.Alloc); ok {
					for _, in := range b.Instrs {
						if st, ok := in.(*ssa.Store); ok && st.Addr == ssa.Value(cell) {
							ev = st.Val
						}
					}
				}
			}
			if call, ok := ev.(*ssa.Call); ok {
				if f := call.Call.StaticCallee(); f != nil {
					switch f.String() {
					case "fmt.Errorf", "errors.New":
						return true
					}
				}
			}
			for _, cf := range dominatingConds(b) {
				if bo, ok := cf.Cond.(*ssa.BinOp); ok && bo.Op == token.NEQ && isNilK(bo.Y) && cf.Val && bo.X == ev {
					return true
				}
			}
			return false
		}
		if _, ok := last.(*ssa.Jump); ok {
			b = b.Succs[0]
			continue
		}
		return false
	}
	return false
}

// returnVerdict describes the (bool, nil) a block returns: "true"/"false"/"?".
func returnVerdict(b *ssa.BasicBlock) string {
	for i := 0; i < 3 && b != nil; i++ {
		last := b.Instrs[len(b.Instrs)-1]
		if ret, ok := last.(*ssa.Return); ok && len(ret.Results) == 2 {
			k, ok := ret.Results[0].(*ssa.Const)
			e, ok2 := ret.Results[1].(*ssa.Const)
			if ok && ok2 && e.Value == nil && k.Value != nil && k.Value.Kind() == constant.Bool {
				if constant.BoolVal(k.Value) {
					return "true"
				}
				return "false"
			}
			return "?"
		}
		if _, ok := last.(*ssa.Jump); ok {
			b = b.Succs[0]
			continue
		}
		return "?"
	}
	return "?"
}

// derivesLocalChecksum: v derives from a call of a local closure whose body calls crc32.Checksum.
func derivesLocalChecksum(c *Ctx, sl *flow.Slicer, v ssa.Value) bool {
	return sl.Derives(v, func(x ssa.Value) bool {
		call, ok := x.(*ssa.Call)
		if !ok {
			return false
		}
		for _, f := range c.P.Callees(call) {
			if f.Parent() != nil && len(callsIn(f, func(cc ssa.CallInstruction) bool { return calleeIs(cc, "hash/crc32.Checksum") })) > 0 {
				return true
			}
		}
		return false
	})
}

func globalStores(c *Ctx, g *ssa.Global) []ssa.Value {
	var out []ssa.Value
	for f := range c.P.AllFunctions() {
		if f.Pkg != g.Pkg {
			continue
		}
		for _, b := range f.Blocks {
			for _, in := range b.Instrs {
				if st, ok := in.(*ssa.Store); ok && st.Addr == g {
					out = append(out, st.Val)
				}
			}
		}
	}
	return out
}

// narrowsChecksum: on the way from a source value to v there is an integer
// conversion to a narrower type.
func narrowsChecksum(sl *flow.Slicer, v ssa.Value, src func(ssa.Value) bool) bool {
	found := false
	sl.Visit(v, func(x ssa.Value) bool {
		if cv, ok := x.(*ssa.Convert); ok {
			from, ok1 := cv.X.Type().Underlying().(*types.Basic)
			to, ok2 := cv.Type().Underlying().(*types.Basic)
			if ok1 && ok2 && from.Info()&types.IsInteger != 0 && to.Info()&types.IsInteger != 0 && intBits(to) < intBits(from) && sl.Derives(cv.X, src) {
				found = true
			}
		}
		return !found
	}, nil)
	return found
}

func intBits(b *types.Basic) int {
	switch b.Kind() {
	case types.Int8, types.Uint8:
		return 8
	case types.Int16, types.Uint16:
		return 16
	case types.Int32, types.Uint32:
		return 32
	case types.Int64, types.Uint64:
		return 64
	}
	return 64 // int, uint, uintptr on the analysed target are treated as 64-bit here
}

// isFoundExit: the block returns (v, nil) on an edge dominated by v != nil — an
// early "found the item" return.
func isFoundExit(b *ssa.BasicBlock) bool {
	ret, ok := b.Instrs[len(b.Instrs)-1].(*ssa.Return)
	if !ok || len(ret.Results) != 2 {
		return false
	}
	if k, ok := ret.Results[1].(*ssa.Const); !ok || k.Value != nil {
		return false
	}
	v := ret.Results[0]
	for _, cf := range dominatingConds(b) {
		bo, ok := cf.Cond.(*ssa.BinOp)
		if !ok || !isNilK(bo.Y) || bo.X != v {
			continue
		}
		if (bo.Op == token.NEQ) == cf.Val && (bo.Op == token.NEQ || bo.Op == token.EQL) {
			return true
		}
	}
	return false
}

// dominatingCondsOfUse: conditions dominating the edges on which value v flows
// into the loop-carried φ (approximated by the conditions dominating the
// predecessor blocks of the φ-nodes v is an operand of).
func dominatingCondsOfUse(h *ssa.Phi, v ssa.Value, L *loop) []condFact {
	var out []condFact
	if refs := v.Referrers(); refs != nil {
		for _, r := range *refs {
			if p, ok := r.(*ssa.Phi); ok {
				for i, e := range p.Edges {
					if e == v {
						out = append(out, dominatingConds(p.Block().Preds[i])...)
					}
				}
			}
		}
	}
	return out
}

// c20PageFetcher: the List request `call` in f is not in a loop of f. It is accepted when f is a page fetcher — its
// string parameter is the request's page token and every non-error return hands back this response's next-page token
// as the first result — and every place f is used hands it to a paging driver: a function that calls its
// function-typed parameter in a loop. Each such driver loop is handed to check. Returns why not ("" = accepted).
func c20PageFetcher(c *Ctx, sl *flow.Slicer, f *ssa.Function, call *ssa.Call, tokenArg ssa.Value, nextTok func(ssa.Value) bool, name string, check func(g *ssa.Function, gl []*loop, GL *loop, gc *ssa.Call)) string {
	if tokenArg == nil {
		return "the request carries no page token"
	}
	var tokParam *ssa.Parameter
	for _, p := range f.Params {
		if p.Type().String() == "string" && sl.Derives(tokenArg, func(v ssa.Value) bool { return v == ssa.Value(p) }) {
			tokParam = p
		}
	}
	if tokParam == nil {
		return "no parameter of the enclosing function is the request's page token"
	}
	ei := errIndex(f.Signature)
	if ei < 1 || f.Signature.Results().At(0).Type().String() != "string" {
		return "the enclosing function does not return (next token, error)"
	}
	for _, b := range f.Blocks {
		ret, ok := b.Instrs[len(b.Instrs)-1].(*ssa.Return)
		if !ok {
			continue
		}
		if !isNilK(ret.Results[ei]) {
			continue // error return
		}
		if !nextTok(ret.Results[0]) {
			return "a successful return of the fetcher does not hand back this response's next page token"
		}
	}
	// uses of f: MakeClosure / function value passed to a driver
	drivers := 0
	var users []ssa.Value
	if f.Parent() != nil {
		for _, b := range f.Parent().Blocks {
			for _, in := range b.Instrs {
				if mc, ok := in.(*ssa.MakeClosure); ok && mc.Fn == ssa.Value(f) {
					users = append(users, mc)
				}
			}
		}
	} else {
		users = append(users, f)
	}
	for _, u := range users {
		refs := u.Referrers()
		if refs == nil {
			continue
		}
		for _, r := range *refs {
			dc, ok := r.(*ssa.Call)
			if !ok {
				if _, dbg := r.(*ssa.DebugRef); dbg {
					continue
				}
				return "the fetcher is used other than as an argument of a paging driver"
			}
			g := dc.Call.StaticCallee()
			if g == nil || !load.FuncInRepo(g) || g.Blocks == nil {
				return "the fetcher is handed to a function that is not in the repository"
			}
			idx := -1
			for i, a := range dc.Call.Args {
				if a == u {
					idx = i
				}
			}
			if idx < 0 || idx >= len(g.Params) {
				return "the fetcher is not an argument of the call that uses it"
			}
			q := g.Params[idx]
			gl := naturalLoops(g)
			found := false
			for _, gb := range g.Blocks {
				for _, gi := range gb.Instrs {
					gc, ok := gi.(*ssa.Call)
					if !ok || gc.Call.IsInvoke() || gc.Call.Value != ssa.Value(q) || len(gc.Call.Args) < 1 {
						continue
					}
					GL := innermostLoopOf(gl, gb)
					if GL == nil {
						return "the driver " + g.Name() + " calls the fetcher outside a loop"
					}
					found = true
					check(g, gl, GL, gc)
				}
			}
			if !found {
				return "the driver " + g.Name() + " never calls the fetcher"
			}
			drivers++
		}
	}
	if drivers == 0 {
		return "the fetcher is never handed to a paging driver"
	}
	return ""
}

// c20ErrorsAccumulateAcrossPages is R5c. See the Explanation.
func c20ErrorsAccumulateAcrossPages(c *Ctx) {
	sl := flow.NewSlicer(c.P)
	errT := types.Universe.Lookup("error").Type()
	n := 0
	for _, f := range c.P.RepoFunctions() {
		if load.RelPkg(f) != "keys/gcpkms" || c.isTestFunc(f) || f.Blocks == nil {
			continue
		}
		for _, L := range naturalLoops(f) {
			lists := false
			for b := range L.Body {
				for _, in := range b.Instrs {
					if call, ok := in.(ssa.CallInstruction); ok && isKMSClientCall(call, "List") {
						lists = true
					}
				}
			}
			if !lists {
				continue
			}
			for _, in := range L.Header.Instrs {
				phi, ok := in.(*ssa.Phi)
				if !ok {
					break
				}
				if !types.Identical(phi.Type(), errT) {
					continue
				}
				n++
				bad := ""
				for i, e := range phi.Edges {
					if !L.Body[L.Header.Preds[i]] || e == ssa.Value(phi) {
						continue
					}
					if !sl.Derives(e, func(v ssa.Value) bool { return v == ssa.Value(phi) }) {
						bad = c.pos(L.Header.Preds[i].Instrs[len(L.Header.Preds[i].Instrs)-1].Pos())
						if p := e.Pos(); p.IsValid() {
							bad = c.pos(p)
						}
					}
				}
				_ = bad
				c.S.Check(bad == "", "R5c", load.FuncName(f)+":error carried across pages is only extended", c.pos(L.Header.Instrs[0].Pos()), "every value the carried error takes on a back edge derives from its previous value",
					"the error carried from page to page is replaced ("+bad+") by a value that does not include what it held before: a failure on an earlier page is lost when a later page is clean, and the operation reports success")
			}
		}
	}
	// the other form of the same loss: the error returned behind the loop was computed inside it, per page, and is not
	// carried at the loop head at all (`result = m.perPage(…)` — assigned, not appended)
	for _, f := range c.P.RepoFunctions() {
		if load.RelPkg(f) != "keys/gcpkms" || c.isTestFunc(f) || f.Blocks == nil {
			continue
		}
		ei := errIndex(f.Signature)
		if ei < 0 {
			continue
		}
		for _, L := range naturalLoops(f) {
			lists := false
			for b := range L.Body {
				for _, in := range b.Instrs {
					if call, ok := in.(ssa.CallInstruction); ok && isKMSClientCall(call, "List") {
						lists = true
					}
				}
			}
			if !lists {
				continue
			}
			headPhi := map[ssa.Value]bool{}
			for _, in := range L.Header.Instrs {
				if phi, ok := in.(*ssa.Phi); ok && types.Identical(phi.Type(), errT) {
					headPhi[phi] = true
				}
			}
			for _, b := range f.Blocks {
				ret, ok := b.Instrs[len(b.Instrs)-1].(*ssa.Return)
				if !ok || L.Body[b] || ei >= len(ret.Results) || isNilK(ret.Results[ei]) {
					continue
				}
				r := ret.Results[ei]
				fromBody := sl.Derives(r, func(v ssa.Value) bool {
					in, ok := v.(ssa.Instruction)
					if !ok || in.Block() == nil || !L.Body[in.Block()] || in.Block() == L.Header {
						return false
					}
					_, isCall := v.(*ssa.Call)
					return isCall && types.Identical(v.Type(), errT)
				})
				carried := sl.Derives(r, func(v ssa.Value) bool { return headPhi[v] })
				if fromBody && !carried {
					n++
					c.S.Bad("R5c", load.FuncName(f)+":error returned behind the listing loop", c.pos(ret.Pos()), "the error returned behind the listing loop is the outcome of the last page only (it is assigned inside the loop and not carried across iterations): a failure on an earlier page is lost when the last page is clean, and the operation reports success")
				}
			}
		}
	}
	// no floor: a listing that keeps its errors in a named result through multierr.AppendInto, or pages through a
	// helper, has no such variable; the positive example is seed C20-14, re-run in the thorough tier
	c.S.OK("R5c", "keys/gcpkms:errors carried across listing pages", "", fmt.Sprintf("%d carried error variables / returns behind listing loops examined", n), false)
}
