package rules

import (
	"fmt"
	"go/constant"
	"go/token"
	"go/types"
	"strings"

	"golang.org/x/tools/go/ssa"

	"verif/checker/esp"
	"verif/checker/flow"
	"verif/checker/load"
)

func init() {
	register(&RuleSet{
		ID: "C11",
		Explanation: "R13 no storage write of sign/gcsca is made from a deferred call unless it stands behind a test that the enclosing function's error is nil: a deferred write runs on the failure paths too, so a refused upload would still persist the manifest (with the new primary and no certificate for it). " +
			"R12 writer and reader of a manifest-listed certificate object agree on its encoding: the reader (CertificateAuthority.Certificate) hands the object's bytes to x509.ParseCertificate as they are, so the uploader that registers a manifest entry writes the certificate's DER bytes (Certificate.Raw) and no PEM encoding of them on any path (if the reader PEM-decoded, the writer would have to PEM-encode on every path). " +
			"R11 the upload function around the no-clobber gate of sign/gcsca returns a nil error only behind the gate call or for a key version that already has a manifest entry. " +
			"R10 existence probes: an in-repo implementation of the storage client's Exists answers a result that can be true only where the error of its probing call is known nil (cannot-tell is not exists). " +
			"R9 the local storage back end's object writer opens files truncating (a rewritten manifest keeps no stale tail). " +
			"In sign/gcsca (the only storage-backed authority; localca wraps it). Storage writes are calls of storage/ops.WriteFile (and direct Storage.Writer invokes); a write is the manifest write when its object-name operand is the constant gcsca.ManifestObjectName. " +
			"R1 (ESP on Finalize): no object write after the manifest write on any path. R2 (ESP): the manifest write is unreachable after a failed object write / failed upload step. " +
			"R3 (who-may-call): storage writes in gcsca occur only in the no-clobber gate (the function that invokes Storage.Exists) and the manifest writer; the manifest writer is reachable only from Finalize; packages rotate and testing/nonprod/localca perform no storage writes of their own. " +
			"R4 (ESP + slice): manifest.Entries is extended only after the gate returned nil for the object name recorded in the entry. " +
			"R5 (effects): methods of the mutation type write only receiver fields and make no storage call. " +
			"R7 (ESP on the certificate upload — the gcsca function that receives the manifest and calls the gate): success after the gate is returned only where the key version's manifest entry was found or appended. " +
			"R6 (ESP on storage/ops.WriteFile, the write primitive that R1–R4 treat as one event): it returns nil only after Storage.Writer, Write and Close (the commit of the object) all returned nil. " +
			"Crash points at object granularity are the positions between write events, so R1+R2 give every prefix for every upload order. " +
			"R4c inside the no-clobber gate the object name probed and written is the gate's own parameter, unmodified (the manifest and the readers use the caller's name). " +
			"R8 (= C10.R5) rotate.Bootstrap calls Finalize only after both the root and the signing certificate were signed: one Finalize per operation, so no intermediate manifest names a primary key without a certificate. " +
			"Not covered: partial writes inside one object, the dirty in-memory manifest after a failed Finalize, verification of the stored chain.",
		Assumptions: []string{"go/types, go/ssa, VTA call graph", "storage/ops.WriteFile is the only write path to storage besides Client.Writer"},
		Run:         runC11,
	})
}

func runC11(c *Ctx) {
	defer c11ExistenceProbes(c)
	defer c11StoredEncodingAgrees(c)
	defer c11NoDeferredWrites(c)
	defer c11UploadThroughGate(c)
	// R9: the local storage back end replaces an object wholly when it is rewritten (a shorter manifest over a longer
	// one keeps no stale tail): file-opening primitives in the closure of its Writer are truncating.
	{
		var impls []*ssa.Function
		for _, f := range c.P.RepoFunctions() {
			if c.isTestFunc(f) || load.RelPkg(f) != "storage/local" || f.Name() != "Writer" || f.Signature.Recv() == nil || f.Blocks == nil || f.Parent() != nil || f.Synthetic != "" {
				continue
			}
			impls = append(impls, f)
		}
		nOpen := c.wholeFileWrites("R9", impls)
		c.S.Floor("R9", "object writers of the local storage back end", 1, len(impls))
		c.S.Floor("R9", "file-opening calls in their closures", 1, nOpen)
	}
	// R8 = C10.R5: the callers keep one transaction per operation — rotate.Bootstrap finalizes only after both
	// certificates were signed (a Finalize between them publishes a manifest that names a primary signing key whose
	// certificate does not exist yet).
	c.borrow("R8/C10.", runC10, func(rule, construct string) bool {
		return rule == "R5" || (rule == "ESP" && strings.Contains(construct, "rotate.Bootstrap"))
	})
	gcsca := repoPath("sign/gcsca")
	stypPkg := repoPath("sign/types")
	storPkg := repoPath("storage/storagei")
	fin := c.method("R0", "sign/gcsca", "CertificateAuthority", "Finalize")
	wf := c.fn("R0", "storage/ops", "WriteFile")
	pk := c.P.Pkg("sign/gcsca")
	if fin == nil || wf == nil || pk == nil {
		return
	}
	manifestName := ""
	if k, ok := pk.Pkg.Scope().Lookup("ManifestObjectName").(*types.Const); ok && k.Val().Kind() == constant.String {
		manifestName = constant.StringVal(k.Val())
	}
	if manifestName == "" {
		c.S.Unk("R0", "anchor:gcsca.ManifestObjectName", "", "exported constant not found")
		return
	}
	isStorageWrite := c.gcscaIsWrite
	isManifestWrite := func(call ssa.CallInstruction) bool {
		name, ok := c.gcscaWriteName(call)
		if !ok {
			return false
		}
		k, isK := name.(*ssa.Const)
		return isK && k.Value != nil && k.Value.Kind() == constant.String && constant.StringVal(k.Value) == manifestName
	}
	// gate functions: gcsca functions invoking Storage.Exists and containing a storage write
	gates := c.gcscaGates()
	c.S.Floor("R3", "no-clobber gate functions in gcsca", 1, len(gates))

	const (
		evObj = iota
		evManifest
		evStep
		evGate
		evEntry
	)
	const (
		bManifest uint = iota
		bFailed
		bGateOk
	)
	names := []string{"manifestWritten", "failed", "gate:ok"}
	classify := func(in ssa.Instruction) (int, bool) {
		switch in := in.(type) {
		case ssa.CallInstruction:
			if isManifestWrite(in) {
				return evManifest, true
			}
			if isStorageWrite(in) {
				return evObj, true
			}
			if f := in.Common().StaticCallee(); f != nil && gates[f] {
				return evGate, true
			}
		case *ssa.Store:
			if fa, ok := in.Addr.(*ssa.FieldAddr); ok && flow.IsFieldLoad(fa, repoPath("proto/certificates"), "GCECertificateManifest", "Entries") {
				return evEntry, true
			}
		}
		return 0, false
	}
	relevant := c.relevantSet(func(in ssa.Instruction) bool { _, ok := classify(in); return ok })
	reached := map[int]int{}
	r := &esp.Rule{Name: "C11"}
	r.Relevant = func(f *ssa.Function) bool { return relevant[f] && f != wf } // WriteFile is one atomic object write
	r.Match = func(in ssa.Instruction) []esp.Ev {
		id, ok := classify(in)
		if !ok {
			call, isCall := in.(ssa.CallInstruction)
			if !isCall {
				return nil
			}
			f := call.Common().StaticCallee()
			if f != nil && relevant[f] && load.RelPkg(f) == "sign/gcsca" {
				if ei := errIndex(f.Signature); ei >= 0 {
					return []esp.Ev{{ID: evStep, Name: "step " + f.Name(), ErrIdx: ei, BoolIdx: -1}}
				}
			}
			return nil
		}
		reached[id]++
		ev := esp.Ev{ID: id, ErrIdx: -1, BoolIdx: -1}
		if call, isCall := in.(ssa.CallInstruction); isCall {
			ev.Name = callName(call)
			ev.ErrIdx = errIndex(call.Common().Signature())
		} else {
			ev.Name = "store manifest.Entries"
		}
		switch id {
		case evManifest:
			ev.Name = "manifest write"
		case evObj:
			ev.Name = "object write"
		case evGate:
			ev.Name = "gate " + ev.Name
		}
		return []esp.Ev{ev}
	}
	r.Step = func(x *esp.Ctx, s esp.State, ev esp.Ev, ph esp.Phase) (esp.State, string) {
		st := fmtState(names, s)
		switch ev.ID {
		case evObj:
			if ph == esp.AtCall && s.Has(bManifest) {
				return s, "R1: object written after the manifest on this path, state " + st + " (a crash in between leaves a manifest that references a missing object)"
			}
			if ph == esp.Fail {
				return s.Set(bFailed), ""
			}
		case evManifest:
			if ph == esp.AtCall {
				if s.Has(bFailed) {
					return s.Set(bManifest), "R2: manifest written after a failed upload step, state " + st
				}
				return s.Set(bManifest), ""
			}
		case evStep:
			if ph == esp.AtCall {
				return s.Clear(bGateOk), ""
			}
			if ph == esp.Fail {
				return s.Set(bFailed), ""
			}
		case evGate:
			switch ph {
			case esp.AtCall:
				return s.Clear(bGateOk), ""
			case esp.Ok:
				return s.Set(bGateOk), ""
			case esp.Fail:
				return s.Set(bFailed), ""
			}
		case evEntry:
			if ph == esp.AtCall && !s.Has(bGateOk) {
				return s, "R4: manifest entries extended in state " + st + " without a successful gated upload of the object"
			}
		}
		return s, ""
	}
	e := c.engine(r)
	e.Run(fin, esp.State{})
	n := c.reportEngine(e, "ESP", func(v *esp.Violation) string { return v.Msg[:2] + ":" + load.FuncName(v.Fn) })
	c.S.Note("gcsca.Finalize: %d configurations, %d violations", e.Configs, n)
	c.S.Floor("R1", "object write sites reached from Finalize", 1, reached[evObj])
	c.S.Floor("R1", "manifest write sites reached from Finalize", 1, reached[evManifest])
	c.S.Floor("R4", "manifest entry stores reached from Finalize", 1, reached[evEntry])
	c.S.Floor("R4", "gate calls reached from Finalize", 2, reached[evGate])
	if n == 0 {
		for _, rr := range []string{"R1", "R2", "R4"} {
			c.S.OK(rr, "gcsca.Finalize", c.pos(fin.Pos()), fmt.Sprintf("held on %d configurations", e.Configs), true)
		}
	}

	// ---- R3 ownership ----
	finClosure := c.reachable([]*ssa.Function{fin}, nil)
	nw := 0
	for _, f := range c.P.RepoFunctions() {
		if c.isTestFunc(f) {
			continue
		}
		rel := load.RelPkg(f)
		for _, call := range callsIn(f, isStorageWrite) {
			switch {
			case rel == "sign/gcsca":
				nw++
				if isManifestWrite(call) {
					// the manifest writer must be reachable only from Finalize
					ok := finClosure[f] && c.onlyReachedThrough(f, fin)
					c.S.Check(ok, "R3", "gcsca:manifest writer "+load.FuncName(f), c.pos(call.Pos()), "manifest written only on behalf of Finalize", "the manifest writer is reachable from an entry point other than Finalize")
				} else {
					c.S.Check(gates[f], "R3", "gcsca:object write in "+load.FuncName(f), c.pos(call.Pos()), "object write sits in the no-clobber gate", "storage object written outside the no-clobber gate")
				}
			case rel == "rotate" || rel == "testing/nonprod/localca":
				nw++
				c.S.Bad("R3", rel+":storage write in "+load.FuncName(f), c.pos(call.Pos()), "package performs a storage write of its own (persistent CA changes must exist only in gcsca.Finalize)")
			}
		}
	}
	c.S.Floor("R3", "storage write sites in gcsca", 2, nw)

	// ---- R4b: entry names the uploaded object ----
	for f := range finClosure {
		if load.RelPkg(f) != "sign/gcsca" {
			continue
		}
		for _, b := range f.Blocks {
			for _, in := range b.Instrs {
				al, ok := in.(*ssa.Alloc)
				if !ok || !namedIs(al.Type(), repoPath("proto/certificates"), "GCECertificateManifest_Entry") {
					continue
				}
				var objPath ssa.Value
				for _, ref := range *al.Referrers() {
					if fa, ok := ref.(*ssa.FieldAddr); ok && flow.FieldName(fa) == "ObjectPath" {
						for _, r2 := range *fa.Referrers() {
							if st, ok := r2.(*ssa.Store); ok && st.Addr == fa {
								objPath = st.Val
							}
						}
					}
				}
				// the name recorded, seen from the function that calls the gate: the value itself, or — when the
				// entry is built by a helper that receives the name — the argument each caller passes
				type site struct {
					fn  *ssa.Function
					val ssa.Value
				}
				sites := []site{{f, objPath}}
				if p, isParam := objPath.(*ssa.Parameter); isParam {
					sites = nil
					idx := -1
					for i, q := range f.Params {
						if q == p {
							idx = i
						}
					}
					if n := c.P.CallGraph().Nodes[f]; n != nil && idx >= 0 {
						for _, e := range n.In {
							if e.Site == nil || e.Caller.Func == nil || e.Site.Common().IsInvoke() || e.Site.Common().StaticCallee() != f || idx >= len(e.Site.Common().Args) {
								continue
							}
							sites = append(sites, site{e.Caller.Func, e.Site.Common().Args[idx]})
						}
					}
				}
				same := len(sites) > 0
				for _, st := range sites {
					found := false
					for _, call := range callsIn(st.fn, func(call ssa.CallInstruction) bool {
						cal := call.Common().StaticCallee()
						return cal != nil && gates[cal]
					}) {
						for _, a := range call.Common().Args {
							if a == st.val {
								found = true
							}
						}
					}
					if !found {
						same = false
					}
				}
				c.S.Check(same, "R4b", load.FuncName(f)+":manifest entry.ObjectPath", c.pos(al.Pos()), "entry records the object name handed to the gate", "manifest entry records an object name other than the one uploaded through the gate")
			}
		}
	}

	// ---- R4c: the gate writes under the name it was given ----
	// Inside the no-clobber gate the object name probed (Storage.Exists) and the object name written are the gate's
	// own string parameter, unmodified: the callers record that very name in the manifest (R4b) and look the root
	// bundle up under it, so a name cleaned or rewritten inside the gate stores the object where no reader looks.
	for g := range gates {
		var nameParams []*ssa.Parameter
		for _, p := range g.Params {
			if p.Type().String() == "string" {
				nameParams = append(nameParams, p)
			}
		}
		isNameParam := func(v ssa.Value) bool {
			for _, p := range nameParams {
				if v == ssa.Value(p) {
					return true
				}
			}
			return false
		}
		nSites := 0
		for _, call := range callsIn(g, func(call ssa.CallInstruction) bool {
			return isStorageWrite(call) || invokeIs(call, storPkg, "Client", "Exists")
		}) {
			for _, a := range call.Common().Args {
				if a.Type().String() != "string" {
					continue
				}
				if _, isK := a.(*ssa.Const); isK {
					continue
				}
				// bucket names come from receiver fields; the object name is the remaining string operand
				if u, ok := a.(*ssa.UnOp); ok {
					if _, isField := u.X.(*ssa.FieldAddr); isField {
						continue
					}
				}
				nSites++
				c.S.Check(isNameParam(a), "R4c", load.FuncName(g)+":"+callName(call)+" object name", c.pos(call.Pos()),
					"the object name is the gate's parameter itself",
					"the gate probes / writes the object under a name other than the one it was given ("+flow.Describe(a)+"): the manifest entry and the readers use the caller's name, so the stored object is not found")
			}
		}
		c.S.Floor("R4c", "object-name operands of storage calls in "+load.FuncName(g), 2, nSites)
	}

	// ---- R7 every uploaded certificate has a manifest entry ----
	// In the functions of gcsca that call the gate and receive the manifest (the certificate
	// upload), a nil-error return after the gate succeeded is reachable only where the key version's
	// entry was found in the manifest or an entry was appended: an object in the bucket with no
	// entry is an unlisted certificate, and the primary may then point at a key without one.
	c.uploadEntryRule("R7", gates, finClosure)

	// ---- R6 the write primitive reports a failed commit ----
	// storage/ops.WriteFile is the atomic write event of R1–R4; that abstraction is only right if a
	// nil result means the object was committed: on an object store Close() is the commit.
	{
		const (
			bWriter uint = iota
			bWrite
			bClose
		)
		r := &esp.Rule{Name: "C11.R6"}
		wfRegion := map[*ssa.Function]bool{}
		for _, g := range unexportedRegion(wf) {
			if g != wf {
				wfRegion[g] = true
			}
		}
		r.Relevant = func(f *ssa.Function) bool { return f.Parent() == wf || wfRegion[f] }
		nClose := 0
		r.Match = func(in ssa.Instruction) []esp.Ev {
			call, ok := in.(ssa.CallInstruction)
			if !ok || !call.Common().IsInvoke() {
				return nil
			}
			switch {
			case invokeIs(call, storPkg, "Client", "Writer"):
				return []esp.Ev{{ID: 0, Name: "Writer", ErrIdx: 1, BoolIdx: -1}}
			case call.Common().Method.Name() == "Write" && call.Common().Signature().Results().Len() == 2:
				return []esp.Ev{{ID: 1, Name: "Write", ErrIdx: 1, BoolIdx: -1}}
			case call.Common().Method.Name() == "Close" && call.Common().Signature().Results().Len() == 1:
				nClose++
				return []esp.Ev{{ID: 2, Name: "Close", ErrIdx: 0, BoolIdx: -1}}
			}
			return nil
		}
		r.Step = func(x *esp.Ctx, s esp.State, ev esp.Ev, ph esp.Phase) (esp.State, string) {
			bit := []uint{bWriter, bWrite, bClose}[ev.ID]
			switch ph {
			case esp.Ok:
				return s.Set(bit), ""
			case esp.Fail:
				return s.Clear(bit), ""
			}
			return s, ""
		}
		r.AtReturn = func(x *esp.Ctx, s esp.State, rets []esp.Abs) string {
			if len(rets) == 0 || rets[len(rets)-1] == esp.NonZero {
				return ""
			}
			if !s.Has(bWriter) || !s.Has(bWrite) || !s.Has(bClose) {
				return "R6: WriteFile may return nil in state " + fmtState([]string{"Writer:ok", "Write:ok", "Close:ok"}, s) + ": a failed write or a failed Close (the commit of the object) is reported as success"
			}
			return ""
		}
		e := c.engine(r)
		e.Run(wf, esp.State{})
		if c.reportEngine(e, "R6", func(v *esp.Violation) string { return "storage/ops.WriteFile:commit reported" }) == 0 {
			c.S.OK("R6", "storage/ops.WriteFile:commit reported", c.pos(wf.Pos()), fmt.Sprintf("nil only after Writer, Write and Close all succeeded (%d configurations)", e.Configs), true)
		}
		c.S.Floor("R6", "Close sites of the write primitive", 1, nClose)
	}

	// ---- R5 deferred mutation ----
	mutIface, _ := c.P.Pkg("sign/types").Pkg.Scope().Lookup("CertificateAuthorityMutation").(*types.TypeName)
	nm := 0
	if mutIface != nil {
		it := mutIface.Type().Underlying().(*types.Interface)
		for _, name := range pk.Pkg.Scope().Names() {
			tn, ok := pk.Pkg.Scope().Lookup(name).(*types.TypeName)
			if !ok {
				continue
			}
			pt := types.NewPointer(tn.Type())
			if !types.Implements(pt, it) && !types.Implements(tn.Type(), it) {
				continue
			}
			for i := 0; i < it.NumMethods(); i++ {
				m := c.P.MethodOf(pk, tn.Name(), it.Method(i).Name())
				if m == nil {
					continue
				}
				nm++
				clo := c.reachable([]*ssa.Function{m}, nil)
				bad := ""
				for g := range clo {
					for _, call := range callsIn(g, func(call ssa.CallInstruction) bool {
						if isStorageWrite(call) {
							return true
						}
						cc := call.Common()
						return cc.IsInvoke() && methodFromIface(cc.Method, storPkg, "Client")
					}) {
						bad = "storage call " + callName(call) + " at " + c.pos(call.Pos())
					}
				}
				// stores only through the receiver
				for _, b := range m.Blocks {
					for _, in := range b.Instrs {
						if st, ok := in.(*ssa.Store); ok {
							if !rootedAt(st.Addr, m.Params[0]) && !isLocalAlloc(st.Addr) {
								bad = "store outside the receiver at " + c.pos(st.Pos())
							}
						}
					}
				}
				c.S.Check(bad == "", "R5", "gcsca:"+tn.Name()+"."+it.Method(i).Name(), c.pos(m.Pos()), "writes only receiver fields, no storage call", "mutation method has a persistent or foreign effect: "+bad)
			}
		}
	}
	c.S.Floor("R5", "methods of the storage-backed mutation type", 4, nm)
	_ = gcsca
	_ = stypPkg
}

// onlyReachedThrough: every repo caller chain of f (within f's package) passes
// through `through`: i.e. f is not reachable from any other exported function or
// method of its package without passing `through`.
func (c *Ctx) onlyReachedThrough(f, through *ssa.Function) bool {
	cg := c.P.CallGraph()
	seen := map[*ssa.Function]bool{f: true}
	work := []*ssa.Function{f}
	for len(work) > 0 {
		g := work[len(work)-1]
		work = work[:len(work)-1]
		if g == through {
			continue
		}
		n := cg.Nodes[g]
		if n == nil {
			continue
		}
		callers := 0
		for _, e := range n.In {
			cf := e.Caller.Func
			if cf == nil || !load.FuncInRepo(cf) || c.isTestFunc(cf) {
				continue
			}
			callers++
			if !seen[cf] {
				seen[cf] = true
				work = append(work, cf)
			}
		}
		if callers == 0 && g != f {
			// g is an entry (no repo callers) other than `through`
			return false
		}
		if g.Object() != nil && g.Object().Exported() && g != f {
			return false
		}
	}
	return true
}

// rootedAt: addr is a FieldAddr/IndexAddr chain (or loaded pointer chain) rooted at v.
func rootedAt(addr ssa.Value, v ssa.Value) bool {
	for i := 0; i < 8; i++ {
		if addr == v {
			return true
		}
		switch a := addr.(type) {
		case *ssa.FieldAddr:
			addr = a.X
		case *ssa.IndexAddr:
			addr = a.X
		case *ssa.UnOp:
			addr = a.X
		default:
			return false
		}
	}
	return false
}

func isLocalAlloc(addr ssa.Value) bool {
	for i := 0; i < 8; i++ {
		switch a := addr.(type) {
		case *ssa.Alloc:
			return true
		case *ssa.FieldAddr:
			addr = a.X
		case *ssa.IndexAddr:
			addr = a.X
		default:
			return false
		}
	}
	return false
}

// uploadEntryRule: see R7 of C11 (also run by C10, whose failure-atomicity needs it:
// a retried rotation must not leave a primary key without a listed certificate).
func (c *Ctx) uploadEntryRule(rule string, gates map[*ssa.Function]bool, finClosure map[*ssa.Function]bool) {
	entryPkg := repoPath("proto/certificates")
	isEntryPtr := func(t types.Type) bool { return namedIs(t, entryPkg, "GCECertificateManifest_Entry") }
	nUp := 0
	for f := range finClosure {
		if f == nil || load.RelPkg(f) != "sign/gcsca" || f.Blocks == nil || errIndex(f.Signature) < 0 {
			continue
		}
		takesManifest := false
		for _, p := range f.Params {
			if namedIs(p.Type(), entryPkg, "GCECertificateManifest") {
				takesManifest = true
			}
		}
		gateCalls := callsIn(f, func(call ssa.CallInstruction) bool {
			cal := call.Common().StaticCallee()
			return cal != nil && gates[cal]
		})
		if !takesManifest || len(gateCalls) == 0 {
			continue
		}
		nUp++
		// the looked-up entry: result of a gcsca function returning *Entry
		// (in the upload function or in an unexported helper it is split into: certObjectFor(manifest, name, cert)
		// (object string, inManifest bool) — the flag set there is part of the path state the caller continues with)
		var lookups []ssa.Value
		for _, lf := range unexportedRegion(f) {
			if gates[lf] {
				continue
			}
			for _, call := range callsIn(lf, func(call ssa.CallInstruction) bool {
				cal := call.Common().StaticCallee()
				return cal != nil && load.RelPkg(cal) == "sign/gcsca" && cal.Signature.Results().Len() == 1 && isEntryPtr(cal.Signature.Results().At(0).Type())
			}) {
				lookups = append(lookups, call.Value())
			}
		}
		const (
			bGate uint = iota
			bAppended
		)
		region := map[*ssa.Function]bool{}
		for _, g := range unexportedRegion(f) {
			if g != f && !gates[g] {
				region[g] = true
			}
		}
		r := &esp.Rule{Name: "C11.R7"}
		r.Relevant = func(g *ssa.Function) bool { return region[g] }
		r.Flag = func(v ssa.Value) (int, bool) {
			for i, l := range lookups {
				if v == l && i < 8 {
					return i, true
				}
			}
			return 0, false
		}
		r.Match = func(in ssa.Instruction) []esp.Ev {
			if call, ok := in.(ssa.CallInstruction); ok {
				if cal := call.Common().StaticCallee(); cal != nil && gates[cal] {
					return []esp.Ev{{ID: 0, Name: "gate", ErrIdx: errIndex(cal.Signature), BoolIdx: -1}}
				}
			}
			if st, ok := in.(*ssa.Store); ok {
				if fa, ok := st.Addr.(*ssa.FieldAddr); ok && flow.FieldName(fa) == "Entries" {
					if pt, ok := fa.X.Type().Underlying().(*types.Pointer); ok && namedIs(pt.Elem(), entryPkg, "GCECertificateManifest") {
						return []esp.Ev{{ID: 1, Name: "entry appended", ErrIdx: -1, BoolIdx: -1}}
					}
				}
			}
			return nil
		}
		r.Step = func(x *esp.Ctx, s esp.State, ev esp.Ev, ph esp.Phase) (esp.State, string) {
			switch {
			case ev.ID == 0 && ph == esp.Ok:
				return s.Set(bGate), ""
			case ev.ID == 1:
				return s.Set(bAppended), ""
			}
			return s, ""
		}
		r.AtReturn = func(x *esp.Ctx, s esp.State, rets []esp.Abs) string {
			ei := errIndex(f.Signature)
			if ei >= len(rets) || rets[ei] == esp.NonZero || !s.Has(bGate) || s.Has(bAppended) {
				return ""
			}
			for i := range lookups {
				if i < 8 && s.Flag(i) == esp.NonZero {
					return ""
				}
			}
			return rule + ": the certificate object was written through the gate and success is returned, but no manifest entry for the key version was found or appended on this path"
		}
		e := c.engine(r)
		e.Run(f, esp.State{})
		name := load.FuncName(f)
		if c.reportEngine(e, rule, func(v *esp.Violation) string { return name + ":entry for uploaded certificate" }) == 0 {
			c.S.OK(rule, name+":entry for uploaded certificate", c.pos(f.Pos()), fmt.Sprintf("success after the gate only with a found or appended manifest entry (%d configurations)", e.Configs), true)
		}
	}
	c.S.Floor(rule, "certificate upload functions (gate + manifest) in gcsca", 1, nUp)
}

// c11ExistenceProbes is R10: "exists" is only answered after the probe succeeded. The upload gate skips an object that
// already exists (keep_going) and still records it in the manifest, so a storage back end that answers (true, nil) when
// it could not tell (a failed stat that is not "not found") makes the manifest name a certificate that was never
// stored. For every in-repo implementation of the storage client's Exists: a return whose first result can be true is
// dominated by the nil edge of the error of the probing call made in the function.
func c11ExistenceProbes(c *Ctx) {
	n := 0
	for _, f := range c.P.RepoFunctions() {
		if f.Name() != "Exists" || f.Signature.Recv() == nil || f.Blocks == nil || f.Synthetic != "" || c.isTestFunc(f) {
			continue
		}
		res := f.Signature.Results()
		if res.Len() != 2 || res.At(0).Type().String() != "bool" || errIndex(f.Signature) != 1 {
			continue
		}
		rel := load.RelPkg(f)
		if !strings.HasPrefix(rel, "storage") && rel != "testing/storage" {
			continue
		}
		// the error values of the fallible calls made here
		var errs []ssa.Value
		for _, b := range f.Blocks {
			for _, in := range b.Instrs {
				switch x := in.(type) {
				case *ssa.Extract:
					if call, ok := x.Tuple.(*ssa.Call); ok && isErrorType(x.Type()) && call != nil {
						errs = append(errs, x)
					}
				case *ssa.Call:
					if isErrorType(x.Type()) {
						errs = append(errs, x)
					}
				}
			}
		}
		if len(errs) == 0 {
			continue // answers from memory: nothing can fail
		}
		n++
		ok, at := true, f.Pos()
		for _, b := range f.Blocks {
			ret, isRet := b.Instrs[len(b.Instrs)-1].(*ssa.Return)
			if !isRet {
				continue
			}
			if k, isK := ret.Results[0].(*ssa.Const); isK && k.Value != nil && !constant.BoolVal(k.Value) {
				continue // "does not exist" / failure
			}
			guarded := false
			for _, e := range errs {
				if errKnownNil(b, e) {
					guarded = true
				}
			}
			if !guarded {
				ok, at = false, ret.Pos()
			}
		}
		c.S.Check(ok, "R10", load.FuncName(f)+":exists only after a successful probe", c.pos(at), "a result that can be true is returned only where the probe's error is known nil", "Exists can answer true on a path where the probing call's error was not found nil: \"cannot tell\" (a failed stat other than not-found) reads as \"exists\", the upload is skipped and the manifest names a certificate that was never stored")
	}
	c.S.Floor("R10", "fallible existence probes of storage back ends", 2, n)
}

func isErrorType(t types.Type) bool {
	return types.Identical(t, types.Universe.Lookup("error").Type())
}

// c11UploadThroughGate is R11: "uploaded" is only said after the upload. A function of sign/gcsca that reports what it
// wrote (a value and an error) and contains the call of the no-clobber gate returns a nil error only behind that call,
// or where the key version was found to have a manifest entry already (the keep-going shortcut). Any other successful
// return — an interrupted context, a flag — lets Finalize go on to write a manifest that names a key whose certificate
// was never stored.
func c11UploadThroughGate(c *Ctx) {
	gates := c.gcscaGates()
	n := 0
	// through: functions every successful return of which lies behind the gate (the gate itself, then — bottom up —
	// the unexported functions found to satisfy the rule: an upload split into cases calls the gate through them)
	through := map[*ssa.Function]bool{}
	for g := range gates {
		through[g] = true
	}
	type verdict struct {
		ok bool
		at token.Pos
	}
	judge := func(f *ssa.Function) (verdict, bool) {
		ei := errIndex(f.Signature)
		if ei < 0 {
			return verdict{}, false
		}
		gcalls := callsIn(f, func(call ssa.CallInstruction) bool { return through[call.Common().StaticCallee()] })
		if len(gcalls) == 0 {
			return verdict{}, false
		}
		v := verdict{ok: true, at: f.Pos()}
		for _, b := range f.Blocks {
			ret, isRet := b.Instrs[len(b.Instrs)-1].(*ssa.Return)
			if !isRet {
				continue
			}
			ev := ret.Results[ei]
			if !isNilK(ev) {
				// handing on the verdict of a function that is itself behind the gate is fine
				if call, isCall := ev.(*ssa.Call); isCall && through[call.Call.StaticCallee()] {
					continue
				}
				if ex, isEx := ev.(*ssa.Extract); isEx {
					if call, isCall := ex.Tuple.(*ssa.Call); isCall && through[call.Call.StaticCallee()] {
						continue
					}
				}
				if isErrorExit(b) {
					continue
				}
			}
			thr := false
			for _, gc := range gcalls {
				if gc.Block().Dominates(b) {
					thr = true
				}
			}
			if entryFoundAt(b, 0) {
				thr = true // the key version already has a manifest entry
			}
			// nothing to upload: the certificate handed in is nil
			for _, cf := range dominatingConds(b) {
				bo, isB := cf.Cond.(*ssa.BinOp)
				if !isB || !isNilK(bo.Y) || (bo.Op == token.EQL) != cf.Val {
					continue
				}
				if prm, isP := bo.X.(*ssa.Parameter); isP && typeMentions(prm, "crypto/x509", "Certificate") {
					thr = true
				}
			}
			if !thr {
				v.ok, v.at = false, ret.Pos()
			}
		}
		return v, true
	}
	var cands []*ssa.Function
	for _, f := range c.P.RepoFunctions() {
		if load.RelPkg(f) != "sign/gcsca" || c.isTestFunc(f) || f.Blocks == nil || gates[f] {
			continue
		}
		if f.Object() == nil || f.Object().Exported() {
			continue // Finalize and the like decide what to upload; the rule is about the uploading helpers
		}
		// … that upload one certificate (a driver over the mutation's collection uploads nothing when it is empty)
		oneCert := false
		for _, p := range f.Params {
			if pt, ok := p.Type().(*types.Pointer); ok && namedIs(pt.Elem(), "crypto/x509", "Certificate") {
				oneCert = true
			}
		}
		if !oneCert {
			continue
		}
		cands = append(cands, f)
	}
	// bottom up: a function found to satisfy the rule counts as "behind the gate" for its callers
	for round := 0; round < 4; round++ {
		for _, f := range cands {
			if through[f] {
				continue
			}
			if v, applies := judge(f); applies && v.ok {
				through[f] = true
			}
		}
	}
	for _, f := range cands {
		v, applies := judge(f)
		if !applies {
			continue
		}
		n++
		if through[f] {
			v.ok = true
		}
		c.S.Check(v.ok, "R11", load.FuncName(f)+":success only through the upload gate", c.pos(v.at), "a nil error is returned only behind the gate call or for a key version that already has a manifest entry", "the upload can report success without having gone through the no-clobber gate and without the key version having a manifest entry: the caller records the key in the manifest although no certificate was stored for it")
	}
	c.S.Floor("R11", "upload functions around the no-clobber gate in sign/gcsca", 1, n)
}

// entryFoundAt: block b is reached only where a manifest entry was found for the key version: behind the non-nil edge
// of a lookup returning a manifest entry, or behind the true edge of a flag that a helper of the package returns as true
// only behind such an edge (certObjectFor(...) (name string, inManifest bool)).
func entryFoundAt(b *ssa.BasicBlock, depth int) bool {
	for _, cf := range dominatingConds(b) {
		if bo, isB := cf.Cond.(*ssa.BinOp); isB && isNilK(bo.Y) && (bo.Op == token.NEQ) == cf.Val {
			if call, isCall := bo.X.(*ssa.Call); isCall && typeMentions(call, repoPath("proto/certificates"), "GCECertificateManifest_Entry") {
				return true
			}
		}
		if ex, isEx := cf.Cond.(*ssa.Extract); isEx && cf.Val && depth < 2 {
			hc, isCall := ex.Tuple.(*ssa.Call)
			if !isCall {
				continue
			}
			h := hc.Call.StaticCallee()
			if h == nil || h.Blocks == nil || load.RelPkg(h) != "sign/gcsca" {
				continue
			}
			all, n := true, 0
			for _, hb := range h.Blocks {
				ret, isRet := hb.Instrs[len(hb.Instrs)-1].(*ssa.Return)
				if !isRet || ex.Index >= len(ret.Results) {
					continue
				}
				k, isK := ret.Results[ex.Index].(*ssa.Const)
				if isK && k.Value != nil && !constant.BoolVal(k.Value) {
					continue
				}
				n++
				if !entryFoundAt(hb, depth+1) {
					all = false
				}
			}
			if all && n > 0 {
				return true
			}
		}
	}
	return false
}

// c11StoredEncodingAgrees is R12: "every key version listed in the manifest resolves to a parseable certificate" needs
// the writer and the reader of such an object to agree on its encoding. Reader: (*CertificateAuthority).Certificate —
// do the bytes it parses come through pem.Decode or straight from storage? Writer: every function of sign/gcsca that
// makes a manifest entry (an uploader) — does the content it hands to the no-clobber gate (or to a raw writer) derive
// from Certificate.Raw, and does a PEM encoding reach it on any path? The two must match on every site.
func c11StoredEncodingAgrees(c *Ctx) {
	reader := c.P.Method("sign/gcsca", "CertificateAuthority", "Certificate")
	if reader == nil {
		c.S.Unk("R12", "sign/gcsca.CertificateAuthority.Certificate", "", "the reader of certificate objects was not found")
		return
	}
	sl := flow.NewSlicer(c.P)
	isPemEnc := func(v ssa.Value) bool {
		call, ok := v.(*ssa.Call)
		return ok && (calleeIs(call, "encoding/pem.EncodeToMemory") || calleeIs(call, "encoding/pem.Encode"))
	}
	isPemDec := func(v ssa.Value) bool {
		call, ok := v.(*ssa.Call)
		return ok && calleeIs(call, "encoding/pem.Decode")
	}
	isRaw := func(v ssa.Value) bool {
		if fa, ok := v.(*ssa.FieldAddr); ok {
			return flow.IsFieldLoad(fa, "crypto/x509", "Certificate", "Raw")
		}
		return flow.IsFieldLoad(v, "crypto/x509", "Certificate", "Raw")
	}
	parses := callsIn(reader, func(call ssa.CallInstruction) bool { return calleeIs(call, "crypto/x509.ParseCertificate") })
	for _, g := range unexportedRegion(reader) {
		if g != reader {
			parses = append(parses, callsIn(g, func(call ssa.CallInstruction) bool { return calleeIs(call, "crypto/x509.ParseCertificate") })...)
		}
	}
	if len(parses) == 0 {
		c.S.Unk("R12", "sign/gcsca.CertificateAuthority.Certificate:parse", c.pos(reader.Pos()), "the reader does not parse the object with x509.ParseCertificate: its encoding expectation is not known")
		return
	}
	readerPEM := false
	for _, pc := range parses {
		if sl.Derives(pc.Common().Args[0], isPemDec) {
			readerPEM = true
		}
	}
	entryPkg := repoPath("proto/certificates")
	gates := c.gcscaGates()
	n := 0
	for _, f := range c.P.RepoFunctions() {
		if load.RelPkg(f) != "sign/gcsca" || c.isTestFunc(f) || f.Blocks == nil {
			continue
		}
		isStore := func(call ssa.CallInstruction) bool {
			g := call.Common().StaticCallee()
			return (g != nil && gates[g]) || c.gcscaIsWrite(call)
		}
		allocsEntry := func(g *ssa.Function) bool {
			for _, b := range g.Blocks {
				for _, in := range b.Instrs {
					if al, ok := in.(*ssa.Alloc); ok && namedIs(al.Type(), entryPkg, "GCECertificateManifest_Entry") {
						return true
					}
				}
			}
			return false
		}
		// the uploader makes the entry itself, or through a helper that only makes entries (writes nothing)
		makesEntry := allocsEntry(f)
		for _, call := range callsIn(f, func(ssa.CallInstruction) bool { return true }) {
			if g := call.Common().StaticCallee(); g != nil && g != f && load.RelPkg(g) == "sign/gcsca" && g.Blocks != nil && allocsEntry(g) && len(callsIn(g, isStore)) == 0 {
				makesEntry = true
			}
		}
		if !makesEntry {
			continue
		}
		for _, call := range callsIn(f, isStore) {
			for _, a := range call.Common().Args {
				st, ok := a.Type().Underlying().(*types.Slice)
				if !ok {
					continue
				}
				if bt, ok := st.Elem().Underlying().(*types.Basic); !ok || bt.Kind() != types.Byte {
					continue
				}
				n++
				writerPEM := sl.Derives(a, isPemEnc)
				der := sl.Derives(a, isRaw)
				construct := load.FuncName(f) + "→" + callName(call) + ":stored encoding"
				switch {
				case !der:
					c.S.Bad("R12", construct, c.pos(call.Pos()), "the content written for a manifest-listed key version does not derive from the certificate's DER bytes (Certificate.Raw)")
				case writerPEM != readerPEM && readerPEM:
					c.S.Bad("R12", construct, c.pos(call.Pos()), "the reader PEM-decodes certificate objects but this uploader stores bare DER")
				case writerPEM != readerPEM:
					c.S.Bad("R12", construct, c.pos(call.Pos()), "a PEM encoding reaches the content stored for a manifest-listed key version on some path, but the reader ("+load.FuncName(reader)+") hands the object to x509.ParseCertificate as it is: such an entry does not resolve to a parseable certificate")
				default:
					c.S.OK("R12", construct, c.pos(call.Pos()), "uploader and reader agree on the object's encoding", true)
				}
			}
		}
	}
	c.S.Floor("R12", "certificate contents written by manifest-entry uploaders of sign/gcsca", 1, n)
}

// c11NoDeferredWrites is R13: the ordering rules (manifest last, never after a failed upload) are decided on the
// straight-line order of Finalize; a write moved into a deferred call escapes that order, because deferred calls run
// on every exit, the failing ones included. The rule reports every defer in package sign/gcsca whose callee (a closure
// or a function, followed through same-package calls) makes a logical storage write that is not dominated, inside the
// deferred function, by a test that a captured error variable is nil.
func c11NoDeferredWrites(c *Ctx) {
	n := 0
	var writesIn func(g *ssa.Function, depth int, seen map[*ssa.Function]bool) []ssa.CallInstruction
	writesIn = func(g *ssa.Function, depth int, seen map[*ssa.Function]bool) []ssa.CallInstruction {
		if g == nil || g.Blocks == nil || seen[g] || depth > 3 {
			return nil
		}
		seen[g] = true
		var out []ssa.CallInstruction
		for _, b := range g.Blocks {
			for _, in := range b.Instrs {
				call, ok := in.(ssa.CallInstruction)
				if !ok {
					continue
				}
				if c.gcscaIsWrite(call) {
					out = append(out, call)
					continue
				}
				if h := call.Common().StaticCallee(); h != nil && load.RelPkg(h) == "sign/gcsca" {
					if len(writesIn(h, depth+1, seen)) > 0 {
						out = append(out, call)
					}
				}
			}
		}
		return out
	}
	for _, f := range c.P.RepoFunctions() {
		if load.RelPkg(f) != "sign/gcsca" || c.isTestFunc(f) || f.Blocks == nil {
			continue
		}
		k := 0
		for _, b := range f.Blocks {
			for _, in := range b.Instrs {
				df, ok := in.(*ssa.Defer)
				if !ok {
					continue
				}
				n++
				var g *ssa.Function
				if mc, ok := df.Call.Value.(*ssa.MakeClosure); ok {
					g, _ = mc.Fn.(*ssa.Function)
				} else {
					g = df.Call.StaticCallee()
				}
				if g == nil {
					continue
				}
				for _, w := range writesIn(g, 0, map[*ssa.Function]bool{}) {
					k++
					guarded := false
					for _, cf := range dominatingConds(w.Block()) {
						op, other, ok := relFact(cf, func(v ssa.Value) bool {
							ld, ok := v.(*ssa.UnOp)
							if !ok || ld.Op != token.MUL {
								return false
							}
							fv, ok := ld.X.(*ssa.FreeVar)
							if !ok {
								return false
							}
							pt, ok := fv.Type().Underlying().(*types.Pointer)
							return ok && types.Identical(pt.Elem(), types.Universe.Lookup("error").Type())
						})
						if ok && op == token.EQL && isNilK(other) {
							guarded = true
						}
					}
					c.S.Check(guarded, "R13", fmt.Sprintf("%s:deferred storage write #%d", load.FuncName(f), k), c.pos(w.Pos()), "the deferred write stands behind a nil test of the function's error",
						"a storage write is made from a deferred call with no test that the function is succeeding: it also runs when an upload was refused or failed, persisting the manifest (its new primary key included) ahead of, or without, the certificates it references")
				}
			}
		}
	}
	c.S.OK("R13", "sign/gcsca:deferred calls", "", fmt.Sprintf("%d deferred calls examined for storage writes", n), false)
}
