package rules

import (
	"fmt"
	"go/token"
	"go/types"
	"sort"
	"strings"

	"golang.org/x/tools/go/ssa"

	"verif/checker/load"
)

// lockOp classifies a call of the sync package's mutex methods: +1 acquire, -1 release, 0 neither; mode "R" for the
// reader side of a RWMutex.
func lockOp(cc *ssa.CallCommon) (op int, mode string) {
	f := cc.StaticCallee()
	if f == nil {
		return 0, ""
	}
	switch f.String() {
	case "(*sync.Mutex).Lock", "(*sync.RWMutex).Lock":
		return 1, ""
	case "(*sync.Mutex).Unlock", "(*sync.RWMutex).Unlock":
		return -1, ""
	case "(*sync.RWMutex).RLock":
		return 1, "R"
	case "(*sync.RWMutex).RUnlock":
		return -1, "R"
	}
	return 0, ""
}

// lockKey names the mutex a lock operation is applied to by its access path (receiver.field.field), so that Lock and
// Unlock of the same mutex in one function meet under one key.
func lockKey(v ssa.Value, depth int) string {
	if depth > 6 {
		return "?"
	}
	switch x := v.(type) {
	case *ssa.FieldAddr:
		name := fmt.Sprintf("#%d", x.Field)
		if st, ok := derefStruct(x.X.Type()); ok && x.Field < st.NumFields() {
			name = st.Field(x.Field).Name()
		}
		return lockKey(x.X, depth+1) + "." + name
	case *ssa.Field:
		return lockKey(x.X, depth+1) + fmt.Sprintf(".#%d", x.Field)
	case *ssa.UnOp:
		if x.Op == token.MUL {
			return lockKey(x.X, depth+1)
		}
	case *ssa.Parameter:
		return x.Name()
	case *ssa.FreeVar:
		return x.Name()
	case *ssa.Global:
		return x.Name()
	case *ssa.Alloc:
		return "local:" + x.Comment
	case *ssa.ChangeType:
		return lockKey(x.X, depth+1)
	}
	return v.Name()
}

// lockPairingRule: every sync mutex a function acquires is released on every path to a return — by an Unlock of the
// same mutex or by a deferred one. A function that acquires a mutex and contains no release of it at all is a
// lock-taking wrapper and is recorded, not judged. Returns the number of acquire sites examined.
func (c *Ctx) lockPairingRule(rule string, fns []*ssa.Function) int {
	n := 0
	for _, f := range fns {
		if f.Blocks == nil {
			continue
		}
		type site struct {
			key string
			pos token.Pos
		}
		var acquires []site
		releases := map[string]bool{}
		deferClosureReleases := false
		for _, b := range f.Blocks {
			for _, in := range b.Instrs {
				switch x := in.(type) {
				case *ssa.Call:
					if op, mode := lockOp(x.Common()); op != 0 {
						k := mode + lockKey(x.Common().Args[0], 0)
						if op > 0 {
							acquires = append(acquires, site{k, x.Pos()})
						} else {
							releases[k] = true
						}
					}
				case *ssa.Defer:
					if op, mode := lockOp(x.Common()); op < 0 {
						releases[mode+lockKey(x.Common().Args[0], 0)] = true
					}
					if mc, ok := x.Common().Value.(*ssa.MakeClosure); ok {
						if cf, ok := mc.Fn.(*ssa.Function); ok {
							for _, cb := range cf.Blocks {
								for _, ci := range cb.Instrs {
									if cc, ok := ci.(ssa.CallInstruction); ok {
										if op, _ := lockOp(cc.Common()); op < 0 {
											deferClosureReleases = true
										}
									}
								}
							}
						}
					}
				}
			}
		}
		if len(acquires) == 0 {
			continue
		}
		n += len(acquires)
		name := load.FuncName(f)
		judged := map[string]bool{}
		for _, a := range acquires {
			if !releases[a.key] && !deferClosureReleases {
				c.S.Note("%s: %s acquires %s and never releases it in this function (a lock-taking wrapper): not judged", rule, name, a.key)
				continue
			}
			judged[a.key] = true
		}
		if len(judged) == 0 {
			continue
		}
		// forward may-analysis: held[key] = position of an acquire that may still be in force; deferred (must) =
		// releases registered by defer on every path
		type state struct {
			held     map[string]token.Pos
			deferred map[string]bool
			all      bool // a deferred closure that releases: counts for every key
			reached  bool
		}
		in := make([]state, len(f.Blocks))
		clone := func(s state) state {
			o := state{held: map[string]token.Pos{}, deferred: map[string]bool{}, all: s.all, reached: s.reached}
			for k, v := range s.held {
				o.held[k] = v
			}
			for k := range s.deferred {
				o.deferred[k] = true
			}
			return o
		}
		in[0] = state{held: map[string]token.Pos{}, deferred: map[string]bool{}, reached: true}
		type leak struct {
			key      string
			at, from token.Pos
		}
		leaks := map[string]leak{}
		work := []int{0}
		iter := 0
		for len(work) > 0 && iter < 10000 {
			iter++
			bi := work[0]
			work = work[1:]
			b := f.Blocks[bi]
			s := clone(in[bi])
			for _, ins := range b.Instrs {
				switch x := ins.(type) {
				case *ssa.Call:
					if op, mode := lockOp(x.Common()); op != 0 {
						k := mode + lockKey(x.Common().Args[0], 0)
						if op > 0 {
							s.held[k] = x.Pos()
						} else {
							delete(s.held, k)
						}
					}
				case *ssa.Defer:
					if op, mode := lockOp(x.Common()); op < 0 {
						s.deferred[mode+lockKey(x.Common().Args[0], 0)] = true
					}
					if _, ok := x.Common().Value.(*ssa.MakeClosure); ok && deferClosureReleases {
						s.all = true
					}
				case *ssa.Return:
					for k, from := range s.held {
						if judged[k] && !s.deferred[k] && !s.all {
							id := fmt.Sprintf("%s@%d", k, x.Pos())
							leaks[id] = leak{k, x.Pos(), from}
						}
					}
				}
			}
			for _, succ := range b.Succs {
				t := &in[succ.Index]
				changed := false
				if !t.reached {
					*t = clone(s)
					t.reached = true
					changed = true
				} else {
					for k, v := range s.held {
						if _, ok := t.held[k]; !ok {
							t.held[k] = v
							changed = true
						}
					}
					for k := range t.deferred {
						if !s.deferred[k] {
							delete(t.deferred, k)
							changed = true
						}
					}
					if t.all && !s.all {
						t.all = false
						changed = true
					}
				}
				if changed {
					work = append(work, succ.Index)
				}
			}
		}
		var ids []string
		for id := range leaks {
			ids = append(ids, id)
		}
		sort.Strings(ids)
		bad := map[string][]string{}
		for _, id := range ids {
			l := leaks[id]
			bad[l.key] = append(bad[l.key], fmt.Sprintf("%s (locked at %s)", c.pos(l.at), c.pos(l.from)))
		}
		var keys []string
		for k := range judged {
			keys = append(keys, k)
		}
		sort.Strings(keys)
		for _, k := range keys {
			construct := name + ":" + k + " released on every exit"
			if exits := bad[k]; len(exits) > 0 {
				c.S.Bad(rule, construct, c.pos(f.Pos()), fmt.Sprintf("%s returns with the mutex %s still locked at %s: the next user of the object blocks forever", name, k, strings.Join(exits, ", ")))
			} else {
				c.S.OK(rule, construct, c.pos(f.Pos()), "every path from an acquire to a return passes a release (or a deferred one is registered)", true)
			}
		}
	}
	c.S.Count("mutex_acquire_sites", n)
	return n
}

func derefStruct(t types.Type) (*types.Struct, bool) {
	if p, ok := t.Underlying().(*types.Pointer); ok {
		t = p.Elem()
	}
	st, ok := t.Underlying().(*types.Struct)
	return st, ok
}
