// Package rules holds the per-property rule sets.
package rules

import (
	"fmt"
	"go/token"
	"go/types"
	"sort"
	"strings"

	"golang.org/x/tools/go/ssa"

	"verif/checker/esp"
	"verif/checker/flow"
	"verif/checker/load"
	"verif/checker/report"
)

// Ctx is what a rule set sees.
type Ctx struct {
	P       *load.Program
	S       *report.Set
	Tier    string
	Arch    string // "" amd64
	Tests   bool
	instIdx map[string][]*ssa.Function
	// lastCarrier: set by decodedOrigin — the struct field nearest to the sink through which the decoded value flowed
	lastCarrier string
	// nested: this context runs another property's rule set on behalf of a borrowing one; borrows inside it are
	// skipped (two properties may borrow from each other)
	nested bool
	// rawWriters: cache of gcscaRawWriters
	rawWriters map[*ssa.Function]int
}

// RuleSet decides one property.
type RuleSet struct {
	ID          string
	Explanation string   // rules applied and what they do not cover
	Assumptions []string // trusted base
	Arch386     bool     // thorough tier also analyses GOARCH=386 (int is 32-bit)
	Run         func(c *Ctx)
}

var registry = map[string]*RuleSet{}

func register(r *RuleSet) { registry[r.ID] = r }

// Get returns the rule set of a property.
func Get(id string) *RuleSet { return registry[id] }

// IDs lists the registered properties.
func IDs() []string {
	var ids []string
	for id := range registry {
		ids = append(ids, id)
	}
	sort.Strings(ids)
	return ids
}

// ---- helpers ---------------------------------------------------------------

func (c *Ctx) pos(p token.Pos) string { return c.P.Pos(p) }

// fn resolves an exported function; records an undecided obligation if absent.
func (c *Ctx) fn(rule, rel, name string) *ssa.Function {
	f := c.P.Func(rel, name)
	if f == nil {
		c.S.Unk(rule, "anchor:"+rel+"."+name, "", "anchor function not found (exported API renamed or removed)")
	}
	return f
}

func (c *Ctx) method(rule, rel, typ, name string) *ssa.Function {
	f := c.P.Method(rel, typ, name)
	if f == nil {
		c.S.Unk(rule, "anchor:"+rel+"."+typ+"."+name, "", "anchor method not found (exported API renamed or removed)")
	}
	return f
}

// calleeIs reports whether the call statically calls the function pkgpath.name
// (name may be "(*T).M" or "(T).M" style as printed by ssa).
func calleeIs(call ssa.CallInstruction, full string) bool {
	f := call.Common().StaticCallee()
	if f == nil {
		return false
	}
	if o := f.Origin(); o != nil {
		f = o
	}
	return f.String() == full
}

// invokeIs reports whether call is an interface invoke of method `name` on an
// interface type whose named type is pkgpath.iface ("" iface = any).
func invokeIs(call ssa.CallInstruction, pkgpath, iface, name string) bool {
	cc := call.Common()
	if !cc.IsInvoke() || cc.Method.Name() != name {
		return false
	}
	if iface == "" {
		return true
	}
	return namedIs(cc.Value.Type(), pkgpath, iface) || methodFromIface(cc.Method, pkgpath, iface)
}

func methodFromIface(m *types.Func, pkgpath, iface string) bool {
	if m.Pkg() == nil || m.Pkg().Path() != pkgpath {
		return false
	}
	obj := m.Pkg().Scope().Lookup(iface)
	if obj == nil {
		return false
	}
	it, ok := obj.Type().Underlying().(*types.Interface)
	if !ok {
		return false
	}
	for i := 0; i < it.NumMethods(); i++ {
		if it.Method(i) == m {
			return true
		}
	}
	return false
}

// namedIs reports whether t (possibly behind pointers) is the named type pkgpath.name.
func namedIs(t types.Type, pkgpath, name string) bool {
	for {
		if p, ok := t.(*types.Pointer); ok {
			t = p.Elem()
			continue
		}
		break
	}
	n, ok := t.(*types.Named)
	if !ok {
		return false
	}
	o := n.Obj()
	return o.Name() == name && o.Pkg() != nil && o.Pkg().Path() == pkgpath
}

func repoPath(rel string) string {
	if rel == "" {
		return load.RootModule
	}
	return load.RootModule + "/" + rel
}

// methodCallIs reports a call (static or invoke) of a method named `name` whose
// receiver's named type is pkgpath.typ.
func methodCallIs(call ssa.CallInstruction, pkgpath, typ, name string) bool {
	cc := call.Common()
	if cc.IsInvoke() {
		return invokeIs(call, pkgpath, typ, name)
	}
	f := cc.StaticCallee()
	if f == nil || f.Name() != name || f.Signature.Recv() == nil {
		return false
	}
	return namedIs(f.Signature.Recv().Type(), pkgpath, typ)
}

// errIndex returns the index of the last result if it is of type error, else -1.
func errIndex(sig *types.Signature) int {
	n := sig.Results().Len()
	if n == 0 {
		return -1
	}
	if types.Identical(sig.Results().At(n-1).Type(), types.Universe.Lookup("error").Type()) {
		return n - 1
	}
	return -1
}

// reachable computes the set of functions reachable from roots through the
// program call graph, restricted to functions satisfying keep (nil = repo only).
func (c *Ctx) reachable(roots []*ssa.Function, keep func(*ssa.Function) bool) map[*ssa.Function]bool {
	if keep == nil {
		keep = func(f *ssa.Function) bool { return load.FuncInRepo(f) }
	}
	cg := c.P.CallGraph()
	seen := map[*ssa.Function]bool{}
	var work []*ssa.Function
	for _, r := range roots {
		if r != nil && !seen[r] {
			seen[r] = true
			work = append(work, r)
		}
	}
	for len(work) > 0 {
		f := work[len(work)-1]
		work = work[:len(work)-1]
		n := cg.Nodes[f]
		if n == nil {
			continue
		}
		for _, e := range n.Out {
			g := e.Callee.Func
			if g == nil || seen[g] || !keep(g) {
				continue
			}
			seen[g] = true
			work = append(work, g)
		}
		// go/callgraph (CHA/VTA) does not connect interface invokes to methods of
		// instantiated generic types; add them by type: every instance method
		// whose receiver implements the invoked interface.
		for _, b := range f.Blocks {
			for _, in := range b.Instrs {
				call, ok := in.(ssa.CallInstruction)
				if !ok || !call.Common().IsInvoke() {
					continue
				}
				for _, g := range c.instanceMethods(call.Common().Method.Name()) {
					if seen[g] || !keep(g) {
						continue
					}
					it, ok := call.Common().Value.Type().Underlying().(*types.Interface)
					if !ok || g.Signature.Recv() == nil {
						continue
					}
					if types.Implements(g.Signature.Recv().Type(), it) {
						seen[g] = true
						work = append(work, g)
					}
				}
			}
		}
		// closures created inside f are part of f's behaviour only if called;
		// VTA covers calls. Anonymous functions stored and returned are reached
		// through their MakeClosure sites:
		for _, an := range f.AnonFuncs {
			if !seen[an] && keep(an) {
				seen[an] = true
				work = append(work, an)
			}
		}
	}
	return seen
}

// relevantSet returns the set of repo functions from which an instruction
// satisfying has() is reachable (including the function containing it).
func (c *Ctx) relevantSet(has func(ssa.Instruction) bool) map[*ssa.Function]bool {
	cg := c.P.CallGraph()
	rel := map[*ssa.Function]bool{}
	var work []*ssa.Function
	for _, f := range c.P.RepoFunctions() {
		found := false
		for _, b := range f.Blocks {
			for _, in := range b.Instrs {
				if has(in) {
					found = true
					break
				}
			}
			if found {
				break
			}
		}
		if found {
			rel[f] = true
			work = append(work, f)
		}
	}
	for len(work) > 0 {
		f := work[len(work)-1]
		work = work[:len(work)-1]
		n := cg.Nodes[f]
		if n != nil {
			for _, e := range n.In {
				g := e.Caller.Func
				if g != nil && !rel[g] && load.FuncInRepo(g) {
					rel[g] = true
					work = append(work, g)
				}
			}
		}
		// a closure is "called" by whoever obtains it; mark the parent too so
		// that summaries descend through function values.
		if p := f.Parent(); p != nil && !rel[p] {
			// only the call edges matter; parent relevance is not implied.
			_ = p
		}
	}
	return rel
}

// engine builds an ESP engine for rule r with standard callee resolution.
func (c *Ctx) engine(r *esp.Rule) *esp.Engine {
	if r.Callees == nil {
		r.Callees = c.P.Callees
	}
	return esp.New(r, c.P.Fset, c.P.Pos)
}

// reportEngine turns engine violations into obligations under (rule, construct-prefix).
func (c *Ctx) reportEngine(e *esp.Engine, rule string, construct func(v *esp.Violation) string) int {
	for _, u := range e.Undecided {
		c.S.Unk(rule, "engine", "", u)
	}
	sort.Slice(e.Violations, func(i, j int) bool { return e.Violations[i].Pos < e.Violations[j].Pos })
	for _, v := range e.Violations {
		c.S.Bad(rule, construct(v), c.pos(v.Pos), v.Msg, v.Witness...)
	}
	c.S.Count("configurations", e.Configs)
	return len(e.Violations)
}

func fnConstruct(v *esp.Violation) string { return load.FuncName(v.Fn) }

// funcsCalling lists repo functions (sorted) that contain a call satisfying pred.
func (c *Ctx) funcsCalling(pred func(ssa.CallInstruction) bool) []*ssa.Function {
	var out []*ssa.Function
	for _, f := range c.P.RepoFunctions() {
		if c.isTestFunc(f) {
			continue
		}
		if len(callsIn(f, pred)) > 0 {
			out = append(out, f)
		}
	}
	return out
}

// callsIn lists the call instructions of f satisfying pred.
func callsIn(f *ssa.Function, pred func(ssa.CallInstruction) bool) []ssa.CallInstruction {
	var out []ssa.CallInstruction
	for _, b := range f.Blocks {
		for _, in := range b.Instrs {
			if call, ok := in.(ssa.CallInstruction); ok && pred(call) {
				out = append(out, call)
			}
		}
	}
	return out
}

// isTestFunc reports whether f is declared in a _test.go file or a testing
// support package (mocks/fakes) — used by who-may-call rules to separate
// production code from doubles.
func (c *Ctx) isTestFunc(f *ssa.Function) bool {
	for f.Parent() != nil {
		f = f.Parent()
	}
	pos := f.Pos()
	if !pos.IsValid() {
		if o := f.Origin(); o != nil {
			pos = o.Pos()
		}
	}
	if pos.IsValid() {
		if strings.HasSuffix(c.P.Fset.Position(pos).Filename, "_test.go") {
			return true
		}
	}
	return false
}

func isTestingPkg(rel string) bool {
	return strings.HasPrefix(rel, "testing/") || rel == "testing" || strings.HasSuffix(rel, "test") && rel != ""
}

func fmtState(names []string, s esp.State) string {
	var on []string
	for i, n := range names {
		if s.Has(uint(i)) {
			on = append(on, n)
		}
	}
	return "{" + strings.Join(on, ",") + "}"
}

var _ = fmt.Sprintf

// instanceMethods indexes methods of instantiated generic types by name.
func (c *Ctx) instanceMethods(name string) []*ssa.Function {
	if c.instIdx == nil {
		c.instIdx = map[string][]*ssa.Function{}
		for f := range c.P.AllFunctions() {
			if strings.HasPrefix(f.Synthetic, "instance of") && f.Signature.Recv() != nil && f.Blocks != nil && load.FuncInRepo(f) {
				n := f.Name()
				if o := f.Origin(); o != nil {
					n = o.Name()
				}
				c.instIdx[n] = append(c.instIdx[n], f)
			}
		}
		for _, l := range c.instIdx {
			sort.Slice(l, func(i, j int) bool { return l[i].String() < l[j].String() })
		}
	}
	return c.instIdx[name]
}

// borrow runs another property's rule set in a sub-context and imports the obligations whose rule passes keep
// (nil = all) under the name prefix+rule. Used where one structural condition is a necessary condition of two
// properties (e.g. "the SNP validator is registered as required" for C01 and C02): a change that breaks it is
// reported by either check. The imported obligations carry this property's id; floors are not imported.
func (c *Ctx) borrow(prefix string, run func(*Ctx), keep func(rule, construct string) bool) int {
	if c.nested {
		return 0
	}
	sub := *c
	sub.nested = true
	sub.S = report.NewSet(c.S.Property)
	run(&sub)
	n := 0
	for _, o := range sub.S.Obs {
		if strings.HasPrefix(o.Construct, "floor:") && o.Status == report.Discharged {
			continue
		}
		if keep != nil && !keep(o.Rule, o.Construct) {
			continue
		}
		o.Rule = prefix + o.Rule
		c.S.Obs = append(c.S.Obs, o)
		n++
	}
	for k, v := range sub.S.Counters {
		c.S.Counters[k] += v
	}
	return n
}

// validatorBodies: the functions whose value a validator maker m may return — anonymous functions of m with the
// validator signature, and methods / named functions that m turns into a function value (bound method wrappers
// are resolved to the method they wrap). This is what "the validation function" is, whichever way it is written.
func validatorBodies(m *ssa.Function) []*ssa.Function {
	seen := map[*ssa.Function]bool{}
	var out []*ssa.Function
	add := func(f *ssa.Function) {
		if f != nil && f.Blocks != nil && !seen[f] && isValidatorSig(f.Signature) {
			seen[f] = true
			out = append(out, f)
		}
	}
	resolve := func(f *ssa.Function) *ssa.Function {
		if f == nil {
			return nil
		}
		if strings.Contains(f.Synthetic, "bound method wrapper") || strings.HasSuffix(f.Name(), "$bound") {
			for _, b := range f.Blocks {
				for _, in := range b.Instrs {
					if call, ok := in.(ssa.CallInstruction); ok {
						if g := call.Common().StaticCallee(); g != nil {
							return g
						}
					}
				}
			}
			return nil
		}
		return f
	}
	for _, an := range m.AnonFuncs {
		add(an)
	}
	for _, b := range m.Blocks {
		for _, in := range b.Instrs {
			switch x := in.(type) {
			case *ssa.MakeClosure:
				if fn, ok := x.Fn.(*ssa.Function); ok {
					add(resolve(fn))
				}
			case *ssa.Return:
				for _, r := range x.Results {
					if fn, ok := r.(*ssa.Function); ok {
						add(resolve(fn))
					}
				}
			}
		}
	}
	return out
}

// validatorMakers: production functions returning a value of validator type.
func (c *Ctx) validatorMakers() []*ssa.Function {
	var makers []*ssa.Function
	for _, f := range c.P.RepoFunctions() {
		if c.isTestFunc(f) || isTestingPkg(load.RelPkg(f)) || f.Parent() != nil {
			continue
		}
		res := f.Signature.Results()
		if res.Len() == 1 && isValidatorSig(res.At(0).Type()) {
			makers = append(makers, f)
		}
	}
	return makers
}

// noGlobalWrites: no write in the repo call closure of root goes to a package-level variable (the computation keeps
// no state outside the call, so its result is a function of its inputs whatever else runs or ran).
func (c *Ctx) noGlobalWrites(rule string, root *ssa.Function) {
	if root == nil {
		return
	}
	clo := c.reachable([]*ssa.Function{root}, nil)
	eff := &flow.Effects{P: c.P, Funcs: clo, Roots: map[*ssa.Function]bool{root: true}}
	ws := eff.Writes()
	bad := 0
	for _, w := range ws {
		for _, rt := range w.Shared() {
			if rt.Kind == flow.GlobalRoot {
				bad++
				c.S.Bad(rule, load.FuncName(root)+"→"+load.FuncName(w.Fn)+":writes package-level state", c.pos(w.Instr.Pos()), fmt.Sprintf("the computation writes %s of package-level variable %s: its result is no longer a function of its inputs (concurrent or earlier computations interfere)", w.What, rt.V.Name()))
			}
		}
	}
	if bad == 0 {
		c.S.OK(rule, load.FuncName(root)+":no package-level state", c.pos(root.Pos()), fmt.Sprintf("%d writes in the closure, none to a package-level variable", len(ws)), true)
	}
}

// wholeFileWrites: the file-opening primitives in the call closures of roots replace a file's contents: os.WriteFile /
// os.Create, or os.OpenFile with O_TRUNC and without O_APPEND when opened for writing. A write that keeps the tail of
// a longer previous version leaves bytes behind the new contents. Returns the number of opening calls examined.
func (c *Ctx) wholeFileWrites(rule string, roots []*ssa.Function) int {
	nOpen := 0
	for _, f := range roots {
		clo := c.reachable([]*ssa.Function{f}, nil)
		var gs []*ssa.Function
		for g := range clo {
			if g != nil {
				gs = append(gs, g)
			}
		}
		sort.Slice(gs, func(i, j int) bool { return gs[i].Pos() < gs[j].Pos() })
		for _, g := range gs {
			for _, call := range callsIn(g, func(call ssa.CallInstruction) bool {
				cal := call.Common().StaticCallee()
				return cal != nil && cal.Pkg != nil && cal.Pkg.Pkg.Path() == "os" && (cal.Name() == "OpenFile" || cal.Name() == "WriteFile" || cal.Name() == "Create")
			}) {
				nOpen++
				cal := call.Common().StaticCallee()
				if cal.Name() != "OpenFile" {
					c.S.OK(rule, load.FuncName(f)+"→"+load.FuncName(g)+":os."+cal.Name(), c.pos(call.Pos()), "replaces the file's contents", false)
					continue
				}
				// the flags: a constant here, or a parameter of a small opening helper that every caller inside this
				// closure hands a constant
				var flagVals []int64
				flagsKnown := false
				switch a := call.Common().Args[1].(type) {
				case *ssa.Const:
					if a.Value != nil {
						flagVals, flagsKnown = []int64{a.Int64()}, true
					}
				case *ssa.Parameter:
					idx := -1
					for i, q := range g.Params {
						if q == a {
							idx = i
						}
					}
					if node := c.P.CallGraph().Nodes[g]; node != nil && idx >= 0 {
						flagsKnown = true
						for _, e := range node.In {
							if e.Site == nil || !clo[e.Caller.Func] {
								continue
							}
							if e.Site.Common().StaticCallee() != g || idx >= len(e.Site.Common().Args) {
								flagsKnown = false
								continue
							}
							if k, ok := e.Site.Common().Args[idx].(*ssa.Const); ok && k.Value != nil {
								flagVals = append(flagVals, k.Int64())
							} else {
								flagsKnown = false
							}
						}
						if len(flagVals) == 0 {
							flagsKnown = false
						}
					}
				}
				okFlags := false
				detail := "the open flags are not a constant"
				okAll := flagsKnown
				for _, fl := range flagVals {
					if !flagsKnown {
						break
					}
					okFlags = false
					oWronly, ok1 := c.extConstInt("os", "O_WRONLY")
					oRdwr, ok2 := c.extConstInt("os", "O_RDWR")
					oTrunc, ok3 := c.extConstInt("os", "O_TRUNC")
					oAppend, ok4 := c.extConstInt("os", "O_APPEND")
					if ok1 && ok2 && ok3 && ok4 {
						writes := fl&(oWronly|oRdwr) != 0
						okFlags = !writes || (fl&oTrunc != 0 && fl&oAppend == 0)
						detail = fmt.Sprintf("opened for writing with flags %#x: no O_TRUNC (or O_APPEND): bytes of a longer previous version survive behind the new contents", fl)
						// create-or-fail (O_EXCL) writes a new file wholly too — unless "already exists" is then taken for
						// success, which keeps the old contents while the caller believes the new ones are stored
						if oExcl, okx := c.extConstInt("os", "O_EXCL"); okx && writes && fl&oExcl != 0 && fl&oAppend == 0 {
							okFlags = true
							if cv := call.Value(); cv != nil {
								for _, r := range nonDebugRefs(cv) {
									ex, isEx := r.(*ssa.Extract)
									if !isEx || ex.Index != 1 {
										continue
									}
									for _, u := range nonDebugRefs(ex) {
										if uc, isCall := u.(*ssa.Call); isCall {
											if g := uc.Call.StaticCallee(); g != nil && (g.String() == "errors.Is" || g.String() == "os.IsExist") {
												okFlags = false
												detail = "opened with O_EXCL and the 'already exists' error is tested and turned into success: the file keeps its old contents while the caller is told the new ones were stored"
											}
										}
									}
								}
							}
						}
					} else {
						detail = "os.O_* constants not found"
					}
					okAll = okAll && okFlags
					if !okFlags {
						break
					}
				}
				okFlags = okAll
				c.S.Check(okFlags, rule, load.FuncName(f)+"→"+load.FuncName(g)+":os.OpenFile", c.pos(call.Pos()), "opened with O_TRUNC", detail)
			}
		}
	}
	return nOpen
}

// marshalSite is a place in fn where the golden measurement is serialised: a proto.Marshal call in fn itself, or a
// call of an unexported same-package helper that marshals the document it is given and returns those bytes as its
// first result (sealDoc(doc, …) ([]byte, error)).
type marshalSite struct {
	site     *ssa.Call     // the call in fn whose result #0 are the bytes
	inner    *ssa.Call     // the proto.Marshal call (== site when fn marshals itself)
	helper   *ssa.Function // nil when fn marshals itself
	docParam int           // index of the helper parameter that is marshalled
}

func (c *Ctx) goldenMarshalSites(fn *ssa.Function, epbPkg string) []marshalSite {
	isMarshal := func(call ssa.CallInstruction) bool {
		return calleeIs(call, "google.golang.org/protobuf/proto.Marshal") && typeMentions(call.Common().Args[0], epbPkg, "VMGoldenMeasurement")
	}
	var out []marshalSite
	for _, call := range callsIn(fn, func(call ssa.CallInstruction) bool { return true }) {
		cv, ok := call.(*ssa.Call)
		if !ok {
			continue
		}
		if isMarshal(call) {
			out = append(out, marshalSite{site: cv, inner: cv, docParam: -1})
			continue
		}
		g := call.Common().StaticCallee()
		if g == nil || g.Pkg != fn.Pkg || g.Blocks == nil || (g.Object() != nil && g.Object().Exported()) {
			continue
		}
		ms := callsIn(g, isMarshal)
		if len(ms) != 1 {
			continue
		}
		inner := ms[0].(*ssa.Call)
		doc := unwrapIface(inner.Call.Args[0])
		dp := -1
		for i, p := range g.Params {
			if ssa.Value(p) == doc {
				dp = i
			}
		}
		if dp < 0 {
			continue
		}
		// every return hands back the marshal result itself (or nil with an error)
		okRet := true
		for _, b := range g.Blocks {
			ret, isRet := b.Instrs[len(b.Instrs)-1].(*ssa.Return)
			if !isRet || len(ret.Results) == 0 {
				continue
			}
			r0 := ret.Results[0]
			if k, isK := r0.(*ssa.Const); isK && k.IsNil() {
				continue
			}
			if ex, isEx := r0.(*ssa.Extract); !isEx || ex.Tuple != ssa.Value(inner) || ex.Index != 0 {
				okRet = false
			}
		}
		if okRet {
			out = append(out, marshalSite{site: cv, inner: inner, helper: g, docParam: dp})
		}
	}
	return out
}

// workspaceCell makes "the ChangeOps field of a struct of package endorse" a tracked cell (flag idx) of an ESP rule:
// an attempt record that keeps its workspace in a field (attempt.cops) is followed through its methods as the local
// variable it replaces was. One cell for all such objects: the rules that use it look at one attempt at a time.
func workspaceCell(r *esp.Rule, idx int) {
	endorsePkg := repoPath("endorse")
	isWSField := func(fa *ssa.FieldAddr) bool {
		pt, ok := fa.X.Type().Underlying().(*types.Pointer)
		if !ok {
			return false
		}
		n, ok := pt.Elem().(*types.Named)
		if !ok || n.Obj().Pkg() == nil || n.Obj().Pkg().Path() != endorsePkg || n.Obj().Name() == "Context" {
			return false
		}
		st, ok := n.Underlying().(*types.Struct)
		return ok && fa.Field < st.NumFields() && namedIs(st.Field(fa.Field).Type(), endorsePkg, "ChangeOps")
	}
	prevFlag := r.Flag
	r.Flag = func(v ssa.Value) (int, bool) {
		if u, ok := v.(*ssa.UnOp); ok && u.Op == token.MUL {
			if fa, ok := u.X.(*ssa.FieldAddr); ok && isWSField(fa) {
				return idx, true
			}
		}
		if prevFlag != nil {
			return prevFlag(v)
		}
		return 0, false
	}
	r.FieldFlag = func(fa *ssa.FieldAddr) (int, bool) {
		if isWSField(fa) {
			return idx, true
		}
		return 0, false
	}
	r.AllocFlags = func(t types.Type) []int {
		n, ok := t.(*types.Named)
		if !ok || n.Obj().Pkg() == nil || n.Obj().Pkg().Path() != endorsePkg || n.Obj().Name() == "Context" {
			return nil
		}
		st, ok := n.Underlying().(*types.Struct)
		if !ok {
			return nil
		}
		for i := 0; i < st.NumFields(); i++ {
			if namedIs(st.Field(i).Type(), endorsePkg, "ChangeOps") {
				return []int{idx}
			}
		}
		return nil
	}
}

// recordBoolCells makes the boolean fields of the unexported struct types of one package tracked cells of an ESP
// rule (flags base, base+1, … in order of first appearance): a decision computed first and applied later
// (update.setMeasurement) is followed from the store in the computing function to the test in the applying one.
// It returns the predicate "this instruction stores such a field", for the rule's relevant set. One cell per field
// for all records of the type: the rules that use it look at one derivation at a time.
func recordBoolCells(c *Ctx, r *esp.Rule, base int, rel string) func(ssa.Instruction) bool {
	idx := map[flow.FieldKey]int{}
	var types_ []types.Type
	cellOf := func(fa *ssa.FieldAddr) (int, bool) {
		pt, ok := fa.X.Type().Underlying().(*types.Pointer)
		if !ok {
			return 0, false
		}
		n, ok := pt.Elem().(*types.Named)
		if !ok || n.Obj().Pkg() == nil || n.Obj().Pkg().Path() != repoPath(rel) || n.Obj().Exported() {
			return 0, false
		}
		st, ok := n.Underlying().(*types.Struct)
		if !ok || fa.Field >= st.NumFields() || st.Field(fa.Field).Type().String() != "bool" {
			return 0, false
		}
		k := flow.StructFieldKey(fa.X.Type(), fa.Field)
		i, ok := idx[k]
		if !ok {
			if base+len(idx) > 14 {
				return 0, false
			}
			i = base + len(idx)
			idx[k] = i
			types_ = append(types_, n)
		}
		return i, true
	}
	// assign indices deterministically: scan the package once
	for _, f := range c.P.RepoFunctions() {
		if load.RelPkg(f) != rel || c.isTestFunc(f) {
			continue
		}
		for _, b := range f.Blocks {
			for _, in := range b.Instrs {
				if fa, ok := in.(*ssa.FieldAddr); ok {
					cellOf(fa)
				}
			}
		}
	}
	prevFlag := r.Flag
	r.Flag = func(v ssa.Value) (int, bool) {
		if u, ok := v.(*ssa.UnOp); ok && u.Op == token.MUL {
			if fa, ok := u.X.(*ssa.FieldAddr); ok {
				if i, ok := cellOf(fa); ok {
					return i, true
				}
			}
		}
		if prevFlag != nil {
			return prevFlag(v)
		}
		return 0, false
	}
	r.FieldFlag = cellOf
	r.AllocFlags = func(t types.Type) []int {
		var out []int
		for k, i := range idx {
			if k.Struct == types.TypeString(t, nil) {
				out = append(out, i)
			}
		}
		sort.Ints(out)
		return out
	}
	return func(in ssa.Instruction) bool {
		st, ok := in.(*ssa.Store)
		if !ok {
			return false
		}
		fa, ok := st.Addr.(*ssa.FieldAddr)
		if !ok {
			return false
		}
		_, ok = cellOf(fa)
		return ok
	}
}

// ---- storage writes of sign/gcsca, seen through thin writing helpers ----
//
// A *raw writer* is a function of sign/gcsca that does nothing to storage but write one object whose name is one of
// its own parameters (put(ctx, object, data)): it makes no existence probe. The logical storage write is then the call
// of that helper, with the argument in the name parameter's place as the object name; the ops.WriteFile inside the
// helper is not a write site of its own.

// gcscaRawWriters returns the raw writers and, for each, the index of the parameter that names the object.
func (c *Ctx) gcscaRawWriters() map[*ssa.Function]int {
	if c.rawWriters != nil {
		return c.rawWriters
	}
	out := map[*ssa.Function]int{}
	storPkg := repoPath("storage/storagei")
	wf := c.P.Func("storage/ops", "WriteFile")
	for _, f := range c.P.RepoFunctions() {
		if load.RelPkg(f) != "sign/gcsca" || c.isTestFunc(f) || f.Blocks == nil {
			continue
		}
		if len(callsIn(f, func(call ssa.CallInstruction) bool { return invokeIs(call, storPkg, "Client", "Exists") })) > 0 {
			continue
		}
		ws := callsIn(f, func(call ssa.CallInstruction) bool {
			return (wf != nil && call.Common().StaticCallee() == wf) || invokeIs(call, storPkg, "Client", "Writer")
		})
		if len(ws) != 1 {
			continue
		}
		args := ws[0].Common().Args
		var name ssa.Value
		if ws[0].Common().StaticCallee() == wf && len(args) >= 4 {
			name = args[3]
		} else if len(args) >= 3 {
			name = args[2]
		}
		prm, ok := name.(*ssa.Parameter)
		if !ok {
			continue
		}
		for i, q := range f.Params {
			if q == prm {
				out[f] = i
			}
		}
	}
	c.rawWriters = out
	return out
}

// gcscaWriteName: call is a logical storage write of sign/gcsca; returns the value naming the object written.
func (c *Ctx) gcscaWriteName(call ssa.CallInstruction) (ssa.Value, bool) {
	storPkg := repoPath("storage/storagei")
	wf := c.P.Func("storage/ops", "WriteFile")
	raw := c.gcscaRawWriters()
	if g := call.Common().StaticCallee(); g != nil {
		if i, ok := raw[g]; ok && i < len(call.Common().Args) {
			return call.Common().Args[i], true
		}
	}
	if call.Parent() != nil {
		if _, inRaw := raw[call.Parent()]; inRaw {
			return nil, false // the helper's own write is represented by the helper's call sites
		}
	}
	args := call.Common().Args
	if wf != nil && call.Common().StaticCallee() == wf && len(args) >= 4 {
		return args[3], true
	}
	if invokeIs(call, storPkg, "Client", "Writer") && len(args) >= 3 {
		return args[2], true
	}
	return nil, false
}

func (c *Ctx) gcscaIsWrite(call ssa.CallInstruction) bool {
	_, ok := c.gcscaWriteName(call)
	return ok
}

// gcscaGates: the functions of sign/gcsca that probe for existence and contain a logical storage write.
func (c *Ctx) gcscaGates() map[*ssa.Function]bool {
	storPkg := repoPath("storage/storagei")
	gates := map[*ssa.Function]bool{}
	for _, f := range c.funcsCalling(func(call ssa.CallInstruction) bool { return invokeIs(call, storPkg, "Client", "Exists") }) {
		if load.RelPkg(f) == "sign/gcsca" && !c.isTestFunc(f) && len(callsIn(f, c.gcscaIsWrite)) > 0 {
			gates[f] = true
		}
	}
	return gates
}
