package rules

import (
	"fmt"
	"go/types"
	"strings"

	"golang.org/x/tools/go/ssa"

	"verif/checker/esp"
	"verif/checker/flow"
	"verif/checker/load"
)

func init() {
	register(&RuleSet{
		ID: "C09",
		Explanation: "R1 (effect / pointer-provenance analysis): for every function that returns a validator func(*sevsnp.Attestation, []byte) error, the returned closure's whole repo call closure performs no store, map update or copy whose written object has a root other than memory allocated during that call (locals, literals, clones, results of external constructors) or the closure's own per-call parameters; the maker itself writes nothing through its parameters. Captured variables, caller-provided options, pointers loaded from them and globals are shared roots. " +
			"R2: callers of a maker in gcetcbendorsement pass an options object allocated in the same call. " +
			"R4: the exported validation entry points of gcetcbendorsement (functions taking a *…ValidateOptions) and their repo call closure write only to objects allocated during the call — nothing is cached in the options value the caller shares between validations. " +
			"R3: no package-level variable of verify, gcetcbendorsement, extract/... is written outside package initialisation. " +
			"Under the Go memory model, no shared write ⇒ no data race and no cross-call state, for every interleaving. " +
			"R5 lock pairing (ESP): a function of the verifier packages that takes a sync mutex releases it on every path to a return (directly or deferred). " +
			"Not covered: state inside external libraries (go-sev-guest, x509), unsafe/reflection writes.",
		Assumptions: []string{"go/types, go/ssa, VTA call graph", "Go memory model", "external callees write only to objects passed to them (proto.Unmarshal writes the fresh message)", "interface-method results are not aliases of shared repo state"},
		Run:         runC09,
	})
}

func isValidatorSig(t types.Type) bool {
	sig, ok := t.Underlying().(*types.Signature)
	if !ok || sig.Params().Len() != 2 || sig.Results().Len() != 1 {
		return false
	}
	return namedIs(sig.Params().At(0).Type(), "github.com/google/go-sev-guest/proto/sevsnp", "Attestation") &&
		sig.Params().At(1).Type().String() == "[]byte" && sig.Results().At(0).Type().String() == "error"
}

func runC09(c *Ctx) {
	var makers []*ssa.Function
	for _, f := range c.P.RepoFunctions() {
		if c.isTestFunc(f) || isTestingPkg(load.RelPkg(f)) || f.Parent() != nil {
			continue
		}
		res := f.Signature.Results()
		if res.Len() == 1 && isValidatorSig(res.At(0).Type()) {
			makers = append(makers, f)
		}
	}
	c.S.Floor("R1", "validator makers (functions returning func(*Attestation, []byte) error)", 2, len(makers))
	isMaker := map[*ssa.Function]bool{}
	for _, m := range makers {
		isMaker[m] = true
	}
	nclos := 0
	for _, m := range makers {
		mname := load.FuncName(m)
		// the maker itself
		{
			clo := c.reachable([]*ssa.Function{m}, func(f *ssa.Function) bool { return load.FuncInRepo(f) && f.Parent() == nil })
			delete(clo, nil)
			eff := &flow.Effects{P: c.P, Funcs: clo, Roots: map[*ssa.Function]bool{m: true}}
			bad := 0
			ws := eff.Writes()
			for _, w := range ws {
				if sh := w.Shared(); len(sh) > 0 {
					bad++
					c.S.Bad("R1", mname+":maker writes "+w.What, c.pos(w.Instr.Pos()), fmt.Sprintf("the validator maker writes %s of an object rooted at %s (%s): callers sharing the options race and see each other's state", w.What, sh[0].Kind, sh[0].V.Name()))
				}
			}
			if bad == 0 {
				c.S.OK("R1", mname+":maker", c.pos(m.Pos()), fmt.Sprintf("%d writes in its closure, all to call-local objects", len(ws)), true)
			}
		}
		for _, an := range validatorBodies(m) {
			nclos++
			name := load.FuncName(an)
			clo := c.reachable([]*ssa.Function{an}, nil)
			eff := &flow.Effects{P: c.P, Funcs: clo, Roots: map[*ssa.Function]bool{an: true}}
			ws := eff.Writes()
			bad := 0
			for _, w := range ws {
				var sh []flow.Root
				for _, r := range w.Shared() {
					if p, ok := r.V.(*ssa.Parameter); ok && r.Kind == flow.Param && p.Parent() == an {
						if an.Signature.Recv() == nil || len(an.Params) == 0 || p != an.Params[0] {
							continue // the call's own attestation / blob
						}
						// the receiver of a method used as the validation function is shared by all its calls
					}
					sh = append(sh, r)
				}
				if len(sh) > 0 {
					bad++
					c.S.Bad("R1", name+"→"+load.FuncName(w.Fn)+":writes "+w.What, c.pos(w.Instr.Pos()), fmt.Sprintf("validator call writes %s of an object shared between calls (root: %s %s): concurrent or successive validations interfere", w.What, sh[0].Kind, describeRoot(sh[0])))
				}
			}
			c.S.Count("writes_classified", len(ws))
			if bad == 0 {
				c.S.OK("R1", name+":closure", c.pos(an.Pos()), fmt.Sprintf("%d writes in a closure of %d functions, all to per-call objects", len(ws), len(clo)), true)
			}
		}
	}
	c.S.Floor("R1", "validator closures", 1, nclos)

	// R2: callers hand makers a fresh options object
	ncall := 0
	for _, f := range c.P.RepoFunctions() {
		if c.isTestFunc(f) || isTestingPkg(load.RelPkg(f)) || isMaker[f] {
			continue
		}
		for _, call := range callsIn(f, func(call ssa.CallInstruction) bool { return isMaker[call.Common().StaticCallee()] }) {
			ncall++
			// the options object may be built by an unexported helper of the package (a literal returned by a method
			// of the caller's options): what f's region allocates is allocated in this call
			funcs := map[*ssa.Function]bool{}
			for _, rf := range unexportedRegion(f) {
				funcs[rf] = true
			}
			eff := &flow.Effects{P: c.P, Funcs: funcs, Roots: map[*ssa.Function]bool{f: true}}
			ok := true
			for _, a := range call.Common().Args {
				if _, isPtr := a.Type().Underlying().(*types.Pointer); !isPtr {
					continue
				}
				for _, w := range []ssa.Value{a} {
					e2 := eff
					roots := e2.ProvenanceOf(w, f)
					for _, r := range roots {
						if r.Kind != flow.Fresh {
							ok = false
						}
					}
				}
			}
			c.S.Check(ok, "R2", load.FuncName(f)+":options for "+call.Common().StaticCallee().Name(), c.pos(call.Pos()), "validator options allocated in this call", "the validator maker is handed an options object that outlives this call (shared between validations)")
		}
	}
	c.S.Floor("R2", "maker call sites outside package verify's makers", 1, ncall)

	// R4: the exported validation entry points themselves keep no state in what the caller shares
	// ("validators sharing an options value"): SevValidate / TdxValidate and everything they reach in
	// the repository write only to objects allocated during the call.
	nEntry := 0
	for _, f := range c.P.RepoFunctions() {
		if load.RelPkg(f) != "gcetcbendorsement" || c.isTestFunc(f) || f.Parent() != nil || f.Object() == nil || !f.Object().Exported() || f.Signature.Recv() != nil {
			continue
		}
		// exported functions taking an attestation/quote and an options pointer, returning error
		takesAtt, takesOpts := false, false
		for _, p := range f.Params {
			if namedIs(p.Type(), "github.com/google/go-sev-guest/proto/sevsnp", "Attestation") || namedIs(p.Type(), "github.com/google/go-tdx-guest/proto/tdx", "QuoteV4") || strings.HasSuffix(p.Type().String(), "go-tdx-guest/proto/tdx.QuoteV4") {
				takesAtt = true
			}
			if pt, ok := p.Type().Underlying().(*types.Pointer); ok {
				if n, ok := pt.Elem().(*types.Named); ok && strings.HasSuffix(n.Obj().Name(), "ValidateOptions") {
					takesOpts = true
				}
			}
		}
		if !takesOpts || errIndex(f.Signature) < 0 {
			continue
		}
		_ = takesAtt
		nEntry++
		name := load.FuncName(f)
		clo := c.reachable([]*ssa.Function{f}, nil)
		eff := &flow.Effects{P: c.P, Funcs: clo, Roots: map[*ssa.Function]bool{f: true}}
		ws := eff.Writes()
		bad, unresolved := 0, 0
		for _, w := range ws {
			var sh []flow.Root
			for _, r := range w.Shared() {
				if p, ok := r.V.(*ssa.Parameter); ok && r.Kind == flow.Param && p.Parent() != f {
					// a parameter of an inner function that has no call edge in the graph (methods of
					// instantiated generic types reached through an interface): its object cannot be
					// traced to the entry point's arguments; counted, not reported
					unresolved++
					continue
				}
				sh = append(sh, r)
			}
			if len(sh) > 0 {
				bad++
				c.S.Bad("R4", name+"→"+load.FuncName(w.Fn)+":writes "+w.What, c.pos(w.Instr.Pos()), fmt.Sprintf("the validation entry point writes %s of an object that outlives the call (root: %s %s): validations sharing that options value see each other's state", w.What, sh[0].Kind, describeRoot(sh[0])))
			}
		}
		if bad == 0 {
			c.S.OK("R4", name+":entry point", c.pos(f.Pos()), fmt.Sprintf("%d writes in a closure of %d functions, all to per-call objects (%d through receivers of generic-instance methods that the call graph cannot trace)", len(ws), len(clo), unresolved), true)
		}
	}
	c.S.Floor("R4", "exported validation entry points taking a *…ValidateOptions", 2, nEntry)

	// R3: globals
	nglob, badg := 0, 0
	for _, f := range c.P.RepoFunctions() {
		rel := load.RelPkg(f)
		if c.isTestFunc(f) || !(rel == "verify" || rel == "gcetcbendorsement" || strings.HasPrefix(rel, "extract")) {
			continue
		}
		if f.Synthetic != "" || f.Name() == "init" || strings.HasPrefix(f.Name(), "init#") {
			continue
		}
		for _, b := range f.Blocks {
			for _, in := range b.Instrs {
				if st, ok := in.(*ssa.Store); ok {
					if g, ok := baseGlobal(st.Addr); ok {
						nglob++
						badg++
						c.S.Bad("R3", load.FuncName(f)+":global "+g.Name(), c.pos(st.Pos()), "package-level state written outside initialisation")
					}
				}
			}
		}
	}
	if badg == 0 {
		c.S.OK("R3", "verify, gcetcbendorsement, extract/*: globals", "", "no package-level variable written outside init", true)
	}

	// R5: lock pairing. Wherever the verifier packages take a sync.Mutex / RWMutex, every path to a return
	// releases it (directly or by defer): a validation that fails early with the lock held would block every later
	// and concurrent validation — whose outcome then depends on another call's fault, not on its own inputs.
	nLock := 0
	isLockCall := func(call ssa.CallInstruction) (bool, bool) {
		cal := call.Common().StaticCallee()
		if cal == nil || cal.Signature.Recv() == nil || cal.Pkg == nil || cal.Pkg.Pkg.Path() != "sync" {
			return false, false
		}
		switch cal.Name() {
		case "Lock", "RLock":
			return true, false
		case "Unlock", "RUnlock":
			return false, true
		}
		return false, false
	}
	for _, f := range c.P.RepoFunctions() {
		rel := load.RelPkg(f)
		if c.isTestFunc(f) || isTestingPkg(rel) || !(rel == "verify" || strings.HasPrefix(rel, "gcetcbendorsement") || strings.HasPrefix(rel, "extract")) {
			continue
		}
		if len(callsIn(f, func(call ssa.CallInstruction) bool { l, _ := isLockCall(call); return l })) == 0 {
			continue
		}
		nLock++
		const bHeld uint = 0
		r := &esp.Rule{Name: "C09.R5"}
		r.Relevant = func(*ssa.Function) bool { return false }
		r.Match = func(in ssa.Instruction) []esp.Ev {
			call, ok := in.(ssa.CallInstruction)
			if !ok {
				return nil
			}
			if l, u := isLockCall(call); l {
				return []esp.Ev{{ID: 0, Name: "lock", ErrIdx: -1, BoolIdx: -1}}
			} else if u {
				return []esp.Ev{{ID: 1, Name: "unlock", ErrIdx: -1, BoolIdx: -1}}
			}
			return nil
		}
		r.Step = func(x *esp.Ctx, s esp.State, ev esp.Ev, ph esp.Phase) (esp.State, string) {
			if ph != esp.AtCall {
				return s, ""
			}
			if ev.ID == 0 {
				return s.Set(bHeld), ""
			}
			return s.Clear(bHeld), ""
		}
		r.AtReturn = func(x *esp.Ctx, s esp.State, rets []esp.Abs) string {
			if s.Has(bHeld) {
				return "R5: the function can return with the mutex still held: every later or concurrent call that needs the lock blocks for ever"
			}
			return ""
		}
		e := c.engine(r)
		e.Run(f, esp.State{})
		if c.reportEngine(e, "R5", func(v *esp.Violation) string { return load.FuncName(f) + ":lock released" }) == 0 {
			c.S.OK("R5", load.FuncName(f)+":lock released", c.pos(f.Pos()), "every return releases the lock", true)
		}
	}
	c.S.Count("functions_taking_a_lock", nLock)
	if nLock == 0 {
		c.S.OK("R5", "verifier packages:lock pairing", "", "no mutex is taken in verify, gcetcbendorsement, extract/* (nothing to pair)", false)
	}
}

func baseGlobal(addr ssa.Value) (*ssa.Global, bool) {
	for i := 0; i < 8; i++ {
		switch a := addr.(type) {
		case *ssa.Global:
			return a, true
		case *ssa.FieldAddr:
			addr = a.X
		case *ssa.IndexAddr:
			addr = a.X
		default:
			return nil, false
		}
	}
	return nil, false
}

func describeRoot(r flow.Root) string {
	if p, ok := r.V.(*ssa.Parameter); ok {
		return p.Name() + " of " + load.FuncName(p.Parent())
	}
	return r.V.Name()
}
