package rules

import (
	"fmt"
	"go/constant"
	"go/token"
	"go/types"
	"strings"

	"golang.org/x/tools/go/ssa"

	"verif/checker/esp"
	"verif/checker/flow"
	"verif/checker/load"
)

func init() {
	register(&RuleSet{
		ID: "C16",
		Explanation: "R11 a report the extraction library makes up itself (the placeholder for a bare certificate table) never carries a measurement of the real size (48 bytes): a fabricated value of that size passes the length test of the object-name derivation and names an object no launch measurement stands behind. " +
			"R1 naming: extractsev.GCETcbObjectName / extracttdx.GCETcbObjectName / verify.GCETcbURL are built only from string constants and the parameter, the measurement enters only through hex.EncodeToString, and the SEV and TDX technology segments are different constants of the form <tech>/%s.binarypb. " +
			"R2 fetch only for full-length measurements: every HTTPSGetter.Get in extract, verify and gcetcbendorsement whose URL derives from GCETcbURL — the origins of its object-name operand are enumerated; each origin that is a GCETcbObjectName(m) call must, at its own site, be dominated by the equal edge of a comparison of len(m) with 48 for that same m; a constant (empty) origin requires the Get to be dominated by name != \"\"; any other origin is a violation. " +
			"R3 local first, verbatim (ESP on extract.Endorsement): no Get on a path where event-log evidence or quote evidence was found and ForceFetch is known false; returned evidence is the callee's result value itself. " +
			"R3c with ForceFetch known true, extract.Endorsement returns success only after a successful network Get (a forced fetch never degrades to local evidence). " +
			"R3b in the event-log lookup at most one locator is resolved per call (the first match in precedence order decides; a failed local locator does not fall through to the network one). R4 confinement: in extract/eventlog every os file access takes a path produced by securejoin.SecureJoin rooted at the reader's Root (error checked). " +
			"R4b in the call closure of the event-log locator local evidence is read whole (no io.LimitReader / LimitedReader / CopyN, which truncate silently). " +
			"R7 what package extract hands to the binary attestation parsers has no byte-normalising step (Trim*, To*, Replace*, Fields) in its history. " +
			"R8 an absent source stays absent: the functions of the extraction and verification libraries (extract, extract/eventlog, extract/extractsev, extract/extracttdx, verify) that are handed options carrying a network getter or a UEFI-variable reader (a parameter whose struct has a field of type trust.HTTPSGetter / verify.HTTPSGetter / exel.VariableReader) manufacture no such source in their call closure (no conversion of a concrete type to one of these interfaces, no call of an external function returning one): a nil Getter stays nil and is refused, it is not replaced by a default that goes to the network. " +
			"R10 the event-log collector of extract/eventlog skips an event only on conditions computed from that event: no condition of its loop consults a map filled, or a value carried, by earlier iterations. " +
			"R9 an absent source is reported, not called: every method call through an interface-typed field of an options parameter (Getter, UEFIVariableReader, Provider) in extract, extract/eventlog, verify, gcetcbendorsement is dominated by the non-nil edge of a nil test of that field (finding F26). " +
			"R6 (= C18.R9, eventlog encoders) encoding an event does not modify it. " +
			"R5b the events maker's result is published as file contents in the invocation that computed it and is never stored into a field or global (no unkeyed cache of events across firmwares). " +
			"R5 emitted events: both SP800-155 events are built with one GUID value; the URI locator is GCETcbURL of a name derived from hex(golden digest). " +
			"Not covered: parse-back equality of emitted events, symlink behaviour (securejoin trusted), the URL the firmware itself emitted in an event log (exel.Locate fetches it as is).",
		Assumptions: []string{"go/types, go/ssa", "securejoin.SecureJoin confines the joined path under its root", "hex.EncodeToString is injective"},
		Run:         runC16,
	})
}

func isGetterGet(call ssa.CallInstruction) bool {
	cc := call.Common()
	if !cc.IsInvoke() || cc.Method.Name() != "Get" {
		return false
	}
	return methodFromIface(cc.Method, repoPath("verify"), "HTTPSGetter") || methodFromIface(cc.Method, "github.com/google/go-sev-guest/verify/trust", "HTTPSGetter")
}

func runC16(c *Ctx) {
	c16NoManufacturedMeasurement(c)
	defer func() {
		// R7: a supplied quote reaches the binary parsers byte for byte. What package extract hands to the raw
		// attestation parsers (go-sev-guest/abi, go-tdx-guest/abi functions and methods taking []byte, proto.Unmarshal)
		// has no byte-normalising step in its history: bytes/strings Trim*, To*, Replace*, Fields, Map. (Decoding a
		// text form — hex, base64 — is a different value, not a normalisation of the binary one.) A trailing 0x0a or
		// 0x20 of a raw certificate table is data: the last byte of the endorsement's signature.
		nParse := 0
		for _, f := range c.P.RepoFunctions() {
			if load.RelPkg(f) != "extract" || c.isTestFunc(f) {
				continue
			}
			for _, call := range callsIn(f, func(call ssa.CallInstruction) bool {
				cal := call.Common().StaticCallee()
				if cal == nil || cal.Pkg == nil {
					return false
				}
				switch cal.Pkg.Pkg.Path() {
				case "github.com/google/go-sev-guest/abi", "github.com/google/go-tdx-guest/abi":
					return true
				}
				return cal.String() == "google.golang.org/protobuf/proto.Unmarshal"
			}) {
				for _, a := range call.Common().Args {
					if a.Type().String() != "[]byte" {
						continue
					}
					nParse++
					bad := ""
					sl := flow.NewSlicer(c.P)
					sl.LiftParams = 1
					sl.Visit(a, func(v ssa.Value) bool {
						if cc, ok := v.(*ssa.Call); ok {
							if g := cc.Call.StaticCallee(); g != nil && g.Pkg != nil && (g.Pkg.Pkg.Path() == "bytes" || g.Pkg.Pkg.Path() == "strings") {
								n := g.Name()
								if strings.HasPrefix(n, "Trim") || strings.HasPrefix(n, "To") || strings.HasPrefix(n, "Replace") || n == "Fields" || n == "Map" {
									bad = g.Pkg.Pkg.Name() + "." + n
									return false
								}
							}
						}
						return bad == ""
					}, nil)
					c.S.Check(bad == "", "R7", load.FuncName(f)+":bytes handed to "+callName(call), c.pos(call.Pos()), "no byte-normalising step between the supplied quote and the binary parser", "the bytes handed to "+callName(call)+" went through "+bad+": a raw quote or certificate table whose last byte is white space is altered before it is parsed, so the certificate-table entry is not returned byte for byte (or the quote is not recognised)")
				}
			}
		}
		c.S.Floor("R7", "byte arguments of binary attestation parsers in package extract", 4, nParse)
	}()
	c16AbsentSourceStaysAbsent(c)
	c16OptionalSourcesTested(c)
	c16CollectorFiltersOnTheEventAlone(c)
	// R6 = C18.R9: the event encoders leave the event they encode untouched, so the manifest GUID written into the
	// second event is the one written into the first.
	c.borrow("R6/C18.", runC18, func(rule, construct string) bool { return rule == "R9" && strings.Contains(construct, "eventlog") })
	sevName := c.fn("R1", "extract/extractsev", "GCETcbObjectName")
	tdxName := c.fn("R1", "extract/extracttdx", "GCETcbObjectName")
	urlFn := c.fn("R1", "verify", "GCETcbURL")
	if sevName == nil || tdxName == nil || urlFn == nil {
		return
	}
	sl := flow.NewSlicer(c.P)

	// ---------------- R1 ----------------
	formats := map[*ssa.Function][]string{}
	for _, f := range []*ssa.Function{sevName, tdxName, urlFn} {
		name := load.FuncName(f)
		okOrigins := true
		bad := ""
		var consts []string
		for _, o := range originsOfReturn(sl, f) {
			switch o := o.(type) {
			case *ssa.Const:
				if o.Value != nil && o.Value.Kind() == constant.String {
					consts = append(consts, constant.StringVal(o.Value))
				}
			case *ssa.Parameter:
				// must be a parameter of f itself
				if o.Parent() != f {
					// parameters of its unexported helpers are lifted by the slicer's frames; reaching one here means an unmapped parameter
					okOrigins, bad = false, "parameter "+o.Name()+" of "+load.FuncName(o.Parent())
				}
			case *ssa.Global:
				okOrigins, bad = false, "package variable "+o.Name()
			default:
				okOrigins, bad = false, o.String()
			}
		}
		formats[f] = consts
		c.S.Check(okOrigins, "R1", name+":deterministic", c.pos(f.Pos()), fmt.Sprintf("built only from constants %q and its parameters", consts), "object name / URL depends on something other than constants and the parameters: "+bad)
	}
	// measurement enters only through hex.EncodeToString
	for _, f := range []*ssa.Function{sevName, tdxName} {
		p := f.Params[len(f.Params)-1]
		ok := onlyHexEncoded(c, p, 0)
		c.S.Check(ok, "R1", load.FuncName(f)+":injective encoding", c.pos(f.Pos()), "the measurement is used only as the operand of hex.EncodeToString", "the measurement enters the object name other than through hex.EncodeToString (injectivity not guaranteed)")
	}
	techFmt := func(f *ssa.Function) string {
		for _, s := range formats[f] {
			if strings.HasSuffix(s, "/%s.binarypb") {
				return s
			}
		}
		return ""
	}
	sf, tf := techFmt(sevName), techFmt(tdxName)
	c.S.Check(sf != "" && tf != "" && sf != tf, "R1", "extractsev/extracttdx:technology segments", "", fmt.Sprintf("technology formats %q and %q differ", sf, tf), fmt.Sprintf("SEV and TDX object names are not technology-separated (formats %q, %q)", sf, tf))

	// ---------------- R2 ----------------
	isNameCall := func(v ssa.Value) (*ssa.Call, bool) {
		call, ok := v.(*ssa.Call)
		if !ok {
			return nil, false
		}
		f := call.Call.StaticCallee()
		return call, f == sevName || f == tdxName
	}
	nGets := 0
	for _, f := range c.P.RepoFunctions() {
		rel := load.RelPkg(f)
		if c.isTestFunc(f) || !(strings.HasPrefix(rel, "extract") || rel == "verify" || strings.HasPrefix(rel, "gcetcbendorsement")) || rel == "extract/eventlog" {
			continue
		}
		for _, get := range callsIn(f, isGetterGet) {
			url := get.Common().Args[0]
			// find the GCETcbURL call(s) feeding the URL
			var nameArgs []ssa.Value
			urlCallOf := map[ssa.Value]*ssa.Call{}
			lsl := flow.NewSlicer(c.P)
			lsl.Visit(url, func(v ssa.Value) bool {
				if call, ok := v.(*ssa.Call); ok && call.Call.StaticCallee() == urlFn {
					nameArgs = append(nameArgs, call.Call.Args[0])
					urlCallOf[call.Call.Args[0]] = call
					return false
				}
				return true
			}, nil)
			if len(nameArgs) == 0 {
				continue // not a bucket fetch (e.g. root certificate download)
			}
			nGets++
			gname := load.FuncName(f) + ":Get"
			for _, na := range nameArgs {
				// origins of the object name, stopping at GCETcbObjectName calls
				type origin struct {
					v    ssa.Value
					kind string
				}
				var origins []origin
				osl := flow.NewSlicer(c.P)
				osl.LiftParams = 3 // the name may reach the fetch through a helper's parameter
				seen := map[ssa.Value]bool{}
				osl.Visit(na, func(v ssa.Value) bool {
					if call, ok := isNameCall(v); ok {
						if !seen[call] {
							seen[call] = true
							origins = append(origins, origin{call, "name"})
						}
						return false
					}
					return true
				}, func(t ssa.Value) {
					if seen[t] {
						return
					}
					seen[t] = true
					switch t := t.(type) {
					case *ssa.Const:
						origins = append(origins, origin{t, "const"})
					default:
						origins = append(origins, origin{t, "other"})
					}
				})
				for _, o := range origins {
					switch o.kind {
					case "name":
						call := o.v.(*ssa.Call)
						m := call.Call.Args[len(call.Call.Args)-1]
						ok := c.lenGuardedLifted(call.Block(), m, 48, 0)
						c.S.Check(ok, "R2", load.FuncName(call.Parent())+":object name from full-length measurement", c.pos(call.Pos()), "behind len(measurement) == 48 for the same measurement", "an object name is derived from a measurement whose length has not been checked at this site: a fetch can be issued for a truncated or empty measurement")
					case "const":
						k := o.v.(*ssa.Const)
						if k.Value == nil || k.Value.Kind() != constant.String {
							continue
						}
						// the test may stand in front of the fetch, or in front of the place the URL is made from the name
						// (a helper that refuses the empty name and hands out the URL)
						ok := nonEmptyGuarded(get.Block(), na)
						if uc := urlCallOf[na]; uc != nil && !ok {
							ok = nonEmptyGuarded(uc.Block(), na)
						}
						c.S.Check(ok, "R2", gname+":constant object name "+fmt.Sprintf("%q", constant.StringVal(k.Value)), c.pos(get.Pos()), "fetch is behind objectName != \"\"", "the fetch can be issued with the placeholder object name "+fmt.Sprintf("%q", constant.StringVal(k.Value))+" (bucket root): whatever comes back is returned as the endorsement")
					default:
						c.S.Bad("R2", gname+":object name origin", c.pos(get.Pos()), "the object name fetched is not derived from GCETcbObjectName of a measurement: "+o.v.String())
					}
				}
			}
		}
	}
	c.S.Floor("R2", "bucket fetch sites (Get of a GCETcbURL)", 3, nGets)

	// ---------------- R3 ----------------
	if end := c.fn("R3", "extract", "Endorsement"); end != nil {
		extractPkg := repoPath("extract")
		const (
			bEvFound uint = iota
			bQuoteFound
		)
		nGet, nLocal := 0, 0
		// Endorsement and the unexported helpers it may be split into (the evidence lookups themselves
		// are events, not part of the region)
		endRegion := map[*ssa.Function]bool{}
		for _, g := range unexportedRegion(end) {
			endRegion[g] = true
		}
		sl := flow.NewSlicer(c.P)
		sl.LiftParams = 3
		r := &esp.Rule{Name: "C16.R3"}
		r.Flag = func(v ssa.Value) (int, bool) {
			if u, ok := v.(*ssa.UnOp); ok && u.Op == token.MUL && flow.IsFieldLoad(v, extractPkg, "Options", "ForceFetch") {
				return 0, true
			}
			return 0, false
		}
		isLocal := func(call ssa.CallInstruction) (string, bool) {
			f := call.Common().StaticCallee()
			if f == nil || load.RelPkg(f) != "extract" || f.Signature.Recv() == nil || errIndex(f.Signature) < 0 {
				return "", false
			}
			if len(callsIn(f, isGetterGet)) > 0 {
				return "", false // a helper that performs the network fetch itself is not a local lookup
			}
			res := f.Signature.Results()
			if res.At(0).Type().String() != "[]byte" {
				return "", false
			}
			if res.Len() == 2 {
				return "eventlog", true
			}
			return "quote", true
		}
		r.Relevant = func(f *ssa.Function) bool {
			if !endRegion[f] || f == end {
				return false
			}
			// lookups are events
			res := f.Signature.Results()
			if f.Signature.Recv() != nil && errIndex(f.Signature) >= 0 && res.Len() >= 2 && res.At(0).Type().String() == "[]byte" && len(callsIn(f, isGetterGet)) == 0 {
				// a helper that only wraps a lookup (calls one) is part of the region; a lookup proper is not
				for _, call := range callsIn(f, func(call ssa.CallInstruction) bool { _, ok := isLocal(call); return ok }) {
					_ = call
					return true
				}
				return false
			}
			return true
		}
		r.Match = func(in ssa.Instruction) []esp.Ev {
			switch v := in.(type) {
			case *ssa.Call:
				if g := v.Call.StaticCallee(); g != nil && r.Relevant(g) {
					return nil // summarised helper, not an event
				}
				if isGetterGet(v) {
					nGet++
					return []esp.Ev{{ID: 2, Name: "network Get", ErrIdx: -1, BoolIdx: -1}}
				}
				if k, ok := isLocal(v); ok {
					nLocal++
					if k == "eventlog" {
						return []esp.Ev{{ID: 0, Name: "event-log evidence", ErrIdx: errIndex(v.Call.Signature()), BoolIdx: -1}}
					}
					return []esp.Ev{{ID: 3, Name: "quote evidence lookup", ErrIdx: -1, BoolIdx: -1}}
				}
			case *ssa.BinOp:
				if v.Op == token.GTR || v.Op == token.NEQ {
					if k, ok := v.Y.(*ssa.Const); ok && isZeroIntConst(k) && isLenOf(v.X, func(x ssa.Value) bool {
						return sl.Derives(x, func(y ssa.Value) bool {
							call, ok := y.(*ssa.Call)
							if !ok {
								return false
							}
							kind, ok := isLocal(call)
							return ok && kind == "quote"
						})
					}) {
						return []esp.Ev{{ID: 1, Name: "len(quote evidence) > 0", ErrIdx: -1, BoolIdx: 0}}
					}
				}
			}
			return nil
		}
		r.Step = func(x *esp.Ctx, s esp.State, ev esp.Ev, ph esp.Phase) (esp.State, string) {
			switch ev.ID {
			case 0:
				if ph == esp.Ok {
					return s.Set(bEvFound), ""
				}
			case 3:
				return s.Clear(bQuoteFound), ""
			case 1:
				if ph == esp.Ok {
					return s.Set(bQuoteFound), ""
				}
				if ph == esp.Fail {
					return s.Clear(bQuoteFound), ""
				}
			case 2:
				if ph == esp.AtCall && s.Flag(0) == esp.Zero && (s.Has(bEvFound) || s.Has(bQuoteFound)) {
					return s, "R3: network fetch reachable although local evidence was found and ForceFetch is false"
				}
			}
			return s, ""
		}
		e := c.engine(r)
		e.Run(end, esp.State{})
		n := c.reportEngine(e, "R3", func(v *esp.Violation) string { return "extract.Endorsement:local first" })
		c.S.Floor("R3", "network Get sites in extract.Endorsement", 1, nGet)
		c.S.Floor("R3", "local evidence lookups in extract.Endorsement", 2, nLocal)
		if n == 0 {
			c.S.OK("R3", "extract.Endorsement:local first", c.pos(end.Pos()), fmt.Sprintf("no fetch when local evidence was found and ForceFetch is false (%d configurations)", e.Configs), true)
		}
		// R3c: with the fetch forced, success comes from the network only (local evidence is not handed back as if
		// it had been fetched).
		{
			const bGetOk uint = 0
			r2 := &esp.Rule{Name: "C16.R3c", Flag: r.Flag, Relevant: r.Relevant}
			r2.Match = func(in ssa.Instruction) []esp.Ev {
				if v, ok := in.(*ssa.Call); ok {
					if g := v.Call.StaticCallee(); g != nil && r.Relevant(g) {
						return nil
					}
					if isGetterGet(v) {
						return []esp.Ev{{ID: 0, Name: "network Get", ErrIdx: errIndex(v.Call.Signature()), BoolIdx: -1}}
					}
				}
				return nil
			}
			r2.Step = func(x *esp.Ctx, s esp.State, ev esp.Ev, ph esp.Phase) (esp.State, string) {
				if ev.ID == 0 && ph == esp.Ok {
					return s.Set(bGetOk), ""
				}
				return s, ""
			}
			ei := errIndex(end.Signature)
			r2.AtReturn = func(x *esp.Ctx, s esp.State, rets []esp.Abs) string {
				if ei < 0 || ei >= len(rets) || rets[ei] == esp.NonZero {
					return ""
				}
				if s.Flag(0) == esp.NonZero && !s.Has(bGetOk) {
					return "R3c: with ForceFetch set, Endorsement may succeed without a successful network fetch: local evidence is returned as if it had been fetched"
				}
				return ""
			}
			e2 := c.engine(r2)
			e2.Run(end, esp.State{})
			if c.reportEngine(e2, "R3c", func(v *esp.Violation) string { return "extract.Endorsement:forced fetch" }) == 0 {
				c.S.OK("R3c", "extract.Endorsement:forced fetch", c.pos(end.Pos()), fmt.Sprintf("every successful return with ForceFetch known true follows a successful Get (%d configurations)", e2.Configs), true)
			}
		}
		// verbatim: returned byte slices are call results (or φ of them), never transformed
		okVerb := true
		for _, b := range end.Blocks {
			ret, ok := b.Instrs[len(b.Instrs)-1].(*ssa.Return)
			if !ok {
				continue
			}
			if !verbatimResult(ret.Results[0], 0) {
				okVerb = false
				c.S.Bad("R3", "extract.Endorsement:verbatim", c.pos(ret.Pos()), "returned evidence is not the untouched result of a lookup: "+flow.Describe(ret.Results[0]))
			}
		}
		if okVerb {
			c.S.OK("R3", "extract.Endorsement:verbatim", c.pos(end.Pos()), "every returned blob is a lookup's result value itself", true)
		}
	}

	// ---------------- R3b: one locator per lookup ----------------
	locate := c.P.Func("extract/eventlog", "Locate")
	nLoc := 0
	if locate != nil {
		for _, f := range c.funcsCalling(func(call ssa.CallInstruction) bool { return call.Common().StaticCallee() == locate }) {
			if load.RelPkg(f) != "extract" {
				continue
			}
			nLoc++
			name := load.FuncName(f)
			const bLocated uint = 0
			r := &esp.Rule{Name: "C16.R3b"}
			r.Relevant = func(*ssa.Function) bool { return false }
			r.Match = func(in ssa.Instruction) []esp.Ev {
				if call, ok := in.(ssa.CallInstruction); ok && call.Common().StaticCallee() == locate {
					return []esp.Ev{{ID: 0, Name: "resolve locator", ErrIdx: -1, BoolIdx: -1}}
				}
				return nil
			}
			r.Step = func(x *esp.Ctx, s esp.State, ev esp.Ev, ph esp.Phase) (esp.State, string) {
				if s.Has(bLocated) {
					return s, "R3b: a second locator is resolved after the first matching one in the same lookup: a lower-precedence (possibly network) source is consulted after a local one failed, before the attestation's own evidence"
				}
				return s.Set(bLocated), ""
			}
			e := c.engine(r)
			e.Run(f, esp.State{})
			n := c.reportEngine(e, "R3b", func(v *esp.Violation) string { return name + ":one locator" })
			if n == 0 {
				c.S.OK("R3b", name+":one locator", c.pos(f.Pos()), "the first matching locator in precedence order decides the lookup", true)
			}
		}
	}
	c.S.Floor("R3b", "event-log locator lookups in package extract", 1, nLoc)

	// ---------------- R4 ----------------
	nOpen := 0
	for _, f := range c.P.RepoFunctions() {
		if load.RelPkg(f) != "extract/eventlog" || c.isTestFunc(f) {
			continue
		}
		for _, call := range callsIn(f, func(call ssa.CallInstruction) bool {
			cal := call.Common().StaticCallee()
			if cal == nil || cal.Pkg == nil {
				return false
			}
			pp := cal.Pkg.Pkg.Path()
			if pp != "os" && pp != "io/ioutil" {
				return false
			}
			switch cal.Name() {
			case "ReadFile", "Open", "OpenFile", "ReadDir", "Create", "Stat", "Lstat", "Readlink":
				return true
			}
			return false
		}) {
			nOpen++
			path := call.Common().Args[0]
			okJoin := false
			var join *ssa.Call
			jsl := flow.NewSlicer(c.P)
			jsl.LiftParams = 3 // the path may reach the file access through a reading helper's parameter
			jsl.Visit(path, func(v ssa.Value) bool {
				if cv, ok := v.(*ssa.Call); ok && cv.Call.StaticCallee() != nil && cv.Call.StaticCallee().String() == "github.com/cyphar/filepath-securejoin.SecureJoin" {
					join = cv
					return false
				}
				return true
			}, nil)
			if join != nil {
				rootOK := flow.IsFieldLoad(join.Call.Args[0], repoPath("extract/eventlog"), "EfiVarFSReader", "Root")
				// only origins: the join (no alternative un-joined path)
				alt := false
				osl := flow.NewSlicer(c.P)
				osl.LiftParams = 3
				osl.Visit(path, func(v ssa.Value) bool { return v != join }, func(t ssa.Value) {
					if _, isK := t.(*ssa.Const); !isK {
						alt = true
					}
				})
				okJoin = rootOK && !alt
			}
			c.S.Check(okJoin, "R4", load.FuncName(f)+":"+callName(call), c.pos(call.Pos()), "path comes only from SecureJoin(reader.Root, …)", "a file is accessed through a path that is not (only) the result of securejoin.SecureJoin under the efivarfs root")
		}
	}
	c.S.Floor("R4", "file accesses in extract/eventlog", 1, nOpen)

	// ---------------- R4b: local evidence is read whole ----------------
	// In the call closure of the event-log locator no reader is wrapped in a silent limit (io.LimitReader,
	// io.LimitedReader, io.CopyN): such a reader ends at the limit without an error, and the truncated blob would be
	// returned as the endorsement "byte for byte".
	if loc := c.P.Func("extract/eventlog", "Locate"); loc != nil {
		clo := c.reachable([]*ssa.Function{loc}, nil)
		nRead, badR := 0, 0
		for g := range clo {
			if g == nil || c.isTestFunc(g) {
				continue
			}
			for _, call := range callsIn(g, func(call ssa.CallInstruction) bool {
				cal := call.Common().StaticCallee()
				return cal != nil && cal.Pkg != nil && (cal.Pkg.Pkg.Path() == "io" || cal.Pkg.Pkg.Path() == "os" || cal.Pkg.Pkg.Path() == "io/ioutil")
			}) {
				cal := call.Common().StaticCallee()
				switch cal.Name() {
				case "ReadFile", "ReadAll", "ReadFull":
					nRead++
				case "LimitReader", "CopyN":
					badR++
					c.S.Bad("R4b", load.FuncName(g)+":"+cal.Pkg.Pkg.Path()+"."+cal.Name(), c.pos(call.Pos()), "local evidence is read through a reader that stops silently at a limit: a larger variable is returned truncated, not byte for byte and not refused")
				}
			}
			for _, b := range g.Blocks {
				for _, in := range b.Instrs {
					if al, ok := in.(*ssa.Alloc); ok && namedIs(al.Type(), "io", "LimitedReader") {
						badR++
						c.S.Bad("R4b", load.FuncName(g)+":io.LimitedReader", c.pos(al.Pos()), "local evidence is read through a reader that stops silently at a limit")
					}
				}
			}
		}
		c.S.Floor("R4b", "whole-file reads in the locator's closure", 1, nRead)
		if badR == 0 {
			c.S.OK("R4b", "extract/eventlog.Locate:evidence read whole", c.pos(loc.Pos()), fmt.Sprintf("%d whole reads, no limiting reader in the closure", nRead), true)
		}
	}

	// ---------------- R5 ----------------
	evtPkg := repoPath("eventlog")
	var makers []*ssa.Function
	for _, f := range c.P.RepoFunctions() {
		if load.RelPkg(f) != "endorse" || c.isTestFunc(f) {
			continue
		}
		// the function that marshals a proto/events Sp800155Events
		if len(callsIn(f, func(call ssa.CallInstruction) bool {
			return calleeIs(call, "google.golang.org/protobuf/proto.Marshal") && typeMentions(call.Common().Args[0], repoPath("proto/events"), "Sp800155Events")
		})) > 0 {
			makers = append(makers, f)
		}
	}
	c.S.Floor("R5", "functions emitting Sp800155Events", 1, len(makers))
	for _, mk := range makers {
		name := load.FuncName(mk)
		// calls in mk taking an EfiGUID: all receive the same value
		var guidArgs []ssa.Value
		var digestOK, urlOK bool
		for _, call := range callsIn(mk, func(call ssa.CallInstruction) bool {
			f := call.Common().StaticCallee()
			return f != nil && load.RelPkg(f) == "endorse"
		}) {
			for _, a := range call.Common().Args {
				if namedIs(a.Type(), evtPkg, "EfiGUID") {
					guidArgs = append(guidArgs, a)
				}
				if a.Type().String() == "[]byte" && sl.Derives(a, func(v ssa.Value) bool {
					return flow.IsFieldLoad(v, repoPath("proto/endorsement"), "VMGoldenMeasurement", "Digest")
				}) {
					digestOK = true
					// inside the callee: locator = GCETcbURL(name derived from hex(digest param))
					callee := call.Common().StaticCallee()
					for _, uc := range callsIn(callee, func(cc ssa.CallInstruction) bool { return cc.Common().StaticCallee() == urlFn }) {
						hexed := false
						sl.Visit(uc.Common().Args[0], func(v ssa.Value) bool {
							if hc, ok := v.(*ssa.Call); ok && calleeIs(hc, "encoding/hex.EncodeToString") {
								if _, isParam := hc.Call.Args[0].(*ssa.Parameter); isParam {
									hexed = true
								}
							}
							return true
						}, nil)
						if hexed {
							urlOK = true
						}
					}
				}
			}
		}
		// stores of a manifest GUID into an event struct count as uses too (a maker that fills one event struct and
		// hands it on has no GUID-typed call argument)
		for _, b := range mk.Blocks {
			for _, in := range b.Instrs {
				if st, ok := in.(*ssa.Store); ok && namedIs(st.Val.Type(), evtPkg, "EfiGUID") {
					if _, isField := st.Addr.(*ssa.FieldAddr); isField {
						guidArgs = append(guidArgs, st.Val)
					}
				}
			}
		}
		// one value for all uses, and not re-drawn inside a loop that contains a use
		same := len(guidArgs) >= 1
		mkLoops := naturalLoops(mk)
		for _, g := range guidArgs {
			if !sameStructValue(g, guidArgs[0]) {
				same = false
			}
			// where the value is produced: a load of a local is produced where the local is written
			var defBlocks []*ssa.BasicBlock
			if u, ok := g.(*ssa.UnOp); ok {
				if al, ok := u.X.(*ssa.Alloc); ok {
					var collect func(addr ssa.Value, d int)
					collect = func(addr ssa.Value, d int) {
						if d > 3 || addr.Referrers() == nil {
							return
						}
						for _, ref := range *addr.Referrers() {
							switch r := ref.(type) {
							case *ssa.Store:
								if r.Addr == addr {
									defBlocks = append(defBlocks, r.Block())
								}
							case *ssa.FieldAddr:
								collect(r, d+1)
							case *ssa.IndexAddr:
								collect(r, d+1)
							}
						}
					}
					collect(al, 0)
				}
			}
			if len(defBlocks) == 0 {
				if def, ok := g.(ssa.Instruction); ok && def.Block() != nil {
					defBlocks = append(defBlocks, def.Block())
				}
			}
			for _, db := range defBlocks {
				if L := innermostLoopOf(mkLoops, db); L != nil {
					same = false // the GUID is produced inside a loop: each event could get its own
				}
			}
		}
		// The same two facts, looked for across the maker's unexported helpers (the GUID may live in a record whose
		// methods build the events; the URL may be made by a helper that is handed the digest): one GUID generation,
		// executed once per invocation, reaches every event constructor; the URI locator handed to a constructor is
		// GCETcbURL of a name made from hex(golden digest).
		if !same || !(digestOK && urlOK) {
			region := unexportedRegion(mk)
			inReg := map[*ssa.Function]bool{}
			for _, g := range region {
				inReg[g] = true
			}
			rsl := flow.NewSlicer(c.P)
			rsl.LiftParams = 3
			isGen := func(v ssa.Value) bool {
				call, ok := v.(*ssa.Call)
				if !ok {
					return false
				}
				g := call.Call.StaticCallee()
				return g != nil && g.Pkg != nil && g.Pkg.Pkg.Path() == "github.com/google/uuid" && strings.HasPrefix(g.Name(), "New") && inReg[call.Parent()]
			}
			var gens []*ssa.Call
			for _, g := range region {
				for _, call := range callsIn(g, func(call ssa.CallInstruction) bool { v, ok := call.(*ssa.Call); return ok && isGen(v) }) {
					gens = append(gens, call.(*ssa.Call))
				}
			}
			// executed once: not in a loop, and its function is reached from the maker through single, loop-free call sites
			once := len(gens) == 1
			if once {
				g := gens[0].Parent()
				blk := gens[0].Block()
				for hop := 0; hop < 4 && once; hop++ {
					if innermostLoopOf(naturalLoops(g), blk) != nil {
						once = false
					}
					if g == mk {
						break
					}
					var sites []ssa.CallInstruction
					for _, r := range region {
						sites = append(sites, callsIn(r, func(call ssa.CallInstruction) bool { return call.Common().StaticCallee() == g })...)
					}
					if len(sites) != 1 {
						once = false
						break
					}
					g, blk = sites[0].Parent(), sites[0].Block()
				}
			}
			ctorGUIDs, allFromGen := 0, true
			locatorOK := false
			for _, g := range region {
				for _, call := range callsIn(g, func(call ssa.CallInstruction) bool {
					f := call.Common().StaticCallee()
					return f != nil && load.RelPkg(f) == "endorse"
				}) {
					for _, a := range call.Common().Args {
						if namedIs(a.Type(), evtPkg, "EfiGUID") {
							ctorGUIDs++
							if !rsl.Derives(a, isGen) {
								allFromGen = false
							}
						}
					}
				}
				for _, uc := range callsIn(g, func(cc ssa.CallInstruction) bool { return cc.Common().StaticCallee() == urlFn }) {
					hexedDigest := false
					rsl.Visit(uc.Common().Args[0], func(v ssa.Value) bool {
						if hc, ok := v.(*ssa.Call); ok && calleeIs(hc, "encoding/hex.EncodeToString") {
							if rsl.Derives(hc.Call.Args[0], func(x ssa.Value) bool {
								if flow.IsFieldLoad(x, repoPath("proto/endorsement"), "VMGoldenMeasurement", "Digest") {
									return true
								}
								gc, ok := x.(*ssa.Call)
								return ok && gc.Call.StaticCallee() != nil && gc.Call.StaticCallee().Name() == "GetDigest"
							}) {
								hexedDigest = true
							}
						}
						return true
					}, nil)
					if hexedDigest {
						locatorOK = true
					}
				}
			}
			if !same && once && ctorGUIDs >= 1 && allFromGen {
				same = true
			}
			if !(digestOK && urlOK) && locatorOK {
				digestOK, urlOK = true, true
			}
		}
		c.S.Check(same, "R5", name+":one GUID", c.pos(mk.Pos()), fmt.Sprintf("%d events share one manifest GUID value", len(guidArgs)), "the emitted events do not share one manifest GUID value")
		c.S.Check(digestOK && urlOK, "R5", name+":URI locator", c.pos(mk.Pos()), "URI locator = GCETcbURL(name from hex(golden digest))", "the URI locator is not the bucket URL derived from the hex SHA-384 of the image")
		// R5b: the events published for a firmware are the ones computed for it in the same invocation: the
		// maker's result goes straight into a file's contents and is not parked in a field or global (from where a
		// later invocation — another firmware — could pick it up).
		nUse := 0
		for _, g := range c.P.RepoFunctions() {
			if c.isTestFunc(g) || !load.FuncInRepo(g) {
				continue
			}
			for _, call := range callsIn(g, func(call ssa.CallInstruction) bool { return call.Common().StaticCallee() == mk }) {
				cv, ok := call.(*ssa.Call)
				if !ok {
					continue
				}
				nUse++
				gname := load.FuncName(g)
				published, parked := false, ""
				seen := map[ssa.Value]bool{}
				var follow func(v ssa.Value, d int)
				follow = func(v ssa.Value, d int) {
					if v == nil || seen[v] || d > 8 || v.Referrers() == nil {
						return
					}
					seen[v] = true
					for _, ref := range *v.Referrers() {
						switch x := ref.(type) {
						case *ssa.Extract:
							if x.Index == 0 {
								follow(x, d+1)
							}
						case *ssa.Phi:
							follow(x, d+1)
						case *ssa.Slice:
							follow(x, d+1)
						case *ssa.ChangeType:
							follow(x, d+1)
						case *ssa.Store:
							if x.Val != v {
								continue
							}
							switch a := x.Addr.(type) {
							case *ssa.FieldAddr:
								if flow.IsFieldLoad(a, repoPath("endorse"), "File", "Contents") {
									published = true
								} else {
									parked = "field " + flow.FieldName(a)
								}
							case *ssa.Global:
								parked = "package-level variable " + a.Name()
							case *ssa.Alloc:
								// a local cell (captured or address-taken variable): follow its loads
								for _, r2 := range *a.Referrers() {
									if u, ok := r2.(*ssa.UnOp); ok && u.Op == token.MUL {
										follow(u, d+1)
									}
								}
							}
						}
					}
				}
				follow(cv, 0)
				c.S.Check(parked == "", "R5b", gname+":events not cached", c.pos(call.Pos()), "the emitted events are used in this invocation only",
					"the emitted events are stored into "+parked+": a later invocation for another firmware can publish them, and their URI locator names the earlier image's digest")
				c.S.Check(published, "R5b", gname+":events published", c.pos(call.Pos()), "the maker's result is the contents of a written file", "the result of the events maker does not reach a written file's contents directly (what is published comes from somewhere else)")
			}
		}
		c.S.Floor("R5b", "call sites of the events maker", 1, nUse)
	}
}

// originsOfReturn: terminals of the slices of all returned values of f.
func originsOfReturn(sl *flow.Slicer, f *ssa.Function) []ssa.Value {
	set := map[ssa.Value]bool{}
	var out []ssa.Value
	for _, b := range f.Blocks {
		if ret, ok := b.Instrs[len(b.Instrs)-1].(*ssa.Return); ok {
			for _, r := range ret.Results {
				for _, o := range sl.Origins(r) {
					if !set[o] {
						set[o] = true
						out = append(out, o)
					}
				}
			}
		}
	}
	return out
}

// onlyHexEncoded: every use of parameter p (following it into unexported
// helpers of the same package) is as operand of hex.EncodeToString.
func onlyHexEncoded(c *Ctx, p *ssa.Parameter, depth int) bool {
	if depth > 3 {
		return false
	}
	for _, ref := range nonDebugRefs(p) {
		call, ok := ref.(*ssa.Call)
		if !ok {
			return false
		}
		if calleeIs(call, "encoding/hex.EncodeToString") {
			continue
		}
		f := call.Call.StaticCallee()
		if f == nil || f.Pkg != p.Parent().Pkg {
			return false
		}
		okArg := false
		for i, a := range call.Call.Args {
			if a == p && i < len(f.Params) {
				if !onlyHexEncoded(c, f.Params[i], depth+1) {
					return false
				}
				okArg = true
			}
		}
		if !okArg {
			return false
		}
	}
	return true
}

// lenGuarded: block b is dominated by the equal edge of len(m) == k (or the
// false edge of !=), for the same value m (identity or equal access path).
// lenGuardedLifted: lenGuarded at this site, or — when m is a parameter of an unexported function — at every one of
// that function's call sites for the argument passed (the caller checked the length before handing the
// measurement to the helper).
func (c *Ctx) lenGuardedLifted(b *ssa.BasicBlock, m ssa.Value, k int64, depth int) bool {
	if lenGuarded(b, m, k) {
		return true
	}
	p, ok := m.(*ssa.Parameter)
	if !ok || depth > 3 {
		return false
	}
	fn := p.Parent()
	if fn.Parent() == nil && fn.Object() != nil && fn.Object().Exported() {
		return false // anyone may call it
	}
	idx := -1
	for i, q := range fn.Params {
		if q == p {
			idx = i
		}
	}
	n := c.P.CallGraph().Nodes[fn]
	if n == nil || idx < 0 {
		return false
	}
	sites := 0
	for _, e := range n.In {
		if e.Site == nil || e.Caller.Func == nil || c.isTestFunc(e.Caller.Func) {
			continue
		}
		cc := e.Site.Common()
		if cc.IsInvoke() || cc.StaticCallee() != fn || idx >= len(cc.Args) {
			return false // reached through a function value / interface: call sites not enumerable
		}
		sites++
		if !c.lenGuardedLifted(e.Site.Block(), cc.Args[idx], k, depth+1) {
			return false
		}
	}
	return sites > 0
}

func lenGuarded(b *ssa.BasicBlock, m ssa.Value, k int64) bool {
	mp := flow.PathOf(m)
	for _, cf := range dominatingConds(b) {
		bo, ok := cf.Cond.(*ssa.BinOp)
		if !ok || (bo.Op != token.EQL && bo.Op != token.NEQ) {
			continue
		}
		kc, ok := bo.Y.(*ssa.Const)
		if !ok || kc.Value == nil || kc.Value.Kind() != constant.Int || kc.Int64() != k {
			continue
		}
		if !isLenOf(bo.X, func(x ssa.Value) bool { return x == m || (len(mp.Fields) > 0 && flow.PathOf(x).Equal(mp)) }) {
			continue
		}
		if (bo.Op == token.EQL) == cf.Val {
			return true
		}
	}
	return false
}

// nonEmptyGuarded: b is dominated by name != "" (true) / name == "" (false).
func nonEmptyGuarded(b *ssa.BasicBlock, name ssa.Value) bool {
	for _, cf := range dominatingConds(b) {
		bo, ok := cf.Cond.(*ssa.BinOp)
		if !ok || (bo.Op != token.EQL && bo.Op != token.NEQ) {
			continue
		}
		var other ssa.Value
		if isEmptyStr(bo.Y) {
			other = bo.X
		} else if isEmptyStr(bo.X) {
			other = bo.Y
		}
		if other == nil || other != name {
			continue
		}
		if (bo.Op == token.NEQ) == cf.Val {
			return true
		}
	}
	return false
}

// verbatimResult: v is nil, a call result / extract of a call, a parameter, or a φ of such.
func verbatimResult(v ssa.Value, d int) bool {
	if d > 6 {
		return false
	}
	switch x := v.(type) {
	case *ssa.Const:
		return x.Value == nil
	case *ssa.Extract:
		_, ok := x.Tuple.(*ssa.Call)
		return ok
	case *ssa.Call:
		_, isBuiltin := x.Call.Value.(*ssa.Builtin)
		return !isBuiltin
	case *ssa.Phi:
		for _, e := range x.Edges {
			if !verbatimResult(e, d+1) {
				return false
			}
		}
		return true
	case *ssa.UnOp:
		// named-result cell
		if al, ok := x.X.(*ssa.Alloc); ok {
			for _, r := range nonDebugRefs(al) {
				if st, ok := r.(*ssa.Store); ok && st.Addr == al {
					if !verbatimResult(st.Val, d+1) {
						return false
					}
				}
			}
			return true
		}
	}
	return false
}

// sameStructValue: two struct-typed operands denote one value (same SSA value,
// or loads of the same local cell).
func sameStructValue(a, b ssa.Value) bool {
	if a == b {
		return true
	}
	la, ok1 := a.(*ssa.UnOp)
	lb, ok2 := b.(*ssa.UnOp)
	return ok1 && ok2 && la.X == lb.X
}

// c16AbsentSourceStaysAbsent is R8. See the Explanation.
func c16AbsentSourceStaysAbsent(c *Ctx) {
	isSourceIface := func(t types.Type) bool {
		if _, ok := t.Underlying().(*types.Interface); !ok {
			return false
		}
		return namedIs(t, "github.com/google/go-sev-guest/verify/trust", "HTTPSGetter") || namedIs(t, repoPath("verify"), "HTTPSGetter") || namedIs(t, repoPath("extract/eventlog"), "VariableReader")
	}
	carries := func(t types.Type) bool {
		if p, ok := t.Underlying().(*types.Pointer); ok {
			t = p.Elem()
		}
		st, ok := t.Underlying().(*types.Struct)
		if !ok {
			return false
		}
		for i := 0; i < st.NumFields(); i++ {
			if isSourceIface(st.Field(i).Type()) {
				return true
			}
		}
		return false
	}
	// the extraction and verification libraries. gcetcbendorsement.TdxValidate is outside: it extracts with
	// extract.DefaultOptions() by design (event log at the default place, default getter), whatever Getter it was handed.
	lib := map[string]bool{"extract": true, "extract/eventlog": true, "verify": true, "extract/extractsev": true, "extract/extracttdx": true}
	// where a source is manufactured
	manufactures := func(f *ssa.Function) (string, token.Pos) {
		for _, b := range f.Blocks {
			for _, in := range b.Instrs {
				switch x := in.(type) {
				case *ssa.MakeInterface:
					if isSourceIface(x.Type()) {
						return "a " + typeShort(x.X.Type()) + " is made into a " + typeShort(x.Type()), x.Pos()
					}
				case *ssa.Call:
					g := x.Call.StaticCallee()
					if g != nil && !load.FuncInRepo(g) && g.Signature.Results().Len() >= 1 && isSourceIface(g.Signature.Results().At(0).Type()) {
						return "call of " + g.String(), x.Pos()
					}
				}
			}
		}
		return "", token.NoPos
	}
	keep := func(f *ssa.Function) bool {
		return load.FuncInRepo(f) && lib[load.RelPkg(f)] && !c.isTestFunc(f)
	}
	n := 0
	for _, f := range c.P.RepoFunctions() {
		if !lib[load.RelPkg(f)] || c.isTestFunc(f) || f.Blocks == nil {
			continue
		}
		handed := false
		for _, p := range f.Params {
			if carries(p.Type()) {
				handed = true
			}
		}
		if !handed {
			continue
		}
		n++
		bad := ""
		var at token.Pos
		var who *ssa.Function
		for g := range c.reachable([]*ssa.Function{f}, keep) {
			if why, pos := manufactures(g); why != "" && (who == nil || load.FuncName(g) < load.FuncName(who)) {
				bad, at, who = why, pos, g
			}
		}
		if bad != "" {
			c.S.Bad("R8", load.FuncName(f)+":no source of its own", c.pos(at), "handed the caller's options, but its call closure manufactures a network getter / variable reader ("+bad+" in "+load.FuncName(who)+"): a source the caller left absent is replaced by a default one, so extraction can go to the network (or the host's efivars) although nobody configured that")
		} else {
			c.S.OK("R8", load.FuncName(f)+":no source of its own", c.pos(f.Pos()), "no getter / variable reader is manufactured in its call closure", true)
		}
	}
	c.S.Floor("R8", "library functions handed options that carry a getter or variable reader", 6, n)
}

// c16OptionalSourcesTested is R9: a source the caller may leave absent (an interface-typed field of an options
// parameter: network getter, UEFI-variable reader, quote provider) is only called through where the field was found
// non-nil. The sibling arms of one switch already agree on this for the getter; an arm that calls through the reader
// without the test panics on an event log the peer controls.
func c16OptionalSourcesTested(c *Ctx) {
	// the evidence sources an options value may leave absent (their absence has a documented error)
	isOptionalSource := func(t types.Type) bool {
		if _, ok := t.Underlying().(*types.Interface); !ok {
			return false
		}
		return namedIs(t, "github.com/google/go-sev-guest/verify/trust", "HTTPSGetter") || namedIs(t, repoPath("verify"), "HTTPSGetter") || namedIs(t, repoPath("extract/eventlog"), "VariableReader") || namedIs(t, repoPath("extract"), "QuoteProvider")
	}
	lib := map[string]bool{"extract": true, "extract/eventlog": true, "verify": true, "gcetcbendorsement": true}
	// fieldLoad: v is a load of an optional-source field; returns the object and the field
	fieldLoad := func(v ssa.Value) (*ssa.FieldAddr, bool) {
		ld, ok := v.(*ssa.UnOp)
		if !ok || ld.Op != token.MUL {
			return nil, false
		}
		fa, ok := ld.X.(*ssa.FieldAddr)
		if !ok || !isOptionalSource(v.Type()) {
			return nil, false
		}
		return fa, true
	}
	// nonNilAt: block b is dominated by the non-nil edge of a nil test of field `field` of object obj
	nonNilAt := func(b *ssa.BasicBlock, obj ssa.Value, field int) bool {
		for _, cf := range dominatingConds(b) {
			bo, ok := cf.Cond.(*ssa.BinOp)
			if !ok || (bo.Op != token.EQL && bo.Op != token.NEQ) || !isNilK(bo.Y) {
				continue
			}
			fa2, ok := fieldLoad(bo.X)
			if !ok || fa2.Field != field || !samePointerValue(fa2.X, obj) {
				continue
			}
			if (bo.Op == token.NEQ) == cf.Val {
				return true
			}
		}
		return false
	}
	// A guard helper tests the field for its caller: h is handed the options object as parameter pi, and each of
	// its successful returns (nil error / true flag) stands behind the non-nil edge of the test of that field — or its
	// flag result is that very test. guardOf reports which result index signals success (error or bool) for (h, pi, field).
	type guardKey struct {
		h     *ssa.Function
		pi    int
		field int
	}
	guardMemo := map[guardKey]int{}
	guardOf := func(h *ssa.Function, pi, field int) int {
		k := guardKey{h, pi, field}
		if v, ok := guardMemo[k]; ok {
			return v
		}
		guardMemo[k] = -1
		if h == nil || h.Blocks == nil || !load.FuncInRepo(h) || pi >= len(h.Params) {
			return -1
		}
		obj := ssa.Value(h.Params[pi])
		res := h.Signature.Results()
		si := errIndex(h.Signature)
		isBool := false
		if si < 0 && res.Len() >= 1 && res.At(res.Len()-1).Type().String() == "bool" {
			si, isBool = res.Len()-1, true
		}
		if si < 0 {
			return -1
		}
		nOK := 0
		for _, b := range h.Blocks {
			ret, ok := b.Instrs[len(b.Instrs)-1].(*ssa.Return)
			if !ok {
				continue
			}
			v := ret.Results[si]
			if isBool {
				if k, isK := v.(*ssa.Const); isK && k.Value != nil && !constant.BoolVal(k.Value) {
					continue // refusal
				}
				if bo, isB := v.(*ssa.BinOp); isB && bo.Op == token.NEQ && isNilK(bo.Y) {
					if fa2, ok := fieldLoad(bo.X); ok && fa2.Field == field && samePointerValue(fa2.X, obj) {
						nOK++
						continue // the flag is the test itself
					}
				}
			} else if !isNilK(v) {
				continue // refusal (or an error handed on)
			}
			if !nonNilAt(b, obj, field) {
				return -1
			}
			nOK++
		}
		if nOK == 0 {
			return -1
		}
		guardMemo[k] = si
		return si
	}
	// succeededAt: block b is dominated by the success edge of call (result si: nil error / true flag)
	succeededAt := func(b *ssa.BasicBlock, call *ssa.Call, si int) bool {
		single := call.Call.Signature().Results().Len() == 1
		for _, cf := range dominatingConds(b) {
			var v ssa.Value = cf.Cond
			want := true
			if bo, ok := cf.Cond.(*ssa.BinOp); ok && (bo.Op == token.EQL || bo.Op == token.NEQ) && isNilK(bo.Y) {
				v = bo.X
				want = bo.Op == token.EQL // err == nil
			}
			hit := false
			if ex, ok := v.(*ssa.Extract); ok && ex.Tuple == ssa.Value(call) && ex.Index == si {
				hit = true
			}
			if single && v == ssa.Value(call) {
				hit = true
			}
			if hit && cf.Val == want {
				return true
			}
		}
		return false
	}
	n := 0
	for _, f := range c.P.RepoFunctions() {
		if !lib[load.RelPkg(f)] || c.isTestFunc(f) || f.Blocks == nil {
			continue
		}
		perField := map[string]int{}
		for _, b := range f.Blocks {
			for _, in := range b.Instrs {
				call, ok := in.(ssa.CallInstruction)
				if !ok || !call.Common().IsInvoke() {
					continue
				}
				recv := call.Common().Value
				if !isOptionalSource(recv.Type()) {
					continue
				}
				var field string
				tested := false
				if fa, ok := fieldLoad(recv); ok {
					// a field of an options value the function was handed (parameter, receiver or captured variable)
					if !ownsValue(fa.X, f) {
						continue
					}
					field = flow.FieldName(fa)
					tested = nonNilAt(b, fa.X, fa.Field)
					// or a helper that was handed the same options made the test and succeeded
					if !tested {
						for _, hc := range callsIn(f, func(ssa.CallInstruction) bool { return true }) {
							hcv, ok := hc.(*ssa.Call)
							if !ok {
								continue
							}
							h := hcv.Call.StaticCallee()
							if h == nil || !load.FuncInRepo(h) {
								continue
							}
							for pi, a := range hcv.Call.Args {
								if !samePointerValue(a, fa.X) {
									continue
								}
								if si := guardOf(h, pi, fa.Field); si >= 0 && succeededAt(b, hcv, si) {
									tested = true
								}
							}
						}
					}
					// or every caller of this unexported helper made the test for the object it passes
					if prm, isP := fa.X.(*ssa.Parameter); isP && !tested && f.Object() != nil && !f.Object().Exported() {
						pi := -1
						for i, q := range f.Params {
							if q == prm {
								pi = i
							}
						}
						if node := c.P.CallGraph().Nodes[f]; node != nil && pi >= 0 {
							sites, all := 0, true
							for _, e := range node.In {
								if e.Site == nil || c.isTestFunc(e.Caller.Func) {
									continue
								}
								if e.Site.Common().StaticCallee() != f || pi >= len(e.Site.Common().Args) {
									all = false
									continue
								}
								sites++
								if !nonNilAt(e.Site.Block(), e.Site.Common().Args[pi], fa.Field) {
									all = false
								}
							}
							tested = all && sites > 0
						}
					}
				} else {
					// the source as handed out by an accessor of the options: result i of a guard helper that, where it
					// succeeds, returns that field
					src, idx := recv, 0
					if ex, ok := src.(*ssa.Extract); ok {
						src, idx = ex.Tuple, ex.Index
					}
					hcv, ok := src.(*ssa.Call)
					if !ok {
						continue
					}
					h := hcv.Call.StaticCallee()
					if h == nil || !load.FuncInRepo(h) || h.Blocks == nil {
						continue
					}
					// which field of which parameter does result idx carry?
					pi, fi := -1, -1
					for _, hb := range h.Blocks {
						ret, ok := hb.Instrs[len(hb.Instrs)-1].(*ssa.Return)
						if !ok || idx >= len(ret.Results) {
							continue
						}
						if fa, ok := fieldLoad(ret.Results[idx]); ok {
							for i, p := range h.Params {
								if samePointerValue(fa.X, p) {
									pi, fi = i, fa.Field
									field = flow.FieldName(fa)
								}
							}
						}
					}
					if pi < 0 || pi >= len(hcv.Call.Args) || !ownsValue(hcv.Call.Args[pi], f) {
						continue
					}
					if si := guardOf(h, pi, fi); si >= 0 && succeededAt(b, hcv, si) {
						tested = true
					}
				}
				n++
				perField[field]++
				construct := fmt.Sprintf("%s:%s.%s", load.FuncName(f), field, call.Common().Method.Name())
				if perField[field] > 1 {
					construct = fmt.Sprintf("%s #%d", construct, perField[field])
				}
				c.S.Check(tested, "R9", construct, c.pos(call.Pos()), "called only where the field was found non-nil", "the optional source "+field+" is called through without having been tested for nil: with that source left absent (a legal configuration) the call panics instead of reporting that the source is absent")
			}
		}
	}
	c.S.Floor("R9", "calls through optional source fields of options parameters", 5, n)
}

// c16CollectorFiltersOnTheEventAlone is R10: what the event-log reader reports for an event depends on that event
// alone. The collector of extract/eventlog (the function returning the per-locator-type lists of SP800-155 events)
// skips an event only on conditions computed from the event itself: no condition in its loop consults state carried
// from earlier iterations (a "seen" set, a counter), because the signer emits several locators under one manifest GUID
// and each of them has to parse back.
func c16CollectorFiltersOnTheEventAlone(c *Ctx) {
	evtPkg := repoPath("eventlog")
	n := 0
	for _, f := range c.P.RepoFunctions() {
		if load.RelPkg(f) != "extract/eventlog" || c.isTestFunc(f) || f.Blocks == nil {
			continue
		}
		res := f.Signature.Results()
		if res.Len() != 1 {
			continue
		}
		mt, ok := res.At(0).Type().Underlying().(*types.Map)
		if !ok || !typeIsSliceOfPtr(mt.Elem(), evtPkg, "SP800155Event3") {
			continue
		}
		n++
		// the result map(s): what is returned
		result := map[ssa.Value]bool{}
		for _, b := range f.Blocks {
			if ret, ok := b.Instrs[len(b.Instrs)-1].(*ssa.Return); ok {
				result[ret.Results[0]] = true
			}
		}
		bad, at := "", f.Pos()
		for _, L := range naturalLoops(f) {
			for lb := range L.Body {
				iff, ok := lb.Instrs[len(lb.Instrs)-1].(*ssa.If)
				if !ok {
					continue
				}
				lsl := flow.NewSlicer(c.P)
				lsl.Visit(iff.Cond, func(v ssa.Value) bool {
					switch x := v.(type) {
					case *ssa.Lookup:
						if _, isMap := x.X.Type().Underlying().(*types.Map); isMap && !result[x.X] {
							if mk, isMk := x.X.(*ssa.MakeMap); isMk && !L.Body[mk.Block()] {
								bad, at = "a map filled by earlier iterations is consulted ("+x.X.Name()+")", iff.Cond.Pos()
							}
						}
					case *ssa.Phi:
						if x.Block() == L.Header && x.Comment != "rangeindex" && x.Comment != "rangeiter" {
							if _, isNext := nextOf(x); !isNext {
								bad, at = "a value carried from earlier iterations is consulted ("+x.Comment+")", iff.Cond.Pos()
							}
						}
					}
					return bad == ""
				}, nil)
			}
		}
		c.S.Check(bad == "", "R10", load.FuncName(f)+":filters on the event alone", c.pos(at), "no condition of the collecting loop consults state carried from earlier iterations", "the event-log collector decides whether to report an event from what it saw before ("+bad+"): of the locators the signer emits under one manifest GUID only the first parses back, and a URI logged before the variable makes extraction go to the network although local evidence is in the log")
	}
	c.S.Floor("R10", "collectors of SP800-155 events in extract/eventlog", 1, n)
}

func typeIsSliceOfPtr(t types.Type, pkg, name string) bool {
	sl, ok := t.Underlying().(*types.Slice)
	if !ok {
		return false
	}
	p, ok := sl.Elem().(*types.Pointer)
	return ok && namedIs(p.Elem(), pkg, name)
}

// nextOf: the φ is the loop's own iteration state (the index of a range loop).
func nextOf(p *ssa.Phi) (ssa.Value, bool) {
	for _, e := range p.Edges {
		if bo, ok := e.(*ssa.BinOp); ok && bo.Op == token.ADD && bo.X == ssa.Value(p) {
			if k, isK := bo.Y.(*ssa.Const); isK && k.Value != nil {
				return bo, true
			}
		}
	}
	return nil, false
}

// c16NoManufacturedMeasurement is R11: the object name of an endorsement is derived from the launch measurement in the
// quote and from nothing else. Where the extraction packages build an SEV-SNP report themselves (no report came with a
// bare certificate table), the Measurement they put in is a marker, not a measurement: its length, fixed in the
// code, must differ from the real measurement size, or the marker is taken for a measurement further down.
func c16NoManufacturedMeasurement(c *Ctx) {
	const measurementSize = 48 // go-sev-guest abi.MeasurementSize
	n := 0
	for _, f := range c.P.RepoFunctions() {
		rel := load.RelPkg(f)
		if !(rel == "extract" || strings.HasPrefix(rel, "extract/")) || c.isTestFunc(f) || f.Blocks == nil {
			continue
		}
		k := 0
		for _, b := range f.Blocks {
			for _, in := range b.Instrs {
				st, ok := in.(*ssa.Store)
				if !ok {
					continue
				}
				fa, ok := st.Addr.(*ssa.FieldAddr)
				if !ok || flow.FieldName(fa) != "Measurement" || !namedIs(fa.X.Type(), "github.com/google/go-sev-guest/proto/sevsnp", "Report") {
					continue
				}
				var size int64 = -1
				switch v := st.Val.(type) {
				case *ssa.MakeSlice:
					if kk, ok := constInt(v.Len); ok {
						size = kk
					}
				case *ssa.Slice:
					if al, ok := v.X.(*ssa.Alloc); ok && v.Low == nil {
						if at, ok := al.Type().Underlying().(*types.Pointer).Elem().Underlying().(*types.Array); ok {
							size = at.Len()
							if v.High != nil {
								size = -1
								if hk, ok := constInt(v.High); ok {
									size = hk
								}
							}
						}
					}
				}
				if size < 0 {
					continue // taken from the input, not made up here
				}
				n++
				k++
				c.S.Check(size != measurementSize, "R11", fmt.Sprintf("%s:made-up report measurement #%d", load.FuncName(f), k), c.pos(st.Pos()), fmt.Sprintf("the placeholder measurement has %d byte(s), not the size of a real one", size),
					"the extraction library puts a 48-byte measurement of its own making into a report: the length test of the object-name derivation takes it for a launch measurement, and an endorsement is looked for (on the network too) under a name no measurement in the quote stands behind")
			}
		}
	}
	c.S.Floor("R11", "reports made up by the extraction packages", 1, n)
}
