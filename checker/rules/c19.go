package rules

import (
	"fmt"
	"go/constant"
	"go/token"
	"go/types"
	"os"
	"sort"
	"strings"

	"golang.org/x/tools/go/ssa"

	"verif/checker/esp"
	"verif/checker/flow"
	"verif/checker/load"
)

const (
	protoreflectPkg = "google.golang.org/protobuf/reflect/protoreflect"
	protopathPkg    = "google.golang.org/protobuf/reflect/protopath"
)

func init() {
	register(&RuleSet{
		ID: "C19",
		Explanation: "R1 co-update (loop-header φ comparison in the path evaluator — the function of package parsepath that ranges over a protopath.Path and moves a protoreflect.Value cursor): on every path round the loop, if the value cursor changes then the descriptor cursor changes too (a step may retarget the descriptor without moving the value, never the reverse). " +
			"R2 descriptor transfer (the part of the planned R2 that is decidable from the evaluator alone): a value cursor taken out of a protoreflect.Map comes with a descriptor cursor taken from FieldDescriptor.MapValue(); one taken out of a List does not. " +
			"R3 exhaustiveness: the evaluator's step-kind switch covers every protopath.StepKind constant; the parser's token switch covers every token-kind constant of the package except those compared elsewhere (end of input) and has an error default; ParsePath returns a path only on a path dominated by the end-of-input test and a true state predicate. " +
			"R14 no value returned by a function of the parser package derives from a sync.Pool buffer (results stay valid after later and concurrent evaluations). " +
			"R13 (T24/T25 over gcetcbendorsement/parsepath) a slice is converted to an array only with its length established; an integer division or remainder is never by a value that may be zero. " +
			"R12 (T21 over gcetcbendorsement/parsepath) a difference of two non-constant positions that feeds a strings.Repeat count, a make size, an index or a slice bound is known non-negative (guarded or clamped). " +
			"R11 (= C03.R9) the CLI's output back end replaces an existing output file wholly, so the file left by inspect --out is the field bytes and nothing else. " +
			"R5 raw renderings: InspectPayload / InspectSignature hand the field bytes (same access path as the endorsement field) to WriteBytesForm, and WriteBytesForm's raw arm writes its parameter itself. " +
			"R5b the Form field of the inspection options is never written outside construction (the byte form is an input of each rendering, not state carried from one writer to the next). " +
			"R6 numeral agreement (siblings): every strconv conversion of the stored text of a number token (list index, each map-key kind) reads it in the same base, so one spelling denotes one number whatever the step kind. " +
			"R7 parse width: the bit size given to strconv.ParseInt/ParseUint for a number literal (a constant, or a small helper evaluated for the key kind of the enclosing switch arm) is not larger than the integer type the result is converted to, so out-of-range literals are refused rather than truncated. " +
			"R8 cursor kind (ESP on the evaluator): Value.List() only after IsList() was true, Value.Map() only after IsMap() was true, Value.Message() only where the descriptor cursor is not a field descriptor or is a field known to be neither list nor map — these conversions panic on a mismatch. " +
			"R10 the scanner appends decoded code points with WriteRune, never as a narrowed byte. " +
			"R9 every protoreflect.Value produced in the evaluator's region is read out of the message walked (Message/List/Map.Get, MapKey.Value, ValueOf*), never a descriptor's Default() or a mutating accessor. " +
			"Not covered: value equality with a field-by-field walk, panics inside protoreflect for ill-typed hand-built paths, scanner progress (regular-expression reasoning), agreement of parser and evaluator descriptor transfers beyond R1.",
		Assumptions: []string{"go/types, go/ssa", "protoreflect accessors"},
		Run:         runC19,
	})
}

func runC19(c *Ctx) {
	// R11 = C03.R9: the file a raw rendering is written to (inspect --out) holds exactly the bytes handed to the
	// writer: the output back end replaces an existing file wholly (an open without truncation keeps the old tail of a
	// longer file after the field bytes).
	c.borrow("R11/C03.", runC03, func(rule, _ string) bool { return rule == "R9" })
	// R12 (T21 in the parser package): a difference of two positions that ends up as a repeat count, an allocation
	// size, an index or a slice bound is known non-negative (guarded, or clamped on the way): error rendering and
	// scanning never panic on a long or odd path.
	{
		var fns []*ssa.Function
		for _, f := range c.P.RepoFunctions() {
			if load.RelPkg(f) == "gcetcbendorsement/parsepath" && !c.isTestFunc(f) {
				fns = append(fns, f)
			}
		}
		c.S.Floor("R12", "differences of positions feeding counts, sizes or bounds in the parser package", 1, c.guardedSubRule("R12", fns, t21Reasons, os.Getenv("VCHECK_SURVEY") != ""))
		// R13 (T24/T25 in the parser package): no slice is converted to an array without its length established, and no
		// division is by a value that may be zero — the other two run-time panics a path or a form string could reach
		// R14: what the package's functions return is not storage recycled through a sync.Pool — a buffer that went back
		// to the pool is handed to the next evaluation while the first caller still reads its result
		{
			psl := flow.NewSlicer(c.P)
			isPoolGet := func(v ssa.Value) bool {
				call, ok := v.(*ssa.Call)
				return ok && calleeIs(call, "(*sync.Pool).Get")
			}
			nRet, nPool := 0, 0
			for _, f := range fns {
				if f.Blocks == nil {
					continue
				}
				nPool += len(callsIn(f, func(call ssa.CallInstruction) bool { return calleeIs(call, "(*sync.Pool).Get") }))
				bad := ""
				for _, b := range f.Blocks {
					ret, ok := b.Instrs[len(b.Instrs)-1].(*ssa.Return)
					if !ok {
						continue
					}
					for _, r := range ret.Results {
						nRet++
						if psl.Derives(r, isPoolGet) {
							bad = c.pos(ret.Pos())
						}
					}
				}
				if bad != "" {
					c.S.Bad("R14", load.FuncName(f)+":result does not alias pooled storage", bad, "a value returned by "+load.FuncName(f)+" derives from a sync.Pool buffer: once the buffer is put back (or handed out again) a later or concurrent evaluation overwrites the result the first caller still holds")
				}
			}
			c.S.OK("R14", "parser package:results and pooled storage", "", fmt.Sprintf("%d returned values examined, %d sync.Pool.Get calls in the package", nRet, nPool), false)
		}
		c.S.OK("R13", "parser package:slice-to-array conversions and divisors", "", fmt.Sprintf("%d conversions of a slice to an array and %d divisions by a non-constant examined", c.sliceToArrayRule("R13", fns), c.divisorRule("R13", fns)), false)
	}
	gcePkg := repoPath("gcetcbendorsement")
	epbPkg := repoPath("proto/endorsement")
	// ---- discover the evaluator ----
	var evals []*ssa.Function
	for _, f := range c.P.RepoFunctions() {
		if load.RelPkg(f) != "gcetcbendorsement/parsepath" || c.isTestFunc(f) {
			continue
		}
		takesPath := false
		for _, p := range f.Params {
			if namedIs(p.Type(), protopathPkg, "Path") {
				takesPath = true
			}
		}
		if !takesPath {
			continue
		}
		moves := 0
		for _, g := range unexportedRegion(f) {
			moves += len(callsIn(g, func(call ssa.CallInstruction) bool {
				cal := call.Common().StaticCallee()
				if cal == nil || cal.Signature.Recv() == nil || !namedIs(cal.Signature.Recv().Type(), protoreflectPkg, "Value") {
					return false
				}
				switch cal.Name() {
				case "Message", "List", "Map":
					return true
				}
				return false
			}))
		}
		if moves > 0 {
			evals = append(evals, f)
		}
	}
	c.S.Floor("R1", "path evaluators in parsepath", 1, len(evals))
	// ---- R10: the scanner appends code points as text ----
	// A string-literal key is built from the code points the scanner decoded; each goes into the literal through
	// WriteRune (its UTF-8 encoding). Narrowing a decoded code point to a byte and appending that (WriteByte(byte(r)))
	// makes the key of "\u00e9" the single invalid byte 0xE9 instead of the text "é": the path addresses another
	// map entry (or none) than its literal spelling.
	{
		nRune, nByte := 0, 0
		for _, f := range c.P.RepoFunctions() {
			if load.RelPkg(f) != "gcetcbendorsement/parsepath" || c.isTestFunc(f) {
				continue
			}
			for _, call := range callsIn(f, func(call ssa.CallInstruction) bool {
				cal := call.Common().StaticCallee()
				return cal != nil && cal.Signature.Recv() != nil && (cal.Name() == "WriteRune" || cal.Name() == "WriteByte") && cal.Pkg != nil && (cal.Pkg.Pkg.Path() == "bytes" || cal.Pkg.Pkg.Path() == "strings")
			}) {
				if call.Common().StaticCallee().Name() == "WriteRune" {
					nRune++
					continue
				}
				nByte++
				arg := call.Common().Args[1]
				fromRune := false
				for i := 0; i < 4; i++ {
					if cv, ok := arg.(*ssa.Convert); ok {
						if bt, ok := cv.X.Type().Underlying().(*types.Basic); ok && (bt.Kind() == types.Int32 || bt.Kind() == types.Int || bt.Kind() == types.Int64 || bt.Kind() == types.Uint32) {
							fromRune = true
						}
						arg = cv.X
					}
				}
				c.S.Check(!fromRune, "R10", load.FuncName(f)+":WriteByte of a code point", c.pos(call.Pos()), "the byte appended is an input byte, not a narrowed code point", "a decoded code point is narrowed to a byte and appended raw: for U+0080..U+00FF the literal holds an invalid lone byte instead of the character's UTF-8 encoding, so the key differs from the same key spelled literally")
			}
		}
		if nByte == 0 {
			c.S.OK("R10", "gcetcbendorsement/parsepath:literals built with WriteRune", "", fmt.Sprintf("%d WriteRune sites, no WriteByte", nRune), true)
		}
		c.S.Floor("R10", "WriteRune sites in the scanner", 2, nRune)
	}
	// ---- R9: where the evaluator's values come from ----
	// Every protoreflect.Value produced in the evaluator's region is read out of the message being walked
	// (Message.Get, List.Get, Map.Get, MapKey.Value) or wraps it (protoreflect.ValueOf*). A descriptor's Default(),
	// NewField / Mutable and the like are no readings of the message: Default() is the invalid Value for message, list
	// and map fields, so the next step panics inside protoreflect, and Mutable writes the message.
	for _, ev := range evals {
		nProd := 0
		for _, g := range unexportedRegion(ev) {
			for _, call := range callsIn(g, func(call ssa.CallInstruction) bool {
				v := call.Value()
				return v != nil && namedIs(v.Type(), protoreflectPkg, "Value")
			}) {
				nProd++
				name, recv := "", ""
				if call.Common().IsInvoke() {
					name = call.Common().Method.Name()
					recv = types.TypeString(call.Common().Value.Type(), func(p *types.Package) string { return p.Name() })
				} else if cal := call.Common().StaticCallee(); cal != nil {
					name = cal.Name()
					if cal.Signature.Recv() != nil {
						recv = types.TypeString(cal.Signature.Recv().Type(), func(p *types.Package) string { return p.Name() })
					} else if cal.Pkg != nil {
						recv = cal.Pkg.Pkg.Name()
					}
				}
				ok := false
				switch {
				case name == "Get" && (strings.HasSuffix(recv, "protoreflect.Message") || strings.HasSuffix(recv, "protoreflect.List") || strings.HasSuffix(recv, "protoreflect.Map")):
					ok = true
				case name == "Value" && strings.HasSuffix(recv, "protoreflect.MapKey"):
					ok = true
				case strings.HasPrefix(name, "ValueOf") && recv == "protoreflect":
					ok = true
				case call.Common().StaticCallee() != nil && load.FuncInRepo(call.Common().StaticCallee()):
					ok = true // a helper of the evaluator: its own producers are examined in the region
				}
				c.S.Check(ok, "R9", load.FuncName(ev)+":value from "+recv+"."+name, c.pos(call.Pos()), "the value is read out of the message walked", "the evaluator takes a value from "+recv+"."+name+", which does not read the message walked (a descriptor's default is the invalid value for message, list and map fields: the next step panics in protoreflect)")
			}
		}
		c.S.Floor("R9", "value producers in "+load.FuncName(ev), 3, nProd)
	}
	for _, ev := range evals {
		name := load.FuncName(ev)
		loops := naturalLoops(ev)
		// header with both a Value φ and a Descriptor φ
		var hc, hd *ssa.Phi
		for _, L := range loops {
			var vc, vd *ssa.Phi
			for _, in := range L.Header.Instrs {
				phi, ok := in.(*ssa.Phi)
				if !ok {
					break
				}
				if namedIs(phi.Type(), protoreflectPkg, "Value") {
					vc = phi
				}
				if namedIs(phi.Type(), protoreflectPkg, "Descriptor") || namedIs(phi.Type(), protoreflectPkg, "MessageDescriptor") || namedIs(phi.Type(), protoreflectPkg, "FieldDescriptor") {
					vd = phi
				}
			}
			if vc != nil && vd != nil {
				hc, hd = vc, vd
			}
		}
		if hc == nil || hd == nil {
			// the cursors may live in a struct (a walker object with one method per step kind): then every store
			// to its value field must come with a store to its descriptor field that is executed whenever it is
			if ok, nst := c.coUpdateFields(ev, name); nst > 0 {
				if ok {
					c.S.OK("R1", name+":co-update", c.pos(ev.Pos()), fmt.Sprintf("%d stores of the value cursor field, each with a store of the descriptor cursor field on the same path", nst), true)
				}
			} else {
				c.S.Bad("R1", name+":cursors", c.pos(ev.Pos()), "the evaluator carries neither loop variables nor struct fields for both a value cursor and a descriptor cursor: later steps are resolved against a stale descriptor")
			}
			c.stepKindsHandled(ev, name)
			continue
		}
		// enumerate back-edge operand pairs
		bad := map[string]token.Pos{}
		badTransfer := map[string]token.Pos{}
		leaves := 0
		seen := map[[2]ssa.Value]bool{}
		var pairs func(cv, dv ssa.Value, depth int)
		pairs = func(cv, dv ssa.Value, depth int) {
			k := [2]ssa.Value{cv, dv}
			if seen[k] || depth > 40 {
				return
			}
			seen[k] = true
			cp, cIsPhi := cv.(*ssa.Phi)
			dp, dIsPhi := dv.(*ssa.Phi)
			if cIsPhi && cp == hc {
				cIsPhi = false
			}
			if dIsPhi && dp == hd {
				dIsPhi = false
			}
			switch {
			case cIsPhi && dIsPhi && cp.Block() == dp.Block():
				for i := range cp.Edges {
					pairs(cp.Edges[i], dp.Edges[i], depth+1)
				}
			case cIsPhi && (!dIsPhi || cp.Block().Dominates(dp.Block()) == false && !dp.Block().Dominates(cp.Block())):
				for i := range cp.Edges {
					pairs(cp.Edges[i], dv, depth+1)
				}
			case cIsPhi && dIsPhi:
				// different blocks: expand the later (dominated) one first
				if cp.Block().Dominates(dp.Block()) {
					for i := range dp.Edges {
						pairs(cv, dp.Edges[i], depth+1)
					}
				} else {
					for i := range cp.Edges {
						pairs(cp.Edges[i], dv, depth+1)
					}
				}
			case dIsPhi:
				for i := range dp.Edges {
					pairs(cv, dp.Edges[i], depth+1)
				}
			default:
				leaves++
				if cv != hc && dv == hd {
					bad[flow.Describe(cv)] = cv.Pos()
				}
				// R2 (transfer): a value reached through a map lookup is described by the map's value descriptor,
				// a list element by the field's message descriptor
				if cv != hc && dv != hd {
					if msg := transferMismatch(cv, dv); msg != "" {
						badTransfer[msg] = cv.Pos()
					}
				}
			}
		}
		for i, pred := range hc.Block().Preds {
			// back edges only
			if !hc.Block().Dominates(pred) {
				continue
			}
			pairs(hc.Edges[i], hd.Edges[i], 0)
		}
		c.S.Count("cursor_update_pairs", leaves)
		if len(bad) == 0 {
			c.S.OK("R1", name+":co-update", c.pos(hc.Pos()), fmt.Sprintf("%d (value, descriptor) update pairs round the loop; the descriptor moves whenever the value does", leaves), true)
		}
		if len(badTransfer) == 0 {
			c.S.OK("R2", name+":descriptor transfer", c.pos(hc.Pos()), "map values are described by MapValue(), list elements by the field's message", true)
		}
		for k, p := range badTransfer {
			c.S.Bad("R2", name+":descriptor transfer:"+stepArmName(c, p, ev), c.pos(p), k)
		}
		var keys []string
		for k := range bad {
			keys = append(keys, k)
		}
		sort.Strings(keys)
		for _, k := range keys {
			c.S.Bad("R1", name+":co-update:"+stepArmName(c, bad[k], ev), c.pos(bad[k]), "the value cursor moves ("+k+") while the descriptor cursor stays: the next field access is resolved against the wrong message type")
		}

		c.stepKindsHandled(ev, name)
	}

	// ---- R8: kind conversions of the value cursor are guarded by the descriptor's kind ----
	// protoreflect.Value.Message / List / Map panic when the value holds another kind. The evaluator may call them
	// only where the descriptor cursor says so: List behind IsList, Map behind IsMap, Message where the descriptor
	// is not a field descriptor (a message descriptor) or is a field known to be neither list nor map.
	for _, ev := range evals {
		const (
			bFD uint = iota
			bNotFD
			bList
			bNotList
			bMap
			bNotMap
		)
		names := []string{"field-descriptor", "not-field-descriptor", "list", "not-list", "map", "not-map"}
		isFDAssert := func(in ssa.Instruction) bool {
			ex, ok := in.(*ssa.Extract)
			if !ok || ex.Index != 1 {
				return false
			}
			ta, ok := ex.Tuple.(*ssa.TypeAssert)
			return ok && ta.CommaOk && namedIs(ta.AssertedType, protoreflectPkg, "FieldDescriptor")
		}
		convKind := func(call ssa.CallInstruction) string {
			cal := call.Common().StaticCallee()
			if cal == nil || cal.Signature.Recv() == nil || !namedIs(cal.Signature.Recv().Type(), protoreflectPkg, "Value") {
				return ""
			}
			switch cal.Name() {
			case "Message", "List", "Map":
				return cal.Name()
			}
			return ""
		}
		nConv := 0
		region := map[*ssa.Function]bool{}
		for _, g := range unexportedRegion(ev) {
			region[g] = true
		}
		r := &esp.Rule{Name: "C19.R8"}
		r.Relevant = func(f *ssa.Function) bool { return region[f] && f != ev }
		r.Match = func(in ssa.Instruction) []esp.Ev {
			if isFDAssert(in) {
				return []esp.Ev{{ID: 0, Name: "descriptor is a field descriptor", ErrIdx: -1, BoolIdx: 0}}
			}
			call, ok := in.(ssa.CallInstruction)
			if !ok {
				return nil
			}
			if k := convKind(call); k != "" {
				nConv++
				return []esp.Ev{{ID: 3, Name: "Value." + k, ErrIdx: -1, BoolIdx: -1, Data: k}}
			}
			cc := call.Common()
			if cc.IsInvoke() && methodFromIface(cc.Method, protoreflectPkg, "FieldDescriptor") {
				switch cc.Method.Name() {
				case "IsList":
					return []esp.Ev{{ID: 1, Name: "IsList", ErrIdx: -1, BoolIdx: 0}}
				case "IsMap":
					return []esp.Ev{{ID: 2, Name: "IsMap", ErrIdx: -1, BoolIdx: 0}}
				}
			}
			if cal := cc.StaticCallee(); cal != nil && cal.Name() == "Kind" && cal.Signature.Recv() != nil && namedIs(cal.Signature.Recv().Type(), protopathPkg, "Step") {
				return []esp.Ev{{ID: 4, Name: "next step", ErrIdx: -1, BoolIdx: -1}}
			}
			return nil
		}
		r.Step = func(x *esp.Ctx, s esp.State, e esp.Ev, ph esp.Phase) (esp.State, string) {
			switch e.ID {
			case 4:
				if ph == esp.AtCall {
					s.A = 0
				}
			case 0:
				switch ph {
				case esp.AtCall:
					s.A = 0
				case esp.Ok:
					return s.Set(bFD), ""
				case esp.Fail:
					return s.Set(bNotFD), ""
				}
			case 1:
				if ph == esp.Ok {
					return s.Set(bList).Clear(bNotList), ""
				} else if ph == esp.Fail {
					return s.Set(bNotList).Clear(bList), ""
				}
			case 2:
				if ph == esp.Ok {
					return s.Set(bMap).Clear(bNotMap), ""
				} else if ph == esp.Fail {
					return s.Set(bNotMap).Clear(bMap), ""
				}
			case 3:
				if ph != esp.AtCall {
					return s, ""
				}
				ok := false
				switch e.Data.(string) {
				case "List":
					ok = s.Has(bList)
				case "Map":
					ok = s.Has(bMap)
				case "Message":
					ok = s.Has(bNotFD) || (s.Has(bNotList) && s.Has(bNotMap))
				}
				if !ok {
					return s, "R8: Value." + e.Data.(string) + "() is reachable in state " + fmtState(names, s) + ": the descriptor cursor has not established that the value cursor holds that kind, and protoreflect panics on a mismatch"
				}
			}
			return s, ""
		}
		e := c.engine(r)
		e.Run(ev, esp.State{})
		n := c.reportEngine(e, "R8", func(v *esp.Violation) string { return load.FuncName(v.Fn) + ":cursor kind" })
		c.S.Floor("R8", "kind conversions of the value cursor in "+load.FuncName(ev), 3, nConv)
		if n == 0 {
			c.S.OK("R8", load.FuncName(ev)+":cursor kind", c.pos(ev.Pos()), fmt.Sprintf("every Value.Message/List/Map call follows the matching descriptor test (%d configurations)", e.Configs), true)
		}
	}

	// ---- R5b: the byte form of a rendering is an input, not state ----
	// No production function stores into the Form field of gcetcbendorsement.Inspect (the options value is shared by
	// successive inspections; an "auto" form resolved once for one writer would be applied to the next writer, and a
	// non-terminal destination would receive base64 text instead of the field bytes).
	{
		nForm := 0
		for _, f := range c.P.RepoFunctions() {
			if c.isTestFunc(f) || !strings.HasPrefix(load.RelPkg(f), "gcetcbendorsement") {
				continue
			}
			for _, b := range f.Blocks {
				for _, in := range b.Instrs {
					st, ok := in.(*ssa.Store)
					if !ok {
						continue
					}
					fa, ok := st.Addr.(*ssa.FieldAddr)
					if !ok || !flow.IsFieldLoad(fa, gcePkg, "Inspect", "Form") {
						continue
					}
					if al, isAl := fa.X.(*ssa.Alloc); isAl && al.Comment == "complit" {
						continue // construction
					}
					nForm++
					c.S.Bad("R5b", load.FuncName(f)+":writes Inspect.Form", c.pos(st.Pos()), "the inspection options' byte form is overwritten during an inspection: the form chosen for one writer sticks for the next, so raw output to a non-terminal can become base64 text")
				}
			}
		}
		if nForm == 0 {
			c.S.OK("R5b", "gcetcbendorsement.Inspect.Form:read-only", "", "no store to Inspect.Form outside construction", true)
		}
	}

	// ---- R3: token switch in the parser ----
	pp := c.P.Pkg("gcetcbendorsement/parsepath")
	if pp != nil {
		// the token-kind type: a package-local named integer type with >= 5 constants used as a struct field type
		type cand struct {
			tn     *types.TypeName
			consts map[int64]string
		}
		var cands []cand
		for _, n := range pp.Pkg.Scope().Names() {
			tn, ok := pp.Pkg.Scope().Lookup(n).(*types.TypeName)
			if !ok {
				continue
			}
			if b, ok := tn.Type().Underlying().(*types.Basic); !ok || b.Info()&types.IsInteger == 0 {
				continue
			}
			cs := map[int64]string{}
			for _, m := range pp.Pkg.Scope().Names() {
				if k, ok := pp.Pkg.Scope().Lookup(m).(*types.Const); ok && types.Identical(k.Type(), tn.Type()) {
					v, _ := constant.Int64Val(k.Val())
					cs[v] = m
				}
			}
			if len(cs) >= 5 {
				cands = append(cands, cand{tn, cs})
			}
		}
		nsw := 0
		for _, cd := range cands {
			// comparisons of a value of this type with constants, per function
			perFn := map[*ssa.Function]map[int64]bool{}
			for _, f := range c.P.RepoFunctions() {
				if f.Pkg != pp || c.isTestFunc(f) {
					continue
				}
				got := switchConsts(f, func(v ssa.Value) bool { return types.Identical(v.Type(), cd.tn.Type()) })
				if len(got) > 0 {
					perFn[f] = got
				}
			}
			var sw *ssa.Function
			for f, got := range perFn {
				if len(got) >= 5 && (sw == nil || len(got) > len(perFn[sw])) && errIndex(f.Signature) >= 0 {
					sw = f
				}
			}
			if sw == nil {
				continue
			}
			nsw++
			name := load.FuncName(sw)
			var missing []string
			for v, n := range cd.consts {
				if perFn[sw][v] {
					continue
				}
				elsewhere := false
				for f, got := range perFn {
					if f != sw && got[v] {
						elsewhere = true
					}
				}
				if !elsewhere {
					missing = append(missing, n)
				}
			}
			sort.Strings(missing)
			c.S.Check(len(missing) == 0, "R3", name+":token kinds", c.pos(sw.Pos()), fmt.Sprintf("all %d %s constants handled (here or at the end-of-input test)", len(cd.consts), cd.tn.Name()), fmt.Sprintf("token kinds never handled: %v", missing))
			// error default: the fall-through of the comparison chain returns a non-nil error
			c.S.Check(chainDefaultIsError(sw, func(v ssa.Value) bool { return types.Identical(v.Type(), cd.tn.Type()) }), "R3", name+":default", c.pos(sw.Pos()), "unknown token kinds are rejected", "the token switch has no rejecting default")
		}
		c.S.Floor("R3", "token-kind switches in parsepath", 1, nsw)
		// ParsePath acceptance
		if ppf := pp.Func("ParsePath"); ppf != nil {
			nret := 0
			for _, b := range ppf.Blocks {
				ret, ok := b.Instrs[len(b.Instrs)-1].(*ssa.Return)
				if !ok || len(ret.Results) != 2 {
					continue
				}
				if k, isK := ret.Results[1].(*ssa.Const); !isK || k.Value != nil {
					continue
				}
				if k, isK := ret.Results[0].(*ssa.Const); isK && k.Value == nil {
					continue
				}
				nret++
				eofOK, termOK := false, false
				for _, cf := range dominatingConds(b) {
					if bo, ok := cf.Cond.(*ssa.BinOp); ok && (bo.Op == token.EQL) == cf.Val && (bo.Op == token.EQL || bo.Op == token.NEQ) {
						if _, isK := bo.Y.(*ssa.Const); isK {
							eofOK = true
						}
					}
					if call, ok := cf.Cond.(*ssa.Call); ok && cf.Val && call.Type().String() == "bool" {
						termOK = true
					}
				}
				c.S.Check(eofOK && termOK, "R3", "parsepath.ParsePath:acceptance", c.pos(ret.Pos()), "a path is returned only at end of input in a terminal parser state", "a path can be returned without the end-of-input test and a terminal-state check")
			}
			c.S.Floor("R3", "accepting returns of ParsePath", 1, nret)
		} else {
			c.S.Unk("R3", "anchor:parsepath.ParsePath", "", "exported function not found")
		}
	}

	// ---- R6 numeral agreement (siblings) ----
	// every conversion of one literal-text field into an integer must read it in the same base
	{
		type site struct {
			f    *ssa.Function
			call ssa.CallInstruction
			base int64
			how  string
		}
		groups := map[string][]site{}
		for _, f := range c.P.RepoFunctions() {
			if load.RelPkg(f) != "gcetcbendorsement/parsepath" || c.isTestFunc(f) {
				continue
			}
			for _, call := range callsIn(f, func(call ssa.CallInstruction) bool {
				return calleeIs(call, "strconv.ParseInt") || calleeIs(call, "strconv.ParseUint") || calleeIs(call, "strconv.Atoi")
			}) {
				args := call.Common().Args
				p := flow.PathOf(args[0])
				if len(p.Fields) == 0 {
					continue // not a stored literal (e.g. a scanner sub-match with an explicit base)
				}
				key := p.Root.Type().String() + "." + strings.Join(p.Fields, ".")
				st := site{f: f, call: call, base: 10, how: "strconv.Atoi (decimal only)"}
				if len(args) >= 2 {
					k, ok := constInt(args[1])
					if !ok {
						c.S.Unk("R6", load.FuncName(f)+":base", c.pos(call.Pos()), "non-constant base")
						continue
					}
					st.base, st.how = k, fmt.Sprintf("base %d", k)
				}
				groups[key] = append(groups[key], st)
			}
		}
		nSites := 0
		var keys []string
		for k := range groups {
			keys = append(keys, k)
		}
		sort.Strings(keys)
		for _, k := range keys {
			g := groups[k]
			nSites += len(g)
			// majority base is the reference; with a tie the first site
			count := map[int64]int{}
			for _, s := range g {
				count[s.base]++
			}
			ref := g[0].base
			for b, n := range count {
				if n > count[ref] {
					ref = b
				}
			}
			for _, s := range g {
				c.S.Check(s.base == ref, "R6", load.FuncName(s.f)+":numeral base", c.pos(s.call.Pos()), fmt.Sprintf("literal read with base %d like its %d sibling conversions", ref, len(g)-1),
					fmt.Sprintf("the number literal is converted with %s here but with base %d at the %d other conversions of the same literal: the same spelling addresses a different element depending on the step kind", s.how, ref, count[ref]))
			}
		}
		c.S.Floor("R6", "integer conversions of a stored number literal in parsepath", 5, nSites)
	}

	// ---- R7 parse width ≤ conversion width ----
	// strconv.ParseInt/ParseUint(lit, base, bits) accepts every value of `bits` bits; converting the
	// result to a narrower integer type drops the high bits silently, so a literal outside the key's
	// range would address another element instead of being refused.
	{
		nConv := 0
		for _, f := range c.P.RepoFunctions() {
			if load.RelPkg(f) != "gcetcbendorsement/parsepath" || c.isTestFunc(f) {
				continue
			}
			for _, call := range callsIn(f, func(call ssa.CallInstruction) bool {
				return calleeIs(call, "strconv.ParseInt") || calleeIs(call, "strconv.ParseUint")
			}) {
				cv := call.Value()
				if cv == nil || len(call.Common().Args) != 3 {
					continue
				}
				var res ssa.Value
				for _, r := range nonDebugRefs(cv) {
					if ex, ok := r.(*ssa.Extract); ok && ex.Index == 0 {
						res = ex
					}
				}
				if res == nil {
					continue
				}
				for _, r := range nonDebugRefs(res) {
					conv, ok := r.(*ssa.Convert)
					if !ok {
						continue
					}
					bt, ok := conv.Type().Underlying().(*types.Basic)
					if !ok || bt.Info()&types.IsInteger == 0 {
						continue
					}
					w := basicBits(bt)
					if bt.Kind() == types.Int || bt.Kind() == types.Uint {
						w = 64
					}
					nConv++
					construct := fmt.Sprintf("%s:parse width for %s", load.FuncName(f), bt.Name())
					bitsArg := call.Common().Args[2]
					bits, known := constInt(bitsArg)
					how := "constant"
					if !known {
						if hc, ok := bitsArg.(*ssa.Call); ok {
							bits, known = evalConstHelper(hc)
							how = "helper " + callName(hc) + " evaluated for the step's key kind"
						}
					}
					if !known {
						c.S.Unk("R7", construct, c.pos(call.Pos()), "the bit size handed to the parser is not a constant and could not be evaluated")
						continue
					}
					if bits == 0 {
						bits = 64
					}
					c.S.Check(int(bits) <= w, "R7", construct, c.pos(conv.Pos()), fmt.Sprintf("parsed with %d bits (%s), converted to %d bits", bits, how, w),
						fmt.Sprintf("the literal is parsed as a %d-bit number (%s) and then converted to %d bits: a literal beyond the key's range is not refused, its high bits are dropped and another element is addressed", bits, how, w))
				}
			}
		}
		c.S.Floor("R7", "integer conversions of parsed number literals in parsepath", 4, nConv)
	}

	// ---- R5 raw renderings ----
	wbf := c.fn("R5", "gcetcbendorsement", "WriteBytesForm")
	for _, row := range []struct{ fn, field string }{{"InspectPayload", "SerializedUefiGolden"}, {"InspectSignature", "Signature"}} {
		f := c.fn("R5", "gcetcbendorsement", row.fn)
		if f == nil || wbf == nil {
			continue
		}
		n := 0
		for _, call := range callsIn(f, func(call ssa.CallInstruction) bool { return call.Common().StaticCallee() == wbf }) {
			n++
			p := flow.PathOf(call.Common().Args[0])
			_, rootIsParam := p.Root.(*ssa.Parameter)
			ok := rootIsParam && len(p.Fields) == 1 && p.Fields[0] == row.field && namedIs(p.Root.Type(), epbPkg, "VMLaunchEndorsement")
			c.S.Check(ok, "R5", "gcetcbendorsement."+row.fn+":bytes", c.pos(call.Pos()), "the endorsement's "+row.field+" bytes are written untouched", "the bytes written are not the endorsement's "+row.field+" field itself: "+flow.Describe(call.Common().Args[0]))
		}
		c.S.Floor("R5", "WriteBytesForm calls in "+row.fn, 1, n)
	}
	if wbf != nil {
		// raw arm: under form == BytesRaw the Write call's operand is the parameter
		rawK := c.extConst(gcePkg, "BytesRaw")
		found := false
		// the form the arms are selected on: the parameter itself, or what a same-package resolver handed the parameter
		// makes of it (BytesAuto settled first)
		isForm := func(v ssa.Value) bool {
			if v == ssa.Value(wbf.Params[1]) {
				return true
			}
			if hc, ok := v.(*ssa.Call); ok {
				if g := hc.Call.StaticCallee(); g != nil && load.RelPkg(g) == "gcetcbendorsement" {
					for _, a := range hc.Call.Args {
						if a == ssa.Value(wbf.Params[1]) {
							return true
						}
					}
				}
			}
			return false
		}
		// the write of the raw arm: w.Write(bytes) itself, or a same-package helper handed (bytes, w) whose body makes
		// that very call on its own parameters
		writesGiven := func(call *ssa.Call) bool {
			if call.Call.IsInvoke() {
				return call.Call.Method.Name() == "Write" && call.Call.Args[0] == ssa.Value(wbf.Params[0]) && call.Call.Value == ssa.Value(wbf.Params[2])
			}
			g := call.Call.StaticCallee()
			if g == nil || g.Blocks == nil || load.RelPkg(g) != "gcetcbendorsement" {
				return false
			}
			bi, wi := -1, -1
			for i, a := range call.Call.Args {
				if a == ssa.Value(wbf.Params[0]) {
					bi = i
				}
				if a == ssa.Value(wbf.Params[2]) {
					wi = i
				}
			}
			if bi < 0 || wi < 0 || bi >= len(g.Params) || wi >= len(g.Params) {
				return false
			}
			nW, okW := 0, false
			for _, gb := range g.Blocks {
				for _, gi := range gb.Instrs {
					if gc, ok := gi.(*ssa.Call); ok && gc.Call.IsInvoke() && gc.Call.Method.Name() == "Write" {
						nW++
						if gc.Call.Args[0] == ssa.Value(g.Params[bi]) && gc.Call.Value == ssa.Value(g.Params[wi]) {
							okW = true
						}
					}
				}
			}
			return okW && nW == 1
		}
		for _, b := range wbf.Blocks {
			for _, in := range b.Instrs {
				call, ok := in.(*ssa.Call)
				if !ok || !writesGiven(call) {
					continue
				}
				for _, cf := range dominatingConds(b) {
					bo, ok := cf.Cond.(*ssa.BinOp)
					if !ok || bo.Op != token.EQL || !cf.Val || !isForm(bo.X) {
						continue
					}
					if k, ok := bo.Y.(*ssa.Const); ok && rawK != nil && k.Value != nil && constant.Compare(k.Value, token.EQL, rawK) {
						found = true
					}
				}
			}
		}
		c.S.Check(found, "R5", "gcetcbendorsement.WriteBytesForm:raw arm", c.pos(wbf.Pos()), "raw form writes the given bytes themselves to the given writer", "the raw form does not write exactly the given bytes")
	}
}

// switchConsts collects the integer constants some subject value is compared
// (==) with in f's branch conditions.
func switchConsts(f *ssa.Function, subject func(ssa.Value) bool) map[int64]bool {
	out := map[int64]bool{}
	for _, b := range f.Blocks {
		for _, in := range b.Instrs {
			bo, ok := in.(*ssa.BinOp)
			if !ok || (bo.Op != token.EQL && bo.Op != token.NEQ) {
				continue
			}
			k, ok := bo.Y.(*ssa.Const)
			if !ok || k.Value == nil || k.Value.Kind() != constant.Int || !subject(bo.X) {
				continue
			}
			out[k.Int64()] = true
		}
	}
	return out
}

func constsOfType(c *Ctx, pkg, typ string) map[int64]string {
	out := map[int64]string{}
	p := c.P.ExtPkg(pkg)
	if p == nil {
		return out
	}
	for _, n := range p.Pkg.Scope().Names() {
		if k, ok := p.Pkg.Scope().Lookup(n).(*types.Const); ok && k.Exported() && namedIs(k.Type(), pkg, typ) {
			v, _ := constant.Int64Val(k.Val())
			out[v] = n
		}
	}
	return out
}

// chainDefaultIsError: following the false edges of the comparison chain on
// the subject leads to a return of a non-nil error.
func chainDefaultIsError(f *ssa.Function, subject func(ssa.Value) bool) bool {
	// the constants the subject is compared with anywhere in f
	isCmp := func(b *ssa.BasicBlock) (*ssa.BinOp, bool) {
		iff, ok := b.Instrs[len(b.Instrs)-1].(*ssa.If)
		if !ok {
			return nil, false
		}
		bo, ok := iff.Cond.(*ssa.BinOp)
		if !ok || bo.Op != token.EQL || !subject(bo.X) {
			return nil, false
		}
		return bo, true
	}
	key := func(bo *ssa.BinOp) string {
		if k, ok := bo.Y.(*ssa.Const); ok && k.Value != nil {
			return k.Value.ExactString()
		}
		return bo.Y.Name()
	}
	all := map[string]bool{}
	for _, b := range f.Blocks {
		if bo, ok := isCmp(b); ok {
			all[key(bo)] = true
		}
	}
	if len(all) == 0 {
		return false
	}
	// the default arm: a false successor of a comparison that is not itself a comparison of the subject and that is
	// reached only with *every* compared constant excluded (a nested re-test of one constant inside an arm is not
	// the default)
	found, ok := false, true
	for _, b := range f.Blocks {
		if _, isC := isCmp(b); !isC {
			continue
		}
		def := b.Succs[1]
		if _, again := isCmp(def); again {
			continue
		}
		excluded := map[string]bool{}
		for _, cf := range append(dominatingConds(def), edgeCond(b, def)...) {
			if bo, isB := cf.Cond.(*ssa.BinOp); isB && bo.Op == token.EQL && !cf.Val && subject(bo.X) {
				excluded[key(bo)] = true
			}
		}
		if len(excluded) < len(all) {
			continue
		}
		found = true
		if !isErrorExit(def) {
			ok = false
		}
	}
	return found && ok
}

// stepArmName names the arm of the evaluator in which pos lies by the nearest
// enclosing step-kind constant (informational; the construct key).
func stepArmName(c *Ctx, pos token.Pos, f *ssa.Function) string {
	all := constsOfType(c, protopathPkg, "StepKind")
	best := ""
	for _, b := range f.Blocks {
		for _, in := range b.Instrs {
			if in.Pos() != pos {
				continue
			}
			for _, cf := range dominatingConds(b) {
				if bo, ok := cf.Cond.(*ssa.BinOp); ok && bo.Op == token.EQL && cf.Val {
					if k, ok := bo.Y.(*ssa.Const); ok && k.Value != nil && k.Value.Kind() == constant.Int {
						if n, ok := all[k.Int64()]; ok && best == "" {
							best = n
						}
					}
				}
			}
		}
	}
	if best == "" {
		return "step"
	}
	return best
}

// possibleConsts: the constants K such that block b is entered only through
// true edges of `v == K` (a switch arm, possibly with several case values).
func possibleConsts(b *ssa.BasicBlock, v ssa.Value, depth int) ([]int64, bool) {
	if depth > 6 || len(b.Preds) == 0 {
		return nil, false
	}
	var out []int64
	for _, p := range b.Preds {
		switch last := p.Instrs[len(p.Instrs)-1].(type) {
		case *ssa.If:
			bo, ok := last.Cond.(*ssa.BinOp)
			if !ok || bo.Op != token.EQL || p.Succs[0] != b || stripConv(bo.X) != stripConv(v) {
				return nil, false
			}
			k, ok := constInt(bo.Y)
			if !ok {
				return nil, false
			}
			out = append(out, k)
		case *ssa.Jump:
			sub, ok := possibleConsts(p, v, depth+1)
			if !ok {
				return nil, false
			}
			out = append(out, sub...)
		default:
			return nil, false
		}
	}
	return out, len(out) > 0
}

// evalConstHelper folds a call to a small repo function whose result depends
// only on comparisons of one parameter with constants, for every constant the
// argument can have at the call site; returns the largest result.
func evalConstHelper(call *ssa.Call) (int64, bool) {
	g := call.Call.StaticCallee()
	if g == nil || g.Blocks == nil || len(g.Params) != len(call.Call.Args) || len(g.Params) != 1 {
		return 0, false
	}
	arg := call.Call.Args[0]
	var vals []int64
	if k, ok := constInt(arg); ok {
		vals = []int64{k}
	} else if ks, ok := possibleConsts(call.Block(), arg, 0); ok {
		vals = ks
	} else {
		return 0, false
	}
	best := int64(-1)
	for _, k := range vals {
		b := g.Blocks[0]
		var res int64
		done := false
		for steps := 0; steps < 64 && !done; steps++ {
			switch last := b.Instrs[len(b.Instrs)-1].(type) {
			case *ssa.If:
				bo, ok := last.Cond.(*ssa.BinOp)
				if !ok || (bo.Op != token.EQL && bo.Op != token.NEQ) || stripConv(bo.X) != ssa.Value(g.Params[0]) {
					return 0, false
				}
				c, ok := constInt(bo.Y)
				if !ok {
					return 0, false
				}
				if (c == k) == (bo.Op == token.EQL) {
					b = b.Succs[0]
				} else {
					b = b.Succs[1]
				}
			case *ssa.Jump:
				b = b.Succs[0]
			case *ssa.Return:
				if len(last.Results) != 1 {
					return 0, false
				}
				r, ok := constInt(last.Results[0])
				if !ok {
					return 0, false
				}
				res, done = r, true
			default:
				return 0, false
			}
		}
		if !done {
			return 0, false
		}
		if res > best {
			best = res
		}
	}
	return best, best >= 0
}

// stepKindsHandled: R3 for the evaluator — its step-kind switch covers every protopath.StepKind constant.
func (c *Ctx) stepKindsHandled(ev *ssa.Function, name string) {
	covered := switchConsts(ev, func(v ssa.Value) bool {
		call, ok := v.(*ssa.Call)
		if !ok {
			return false
		}
		if call.Call.IsInvoke() {
			return call.Call.Method.Name() == "Kind"
		}
		cal := call.Call.StaticCallee()
		return cal != nil && cal.Name() == "Kind" && cal.Signature.Recv() != nil && namedIs(cal.Signature.Recv().Type(), protopathPkg, "Step")
	})
	all := constsOfType(c, protopathPkg, "StepKind")
	var missing []string
	for v, n := range all {
		if !covered[v] {
			missing = append(missing, n)
		}
	}
	sort.Strings(missing)
	c.S.Check(len(missing) == 0 && len(all) > 0, "R3", name+":step kinds", c.pos(ev.Pos()), fmt.Sprintf("all %d protopath.StepKind constants handled", len(all)), fmt.Sprintf("step kinds not handled by the evaluator: %v", missing))
}

// coUpdateFields: the field form of R1. In the evaluator's region, for every store to a struct field of type
// protoreflect.Value (the value cursor) there is a store to a descriptor-typed field of the same struct object in
// the same block or in a block that dominates it (so it is executed whenever the value cursor moves). Returns
// (all ok, number of value-cursor stores).
func (c *Ctx) coUpdateFields(ev *ssa.Function, name string) (bool, int) {
	isDescType := func(t types.Type) bool {
		return namedIs(t, protoreflectPkg, "Descriptor") || namedIs(t, protoreflectPkg, "MessageDescriptor") || namedIs(t, protoreflectPkg, "FieldDescriptor")
	}
	fieldType := func(fa *ssa.FieldAddr) types.Type {
		if pt, ok := fa.Type().(*types.Pointer); ok {
			return pt.Elem()
		}
		return nil
	}
	okAll, n := true, 0
	for _, g := range unexportedRegion(ev) {
		type st struct {
			s    *ssa.Store
			base ssa.Value
		}
		var vals, descs []st
		for _, b := range g.Blocks {
			for _, in := range b.Instrs {
				s, ok := in.(*ssa.Store)
				if !ok {
					continue
				}
				fa, ok := s.Addr.(*ssa.FieldAddr)
				if !ok {
					continue
				}
				// literal initialisation of a fresh walker sets both at once and is not a move
				if al, isAl := fa.X.(*ssa.Alloc); isAl && al.Comment == "complit" {
					continue
				}
				ft := fieldType(fa)
				switch {
				case ft != nil && namedIs(ft, protoreflectPkg, "Value"):
					vals = append(vals, st{s, fa.X})
				case ft != nil && isDescType(ft):
					descs = append(descs, st{s, fa.X})
				}
			}
		}
		for _, v := range vals {
			n++
			found := false
			for _, d := range descs {
				if d.base != v.base {
					continue
				}
				if d.s.Block() == v.s.Block() || d.s.Block().Dominates(v.s.Block()) {
					found = true
					if msg := transferMismatch(v.s.Val, d.s.Val); msg != "" {
						okAll = false
						c.S.Bad("R2", name+":descriptor transfer:"+load.FuncName(g), c.pos(v.s.Pos()), msg)
					}
				}
			}
			if !found {
				okAll = false
				c.S.Bad("R1", name+":co-update:"+load.FuncName(g), c.pos(v.s.Pos()), "the value cursor field is assigned without the descriptor cursor field being assigned on the same path: the next field access is resolved against the wrong message type")
			}
		}
	}
	return okAll, n
}

// transferMismatch: cv is the new value cursor, dv the new descriptor cursor of one evaluator step. If the value
// came out of a protoreflect.Map lookup the descriptor must come from FieldDescriptor.MapValue(); if it came out of
// a protoreflect.List it must not (it is the field's own Message()).
func transferMismatch(cv, dv ssa.Value) string {
	derives := func(v ssa.Value, pred func(*ssa.Call) bool) bool {
		seen := map[ssa.Value]bool{}
		var walk func(x ssa.Value, d int) bool
		walk = func(x ssa.Value, d int) bool {
			if x == nil || seen[x] || d > 8 {
				return false
			}
			seen[x] = true
			switch y := x.(type) {
			case *ssa.Call:
				if pred(y) {
					return true
				}
				if y.Call.IsInvoke() {
					if walk(y.Call.Value, d+1) {
						return true
					}
				}
				for _, a := range y.Call.Args {
					if walk(a, d+1) {
						return true
					}
				}
			case *ssa.Extract:
				return walk(y.Tuple, d+1)
			case *ssa.Phi:
				// the cursors of the previous step: what they were derived from does not describe this step
				return false
			case *ssa.MakeInterface:
				return walk(y.X, d+1)
			case *ssa.ChangeInterface:
				return walk(y.X, d+1)
			case *ssa.TypeAssert:
				return walk(y.X, d+1)
			case *ssa.UnOp:
				if _, isField := y.X.(*ssa.FieldAddr); isField {
					return false // a cursor kept in a struct field: the previous step's value
				}
				return walk(y.X, d+1)
			}
			return false
		}
		return walk(v, 0)
	}
	method := func(name, recvType string) func(*ssa.Call) bool {
		return func(call *ssa.Call) bool {
			if call.Call.IsInvoke() {
				return call.Call.Method.Name() == name && (recvType == "" || namedIs(call.Call.Value.Type(), protoreflectPkg, recvType) || methodFromIface(call.Call.Method, protoreflectPkg, recvType))
			}
			cal := call.Call.StaticCallee()
			return cal != nil && cal.Name() == name && cal.Signature.Recv() != nil && (recvType == "" || namedIs(cal.Signature.Recv().Type(), protoreflectPkg, recvType))
		}
	}
	viaMap := derives(cv, method("Map", "Value"))
	viaList := derives(cv, method("List", "Value"))
	descMapValue := derives(dv, method("MapValue", "FieldDescriptor"))
	switch {
	case viaMap && !descMapValue:
		return "after a map index the descriptor cursor is not the map's value descriptor (FieldDescriptor.MapValue()): the next field access is resolved against the synthetic map-entry message, so present fields of the value are reported missing"
	case viaList && !viaMap && descMapValue:
		return "after a list index the descriptor cursor is taken from MapValue(), which a list field does not have"
	}
	return ""
}
