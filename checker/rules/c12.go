package rules

import (
	"fmt"
	"go/constant"
	"go/token"
	"go/types"
	"sort"
	"strings"

	"golang.org/x/tools/go/ssa"

	"verif/checker/esp"
	"verif/checker/flow"
	"verif/checker/load"
	"verif/checker/report"
)

func init() {
	register(&RuleSet{
		ID: "C12",
		Explanation: "R10 a creation gate that refuses an existing object (os.ErrExist / status AlreadyExists) makes its existence probe under no condition that derives from --keep_going (output.AllowRecoverableError): keep_going may soften the refusal, never skip the probe. " +
			"R1 serial agreement: in every certificate-template producer (production functions that store an x509.Certificate's SerialNumber or its Subject / Subject.SerialNumber), the certificate serial and the subject serial share one non-constant origin (related by big.Int String/SetString); a producer that works on a copy of another certificate and sets only one of the two is reported. " +
			"R2 no-clobber: in sign/gcsca the object write inside the gate is reachable only where Storage.Exists returned false or output.AllowOverwrite returned true (ESP); R2b every other storage write of gcsca is the manifest write, so certificate objects cannot be written around the gate. " +
			"R3 old key retired: rotate.Key returns nil only after the old key was destroyed or the previous primary version was found empty (ESP, with the rules of C10). " +
			"R4 profile: NotAfter is NotBefore plus exactly RootValidDays for a CA / self-issued template and SignValidDays otherwise, per branch on IsCA / Issuer == nil; where a producer sets KeyUsage, the CA arm has IsCA=true and CertSign|CRLSign and the other arm DigitalSignature. " +
			"R5 default serial: the rotate command stores the default serial from sign/ops.NextSigningKeySerial, which returns parsed-subject-serial + the constant 1 of the primary signing certificate. " +
			"R9 in sign/gcsca a loop over a mutation's certificates goes round only behind the iteration's upload call (or for a nil certificate). " +
			"R8 (ESP) no production Wipeout (rotate.Wipeout, the storage-backed CA, wrapping key managers) returns nil on a path on which one of its wipeout / destroy / delete steps failed. " +
			"R7 a key manager that embeds another implementation of keys.ManagerInterface and overrides its Create* methods also overrides DestroyKeyVersion and Wipeout (none of them is taken from the embedded manager by promotion). " +
			"R6 profile ownership: every store into a field of an x509.Certificate in production code writes an object allocated by the storing function (or by all callers of an unexported helper); a template returned by a producer is never adjusted afterwards. " +
			"Not covered: serial arithmetic over histories, key-name uniqueness across wipeouts, wipeout completeness, which key can sign.",
		Assumptions: []string{"go/types, go/ssa", "math/big", "crypto/x509 template semantics"},
		Run:         runC12,
	})
}

func isCertField(fa *ssa.FieldAddr, name string) bool {
	return flow.IsFieldLoad(fa, "crypto/x509", "Certificate", name)
}

func runC12(c *Ctx) {
	defer c12Wipeout(c)
	defer c12EveryCertUploaded(c)
	defer c12ExistenceGates(c)
	stypPkg := repoPath("sign/types")
	sl := flow.NewSlicer(c.P)
	sl.ThroughOutParams = true
	sl.LiftParams = 0

	// ---------------- R1 / R4 over template producers ----------------
	rootDays, signDays := int64(-1), int64(-1)
	if k := c.extConst(stypPkg, "RootValidDays"); k != nil {
		rootDays, _ = constant.Int64Val(k)
	}
	if k := c.extConst(stypPkg, "SignValidDays"); k != nil {
		signDays, _ = constant.Int64Val(k)
	}
	const dayNs = int64(24 * 3600 * 1e9)
	nProd := 0
	for _, f := range c.P.RepoFunctions() {
		rel := load.RelPkg(f)
		if c.isTestFunc(f) || rel == "testing/testca" || rel == "testing/devkeys" || rel == "testing/testsign" || rel == "testing/testkms" {
			continue
		}
		var serialStores, subjSerialStores, subjStores, notAfterStores, keyUsageStores, isCAStores []*ssa.Store
		copiedCert := false
		for _, b := range f.Blocks {
			for _, in := range b.Instrs {
				st, ok := in.(*ssa.Store)
				if !ok {
					continue
				}
				// whole-certificate copy from another certificate
				if al, ok := st.Addr.(*ssa.Alloc); ok && namedIs(al.Type(), "crypto/x509", "Certificate") {
					if ld, ok := st.Val.(*ssa.UnOp); ok && ld.Op == token.MUL {
						copiedCert = true
					}
				}
				fa, ok := st.Addr.(*ssa.FieldAddr)
				if !ok {
					continue
				}
				switch {
				case isCertField(fa, "SerialNumber"):
					serialStores = append(serialStores, st)
				case isCertField(fa, "Subject"):
					subjStores = append(subjStores, st)
				case isCertField(fa, "NotAfter"):
					notAfterStores = append(notAfterStores, st)
				case isCertField(fa, "KeyUsage"):
					keyUsageStores = append(keyUsageStores, st)
				case isCertField(fa, "IsCA"):
					isCAStores = append(isCAStores, st)
				case flow.IsFieldLoad(fa, "crypto/x509/pkix", "Name", "SerialNumber"):
					if inner, ok := fa.X.(*ssa.FieldAddr); ok && isCertField(inner, "Subject") {
						subjSerialStores = append(subjSerialStores, st)
					}
				}
			}
		}
		if len(serialStores)+len(subjSerialStores)+len(subjStores) == 0 {
			continue
		}
		nProd++
		name := load.FuncName(f)
		// R1
		switch {
		case copiedCert && (len(serialStores) == 0) != (len(subjSerialStores)+len(subjStores) == 0):
			which := "certificate serial number is inherited from the copied certificate while the subject serial is set"
			if len(serialStores) > 0 {
				which = "subject serial is inherited from the copied certificate while the certificate serial number is set"
			}
			c.S.Bad("R1", name+":serial agreement", c.pos(f.Pos()), "template derived from another certificate: "+which+" — two certificates of one issuer can carry the same serial number")
		default:
			// common non-constant origin
			o1 := map[ssa.Value]bool{}
			for _, st := range serialStores {
				for _, o := range sl.Origins(st.Val) {
					if _, isK := o.(*ssa.Const); !isK {
						o1[o] = true
					}
				}
				// also the direct value and loads it passes through
				sl.Visit(st.Val, func(v ssa.Value) bool { o1[v] = true; return true }, nil)
			}
			common := false
			for _, st := range append(append([]*ssa.Store{}, subjSerialStores...), subjStores...) {
				sl.Visit(st.Val, func(v ssa.Value) bool {
					if _, isK := v.(*ssa.Const); !isK && o1[v] {
						if _, isCall := v.(*ssa.Call); !isCall || true {
							common = true
						}
					}
					return !common
				}, nil)
			}
			ok := common && len(serialStores) > 0
			c.S.Check(ok, "R1", name+":serial agreement", c.pos(f.Pos()), "certificate serial and subject serial come from one source", "certificate serial number and subject serial number do not come from one source in this template producer")
		}
		// R4 lifetimes
		branchesOnCA := false
		for _, b := range f.Blocks {
			if iff, ok := b.Instrs[len(b.Instrs)-1].(*ssa.If); ok {
				if caCond(iff.Cond) != 0 {
					branchesOnCA = true
				}
			}
		}
		for _, st := range notAfterStores {
			days := lifetimeDays(st.Val, dayNs)
			arm := 0 // +1 CA arm, -1 non-CA arm
			for _, cf := range dominatingConds(st.Block()) {
				if k := caCond(cf.Cond); k != 0 {
					if cf.Val {
						arm = k
					} else {
						arm = -k
					}
				}
			}
			construct := name + ":NotAfter"
			if days == -1 && arm == 0 && branchesOnCA {
				// one store for both kinds, the number of days read from a record that a per-kind helper filled in
				// and that was chosen on the same IsCA test
				if ca, sign, ok := lifetimeByKind(st.Val, dayNs); ok {
					c.S.Check(ca == rootDays, "R4", construct+" (CA arm)", c.pos(st.Pos()), fmt.Sprintf("CA lifetime is RootValidDays (%d days), chosen per kind", rootDays), fmt.Sprintf("a CA certificate template gets a lifetime of %d days, want RootValidDays=%d", ca, rootDays))
					c.S.Check(sign == signDays, "R4", construct+" (signing arm)", c.pos(st.Pos()), fmt.Sprintf("signing lifetime is SignValidDays (%d days), chosen per kind", signDays), fmt.Sprintf("a signing certificate template gets a lifetime of %d days, want SignValidDays=%d", sign, signDays))
					continue
				}
			}
			switch {
			case days == -2:
				// lifetime given by a parameter (helper): checked at the call sites below
				c.S.OK("R4", construct, c.pos(st.Pos()), "lifetime supplied by the caller (checked at call sites)", false)
			case arm > 0:
				c.S.Check(days == rootDays, "R4", construct+" (CA arm)", c.pos(st.Pos()), fmt.Sprintf("CA lifetime is RootValidDays (%d days)", rootDays), fmt.Sprintf("a CA certificate template gets a lifetime of %d days, want RootValidDays=%d", days, rootDays))
			case arm < 0:
				c.S.Check(days == signDays, "R4", construct+" (signing arm)", c.pos(st.Pos()), fmt.Sprintf("signing lifetime is SignValidDays (%d days)", signDays), fmt.Sprintf("a signing certificate template gets a lifetime of %d days, want SignValidDays=%d", days, signDays))
			case branchesOnCA:
				c.S.Bad("R4", construct, c.pos(st.Pos()), fmt.Sprintf("this producer handles CA and non-CA certificates but assigns one lifetime (%d days) to both", days))
			default:
				c.S.Check(days == rootDays || days == signDays, "R4", construct, c.pos(st.Pos()), "lifetime is one of the documented constants", fmt.Sprintf("lifetime of %d days is neither RootValidDays nor SignValidDays", days))
			}
		}
		for _, st := range keyUsageStores {
			arm := 0
			for _, cf := range dominatingConds(st.Block()) {
				if k := caCond(cf.Cond); k != 0 {
					if cf.Val {
						arm = k
					} else {
						arm = -k
					}
				}
			}
			k, isK := st.Val.(*ssa.Const)
			var ku int64 = -1
			if isK && k.Value != nil {
				ku = k.Int64()
			}
			wantCA, _ := constant.Int64Val(constant.BinaryOp(c.extConst("crypto/x509", "KeyUsageCertSign"), token.OR, c.extConst("crypto/x509", "KeyUsageCRLSign")))
			wantSign, _ := constant.Int64Val(c.extConst("crypto/x509", "KeyUsageDigitalSignature"))
			switch {
			case arm > 0:
				caTrue := false
				for _, s2 := range isCAStores {
					if kk, ok := s2.Val.(*ssa.Const); ok && kk.Value != nil && constant.BoolVal(kk.Value) && s2.Block() == st.Block() {
						caTrue = true
					}
				}
				c.S.Check(ku == wantCA && caTrue, "R4", name+":CA profile", c.pos(st.Pos()), "IsCA with CertSign|CRLSign", "root template is not a CA certificate with CertSign|CRLSign usage")
			case arm < 0:
				caSet := false
				for _, s2 := range isCAStores {
					if s2.Block() == st.Block() {
						caSet = true
					}
				}
				c.S.Check(ku == wantSign && !caSet, "R4", name+":signing profile", c.pos(st.Pos()), "non-CA with DigitalSignature", "signing-key template is not a non-CA DigitalSignature certificate")
			}
		}
	}
	c.S.Floor("R1", "certificate template producers", 3, nProd)
	// lifetimes supplied by callers of helper producers: constant argument must be one of the two
	for _, f := range c.P.RepoFunctions() {
		if c.isTestFunc(f) || load.RelPkg(f) != "sign/nonprod" {
			continue
		}
		for _, call := range callsIn(f, func(call ssa.CallInstruction) bool {
			cal := call.Common().StaticCallee()
			if cal == nil || load.RelPkg(cal) != "sign/nonprod" || cal.Signature.Results().Len() != 1 || !namedIs(cal.Signature.Results().At(0).Type(), "crypto/x509", "Certificate") {
				return false
			}
			return true
		}) {
			args := call.Common().Args
			selfIssued := len(args) >= 3 && sameStructValue(args[1], args[2])
			for _, a := range args {
				if k, ok := a.(*ssa.Const); ok && k.Value != nil && k.Value.Kind() == constant.Int && a.Type().String() == "int" {
					d := k.Int64()
					want := signDays
					if selfIssued {
						want = rootDays
					}
					c.S.Check(d == want, "R4", load.FuncName(f)+"→"+callName(call)+":lifetime", c.pos(call.Pos()), fmt.Sprintf("lifetime %d days matches the certificate kind", d), fmt.Sprintf("template requested with %d days, want %d for this kind of certificate", d, want))
				}
			}
		}
	}

	// ---------------- R2 no-clobber ----------------
	wf := c.P.Func("storage/ops", "WriteFile")
	allow := c.P.Func("cmd/output", "AllowOverwrite")
	storPkg := repoPath("storage/storagei")
	ng := 0
	if wf != nil && allow != nil {
		gateList := []*ssa.Function{}
		for g := range c.gcscaGates() {
			gateList = append(gateList, g)
		}
		sort.Slice(gateList, func(i, j int) bool { return gateList[i].Pos() < gateList[j].Pos() })
		for _, g := range gateList {
			ng++
			name := load.FuncName(g)
			const (
				bAbsent uint = iota
				bAllowed
				bWritten
				bKeepGoing
			)
			keepGoing := c.P.Func("cmd/output", "AllowRecoverableError")
			r := &esp.Rule{Name: "C12.R2"}
			// the flag policy may sit in an unexported helper that is handed the probe's answer and consults the
			// permission (overwriteDecision(ctx, path, exists) (write bool, err error)): it is summarised
			policy := map[*ssa.Function]bool{}
			for _, h := range unexportedRegion(g) {
				if h != g && len(callsIn(h, func(call ssa.CallInstruction) bool { return call.Common().StaticCallee() == allow })) > 0 {
					policy[h] = true
				}
			}
			r.Relevant = func(f *ssa.Function) bool { return policy[f] }
			r.Match = func(in ssa.Instruction) []esp.Ev {
				call, ok := in.(ssa.CallInstruction)
				if !ok {
					return nil
				}
				switch {
				case invokeIs(call, storPkg, "Client", "Exists"):
					return []esp.Ev{{ID: 0, Name: "Storage.Exists", ErrIdx: -1, BoolIdx: 0}}
				case call.Common().StaticCallee() == allow:
					return []esp.Ev{{ID: 1, Name: "AllowOverwrite", ErrIdx: -1, BoolIdx: 0}}
				case c.gcscaIsWrite(call):
					return []esp.Ev{{ID: 2, Name: "object write", ErrIdx: -1, BoolIdx: -1}}
				case keepGoing != nil && call.Common().StaticCallee() == keepGoing:
					return []esp.Ev{{ID: 3, Name: "AllowRecoverableError", ErrIdx: -1, BoolIdx: 0}}
				}
				return nil
			}
			r.Step = func(x *esp.Ctx, s esp.State, ev esp.Ev, ph esp.Phase) (esp.State, string) {
				switch ev.ID {
				case 0:
					if ph == esp.Fail {
						return s.Set(bAbsent), ""
					}
					if ph == esp.Ok {
						return s.Clear(bAbsent), ""
					}
				case 1:
					if ph == esp.Ok {
						return s.Set(bAllowed), ""
					}
				case 2:
					if ph == esp.AtCall && !s.Has(bAbsent) && !s.Has(bAllowed) {
						return s, "R2: stored object written where it may exist and overwrite permission was not established"
					}
					if ph == esp.AtCall {
						return s.Set(bWritten), ""
					}
				case 3:
					if ph == esp.Ok {
						return s.Set(bKeepGoing), ""
					}
				}
				return s, ""
			}
			// the gate says "fine" only if it wrote the object or was told to keep going: an existing object in the way
			// is refused here, in front of everything that follows (the manifest write), not reported afterwards
			gateFn := g
			r.AtAnyReturn = func(x *esp.Ctx, fn *ssa.Function, s esp.State, rets []esp.Abs) string {
				if fn != gateFn || len(rets) == 0 {
					return ""
				}
				if rets[len(rets)-1] != esp.NonZero && !s.Has(bWritten) && !s.Has(bKeepGoing) {
					return "R2: the gate may report success without having written the object and without --keep_going (an existing object in the way is skipped silently; the caller goes on to record the key in the manifest)"
				}
				return ""
			}
			e := c.engine(r)
			e.Run(g, esp.State{})
			n := c.reportEngine(e, "R2", func(v *esp.Violation) string { return name + ":no-clobber" })
			if n == 0 {
				c.S.OK("R2", name+":no-clobber", c.pos(g.Pos()), fmt.Sprintf("object written only when absent or overwrite allowed (%d configurations)", e.Configs), true)
			}
		}
	}
	c.S.Floor("R2", "no-clobber gates in sign/gcsca", 1, ng)
	// R2b: the gate is the only way to write a certificate object — every other storage write of
	// gcsca is the manifest write (object name = the constant ManifestObjectName)
	if wf != nil {
		manifestName := ""
		if pk := c.P.Pkg("sign/gcsca"); pk != nil {
			if k, ok := pk.Pkg.Scope().Lookup("ManifestObjectName").(*types.Const); ok && k.Val().Kind() == constant.String {
				manifestName = constant.StringVal(k.Val())
			}
		}
		nW := 0
		for _, f := range c.P.RepoFunctions() {
			if load.RelPkg(f) != "sign/gcsca" || c.isTestFunc(f) {
				continue
			}
			inGate := c.gcscaGates()[f]
			for _, call := range callsIn(f, c.gcscaIsWrite) {
				nW++
				isManifest := false
				if name, ok := c.gcscaWriteName(call); ok {
					if k, ok := name.(*ssa.Const); ok && k.Value != nil && k.Value.Kind() == constant.String && manifestName != "" && constant.StringVal(k.Value) == manifestName {
						isManifest = true
					}
				}
				c.S.Check(inGate || isManifest, "R2b", load.FuncName(f)+":object write", c.pos(call.Pos()), "certificate objects are written only inside the no-clobber gate", "a stored object other than the manifest is written outside the no-clobber gate: an existing certificate can be replaced without overwrite permission")
			}
		}
		c.S.Floor("R2b", "storage writes in sign/gcsca", 2, nW)
	}

	// ---------------- R3 (with C10's rules) ----------------
	{
		sub := *c
		sub.S = report.NewSet(c.S.Property)
		runC10(&sub)
		for _, o := range sub.S.Obs {
			o.Rule = "R3/C10." + o.Rule
			c.S.Obs = append(c.S.Obs, o)
		}
		c.S.Notes = append(c.S.Notes, sub.S.Notes...)
		for k, v := range sub.S.Counters {
			c.S.Counters[k] += v
		}
	}

	// ---------------- R6 profile ownership ----------------
	// The certificate profile (validity, usages, serials, algorithm) is decided by the template producers. A store
	// into a field of an x509.Certificate is allowed only on an object the storing function allocated itself (a
	// literal or a copy being built); a template obtained from a producer (call result, interface result, field)
	// is not adjusted afterwards.
	nCertStores := 0
	for _, f := range c.P.RepoFunctions() {
		if c.isTestFunc(f) || strings.HasPrefix(load.RelPkg(f), "proto/") {
			continue
		}
		for _, b := range f.Blocks {
			for _, in := range b.Instrs {
				st, ok := in.(*ssa.Store)
				if !ok {
					continue
				}
				// address chain down to the certificate object
				var certObj ssa.Value
				field := ""
				addr := st.Addr
				for i := 0; i < 8; i++ {
					fa, ok := addr.(*ssa.FieldAddr)
					if !ok {
						break
					}
					if namedIs(fa.X.Type(), "crypto/x509", "Certificate") {
						certObj, field = fa.X, flow.FieldName(fa)
						break
					}
					addr = fa.X
				}
				if certObj == nil {
					continue
				}
				nCertStores++
				okRoot, why := certRootLocal(c, certObj, f, 0)
				c.S.Check(okRoot, "R6", load.FuncName(f)+":writes Certificate."+field, c.pos(st.Pos()),
					"the certificate object written is one this function allocates",
					"field "+field+" of a certificate template is written outside the function that built the template ("+why+"): the profile the producers define (lifetime, usages, serial) is changed behind their back")
			}
		}
	}
	c.S.Floor("R6", "stores into x509.Certificate fields", 8, nCertStores)

	// ---------------- R7 key-manager overrides come in pairs ----------------
	// A key manager that embeds another implementation of keys.ManagerInterface and overrides its key-creating methods
	// (because it keeps the key material somewhere else too: files, a service) must also override DestroyKeyVersion
	// and Wipeout; with one of them merely promoted from the embedded manager, a "destroyed" key survives wherever the
	// outer manager keeps it and can sign again.
	{
		var mi *types.Interface
		if kp := c.P.Pkg("keys"); kp != nil {
			if o := kp.Pkg.Scope().Lookup("ManagerInterface"); o != nil {
				mi, _ = o.Type().Underlying().(*types.Interface)
			}
		}
		nEmb := 0
		if mi != nil {
			var pkgPaths []string
			for path := range c.P.SSAPkgs {
				if strings.HasPrefix(path, load.RootModule) {
					pkgPaths = append(pkgPaths, path)
				}
			}
			sort.Strings(pkgPaths)
			for _, path := range pkgPaths {
				sp := c.P.SSAPkgs[path]
				for _, nm := range sp.Pkg.Scope().Names() {
					tn, ok := sp.Pkg.Scope().Lookup(nm).(*types.TypeName)
					if !ok {
						continue
					}
					st, ok := tn.Type().Underlying().(*types.Struct)
					if !ok || !types.Implements(types.NewPointer(tn.Type()), mi) {
						continue
					}
					embeds := false
					for i := 0; i < st.NumFields(); i++ {
						f := st.Field(i)
						if f.Embedded() && (types.Implements(f.Type(), mi) || types.Implements(types.NewPointer(f.Type()), mi)) {
							embeds = true
						}
					}
					if !embeds {
						continue
					}
					nEmb++
					ms := types.NewMethodSet(types.NewPointer(tn.Type()))
					own := map[string]bool{}
					for i := 0; i < mi.NumMethods(); i++ {
						m := mi.Method(i)
						if sel := ms.Lookup(m.Pkg(), m.Name()); sel != nil && len(sel.Index()) == 1 {
							own[m.Name()] = true
						}
					}
					creates := false
					for n := range own {
						if strings.HasPrefix(n, "Create") {
							creates = true
						}
					}
					var missing []string
					if creates {
						for _, n := range []string{"DestroyKeyVersion", "Wipeout"} {
							if !own[n] {
								missing = append(missing, n)
							}
						}
					}
					name := strings.TrimPrefix(path, load.RootModule+"/") + "." + nm
					c.S.Check(len(missing) == 0, "R7", name+":lifecycle overrides", c.pos(tn.Pos()),
						"creation and destruction are overridden together (or neither)",
						fmt.Sprintf("%s overrides the key-creating methods of the manager it embeds but takes %v from it by promotion: a key it created and keeps outside the embedded manager is not destroyed there and can sign again", name, missing))
				}
			}
		}
		c.S.Floor("R7", "key managers that embed another key manager", 1, nEmb)
	}

	// ---------------- R5 default serial ----------------
	next := c.fn("R5", "sign/ops", "NextSigningKeySerial")
	if next != nil {
		// used as the default in cmd
		nuse := 0
		for _, f := range c.P.RepoFunctions() {
			if load.RelPkg(f) != "cmd" || c.isTestFunc(f) {
				continue
			}
			for _, b := range f.Blocks {
				for _, in := range b.Instrs {
					st, ok := in.(*ssa.Store)
					if !ok {
						continue
					}
					fa, ok := st.Addr.(*ssa.FieldAddr)
					if !ok || !flow.IsFieldLoad(fa, repoPath("rotate"), "SigningKeyContext", "SigningKeySerial") {
						continue
					}
					nuse++
					ok = sl.Derives(st.Val, func(v ssa.Value) bool {
						call, isCall := v.(*ssa.Call)
						return isCall && call.Call.StaticCallee() == next
					})
					c.S.Check(ok, "R5", load.FuncName(f)+":default serial", c.pos(st.Pos()), "default serial comes from NextSigningKeySerial", "the default rotated-key serial does not come from NextSigningKeySerial")
				}
			}
		}
		c.S.Floor("R5", "default-serial stores in package cmd", 1, nuse)
		// inside: Add(parsed subject serial, NewInt(1))
		okAdd := false
		for _, call := range callsIn(next, func(call ssa.CallInstruction) bool { return calleeIs(call, "(*math/big.Int).Add") }) {
			args := call.Common().Args
			one := false
			for _, a := range args[1:] {
				if nc, ok := a.(*ssa.Call); ok && calleeIs(nc, "math/big.NewInt") {
					if k, ok := nc.Call.Args[0].(*ssa.Const); ok && k.Value != nil && k.Int64() == 1 {
						one = true
					}
				}
			}
			fromSubject := false
			for _, a := range args[1:] {
				if sl.Derives(a, func(v ssa.Value) bool {
					if fa, ok := v.(*ssa.FieldAddr); ok && flow.IsFieldLoad(fa, "crypto/x509/pkix", "Name", "SerialNumber") {
						return true
					}
					return flow.IsFieldLoad(v, "crypto/x509/pkix", "Name", "SerialNumber")
				}) {
					fromSubject = true
				}
			}
			primary := sl.Derives(args[1], func(v ssa.Value) bool {
				cv, ok := v.(*ssa.Call)
				return ok && invokeIs(cv, stypPkg, "CertificateAuthority", "PrimarySigningKeyVersion")
			})
			// the certificate is parsed from bytes (x509.ParseCertificate is not a data transformer the slice
			// follows): the primary version is asked for in the function or in a same-package helper it is split into
			for _, g := range unexportedRegion(next) {
				if len(callsIn(g, func(cc ssa.CallInstruction) bool {
					return invokeIs(cc, stypPkg, "CertificateAuthority", "PrimarySigningKeyVersion")
				})) > 0 {
					primary = true
				}
			}
			if one && fromSubject && primary {
				okAdd = true
			}
		}
		c.S.Check(okAdd, "R5", "sign/ops.NextSigningKeySerial:increment", c.pos(next.Pos()), "returns the primary certificate's subject serial + 1", "the next serial is not the primary signing certificate's subject serial plus the constant one")
	}
	_ = types.Typ
}

// caCond classifies a branch condition: +1 if true means "CA / self-issued"
// (x.IsCA, issuer == nil), -1 if true means the opposite (issuer != nil), 0 otherwise.
func caCond(cond ssa.Value) int {
	switch v := cond.(type) {
	case *ssa.UnOp:
		if v.Op == token.MUL {
			if fa, ok := v.X.(*ssa.FieldAddr); ok && isCertField(fa, "IsCA") {
				return 1
			}
		}
	case *ssa.BinOp:
		if (v.Op == token.EQL || v.Op == token.NEQ) && isNilK(v.Y) && namedIs(v.X.Type(), "crypto/x509", "Certificate") {
			if v.Op == token.EQL {
				return 1
			}
			return -1
		}
	}
	return 0
}

// lifetimeByKind: v = t.Add(n × const) where n is a field of the record returned by a call through a function value
// that is one of two same-package functions chosen on the certificate's IsCA test, each returning a record literal
// with a constant in that field. Returns the lifetime in days of the CA arm and of the other arm.
func lifetimeByKind(v ssa.Value, dayNs int64) (ca, sign int64, ok bool) {
	call, isCall := v.(*ssa.Call)
	if !isCall || !calleeIs(call, "(time.Time).Add") {
		return 0, 0, false
	}
	mult := int64(1)
	var leaf ssa.Value
	var peel func(x ssa.Value, n int) bool
	peel = func(x ssa.Value, n int) bool {
		if n > 6 {
			return false
		}
		switch y := x.(type) {
		case *ssa.Convert:
			return peel(y.X, n+1)
		case *ssa.BinOp:
			if y.Op != token.MUL {
				return false
			}
			if k, ok := constInt(y.Y); ok {
				mult *= k
				return peel(y.X, n+1)
			}
			if k, ok := constInt(y.X); ok {
				mult *= k
				return peel(y.Y, n+1)
			}
			return false
		case *ssa.UnOp:
			if y.Op == token.MUL && leaf == nil {
				leaf = y
				return true
			}
		}
		return false
	}
	if !peel(call.Call.Args[1], 0) || leaf == nil || mult <= 0 {
		return 0, 0, false
	}
	fa, isFA := leaf.(*ssa.UnOp).X.(*ssa.FieldAddr)
	if !isFA {
		return 0, 0, false
	}
	ex, isEx := fa.X.(*ssa.Extract)
	if !isEx || ex.Index != 0 {
		return 0, 0, false
	}
	rc, isRC := ex.Tuple.(*ssa.Call)
	if !isRC {
		return 0, 0, false
	}
	phi, isPhi := rc.Call.Value.(*ssa.Phi)
	if !isPhi || len(phi.Edges) != 2 {
		return 0, 0, false
	}
	fieldConst := func(g *ssa.Function) (int64, bool) {
		var val int64
		n := 0
		for _, b := range g.Blocks {
			ret, isRet := b.Instrs[len(b.Instrs)-1].(*ssa.Return)
			if !isRet || len(ret.Results) == 0 || isNilK(ret.Results[0]) {
				continue
			}
			al, isAl := ret.Results[0].(*ssa.Alloc)
			if !isAl {
				return 0, false
			}
			found := false
			for _, ref := range *al.Referrers() {
				f2, isF := ref.(*ssa.FieldAddr)
				if !isF || f2.Field != fa.Field {
					continue
				}
				for _, r2 := range *f2.Referrers() {
					if st, isSt := r2.(*ssa.Store); isSt && st.Addr == ssa.Value(f2) {
						k, isK := constInt(st.Val)
						if !isK || found || (n > 0 && k != val) {
							return 0, false
						}
						val, found = k, true
					}
				}
			}
			if !found {
				return 0, false
			}
			n++
		}
		return val, n > 0
	}
	got := map[int]int64{}
	for i, e := range phi.Edges {
		g, isFn := e.(*ssa.Function)
		if !isFn || g.Blocks == nil {
			return 0, 0, false
		}
		k, okk := fieldConst(g)
		if !okk || (k*mult)%dayNs != 0 {
			return 0, 0, false
		}
		pred := phi.Block().Preds[i]
		arm := 0
		for _, cf := range dominatingConds(pred) {
			if s := caCond(cf.Cond); s != 0 {
				if cf.Val {
					arm = s
				} else {
					arm = -s
				}
			}
		}
		if iff, isIf := pred.Instrs[len(pred.Instrs)-1].(*ssa.If); isIf && arm == 0 {
			if s := caCond(iff.Cond); s != 0 {
				if pred.Succs[0] == phi.Block() {
					arm = s
				} else {
					arm = -s
				}
			}
		}
		if arm == 0 {
			return 0, 0, false
		}
		if _, dup := got[arm]; dup {
			return 0, 0, false
		}
		got[arm] = k * mult / dayNs
	}
	if len(got) != 2 {
		return 0, 0, false
	}
	return got[1], got[-1], true
}

// lifetimeDays: v = t.Add(const d) → d in days; -2 if the duration depends on a parameter; -1 otherwise.
func lifetimeDays(v ssa.Value, dayNs int64) int64 {
	call, ok := v.(*ssa.Call)
	if !ok || !calleeIs(call, "(time.Time).Add") {
		return -1
	}
	d := call.Call.Args[1]
	if k, ok := d.(*ssa.Const); ok && k.Value != nil && k.Value.Kind() == constant.Int {
		ns := k.Int64()
		if ns%dayNs == 0 {
			return ns / dayNs
		}
		return -1
	}
	// parameter-dependent
	dep := false
	var walk func(x ssa.Value, n int)
	walk = func(x ssa.Value, n int) {
		if n > 6 {
			return
		}
		switch y := x.(type) {
		case *ssa.Parameter:
			dep = true
		case *ssa.BinOp:
			walk(y.X, n+1)
			walk(y.Y, n+1)
		case *ssa.Convert:
			walk(y.X, n+1)
		}
	}
	walk(d, 0)
	if dep {
		return -2
	}
	return -1
}

// certRootLocal: v (a *x509.Certificate or an addressable Certificate) is an allocation of fn, or a parameter of an
// unexported fn all of whose static callers pass such an allocation.
func certRootLocal(c *Ctx, v ssa.Value, fn *ssa.Function, depth int) (bool, string) {
	switch x := v.(type) {
	case *ssa.Alloc:
		return true, ""
	case *ssa.Phi:
		for _, e := range x.Edges {
			if ok, why := certRootLocal(c, e, fn, depth+1); !ok {
				return false, why
			}
		}
		return true, ""
	case *ssa.UnOp:
		// pointer loaded from a local cell holding a fresh allocation
		if al, ok := x.X.(*ssa.Alloc); ok && x.Op == token.MUL {
			for _, ref := range *al.Referrers() {
				if st, ok := ref.(*ssa.Store); ok && st.Addr == al {
					if ok, why := certRootLocal(c, st.Val, fn, depth+1); !ok {
						return false, why
					}
				}
			}
			return true, ""
		}
		return false, "the object is loaded from " + flow.Describe(x.X)
	case *ssa.Parameter:
		if depth > 2 || (fn.Object() != nil && fn.Object().Exported() && fn.Parent() == nil) {
			return false, "the object is parameter " + x.Name() + " of " + load.FuncName(fn)
		}
		idx := -1
		for i, p := range fn.Params {
			if p == x {
				idx = i
			}
		}
		n := c.P.CallGraph().Nodes[fn]
		calls := 0
		if n != nil {
			for _, e := range n.In {
				if e.Site == nil || e.Caller.Func == nil || e.Site.Common().IsInvoke() || idx < 0 || idx >= len(e.Site.Common().Args) {
					continue
				}
				calls++
				if ok, why := certRootLocal(c, e.Site.Common().Args[idx], e.Caller.Func, depth+1); !ok {
					return false, why
				}
			}
		}
		if calls == 0 {
			return false, "the object is parameter " + x.Name() + " of " + load.FuncName(fn)
		}
		return true, ""
	case *ssa.Call:
		if ok := freshResultOfSamePkgHelper(c, x, 0, fn, depth); ok {
			return true, ""
		}
		return false, "the object is the result of " + callName(x)
	case *ssa.Extract:
		if call, ok := x.Tuple.(*ssa.Call); ok {
			if ok := freshResultOfSamePkgHelper(c, call, x.Index, fn, depth); ok {
				return true, ""
			}
			return false, "the object is a result of " + callName(call)
		}
	}
	return false, "the object is " + flow.Describe(v)
}

// freshResultOfSamePkgHelper: the call statically invokes an unexported function or method of fn's own package
// whose result #idx is, at every return, an object that function allocated: the caller is still "building" it.
func freshResultOfSamePkgHelper(c *Ctx, call *ssa.Call, idx int, fn *ssa.Function, depth int) bool {
	g := call.Call.StaticCallee()
	if g == nil || g.Blocks == nil || g.Pkg != fn.Pkg || depth > 2 {
		return false
	}
	if g.Object() != nil && g.Object().Exported() {
		return false
	}
	for _, b := range g.Blocks {
		ret, ok := b.Instrs[len(b.Instrs)-1].(*ssa.Return)
		if !ok || idx >= len(ret.Results) {
			continue
		}
		r := ret.Results[idx]
		if k, isK := r.(*ssa.Const); isK && k.IsNil() {
			continue
		}
		if ok, _ := certRootLocal(c, r, g, depth+1); !ok {
			return false
		}
	}
	return true
}

// c12Wipeout — R8: a wipeout reports what it did not wipe. In every production function named Wipeout that returns
// an error and calls further wipeout / destroy / delete steps (rotate.Wipeout over the CA and the key manager, the
// storage-backed CA over its bucket, a wrapping key manager over the one it embeds), a return with a nil error is
// never reached on a path on which one of those steps failed: "wipeout leaves no key or certificate usable" is
// only ever claimed when every step succeeded.
func c12Wipeout(c *Ctx) {
	isStep := func(call ssa.CallInstruction) bool {
		name := ""
		if call.Common().IsInvoke() {
			name = call.Common().Method.Name()
		} else if cal := call.Common().StaticCallee(); cal != nil {
			name = cal.Name()
		}
		if errIndex(call.Common().Signature()) < 0 {
			return false
		}
		return name == "Wipeout" || strings.HasPrefix(name, "Destroy") || strings.HasPrefix(name, "Delete")
	}
	n := 0
	for _, f := range c.P.RepoFunctions() {
		if c.isTestFunc(f) || f.Name() != "Wipeout" || f.Blocks == nil || errIndex(f.Signature) < 0 || f.Parent() != nil {
			continue
		}
		rel := load.RelPkg(f)
		if strings.HasPrefix(rel, "testing/test") || rel == "testing/storage" || rel == "keys/gcpkms" {
			continue // test doubles; the Cloud KMS manager collects refusals per version (C20.R5)
		}
		if len(callsIn(f, isStep)) == 0 {
			continue
		}
		n++
		const bFailed uint = 0
		steps := 0
		r := &esp.Rule{Name: "C12.R8"}
		region := map[*ssa.Function]bool{}
		for _, g := range unexportedRegion(f) {
			if g != f {
				region[g] = true
			}
		}
		// a step implemented in the repository is summarised, so that one that cannot fail (the in-memory manager's
		// `return nil`) is known not to
		r.Relevant = func(g *ssa.Function) bool {
			return region[g] || (load.FuncInRepo(g) && g != f && (g.Name() == "Wipeout" || strings.HasPrefix(g.Name(), "Destroy")))
		}
		r.Match = func(in ssa.Instruction) []esp.Ev {
			if in.Parent() != f && !region[in.Parent()] {
				return nil
			}
			call, ok := in.(ssa.CallInstruction)
			if !ok || !isStep(call) {
				return nil
			}
			if cal := call.Common().StaticCallee(); cal != nil && region[cal] {
				return nil
			}
			steps++
			return []esp.Ev{{ID: 0, Name: "step " + callName(call), ErrIdx: errIndex(call.Common().Signature()), BoolIdx: -1}}
		}
		r.Step = func(x *esp.Ctx, s esp.State, ev esp.Ev, ph esp.Phase) (esp.State, string) {
			if ph == esp.Fail {
				return s.Set(bFailed), ""
			}
			return s, ""
		}
		ei := errIndex(f.Signature)
		r.AtReturn = func(x *esp.Ctx, s esp.State, rets []esp.Abs) string {
			if rets[ei] != esp.NonZero && s.Has(bFailed) {
				return "R8: the wipeout may return nil although one of its wipeout / destroy steps failed: what that step was to remove stays usable while the operation reports success"
			}
			return ""
		}
		e := c.engine(r)
		e.Run(f, esp.State{})
		name := load.FuncName(f)
		if c.reportEngine(e, "R8", func(v *esp.Violation) string { return name + ":failed step reported" }) == 0 {
			c.S.OK("R8", name+":failed step reported", c.pos(f.Pos()), fmt.Sprintf("no nil return after a failed step (%d step calls, %d configurations)", steps, e.Configs), true)
		}
	}
	c.S.Floor("R8", "production Wipeout functions with wipeout / destroy steps", 2, n)
}

// c12EveryCertUploaded — R9: every certificate a mutation carries goes through the upload gate. In package sign/gcsca,
// a loop that ranges over a map of certificates (map[string]*x509.Certificate: the mutation's certs) goes round only
// after a call that reaches the storage writer (upload → writeIfAllowed → Storage.Writer) in that iteration, or where
// the certificate of the iteration is nil. A shortcut that `continue`s because "the manifest already names this
// object" leaves the stale certificate of a regenerated key in place while the operation reports success.
func c12EveryCertUploaded(c *Ctx) {
	storagePkg := repoPath("storage/ops")
	_ = storagePkg
	reachesWriter := map[*ssa.Function]bool{}
	writes := func(g *ssa.Function) bool {
		if v, ok := reachesWriter[g]; ok {
			return v
		}
		r := false
		for h := range c.reachable([]*ssa.Function{g}, func(h *ssa.Function) bool { return load.FuncInRepo(h) }) {
			if h == nil {
				continue
			}
			if len(callsIn(h, func(call ssa.CallInstruction) bool {
				return call.Common().IsInvoke() && call.Common().Method.Name() == "Writer"
			})) > 0 {
				r = true
			}
		}
		reachesWriter[g] = r
		return r
	}
	n := 0
	for _, f := range c.P.RepoFunctions() {
		if load.RelPkg(f) != "sign/gcsca" || c.isTestFunc(f) || f.Blocks == nil {
			continue
		}
		for _, L := range naturalLoops(f) {
			// a range over a map of certificates
			var rng *ssa.Range
			for b := range L.Body {
				for _, in := range b.Instrs {
					if nx, ok := in.(*ssa.Next); ok {
						if r, ok := nx.Iter.(*ssa.Range); ok {
							if mt, ok := r.X.Type().Underlying().(*types.Map); ok && strings.HasSuffix(mt.Elem().String(), "x509.Certificate") {
								rng = r
							}
						}
					}
				}
			}
			if rng == nil {
				continue
			}
			n++
			uploadBlocks := map[*ssa.BasicBlock]bool{}
			for b := range L.Body {
				for _, in := range b.Instrs {
					if call, ok := in.(ssa.CallInstruction); ok {
						if g := call.Common().StaticCallee(); g != nil && load.RelPkg(g) == "sign/gcsca" && writes(g) {
							uploadBlocks[b] = true
						}
					}
				}
			}
			bad := 0
			for _, back := range L.Backs {
				ok := false
				for d := back; d != nil && L.Body[d]; d = d.Idom() {
					if uploadBlocks[d] {
						ok = true
					}
					if d == L.Header {
						break
					}
				}
				if !ok {
					// the iteration's certificate is nil
					for _, cf := range dominatingConds(back) {
						if !L.Body[cf.Block] {
							continue
						}
						if bo, isB := cf.Cond.(*ssa.BinOp); isB && (bo.Op == token.EQL) == cf.Val && (bo.Op == token.EQL || bo.Op == token.NEQ) && isNilK(bo.Y) && strings.HasSuffix(bo.X.Type().String(), "x509.Certificate") {
							ok = true
						}
					}
				}
				if !ok {
					bad++
					c.S.Bad("R9", load.FuncName(f)+":every certificate uploaded", c.pos(back.Instrs[len(back.Instrs)-1].Pos()), "the loop over the mutation's certificates can go round without the iteration's certificate having gone through the upload gate: a certificate is silently dropped while the operation reports success (the stored certificate of a regenerated key stays the old one)")
				}
			}
			if bad == 0 {
				c.S.OK("R9", load.FuncName(f)+":every certificate uploaded", c.pos(L.Header.Instrs[0].Pos()), fmt.Sprintf("%d back edge(s), each behind the upload call of the iteration", len(L.Backs)), true)
			}
		}
	}
	c.S.Floor("R9", "loops over a mutation's certificates in sign/gcsca", 1, n)
}

// c12ExistenceGates is R10: a creation gate that refuses because the object already exists (returns os.ErrExist or a
// status AlreadyExists) makes its existence probe whenever overwriting was not permitted. --keep_going may turn the
// refusal into "leave the old object alone and go on"; it never makes the gate skip the probe, because what follows an
// unprobed gate is the creation itself: the key (or certificate) of a live chain is regenerated under the same name
// without overwrite permission.
func c12ExistenceGates(c *Ctx) {
	isRefusal := func(v ssa.Value) bool {
		switch x := v.(type) {
		case *ssa.UnOp:
			if g, ok := x.X.(*ssa.Global); ok && x.Op == token.MUL && g.Name() == "ErrExist" {
				return true
			}
		case *ssa.Call:
			if g := x.Call.StaticCallee(); g != nil && g.Pkg != nil && strings.HasSuffix(g.Pkg.Pkg.Path(), "grpc/status") && (g.Name() == "Errorf" || g.Name() == "Error") && len(x.Call.Args) > 0 {
				if k, ok := x.Call.Args[0].(*ssa.Const); ok && k.Value != nil {
					if want := c.extConst("google.golang.org/grpc/codes", "AlreadyExists"); want != nil && constant.Compare(k.Value, token.EQL, want) {
						return true
					}
				}
			}
		}
		return false
	}
	fromKeepGoing := func(v ssa.Value) bool {
		lsl := flow.NewSlicer(c.P)
		return lsl.Derives(v, func(x ssa.Value) bool {
			call, ok := x.(*ssa.Call)
			if !ok {
				return false
			}
			g := call.Call.StaticCallee()
			return g != nil && g.Name() == "AllowRecoverableError" && load.RelPkg(g) == "cmd/output"
		})
	}
	n := 0
	for _, f := range c.P.RepoFunctions() {
		if c.isTestFunc(f) || f.Blocks == nil || strings.HasPrefix(load.RelPkg(f), "testing/testkms") {
			continue
		}
		for _, b := range f.Blocks {
			ret, ok := b.Instrs[len(b.Instrs)-1].(*ssa.Return)
			if !ok || len(ret.Results) == 0 || !isRefusal(ret.Results[len(ret.Results)-1]) {
				continue
			}
			// the probes: calls whose results are tested on the way to the refusal (the permission calls are not probes)
			probes := map[*ssa.Call]bool{}
			for _, cf := range dominatingConds(b) {
				lsl := flow.NewSlicer(c.P)
				lsl.Visit(cf.Cond, func(v ssa.Value) bool {
					if call, ok := v.(*ssa.Call); ok && call.Parent() == f {
						if g := call.Call.StaticCallee(); g != nil && load.RelPkg(g) == "cmd/output" {
							return false
						}
						if _, isBuiltin := call.Call.Value.(*ssa.Builtin); !isBuiltin {
							probes[call] = true
						}
						return false
					}
					return true
				}, nil)
			}
			for p := range probes {
				n++
				bad := false
				for _, cf := range dominatingConds(p.Block()) {
					if fromKeepGoing(cf.Cond) {
						bad = true
					}
				}
				c.S.Check(!bad, "R10", load.FuncName(f)+":existence probe "+callName(p), c.pos(p.Pos()), "the probe is made whenever overwriting is not permitted", "the existence probe of this creation gate is skipped under --keep_going: what follows an unprobed gate is the creation itself, so an existing key (certificate) of a live chain is replaced without overwrite permission")
			}
		}
	}
	c.S.Floor("R10", "existence probes of creation gates", 2, n)
}
