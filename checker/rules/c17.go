package rules

import (
	"fmt"
	"go/constant"
	"go/token"
	"go/types"
	"sort"
	"strings"

	"golang.org/x/tools/go/ssa"

	"verif/checker/esp"
	"verif/checker/flow"
	"verif/checker/load"
)

func init() {
	register(&RuleSet{
		ID: "C17",
		Explanation: "R1b the policy a derivation returns is, on every returning path, an object made during the call (a literal or a proto.Clone result), never the base or a message reached from an argument. " +
			"R1 (effects): every write in the call closures of SevPolicy and TdxPolicy goes to an object allocated during the call (literal, proto.Clone result) — nothing is written through opts.Base or the endorsement. " +
			"R2 (field whitelist): in package gcetcbendorsement the only fields of check.Policy ever written are Policy, Measurement, TrustedIdKeys, TrustedAuthorKeys (the two key lists only by append to themselves); of checkconfig.Policy only TdQuoteBodyPolicy (only behind its nil test) and of TDQuoteBodyPolicy only AnyMrTd; the literal that builds the default base when the caller gave none is exempt. " +
			"R3 (ESP over SevPolicy and every function of the package it reaches): Policy.Policy is stored only on paths where Overwrite is true or a comparison found the base guest policy zero or equal to the endorsed one; Policy.Measurement only where Overwrite is true or the base measurement was found empty or compatible (a bool-valued call over the endorsed measurement and the base one) — wherever those comparisons are written (a check function, a switch, a helper); SevPolicy cannot return nil without overwrite when the endorsed SVN was found below the base minimum; AnyMrTd is stored only where the base list is known nil, the body policy was absent, or Overwrite is true. " +
			"R4 (slices): Policy ← endorsement GetPolicy(); appended keys ← Bytes of pem.Decode blocks of the endorsement's CA bundle, behind the Type == CERTIFICATE edge. " +
			"Not covered: field-by-field equality as values; the comparison semantics inside bytes.Equal.",
		Assumptions: []string{"go/types, go/ssa, VTA call graph", "proto.Clone returns a deep copy", "external callees do not write the base policy"},
		Run:         runC17,
	})
}

func runC17(c *Ctx) {
	gcePkg := repoPath("gcetcbendorsement")
	epbPkg := repoPath("proto/endorsement")
	cpbPkg := "github.com/google/go-sev-guest/proto/check"
	tcpbPkg := "github.com/google/go-tdx-guest/proto/checkconfig"
	sp := c.fn("R0", "gcetcbendorsement", "SevPolicy")
	tp := c.fn("R0", "gcetcbendorsement", "TdxPolicy")
	if sp == nil || tp == nil {
		return
	}
	sl := flow.NewSlicer(c.P)
	sl.Transparent = func(f *ssa.Function) bool { return f.String() == "encoding/pem.Decode" } // rest-of-input chains

	// ---- R1 ----
	for _, root := range []*ssa.Function{sp, tp} {
		clo := c.reachable([]*ssa.Function{root}, nil)
		eff := &flow.Effects{P: c.P, Funcs: clo, Roots: map[*ssa.Function]bool{root: true}}
		ws := eff.Writes()
		bad := 0
		for _, w := range ws {
			if sh := w.Shared(); len(sh) > 0 {
				bad++
				c.S.Bad("R1", load.FuncName(root)+"→"+load.FuncName(w.Fn)+":writes "+w.What, c.pos(w.Instr.Pos()), fmt.Sprintf("policy derivation writes %s of an object the caller owns (root: %s %s)", w.What, sh[0].Kind, describeRoot(sh[0])))
			}
		}
		c.S.Count("writes_classified", len(ws))
		if bad == 0 {
			c.S.OK("R1", load.FuncName(root)+":fresh result", c.pos(root.Pos()), fmt.Sprintf("%d writes in a closure of %d functions, all to objects allocated in the call", len(ws), len(clo)), true)
		}
		c.S.Floor("R1", "writes in the closure of "+load.FuncName(root), 2, len(ws))
		// R1b: what a derivation hands back is an object made during the call (a literal or a proto.Clone result),
		// on every returning path — never the base itself or a message reached from an argument, which the caller would
		// then edit through the result
		var fresh func(v ssa.Value, d int, seen map[ssa.Value]bool) (bool, string)
		fresh = func(v ssa.Value, d int, seen map[ssa.Value]bool) (bool, string) {
			if d > 8 {
				return false, "too deep"
			}
			if seen[v] {
				return true, ""
			}
			seen[v] = true
			switch x := v.(type) {
			case *ssa.Const:
				return x.Value == nil, "a constant"
			case *ssa.Alloc:
				if x.Heap {
					if _, isStruct := x.Type().Underlying().(*types.Pointer).Elem().Underlying().(*types.Struct); isStruct {
						return true, ""
					}
				}
				// a local cell: everything stored into it
				for _, r := range *x.Referrers() {
					if st, ok := r.(*ssa.Store); ok && st.Addr == ssa.Value(x) {
						if ok, why := fresh(st.Val, d+1, seen); !ok {
							return false, why
						}
					}
				}
				return true, ""
			case *ssa.UnOp:
				if x.Op == token.MUL {
					if al, ok := x.X.(*ssa.Alloc); ok {
						if _, isStruct := al.Type().Underlying().(*types.Pointer).Elem().Underlying().(*types.Struct); !isStruct {
							return fresh(al, d+1, seen)
						}
					}
				}
				return false, "loaded from " + flow.Describe(x.X)
			case *ssa.Phi:
				for _, e := range x.Edges {
					if ok, why := fresh(e, d+1, seen); !ok {
						return false, why
					}
				}
				return true, ""
			case *ssa.TypeAssert:
				return fresh(x.X, d+1, seen)
			case *ssa.ChangeType:
				return fresh(x.X, d+1, seen)
			case *ssa.Extract:
				return fresh(x.Tuple, d+1, seen)
			case *ssa.Call:
				if calleeIs(x, "google.golang.org/protobuf/proto.Clone") {
					return true, ""
				}
				if g := x.Call.StaticCallee(); g != nil && load.FuncInRepo(g) && g.Blocks != nil {
					for _, b := range g.Blocks {
						if ret, ok := b.Instrs[len(b.Instrs)-1].(*ssa.Return); ok && len(ret.Results) > 0 {
							if ok, why := fresh(ret.Results[0], d+1, seen); !ok {
								return false, why
							}
						}
					}
					return true, ""
				}
				return false, "the result of " + callName(x)
			case *ssa.Parameter:
				return false, "parameter " + x.Name()
			}
			return false, flow.Describe(v)
		}
		nRet := 0
		var notFresh []string
		for _, b := range root.Blocks {
			ret, ok := b.Instrs[len(b.Instrs)-1].(*ssa.Return)
			if !ok || len(ret.Results) == 0 || isNilK(ret.Results[0]) {
				continue
			}
			nRet++
			if ok, why := fresh(ret.Results[0], 0, map[ssa.Value]bool{}); !ok {
				notFresh = append(notFresh, fmt.Sprintf("%s (%s)", c.pos(ret.Pos()), why))
			}
		}
		c.S.Check(len(notFresh) == 0, "R1b", load.FuncName(root)+":returned policy is made in the call", c.pos(root.Pos()), fmt.Sprintf("%d returns of a policy, each a literal or a proto.Clone result", nRet),
			"policy derivation returns an object that was not made during the call at "+strings.Join(notFresh, ", ")+": the caller's base (or a message of the endorsement) and the derived policy are then one object, and editing the result edits the base")
		c.S.Floor("R1b", "policy-returning exits of "+load.FuncName(root), 1, nRet)
	}

	// ---- R2 ----
	allowed := map[string]map[string]bool{
		cpbPkg + ".Policy":             {"Policy": true, "Measurement": true, "TrustedIdKeys": true, "TrustedAuthorKeys": true},
		tcpbPkg + ".Policy":            {"TdQuoteBodyPolicy": true},
		tcpbPkg + ".TDQuoteBodyPolicy": {"AnyMrTd": true},
	}
	written := map[string]bool{}
	nStores := 0
	for _, f := range c.P.RepoFunctions() {
		if load.RelPkg(f) != "gcetcbendorsement" || c.isTestFunc(f) {
			continue
		}
		for _, b := range f.Blocks {
			for _, in := range b.Instrs {
				st, ok := in.(*ssa.Store)
				if !ok {
					continue
				}
				fa, ok := st.Addr.(*ssa.FieldAddr)
				if !ok {
					continue
				}
				key := ""
				for k := range allowed {
					i := strings.LastIndex(k, ".")
					if namedIs(fa.X.Type(), k[:i], k[i+1:]) {
						key = k
					}
				}
				if key == "" {
					continue
				}
				// default-base literal: initialising stores on a fresh literal
				if al, ok := fa.X.(*ssa.Alloc); ok && al.Comment == "complit" {
					continue
				}
				nStores++
				fname := flow.FieldName(fa)
				written[key[strings.LastIndex(key, "/")+1:]+"."+fname] = true
				construct := load.FuncName(f) + ":" + key[strings.LastIndex(key, ".")+1:] + "." + fname
				if !allowed[key][fname] {
					c.S.Bad("R2", construct, c.pos(st.Pos()), "policy derivation writes a base-policy field outside the documented set {Policy, Measurement, TrustedIdKeys, TrustedAuthorKeys / TdQuoteBodyPolicy.AnyMrTd}")
					continue
				}
				switch fname {
				case "TrustedIdKeys", "TrustedAuthorKeys":
					okApp := false
					if call, ok := st.Val.(*ssa.Call); ok {
						if bi, ok := call.Call.Value.(*ssa.Builtin); ok && bi.Name() == "append" {
							if ld, ok := call.Call.Args[0].(*ssa.UnOp); ok {
								if fa2, ok := ld.X.(*ssa.FieldAddr); ok && fa2.X == fa.X && fa2.Field == fa.Field {
									okApp = true
								}
							}
						}
					}
					c.S.Check(okApp, "R2", construct, c.pos(st.Pos()), "key list only extended by append to itself", "trusted key list is replaced rather than extended")
				case "TdQuoteBodyPolicy":
					okNil := false
					for _, cf := range dominatingConds(b) {
						if bo, ok := cf.Cond.(*ssa.BinOp); ok && bo.Op == token.EQL && cf.Val && isNilK(bo.Y) {
							if ld, ok := bo.X.(*ssa.UnOp); ok {
								if fa2, ok := ld.X.(*ssa.FieldAddr); ok && fa2.X == fa.X && fa2.Field == fa.Field {
									okNil = true
								}
							}
							// … or by the generated nil-safe getter of the same field on the same object
							if gc, ok := bo.X.(*ssa.Call); ok && len(gc.Call.Args) == 1 && gc.Call.Args[0] == fa.X && flow.IsFieldLoad(gc, tcpbPkg, "Policy", "TdQuoteBodyPolicy") {
								okNil = true
							}
						}
					}
					c.S.Check(okNil, "R2", construct, c.pos(st.Pos()), "body policy allocated only when absent", "an existing TdQuoteBodyPolicy is replaced")
				default:
					c.S.OK("R2", construct, c.pos(st.Pos()), "field is in the documented set", false)
				}
			}
		}
	}
	// the same fields written through a pointer that was put into a table (&policy.TrustedIdKeys kept in a struct and
	// stored through later): every store through a loaded pointer of the field's type counts as a store to the field
	for _, f := range c.P.RepoFunctions() {
		if load.RelPkg(f) != "gcetcbendorsement" || c.isTestFunc(f) {
			continue
		}
		for _, is := range indirectFieldStores(f, func(fa *ssa.FieldAddr) bool {
			for k := range allowed {
				i := strings.LastIndex(k, ".")
				if namedIs(fa.X.Type(), k[:i], k[i+1:]) {
					return true
				}
			}
			return false
		}) {
			fa, st := is.fa, is.st
			key := ""
			for k := range allowed {
				i := strings.LastIndex(k, ".")
				if namedIs(fa.X.Type(), k[:i], k[i+1:]) {
					key = k
				}
			}
			nStores++
			fname := flow.FieldName(fa)
			written[key[strings.LastIndex(key, "/")+1:]+"."+fname] = true
			construct := load.FuncName(f) + ":" + key[strings.LastIndex(key, ".")+1:] + "." + fname + " (through a kept pointer)"
			if !allowed[key][fname] {
				c.S.Bad("R2", construct, c.pos(st.Pos()), "policy derivation writes a base-policy field outside the documented set {Policy, Measurement, TrustedIdKeys, TrustedAuthorKeys / TdQuoteBodyPolicy.AnyMrTd}")
				continue
			}
			switch fname {
			case "TrustedIdKeys", "TrustedAuthorKeys":
				okApp := false
				if call, ok := st.Val.(*ssa.Call); ok {
					if bi, ok := call.Call.Value.(*ssa.Builtin); ok && bi.Name() == "append" {
						if ld, ok := call.Call.Args[0].(*ssa.UnOp); ok && ld.Op == token.MUL && samePointerValue(ld.X, st.Addr) {
							okApp = true
						}
					}
				}
				c.S.Check(okApp, "R2", construct, c.pos(st.Pos()), "key list only extended by append to itself", "trusted key list is replaced rather than extended")
			case "TdQuoteBodyPolicy":
				c.S.Bad("R2", construct, c.pos(st.Pos()), "the body policy is replaced through a kept pointer: that it was absent cannot be established")
			default:
				c.S.OK("R2", construct, c.pos(st.Pos()), "field is in the documented set", false)
			}
		}
	}
	c.S.Floor("R2", "policy field stores in package gcetcbendorsement", 5, nStores)
	var wl []string
	for k := range written {
		wl = append(wl, k)
	}
	sort.Strings(wl)
	c.S.Note("policy fields written: %v", wl)

	// ---- R3 (SEV) ----
	var isPolicyStore func(in ssa.Instruction, fields ...string) (string, bool)
	isPolicyStore = func(in ssa.Instruction, fields ...string) (string, bool) {
		st, ok := in.(*ssa.Store)
		if !ok {
			return "", false
		}
		fa, ok := st.Addr.(*ssa.FieldAddr)
		if !ok || !namedIs(fa.X.Type(), cpbPkg, "Policy") {
			return "", false
		}
		if al, ok := fa.X.(*ssa.Alloc); ok && al.Comment == "complit" {
			return "", false
		}
		n := flow.FieldName(fa)
		for _, f := range fields {
			if n == f {
				return n, true
			}
		}
		return "", false
	}
	// stores to the same fields through a kept pointer (see R2)
	indirect := map[ssa.Instruction][]string{}
	for _, f := range c.P.RepoFunctions() {
		if load.RelPkg(f) != "gcetcbendorsement" || c.isTestFunc(f) {
			continue
		}
		for _, is := range indirectFieldStores(f, func(fa *ssa.FieldAddr) bool { return namedIs(fa.X.Type(), cpbPkg, "Policy") }) {
			indirect[is.st] = append(indirect[is.st], flow.FieldName(is.fa))
		}
	}
	{
		direct := isPolicyStore
		isPolicyStore = func(in ssa.Instruction, fields ...string) (string, bool) {
			if n, ok := direct(in, fields...); ok {
				return n, true
			}
			for _, n := range indirect[in] {
				for _, f := range fields {
					if n == f {
						return n, true
					}
				}
			}
			return "", false
		}
	}
	basePolicyGetter := func(name string) func(ssa.Value) bool {
		return func(v ssa.Value) bool {
			call, ok := v.(*ssa.Call)
			if !ok {
				return false
			}
			f := call.Call.StaticCallee()
			return f != nil && f.Name() == name && f.Signature.Recv() != nil && namedIs(f.Signature.Recv().Type(), cpbPkg, "Policy")
		}
	}
	sevGetter := func(name string) func(ssa.Value) bool {
		return func(v ssa.Value) bool {
			if call, ok := v.(*ssa.Call); ok {
				f := call.Call.StaticCallee()
				return f != nil && f.Name() == "Get"+name && f.Signature.Recv() != nil && namedIs(f.Signature.Recv().Type(), epbPkg, "VMSevSnp")
			}
			return flow.IsFieldLoad(v, epbPkg, "VMSevSnp", name)
		}
	}
	// One path-sensitive pass over SevPolicy and every function of the package it reaches. The comparisons of the base
	// policy's values with the endorsed ones are events wherever they are written (a separate check function, a
	// switch in front of the stores, a helper returning bool): a store needs, on its own path, overwrite permission
	// or the outcome "unset" / "equal" of the comparison for the value it replaces.
	{
		const (
			evStore = iota
			evSvnLow
			evPolZero
			evPolCmp
			evMeasUnset
			evMeasCmp
		)
		const (
			bSvnLow uint = iota
			bPolUnset
			bPolEq
			bMeasUnset
			bMeasOk
		)
		names := []string{"endorsed SVN below base minimum", "base guest policy unset", "base guest policy equals endorsed", "base measurement unset", "base measurement compatible"}
		isZeroK := func(v ssa.Value) bool {
			k, ok := v.(*ssa.Const)
			return ok && k.Value != nil && k.Value.Kind() == constant.Int && constant.Sign(k.Value) == 0
		}
		endorsedMeas := func(v ssa.Value) bool {
			return sl.Derives(v, sevGetter("Measurements")) || sl.Derives(v, func(x ssa.Value) bool { return flow.IsFieldLoad(x, epbPkg, "VMSevSnp", "Measurements") })
		}
		baseMeas := func(v ssa.Value) bool { return sl.Derives(v, basePolicyGetter("GetMeasurement")) }
		nst, npol, nmeas := 0, 0, 0
		r := &esp.Rule{Name: "C17.R3"}
		r.Relevant = func(f *ssa.Function) bool { return load.RelPkg(f) == "gcetcbendorsement" && !c.isTestFunc(f) }
		r.Flag = func(v ssa.Value) (int, bool) {
			if u, ok := v.(*ssa.UnOp); ok && u.Op == token.MUL && flow.IsFieldLoad(v, gcePkg, "SevPolicyOptions", "Overwrite") {
				return 0, true
			}
			if u, ok := v.(*ssa.UnOp); ok && u.Op == token.MUL && flow.IsFieldLoad(v, gcePkg, "SevPolicyOptions", "LaunchVmsas") {
				return 1, true
			}
			return 0, false
		}
		// decisions computed into a record first and applied later (update.setGuestPolicy / setMeasurement) are cells
		recordBoolCells(c, r, 2, "gcetcbendorsement")
		r.Match = func(in ssa.Instruction) []esp.Ev {
			if n, ok := isPolicyStore(in, "Policy", "Measurement"); ok {
				nst++
				return []esp.Ev{{ID: evStore, Name: "store Policy." + n, ErrIdx: -1, BoolIdx: -1}}
			}
			switch v := in.(type) {
			case *ssa.BinOp:
				switch v.Op {
				case token.LSS, token.GTR:
					a, b := v.X, v.Y
					if v.Op == token.GTR {
						a, b = b, a
					}
					if sl.Derives(a, sevGetter("Svn")) && sl.Derives(b, basePolicyGetter("GetMinimumGuestSvn")) {
						return []esp.Ev{{ID: evSvnLow, Name: "endorsed SVN < base minimum", ErrIdx: -1, BoolIdx: 0}}
					}
				case token.EQL, token.NEQ:
					bx, by := sl.Derives(v.X, basePolicyGetter("GetPolicy")), sl.Derives(v.Y, basePolicyGetter("GetPolicy"))
					sx, sy := sl.Derives(v.X, sevGetter("Policy")), sl.Derives(v.Y, sevGetter("Policy"))
					if (bx && sy) || (by && sx) {
						npol++
						return []esp.Ev{{ID: evPolCmp, Name: "base policy " + v.Op.String() + " endorsed policy", ErrIdx: -1, BoolIdx: 0, Data: v.Op}}
					}
					if bx && isZeroK(v.Y) {
						npol++
						return []esp.Ev{{ID: evPolZero, Name: "base policy " + v.Op.String() + " 0", ErrIdx: -1, BoolIdx: 0, Data: v.Op}}
					}
					// len(base measurement) ==/!= 0
					if call, ok := v.X.(*ssa.Call); ok && isZeroK(v.Y) {
						if bi, ok := call.Call.Value.(*ssa.Builtin); ok && bi.Name() == "len" && baseMeas(call.Call.Args[0]) {
							nmeas++
							return []esp.Ev{{ID: evMeasUnset, Name: "len(base measurement) " + v.Op.String() + " 0", ErrIdx: -1, BoolIdx: 0, Data: v.Op}}
						}
					}
				}
			case *ssa.Call:
				if v.Type().String() == "bool" && len(v.Call.Args) == 2 {
					a, b := v.Call.Args[0], v.Call.Args[1]
					if (endorsedMeas(a) && baseMeas(b)) || (endorsedMeas(b) && baseMeas(a)) {
						nmeas++
						return []esp.Ev{{ID: evMeasCmp, Name: "measurement compatibility " + callName(v), ErrIdx: -1, BoolIdx: 0}}
					}
				}
			}
			return nil
		}
		r.Step = func(x *esp.Ctx, s esp.State, ev esp.Ev, ph esp.Phase) (esp.State, string) {
			if ev.ID == evStore {
				if ph != esp.AtCall || s.Flag(0) == esp.NonZero {
					return s, ""
				}
				st := fmtState(names, s)
				if strings.HasSuffix(ev.Name, ".Policy") && !s.Has(bPolUnset) && !s.Has(bPolEq) {
					return s, "R3: " + ev.Name + " overwritten in state " + st + ": Overwrite is not known true and the base guest policy was found neither unset nor equal to the endorsed one"
				}
				if strings.HasSuffix(ev.Name, ".Measurement") && !s.Has(bMeasUnset) && !s.Has(bMeasOk) {
					return s, "R3: " + ev.Name + " overwritten in state " + st + ": Overwrite is not known true and the base measurement was found neither unset nor compatible with the endorsed one for the named VMSA count"
				}
				return s, ""
			}
			if ph == esp.AtCall {
				return s, ""
			}
			truth := ph == esp.Ok
			switch ev.ID {
			case evSvnLow:
				if truth {
					return s.Set(bSvnLow), ""
				}
			case evPolZero:
				if (ev.Data.(token.Token) == token.EQL) == truth {
					return s.Set(bPolUnset), ""
				}
			case evPolCmp:
				if (ev.Data.(token.Token) == token.EQL) == truth {
					return s.Set(bPolEq), ""
				}
			case evMeasUnset:
				if (ev.Data.(token.Token) == token.EQL) == truth {
					return s.Set(bMeasUnset), ""
				}
			case evMeasCmp:
				if truth {
					return s.Set(bMeasOk), ""
				}
			}
			return s, ""
		}
		r.AtReturn = func(x *esp.Ctx, s esp.State, rets []esp.Abs) string {
			if rets[len(rets)-1] != esp.NonZero && s.Flag(0) == esp.Zero && s.Has(bSvnLow) {
				return "R3: SevPolicy may succeed without overwrite although the endorsed SVN is below the base policy's minimum_guest_svn"
			}
			return ""
		}
		e := c.engine(r)
		e.Run(sp, esp.State{})
		n := c.reportEngine(e, "R3", func(v *esp.Violation) string {
			return "SevPolicy:" + load.FuncName(v.Fn) + ":" + strings.SplitN(strings.TrimPrefix(v.Msg, "R3: "), " ", 3)[1]
		})
		c.S.Floor("R3", "stores to Policy.Policy/Measurement reached", 2, nst)
		c.S.Floor("R3", "comparisons of the base guest policy (with 0, with the endorsed policy) reached", 2, npol)
		c.S.Floor("R3", "comparisons of the base measurement with the endorsed one reached", 1, nmeas)
		if n == 0 {
			c.S.OK("R3", "gcetcbendorsement.SevPolicy:gated stores", c.pos(sp.Pos()), fmt.Sprintf("held on %d configurations", e.Configs), true)
		}
	}

	// ---- R3 (TDX) ----
	{
		isAny := func(in ssa.Instruction) bool {
			st, ok := in.(*ssa.Store)
			if !ok {
				return false
			}
			fa, ok := st.Addr.(*ssa.FieldAddr)
			return ok && flow.IsFieldLoad(fa, tcpbPkg, "TDQuoteBodyPolicy", "AnyMrTd")
		}
		relevant := c.relevantSet(isAny)
		nst := 0
		r := &esp.Rule{Name: "C17.R3tdx"}
		r.Relevant = func(f *ssa.Function) bool { return relevant[f] && load.RelPkg(f) == "gcetcbendorsement" }
		r.Flag = func(v ssa.Value) (int, bool) {
			_, isCall := v.(*ssa.Call) // the generated nil-safe getters read the same fields
			if u, ok := v.(*ssa.UnOp); (ok && u.Op == token.MUL) || isCall {
				switch {
				case flow.IsFieldLoad(v, gcePkg, "TdxPolicyOptions", "Overwrite"):
					return 0, true
				case flow.IsFieldLoad(v, tcpbPkg, "TDQuoteBodyPolicy", "AnyMrTd"):
					return 1, true
				case flow.IsFieldLoad(v, tcpbPkg, "Policy", "TdQuoteBodyPolicy"):
					return 2, true
				}
			}
			return 0, false
		}
		// the gate may sit in an unexported helper that makes no store itself (it tests the existing list and the
		// permission and hands the body out): such a helper is followed too
		for _, g := range unexportedRegion(tp) {
			if relevant[g] {
				continue
			}
			for _, b := range g.Blocks {
				for _, in := range b.Instrs {
					if v, ok := in.(ssa.Value); ok {
						if _, isFlag := r.Flag(v); isFlag {
							relevant[g] = true
						}
					}
				}
			}
		}
		r.Match = func(in ssa.Instruction) []esp.Ev {
			if isAny(in) {
				nst++
				return []esp.Ev{{ID: 0, Name: "store AnyMrTd", ErrIdx: -1, BoolIdx: -1}}
			}
			return nil
		}
		r.Step = func(x *esp.Ctx, s esp.State, ev esp.Ev, ph esp.Phase) (esp.State, string) {
			if s.Flag(0) == esp.NonZero || s.Flag(1) == esp.Zero || s.Flag(2) == esp.Zero {
				return s, ""
			}
			return s, "R3: the base policy's MRTD allow-list may be replaced without overwrite permission"
		}
		e := c.engine(r)
		e.Run(tp, esp.State{})
		n := c.reportEngine(e, "R3", func(v *esp.Violation) string { return "TdxPolicy:" + load.FuncName(v.Fn) + ":AnyMrTd" })
		c.S.Floor("R3", "stores to AnyMrTd reached from TdxPolicy", 1, nst)
		if n == 0 {
			c.S.OK("R3", "gcetcbendorsement.TdxPolicy:gated store", c.pos(tp.Pos()), fmt.Sprintf("held on %d configurations", e.Configs), true)
		}
	}

	// ---- R4 provenance ----
	for _, f := range c.P.RepoFunctions() {
		if load.RelPkg(f) != "gcetcbendorsement" || c.isTestFunc(f) {
			continue
		}
		for _, b := range f.Blocks {
			for _, in := range b.Instrs {
				if n, ok := isPolicyStore(in, "Policy"); ok {
					st := in.(*ssa.Store)
					c.S.Check(sl.Derives(st.Val, sevGetter("Policy")), "R4", load.FuncName(f)+":Policy."+n+" value", c.pos(st.Pos()), "guest policy placed is the endorsement's", "guest policy placed in the result is not the endorsement's policy")
				}
				if n, ok := isPolicyStore(in, "TrustedIdKeys", "TrustedAuthorKeys"); ok {
					st := in.(*ssa.Store)
					okSrc, okType := false, false
					if call, ok := st.Val.(*ssa.Call); ok && len(call.Call.Args) >= 2 {
						elem := call.Call.Args[1]
						okSrc, okType = c.pemBlockProvenance(sl, elem, b, sevGetter("CaBundle"))
					}
					// a membership / de-duplication guard in front of the append has to consult the list that is
					// being extended: a test against the sibling list drops a key the endorsement carries
					other := "TrustedAuthorKeys"
					if n == "TrustedAuthorKeys" {
						other = "TrustedIdKeys"
					}
					crossed := false
					for _, cf := range dominatingConds(b) {
						vals := []ssa.Value{cf.Cond}
						if call, ok := cf.Cond.(*ssa.Call); ok {
							vals = append(vals, call.Call.Args...)
						}
						for _, cv := range vals {
							sl.Visit(cv, func(v ssa.Value) bool {
								if flow.IsFieldLoad(v, cpbPkg, "Policy", other) {
									crossed = true
								}
								return !crossed
							}, nil)
						}
					}
					if len(indirect[in]) > 1 {
						crossed = false // the store goes through a pointer that may be either list's: a condition mentioning both addresses selects the list, it is no membership guard
					}
					c.S.Check(!crossed, "R4", load.FuncName(f)+":"+n+" guard", c.pos(st.Pos()), "no guard of this append consults the sibling key list", "the append to "+n+" is guarded by a test on "+other+": a key the endorsement carries is left out of "+n+" when it happens to be in the other list")
					c.S.Check(okSrc, "R4", load.FuncName(f)+":"+n+" source", c.pos(st.Pos()), "appended key is a PEM block of the endorsement's CA bundle", "appended trusted key does not come from the endorsement's CA bundle")
					c.S.Check(okType, "R4", load.FuncName(f)+":"+n+" block type", c.pos(st.Pos()), "appended only behind Type == CERTIFICATE", "trusted key appended without the PEM block type having been checked")
				}
			}
		}
	}
}

func isNilK(v ssa.Value) bool {
	k, ok := v.(*ssa.Const)
	return ok && k.Value == nil
}

// pemBlockProvenance decides, for a value that is (derived from) the Bytes of a PEM block appended to a trusted-key
// list in block b: (src) the block was decoded by pem.Decode from bytes derived from the endorsement's CA bundle, and
// (typ) the append is reached only where the block's Type was found equal to "CERTIFICATE". Both may be
// established in the appending function itself or in a helper that decodes and checks the block and returns it
// together with an error the caller tested.
func (c *Ctx) pemBlockProvenance(sl *flow.Slicer, elem ssa.Value, b *ssa.BasicBlock, fromBundle func(ssa.Value) bool) (src, typ bool) {
	isPemDecode := func(v ssa.Value) bool {
		call, ok := v.(*ssa.Call)
		return ok && calleeIs(call, "encoding/pem.Decode")
	}
	lsl := flow.NewSlicer(c.P)
	lsl.LiftParams = 3
	lsl.Transparent = sl.Transparent
	typeChecked := func(blk *ssa.BasicBlock, blockVal ssa.Value) bool {
		for _, cf := range dominatingConds(blk) {
			bo, ok := cf.Cond.(*ssa.BinOp)
			if !ok || (bo.Op != token.NEQ && bo.Op != token.EQL) {
				continue
			}
			k, isK := bo.Y.(*ssa.Const)
			if !isK || k.Value == nil || k.Value.Kind() != constant.String || constant.StringVal(k.Value) != "CERTIFICATE" {
				continue
			}
			if (bo.Op == token.NEQ) != cf.Val && lsl.Derives(bo.X, func(x ssa.Value) bool { return x == blockVal }) {
				return true
			}
		}
		return false
	}
	// the decode call the element comes from, and the helper call (if any) through which it was returned
	var decode *ssa.Call
	var via *ssa.Call
	var vias []*ssa.Call
	lsl.Visit(elem, func(v ssa.Value) bool {
		if isPemDecode(v) {
			decode = v.(*ssa.Call)
			return false
		}
		if call, ok := v.(*ssa.Call); ok {
			if g := call.Call.StaticCallee(); g != nil && load.FuncInRepo(g) && g.Blocks != nil && !flow.IsProtoGetter(g) {
				if via == nil {
					via = call
				}
				vias = append(vias, call)
			}
		}
		return true
	}, nil)
	if decode == nil {
		return false, false
	}
	// the call through which the decoding helper's results arrived (the walk may have passed other functions first)
	for _, vc := range vias {
		if vc.Call.StaticCallee() == decode.Parent() {
			via = vc
		}
	}
	src = lsl.Derives(decode.Call.Args[0], fromBundle)
	if decode.Parent() == b.Parent() {
		return src, typeChecked(b, decode)
	}
	// decoded in a helper: the helper returns the block only behind the type check, and the caller reaches the
	// append only where the helper's error was nil
	if via == nil {
		return src, false
	}
	h := decode.Parent()
	okHelper := true
	nret := 0
	ei := errIndex(h.Signature)
	// which result of the helper carries the value
	carry := -1
	lsl.Visit(elem, func(v ssa.Value) bool {
		if ex, ok := v.(*ssa.Extract); ok && ex.Tuple == ssa.Value(via) && carry < 0 {
			carry = ex.Index
		}
		return true
	}, nil)
	for _, hb := range h.Blocks {
		ret, ok := hb.Instrs[len(hb.Instrs)-1].(*ssa.Return)
		if !ok || ei < 0 {
			continue
		}
		if k, isK := ret.Results[ei].(*ssa.Const); !isK || !k.IsNil() {
			continue // error return
		}
		if carry >= 0 && carry < len(ret.Results) {
			if k, isK := ret.Results[carry].(*ssa.Const); isK && k.IsNil() {
				continue // nothing is handed out through this result on this return
			}
		}
		nret++
		// every block this return hands out through the carrying result has had its type checked
		decs := []*ssa.Call{decode}
		if carry >= 0 && carry < len(ret.Results) {
			decs = nil
			hsl := flow.NewSlicer(c.P)
			hsl.Transparent = sl.Transparent
			hsl.Visit(ret.Results[carry], func(v ssa.Value) bool {
				if isPemDecode(v) {
					decs = append(decs, v.(*ssa.Call))
					return false
				}
				return true
			}, nil)
			if len(decs) == 0 {
				decs = []*ssa.Call{decode}
			}
		}
		for _, d := range decs {
			if d.Parent() != h || !typeChecked(hb, d) {
				okHelper = false
			}
		}
	}
	if ei < 0 || nret == 0 || !okHelper || via.Call.StaticCallee() != h {
		return src, false
	}
	// the value may be parked in a record by the function that called the helper and appended elsewhere (update()
	// computes, applyTo() writes): then that function hands the record out only behind the nil edge of the helper's error
	if via.Parent() != b.Parent() {
		vf := via.Parent()
		okOut, nOut := true, 0
		for _, vb := range vf.Blocks {
			ret, ok := vb.Instrs[len(vb.Instrs)-1].(*ssa.Return)
			if !ok || len(ret.Results) == 0 {
				continue
			}
			if k, isK := ret.Results[0].(*ssa.Const); isK && k.IsNil() {
				continue
			}
			nOut++
			behind := false
			for _, cf := range dominatingConds(vb) {
				bo, ok := cf.Cond.(*ssa.BinOp)
				if !ok || (bo.Op != token.NEQ && bo.Op != token.EQL) || !isNilK(bo.Y) {
					continue
				}
				if ex, ok := bo.X.(*ssa.Extract); ok && ex.Tuple == ssa.Value(via) && ex.Index == ei && (bo.Op == token.EQL) == cf.Val {
					behind = true
				}
			}
			if !behind {
				okOut = false
			}
		}
		return src, okOut && nOut > 0
	}
	// caller side: the append's block is dominated by the nil edge of the helper call's error
	for _, cf := range dominatingConds(b) {
		bo, ok := cf.Cond.(*ssa.BinOp)
		if !ok || (bo.Op != token.NEQ && bo.Op != token.EQL) {
			continue
		}
		if !isNilK(bo.Y) {
			continue
		}
		ex, ok := bo.X.(*ssa.Extract)
		if !ok || ex.Tuple != ssa.Value(via) || ex.Index != ei {
			continue
		}
		if (bo.Op == token.EQL) == cf.Val {
			return src, true
		}
	}
	return src, false
}

type indStore struct {
	st *ssa.Store
	fa *ssa.FieldAddr
}

// indirectFieldStores: for every field address of f accepted by match that f puts into memory (kept in a struct, a
// table, a variable), the stores of f through a pointer of that field's type that was read back (a load, a field of a
// loaded struct, a φ): each is a possible store to that field.
func indirectFieldStores(f *ssa.Function, match func(*ssa.FieldAddr) bool) []indStore {
	var kept []*ssa.FieldAddr
	for _, b := range f.Blocks {
		for _, in := range b.Instrs {
			fa, ok := in.(*ssa.FieldAddr)
			if !ok || fa.Referrers() == nil || !match(fa) {
				continue
			}
			for _, r := range *fa.Referrers() {
				if st, ok := r.(*ssa.Store); ok && st.Val == ssa.Value(fa) {
					kept = append(kept, fa)
					break
				}
			}
		}
	}
	if len(kept) == 0 {
		return nil
	}
	var out []indStore
	for _, b := range f.Blocks {
		for _, in := range b.Instrs {
			st, ok := in.(*ssa.Store)
			if !ok {
				continue
			}
			switch st.Addr.(type) {
			case *ssa.UnOp, *ssa.Field, *ssa.Phi, *ssa.Extract, *ssa.Lookup, *ssa.Index:
			default:
				continue
			}
			for _, fa := range kept {
				if types.Identical(st.Addr.Type(), fa.Type()) {
					out = append(out, indStore{st, fa})
				}
			}
		}
	}
	return out
}

// samePointerValue: two reads of one pointer (the same value, the same field of the same struct value, or two loads
// of the same address).
func samePointerValue(a, b ssa.Value) bool {
	if a == b {
		return true
	}
	if fa, ok := a.(*ssa.Field); ok {
		if fb, ok := b.(*ssa.Field); ok {
			return fa.X == fb.X && fa.Field == fb.Field
		}
	}
	if la, ok := a.(*ssa.UnOp); ok && la.Op == token.MUL {
		if lb, ok := b.(*ssa.UnOp); ok && lb.Op == token.MUL {
			if la.X == lb.X {
				return true
			}
			xa, ok1 := la.X.(*ssa.FieldAddr)
			xb, ok2 := lb.X.(*ssa.FieldAddr)
			return ok1 && ok2 && xa.X == xb.X && xa.Field == xb.Field
		}
	}
	return false
}
