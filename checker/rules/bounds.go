package rules

import (
	"fmt"
	"go/constant"
	"go/token"
	"go/types"
	"os"
	"sort"
	"strings"

	"golang.org/x/tools/go/ssa"

	"verif/checker/esp"
	"verif/checker/flow"
	"verif/checker/load"
)

// bounds.go — local, exact index rules shared by C07 and C08. None of them is
// a general bounds checker: each names one construct whose safety depends on a
// single, syntactically recognisable guard, and demands that guard.
//
//   T10 sentinel index: the result of an Index-family search (−1 = not found)
//       used as an index, slice bound or allocation size needs a dominating
//       sign test of that very value.
//   T11 len(x)−k: x[len(x)−k], x[:len(x)−k], x[len(x)−k:] need a dominating
//       condition that establishes len(x) ≥ k for that very x.
//   T12 widening after narrow arithmetic: +,−,*,<< carried out in fewer bits
//       than the integer type its result is converted to, on a decoded operand
//       with no dominating upper bound — the conversion shows the author
//       expected the wider range, the arithmetic has already wrapped.

func lenArg(v ssa.Value) (ssa.Value, bool) {
	call, ok := v.(*ssa.Call)
	if !ok {
		return nil, false
	}
	if bi, ok := call.Call.Value.(*ssa.Builtin); ok && bi.Name() == "len" && len(call.Call.Args) == 1 {
		return call.Call.Args[0], true
	}
	return nil, false
}

// sameColl: the same slice value, or two reads of one address-taken local
// (x declared with var and filled through &x: every use is a separate load).
func sameColl(a, b ssa.Value) bool {
	if a == b {
		return true
	}
	// two calls of one generated getter on one message value (m.GetMrtd() twice)
	if ca, ok := a.(*ssa.Call); ok {
		if cb, ok := b.(*ssa.Call); ok {
			ga, gb := ca.Call.StaticCallee(), cb.Call.StaticCallee()
			if ga != nil && ga == gb && strings.HasPrefix(ga.Name(), "Get") && ga.Signature.Recv() != nil && len(ca.Call.Args) == 1 && len(cb.Call.Args) == 1 && ca.Call.Args[0] == cb.Call.Args[0] {
				return true
			}
		}
	}
	la, ok1 := a.(*ssa.UnOp)
	lb, ok2 := b.(*ssa.UnOp)
	if !ok1 || !ok2 || la.Op != token.MUL || lb.Op != token.MUL || la.X != lb.X {
		return false
	}
	_, isLocal := la.X.(*ssa.Alloc)
	return isLocal
}

func constInt(v ssa.Value) (int64, bool) {
	k, ok := v.(*ssa.Const)
	if !ok || k.Value == nil || k.Value.Kind() != constant.Int {
		return 0, false
	}
	n, exact := constant.Int64Val(k.Value)
	return n, exact
}

func flipOp(op token.Token) token.Token {
	switch op {
	case token.LSS:
		return token.GTR
	case token.GTR:
		return token.LSS
	case token.LEQ:
		return token.GEQ
	case token.GEQ:
		return token.LEQ
	}
	return op
}

func negOp(op token.Token) token.Token {
	switch op {
	case token.LSS:
		return token.GEQ
	case token.GTR:
		return token.LEQ
	case token.LEQ:
		return token.GTR
	case token.GEQ:
		return token.LSS
	case token.EQL:
		return token.NEQ
	case token.NEQ:
		return token.EQL
	}
	return op
}

// relFact normalises a dominating condition into (left op right) that is known
// to hold, with `isLeft` deciding which operand goes left. ok=false if neither
// operand satisfies isLeft or the condition is not a comparison.
func relFact(cf condFact, isLeft func(ssa.Value) bool) (op token.Token, other ssa.Value, ok bool) {
	bo, isB := cf.Cond.(*ssa.BinOp)
	if !isB {
		return 0, nil, false
	}
	switch bo.Op {
	case token.LSS, token.GTR, token.LEQ, token.GEQ, token.EQL, token.NEQ:
	default:
		return 0, nil, false
	}
	op = bo.Op
	var r ssa.Value
	switch {
	case isLeft(bo.X):
		r = bo.Y
	case isLeft(bo.Y):
		r = bo.X
		op = flipOp(op)
	default:
		return 0, nil, false
	}
	if !cf.Val {
		op = negOp(op)
	}
	return op, r, true
}

// minLen: the greatest lower bound on len(x) implied by x's construction or by
// the conditions dominating b.
// minLenLifted: minLen at this site; when x is a parameter of an unexported function whose call sites are all static,
// also the least lower bound the callers establish for the argument they pass (a precondition the helper relies on).
func (c *Ctx) minLenLifted(b *ssa.BasicBlock, x ssa.Value, depth int) int64 {
	have := minLen(b, x)
	p, ok := x.(*ssa.Parameter)
	if !ok || depth > 2 {
		return have
	}
	fn := p.Parent()
	if fn.Parent() == nil && fn.Object() != nil && fn.Object().Exported() {
		return have
	}
	idx := -1
	for i, q := range fn.Params {
		if q == p {
			idx = i
		}
	}
	n := c.P.CallGraph().Nodes[fn]
	if n == nil || idx < 0 {
		return have
	}
	var least int64 = -1
	for _, e := range n.In {
		if e.Site == nil || e.Caller.Func == nil || c.isTestFunc(e.Caller.Func) {
			continue
		}
		cc := e.Site.Common()
		if cc.IsInvoke() || cc.StaticCallee() != fn || idx >= len(cc.Args) {
			return have
		}
		m := c.minLenLifted(e.Site.Block(), cc.Args[idx], depth+1)
		if least < 0 || m < least {
			least = m
		}
	}
	if least > have {
		return least
	}
	return have
}

func minLen(b *ssa.BasicBlock, x ssa.Value) int64 {
	var best int64
	switch y := x.(type) {
	case *ssa.Slice:
		if y.Low == nil && y.High == nil {
			if pt, ok := y.X.Type().Underlying().(*types.Pointer); ok {
				if at, ok := pt.Elem().Underlying().(*types.Array); ok {
					best = at.Len()
				}
			}
		}
		if y.Low != nil && y.High == nil && b != nil {
			// x = y[k:] : len(x) = len(y) − k
			if k, ok := constInt(y.Low); ok {
				if _, isSlice := y.X.Type().Underlying().(*types.Slice); isSlice {
					if m := minLen(b, y.X) - k; m > best {
						best = m
					}
				}
			}
		}
		if lo, hi := y.Low, y.High; hi != nil {
			h, ok1 := constInt(hi)
			var l int64
			ok2 := true
			if lo != nil {
				l, ok2 = constInt(lo)
			}
			if ok1 && ok2 && h-l > best {
				best = h - l
			}
		}
	case *ssa.MakeSlice:
		if n, ok := constInt(y.Len); ok {
			best = n
		}
	}
	// len(x), or len(x) ± C (signed int arithmetic on a length does not wrap): the constant moves to the other side
	// the same collection: the same value, or two loads along one field path that this function does not store into
	// (a record that carries the input: `len(d.quote) >= n` and then `d.quote[n:]`)
	same := func(a ssa.Value) bool {
		return sameColl(a, x) || (b != nil && b.Parent() != nil && sameFieldPathUnwritten(b.Parent(), a, x))
	}
	lenOff := func(v ssa.Value) (int64, bool) {
		v = stripConv(v)
		if a, ok := lenArg(v); ok && same(a) {
			return 0, true
		}
		if bo, ok := v.(*ssa.BinOp); ok && (bo.Op == token.SUB || bo.Op == token.ADD) {
			if a, ok := lenArg(stripConv(bo.X)); ok && same(a) {
				if bt, ok := bo.Type().Underlying().(*types.Basic); ok && bt.Kind() == types.Int {
					if k, ok := constInt(bo.Y); ok {
						if bo.Op == token.SUB {
							return -k, true
						}
						return k, true
					}
				}
			}
		}
		return 0, false
	}
	isLen := func(v ssa.Value) bool {
		_, ok := lenOff(v)
		return ok
	}
	for _, cf := range dominatingConds(b) {
		op, other, ok := relFact(cf, isLen)
		if !ok {
			continue
		}
		k, isK := constInt(other)
		if bo, isB := cf.Cond.(*ssa.BinOp); isB {
			off, okx := lenOff(bo.X)
			if !okx {
				off, _ = lenOff(bo.Y)
			}
			if off != 0 {
				if !isK {
					continue
				}
				k -= off
			}
		}
		var lb int64
		switch op {
		case token.NEQ:
			if isK && k == 0 {
				lb = 1
			}
		case token.EQL:
			if isK {
				lb = k
			}
		case token.GTR:
			if isK {
				lb = k + 1
			} else {
				lb = 1 // len(x) > i for an index i: at least one element
			}
		case token.GEQ:
			if isK {
				lb = k
			}
		}
		if lb > best {
			best = lb
		}
	}
	return best
}

// indexUses lists the instructions that use v (looking through integer
// conversions) as an index, a slice bound or an allocation size, with the
// collection indexed (nil for allocations).
type indexUse struct {
	At   ssa.Instruction
	Coll ssa.Value
	Role string
}

func indexUses(v ssa.Value) []indexUse {
	var out []indexUse
	seen := map[ssa.Value]bool{}
	var walk func(x ssa.Value, d int)
	walk = func(x ssa.Value, d int) {
		if d > 3 || seen[x] {
			return
		}
		seen[x] = true
		for _, r := range nonDebugRefs(x) {
			switch u := r.(type) {
			case *ssa.Convert:
				walk(u, d+1)
			case *ssa.ChangeType:
				walk(u, d+1)
			case *ssa.Index:
				if u.Index == x {
					out = append(out, indexUse{u, u.X, "index"})
				}
			case *ssa.IndexAddr:
				if u.Index == x {
					out = append(out, indexUse{u, u.X, "index"})
				}
			case *ssa.Slice:
				if u.Low == x || u.High == x || u.Max == x {
					out = append(out, indexUse{u, u.X, "slice bound"})
				}
			case *ssa.MakeSlice:
				if u.Len == x || u.Cap == x {
					out = append(out, indexUse{u, nil, "allocation size"})
				}
			}
		}
	}
	walk(v, 0)
	return out
}

func isSentinelSearch(call ssa.CallInstruction) (string, bool) {
	f := call.Common().StaticCallee()
	if f == nil {
		return "", false
	}
	if o := f.Origin(); o != nil {
		f = o
	}
	if f.Pkg == nil {
		return "", false
	}
	switch f.Pkg.Pkg.Path() {
	case "bytes", "strings", "slices", "golang.org/x/exp/slices":
	default:
		return "", false
	}
	n := f.Name()
	if strings.HasPrefix(n, "Index") || strings.HasPrefix(n, "LastIndex") {
		if rt, ok := f.Signature.Results().At(0).Type().Underlying().(*types.Basic); ok && rt.Kind() == types.Int && f.Signature.Results().Len() == 1 {
			return f.Pkg.Pkg.Name() + "." + n, true
		}
	}
	return "", false
}

// sentinelRule: T10.
func (c *Ctx) sentinelRule(rule string, fns []*ssa.Function) {
	n := 0
	for _, f := range fns {
		for _, call := range callsIn(f, func(call ssa.CallInstruction) bool { _, ok := isSentinelSearch(call); return ok }) {
			name, _ := isSentinelSearch(call)
			r := call.Value()
			if r == nil {
				continue
			}
			for _, u := range indexUses(r) {
				n++
				nonNeg := false
				for _, cf := range dominatingConds(u.At.Block()) {
					op, other, ok := relFact(cf, func(v ssa.Value) bool { return stripConv(v) == r })
					if !ok {
						continue
					}
					k, isK := constInt(other)
					if !isK {
						continue
					}
					switch op {
					case token.GEQ, token.EQL:
						nonNeg = nonNeg || k >= 0
					case token.GTR:
						nonNeg = nonNeg || k >= -1
					case token.NEQ:
						nonNeg = nonNeg || k == -1
					}
				}
				construct := fmt.Sprintf("%s:%s result as %s", load.FuncName(f), name, u.Role)
				c.S.Check(nonNeg, rule, construct, c.pos(u.At.Pos()), "search result is sign-tested before it is used as "+u.Role,
					fmt.Sprintf("%s returns -1 when nothing is found; its result is used as %s with no dominating test of its sign (a comparison with another computed value does not establish it)", name, u.Role))
			}
		}
	}
	c.S.Count("sentinel_index_uses", n)
	c.S.OK(rule, "search results used as indices", "", fmt.Sprintf("%d uses of Index-family results as index/bound/size examined", n), false)
}

// lenMinusRule: T11.
func (c *Ctx) lenMinusRule(rule string, fns []*ssa.Function, suppress map[string]string) {
	n := 0
	for _, f := range fns {
		for _, b := range f.Blocks {
			for _, in := range b.Instrs {
				sub, ok := in.(*ssa.BinOp)
				if !ok || sub.Op != token.SUB {
					continue
				}
				x, ok := lenArg(stripConv(sub.X))
				if !ok {
					continue
				}
				k, ok := constInt(sub.Y)
				if !ok || k <= 0 {
					continue
				}
				for _, u := range indexUses(sub) {
					if !sameColl(u.Coll, x) {
						continue
					}
					n++
					construct := fmt.Sprintf("%s:%s at len-%d", load.FuncName(f), u.Role, k)
					// a suppression names the producer of the slice (an external function whose result is known
					// non-empty for the reason given), not the function the access happens to sit in: a helper that is
					// handed that result by all its callers is covered too
					supp := ""
					for prod, why := range suppress {
						if c.producedBy(x, prod, 0) {
							supp = why
						}
					}
					if supp != "" {
						c.S.OK(rule, construct, c.pos(u.At.Pos()), "suppressed: "+supp, false)
						continue
					}
					have := c.minLenLifted(u.At.Block(), x, 0)
					c.S.Check(have >= k, rule, construct, c.pos(u.At.Pos()), fmt.Sprintf("len ≥ %d established before the access", have),
						fmt.Sprintf("%s len(x)-%d of the same slice, but no dominating condition on this value establishes len(x) ≥ %d (known: ≥ %d); an empty or short x panics", u.Role, k, k, have))
				}
			}
		}
	}
	c.S.Count("len_minus_k_uses", n)
	c.S.OK(rule, "len(x)-k accesses", "", fmt.Sprintf("%d accesses at len(x)-k examined", n), false)
}

// sliceToArrayRule (T24): a conversion of a slice to an array or array pointer ([N]T(x), (*[N]T)(x)) panics when
// len(x) < N. Every such conversion in fns needs len(x) ≥ N established for that very slice: by construction
// (x[a:a+N], make of a constant), by a dominating condition, or — x a parameter of an unexported function — by
// every caller. Returns the number of conversions examined.
func (c *Ctx) sliceToArrayRule(rule string, fns []*ssa.Function) int {
	n := 0
	perFn := map[*ssa.Function]int{}
	for _, f := range fns {
		for _, b := range f.Blocks {
			for _, in := range b.Instrs {
				cv, ok := in.(*ssa.SliceToArrayPointer)
				if !ok {
					continue
				}
				pt, ok := cv.Type().Underlying().(*types.Pointer)
				if !ok {
					continue
				}
				at, ok := pt.Elem().Underlying().(*types.Array)
				if !ok {
					continue
				}
				n++
				perFn[f]++
				need := at.Len()
				have := c.minLenLifted(b, cv.X, 0)
				construct := fmt.Sprintf("%s:conversion #%d of a %s to [%d]", load.FuncName(f), perFn[f], types.TypeString(cv.X.Type(), func(p *types.Package) string { return p.Name() }), need)
				at0 := cv.Pos()
				for _, later := range b.Instrs {
					if !at0.IsValid() && later.Pos().IsValid() {
						at0 = later.Pos()
					}
				}
				if !at0.IsValid() {
					at0 = f.Pos()
				}
				c.S.Check(have >= need, rule, construct, c.pos(at0), fmt.Sprintf("len ≥ %d established before the conversion", have),
					fmt.Sprintf("a slice is converted to an array of %d elements, but nothing establishes len ≥ %d for it (known: ≥ %d): a shorter value panics instead of being refused", need, need, have))
			}
		}
	}
	c.S.Count("slice_to_array_conversions", n)
	return n
}

// constBoundRule (T26): x[:k], x[k:], x[a:b] and x[k] with constant bounds on a slice that is the result of a call (a
// message getter, a decoder's output) or loaded from a field need len(x) ≥ the largest constant for that very slice —
// by a dominating condition, by construction, or established by every caller. (Constant offsets into a []byte
// *parameter* are T4's, which reads the guards of the whole function.) Returns the number of accesses examined.
func (c *Ctx) constBoundRule(rule string, fns []*ssa.Function) int {
	n := 0
	perFn := map[*ssa.Function]int{}
	fromCallOrField := func(v ssa.Value) bool {
		switch x := v.(type) {
		case *ssa.Call:
			_, isBuiltin := x.Call.Value.(*ssa.Builtin)
			return !isBuiltin
		case *ssa.Extract:
			return true
		case *ssa.UnOp:
			if x.Op == token.MUL {
				_, isField := x.X.(*ssa.FieldAddr)
				return isField
			}
		}
		return false
	}
	for _, f := range fns {
		for _, b := range f.Blocks {
			for _, in := range b.Instrs {
				var coll ssa.Value
				var need int64 = -1
				switch x := in.(type) {
				case *ssa.Slice:
					if _, isSlice := x.X.Type().Underlying().(*types.Slice); !isSlice {
						continue
					}
					coll = x.X
					for _, bd := range []ssa.Value{x.Low, x.High} {
						if bd == nil {
							continue
						}
						if k, ok := constInt(bd); ok && k > need {
							need = k
						}
					}
				case *ssa.IndexAddr:
					if _, isSlice := x.X.Type().Underlying().(*types.Slice); !isSlice {
						continue
					}
					coll = x.X
					if k, ok := constInt(x.Index); ok {
						need = k + 1
					}
				}
				if coll == nil || need <= 0 || !fromCallOrField(coll) {
					continue
				}
				n++
				perFn[f]++
				have := c.minLenLifted(b, coll, 0)
				if h := exactLenFromHelper(b, coll); h > have {
					have = h
				}
				if h := regexpIndexLen(b, coll); h > have {
					have = h
				}
				pos := in.Pos()
				if !pos.IsValid() {
					pos = f.Pos()
				}
				c.S.Check(have >= need, rule, fmt.Sprintf("%s:constant bound #%d on a computed slice (needs len ≥ %d)", load.FuncName(f), perFn[f], need), c.pos(pos), fmt.Sprintf("len ≥ %d established before the access", have),
					fmt.Sprintf("%s is sliced or indexed at the constant %d, but nothing establishes len ≥ %d for it (known: ≥ %d): a shorter value panics", flow.Describe(coll), need, need, have))
			}
		}
	}
	c.S.Count("constant_bounds_on_computed_slices", n)
	return n
}

// exactLenFromHelper: coll is result 0 of a call to a repo helper that returns a nil error only where
// len(result) == one of its parameters (readExactly(r, n)); block b lies behind the helper's error having been found
// nil; then len(coll) equals the argument, and the lower bound the dominating conditions give for the argument (as
// the same value, up to conversions) is a lower bound for len(coll).
func exactLenFromHelper(b *ssa.BasicBlock, coll ssa.Value) int64 {
	ex, ok := coll.(*ssa.Extract)
	if !ok || ex.Index != 0 {
		return 0
	}
	call, ok := ex.Tuple.(*ssa.Call)
	if !ok {
		return 0
	}
	g := call.Call.StaticCallee()
	if g == nil || g.Blocks == nil || !load.FuncInRepo(g) {
		return 0
	}
	ei := errIndex(g.Signature)
	if ei < 0 {
		return 0
	}
	pidx := -1
	nOK := 0
	for _, gb := range g.Blocks {
		ret, ok := gb.Instrs[len(gb.Instrs)-1].(*ssa.Return)
		if !ok || !isNilK(ret.Results[ei]) {
			continue
		}
		nOK++
		found := -1
		for _, cf := range dominatingConds(gb) {
			op, other, ok := relFact(cf, func(v ssa.Value) bool {
				a, ok := lenArg(stripConv(v))
				return ok && sameColl(a, ret.Results[0])
			})
			if !ok || op != token.EQL {
				continue
			}
			if p, ok := stripConv(other).(*ssa.Parameter); ok {
				for i, q := range g.Params {
					if q == p {
						found = i
					}
				}
			}
		}
		if found < 0 || (pidx >= 0 && pidx != found) {
			return 0
		}
		pidx = found
	}
	if nOK == 0 || pidx < 0 || pidx >= len(call.Call.Args) {
		return 0
	}
	// the access lies behind err == nil
	errNil := false
	for _, cf := range dominatingConds(b) {
		op, other, ok := relFact(cf, func(v ssa.Value) bool {
			e2, ok := v.(*ssa.Extract)
			return ok && e2.Tuple == ssa.Value(call) && e2.Index == ei
		})
		if ok && op == token.EQL && isNilK(other) {
			errNil = true
		}
	}
	if !errNil {
		return 0
	}
	arg := stripConv(call.Call.Args[pidx])
	var lb int64
	for _, cf := range dominatingConds(b) {
		op, other, ok := relFact(cf, func(v ssa.Value) bool { v = stripConv(v); return v == arg || sameLoad(v, arg) })
		if !ok {
			continue
		}
		k, isK := constInt(other)
		if !isK {
			continue
		}
		switch op {
		case token.GEQ, token.EQL:
			if k > lb {
				lb = k
			}
		case token.GTR:
			if k+1 > lb {
				lb = k + 1
			}
		}
	}
	return lb
}

// regexpIndexLen: the location pair of a regexp Find*Index call is nil or has two elements; behind loc != nil it has two.
func regexpIndexLen(b *ssa.BasicBlock, coll ssa.Value) int64 {
	call, ok := coll.(*ssa.Call)
	if !ok {
		return 0
	}
	g := call.Call.StaticCallee()
	if g == nil {
		return 0
	}
	switch g.String() {
	case "(*regexp.Regexp).FindIndex", "(*regexp.Regexp).FindStringIndex", "(*regexp.Regexp).FindReaderIndex":
	default:
		return 0
	}
	for _, cf := range dominatingConds(b) {
		op, other, ok := relFact(cf, func(v ssa.Value) bool { return v == coll })
		if ok && op == token.NEQ && isNilK(other) {
			return 2
		}
	}
	return 0
}

// divisorRule (T25): an integer division or remainder whose divisor is not a constant panics when the divisor is
// zero. Every such operation in fns needs the divisor known non-zero: a dominating condition on that very value (or
// on another load of the same field) that excludes zero (≠ 0, > k, ≥ k with k ≥ 1, == k with k ≠ 0), a divisor that
// is a length + positive constant or a constant-valued table entry is not examined (recorded). Returns the number
// of divisions by a non-constant examined.
func (c *Ctx) divisorRule(rule string, fns []*ssa.Function) int {
	n := 0
	perFn := map[*ssa.Function]int{}
	for _, f := range fns {
		for _, b := range f.Blocks {
			for _, in := range b.Instrs {
				bo, ok := in.(*ssa.BinOp)
				if !ok || (bo.Op != token.QUO && bo.Op != token.REM) {
					continue
				}
				if bt, ok := bo.Type().Underlying().(*types.Basic); !ok || bt.Info()&types.IsInteger == 0 {
					continue
				}
				if _, isK := bo.Y.(*ssa.Const); isK {
					continue
				}
				n++
				perFn[f]++
				d := stripConv(bo.Y)
				same := func(x ssa.Value) bool {
					x = stripConv(x)
					if x == d || sameLoad(x, d) {
						return true
					}
					// two len() calls of one collection are one quantity
					if a, ok := lenArg(x); ok {
						if b2, ok := lenArg(d); ok && (sameColl(a, b2) || sameFieldPathUnwritten(f, a, b2)) {
							return true
						}
					}
					return false
				}
				nonzero := false
				for _, cf := range dominatingConds(b) {
					op, other, ok := relFact(cf, same)
					if !ok {
						continue
					}
					k, isK := constInt(other)
					switch op {
					case token.NEQ:
						nonzero = nonzero || (isK && k == 0)
					case token.EQL:
						nonzero = nonzero || (isK && k != 0)
					case token.GTR:
						nonzero = nonzero || (isK && k >= 0 && isUnsignedOrAny(bo.Y, k))
					case token.GEQ:
						nonzero = nonzero || (isK && k >= 1)
					}
				}
				if !nonzero {
					nonzero = c.nonZeroAtCallers(d, 0)
				}
				opname := "division"
				if bo.Op == token.REM {
					opname = "remainder"
				}
				construct := fmt.Sprintf("%s:%s #%d by a non-constant", load.FuncName(f), opname, perFn[f])
				c.S.Check(nonzero, rule, construct, c.pos(bo.Pos()), "divisor known non-zero before the operation",
					fmt.Sprintf("%s by %s, a value no dominating condition makes non-zero: a zero divisor panics (integer divide by zero) instead of being refused", opname, flow.Describe(bo.Y)))
			}
		}
	}
	c.S.Count("divisions_by_non_constant", n)
	return n
}

// nonZeroAtCallers: v is a parameter of an unexported function all of whose call sites are static, and every caller
// passes a non-zero constant, a value a dominating condition at the call site makes non-zero, or its own such parameter.
func (c *Ctx) nonZeroAtCallers(v ssa.Value, depth int) bool {
	p, ok := stripConv(v).(*ssa.Parameter)
	if !ok || depth > 2 {
		return false
	}
	fn := p.Parent()
	if fn.Parent() == nil && fn.Object() != nil && fn.Object().Exported() {
		return false
	}
	idx := -1
	for i, q := range fn.Params {
		if q == p {
			idx = i
		}
	}
	node := c.P.CallGraph().Nodes[fn]
	if node == nil || idx < 0 {
		return false
	}
	sites := 0
	for _, e := range node.In {
		if e.Site == nil || e.Caller.Func == nil || c.isTestFunc(e.Caller.Func) {
			continue
		}
		cc := e.Site.Common()
		if cc.IsInvoke() || cc.StaticCallee() != fn || idx >= len(cc.Args) {
			return false
		}
		sites++
		a := stripConv(cc.Args[idx])
		if k, isK := constInt(a); isK {
			if k == 0 {
				return false
			}
			continue
		}
		okSite := false
		for _, cf := range dominatingConds(e.Site.Block()) {
			op, other, ok := relFact(cf, func(x ssa.Value) bool { x = stripConv(x); return x == a || sameLoad(x, a) })
			if !ok {
				continue
			}
			k, isK := constInt(other)
			if (op == token.NEQ && isK && k == 0) || (op == token.GTR && isK && k >= 0) || (op == token.GEQ && isK && k >= 1) || (op == token.EQL && isK && k != 0) {
				okSite = true
			}
		}
		if !okSite && !c.nonZeroAtCallers(a, depth+1) {
			return false
		}
	}
	return sites > 0
}

// sameFieldPathUnwritten: a and b are loads along one access path (same root, same field chain, at least one field),
// and f itself stores into no field of that name (callees are not looked into: the guard and the division sit a few
// lines apart in one function): the two loads read one quantity.
func sameFieldPathUnwritten(f *ssa.Function, a, b ssa.Value) bool {
	pa, pb := flow.PathOf(a), flow.PathOf(b)
	if len(pa.Fields) == 0 || !pa.Equal(pb) {
		return false
	}
	last := pa.Fields[len(pa.Fields)-1]
	for _, blk := range f.Blocks {
		for _, in := range blk.Instrs {
			if st, ok := in.(*ssa.Store); ok {
				if fa, ok := st.Addr.(*ssa.FieldAddr); ok && flow.FieldName(fa) == last {
					return false
				}
			}
		}
	}
	return true
}

// isUnsignedOrAny: v > k with k ≥ 0 excludes zero for signed and unsigned values alike.
func isUnsignedOrAny(v ssa.Value, k int64) bool { return k >= 0 }

// upperBoundedBefore: block b is dominated by an edge on which v (or the value
// it was converted from, or another load of the same field) is known to be
// below / at most something.
func upperBoundedBefore(b *ssa.BasicBlock, v ssa.Value) bool {
	s := stripConv(v)
	same := func(x ssa.Value) bool {
		x = stripConv(x)
		if x == s {
			return true
		}
		return sameLoad(x, s)
	}
	for _, cf := range dominatingConds(b) {
		op, _, ok := relFact(cf, same)
		if !ok {
			continue
		}
		switch op {
		case token.LSS, token.LEQ, token.EQL:
			return true
		}
	}
	return false
}

// widenAfterArithRule: T12.
func (c *Ctx) widenAfterArithRule(rule string, fns []*ssa.Function) {
	fwd := c.readForwarders()
	cache := map[*ssa.Function]map[ssa.Value]bool{}
	n := 0
	intBits := 64
	if c.Arch == "386" {
		intBits = 32
	}
	bitsOf := func(t types.Type) int {
		bt, ok := t.Underlying().(*types.Basic)
		if !ok || bt.Info()&types.IsInteger == 0 {
			return 0
		}
		switch bt.Kind() {
		case types.Int, types.Uint, types.Uintptr:
			return intBits
		}
		return basicBits(bt)
	}
	for _, f := range fns {
		for _, b := range f.Blocks {
			for _, in := range b.Instrs {
				bo, ok := in.(*ssa.BinOp)
				if !ok {
					continue
				}
				switch bo.Op {
				case token.ADD, token.SUB, token.MUL, token.SHL:
				default:
					continue
				}
				w := bitsOf(bo.Type())
				if w == 0 || w >= 64 {
					continue
				}
				wider := 0
				for _, r := range nonDebugRefs(bo) {
					if cv, ok := r.(*ssa.Convert); ok {
						if tw := bitsOf(cv.Type()); tw > w && tw > wider {
							wider = tw
						}
					}
				}
				if wider == 0 {
					continue
				}
				var side ssa.Value
				origin := ""
				for _, opnd := range []ssa.Value{bo.X, bo.Y} {
					if _, isK := opnd.(*ssa.Const); isK {
						continue
					}
					if o, _, dec := c.decodedOrigin(opnd, fwd, cache); dec {
						side, origin = opnd, o
						break
					}
				}
				if side == nil {
					continue
				}
				n++
				construct := fmt.Sprintf("%s:%d-bit %s widened to %d bits (%s)", load.FuncName(f), w, bo.Op, wider, strings.TrimPrefix(origin, "binary."))
				c.S.Check(upperBoundedBefore(b, side), rule, construct, c.pos(bo.Pos()), "decoded operand has an upper bound before the narrow arithmetic",
					fmt.Sprintf("%s on a value taken from the input is carried out in %d bits and only then converted to %d bits: it wraps before the conversion, so later range checks see the wrapped value", bo.Op, w, wider))
			}
		}
	}
	c.S.Count("widen_after_arith_sites", n)
	c.S.OK(rule, "narrow arithmetic widened afterwards", "", fmt.Sprintf("%d sites examined", n), false)
}

// sameLoad: two loads of the same field path of the same base.
func sameLoad(a, b ssa.Value) bool {
	la, ok1 := a.(*ssa.UnOp)
	lb, ok2 := b.(*ssa.UnOp)
	if !ok1 || !ok2 || la.Op != token.MUL || lb.Op != token.MUL {
		return false
	}
	if la.X == lb.X {
		return true
	}
	fa, ok1 := la.X.(*ssa.FieldAddr)
	fb, ok2 := lb.X.(*ssa.FieldAddr)
	return ok1 && ok2 && fa.X == fb.X && fa.Field == fb.Field
}

// surveyAccesses (debug, VCHECK_SURVEY=1): lists every non-constant index /
// slice bound in fns with the dominating conditions that mention len of the
// collection. Not part of any verdict.
func (c *Ctx) surveyAccesses(fns []*ssa.Function) {
	for _, f := range fns {
		for _, b := range f.Blocks {
			for _, in := range b.Instrs {
				var coll ssa.Value
				var idx []ssa.Value
				switch u := in.(type) {
				case *ssa.Index:
					coll, idx = u.X, []ssa.Value{u.Index}
				case *ssa.IndexAddr:
					coll, idx = u.X, []ssa.Value{u.Index}
				case *ssa.Slice:
					coll = u.X
					for _, v := range []ssa.Value{u.Low, u.High, u.Max} {
						if v != nil {
							idx = append(idx, v)
						}
					}
				default:
					continue
				}
				nonConst := false
				for _, v := range idx {
					if _, ok := v.(*ssa.Const); !ok {
						nonConst = true
					}
				}
				if !nonConst {
					continue
				}
				if pt, ok := coll.Type().Underlying().(*types.Pointer); ok {
					if _, isArr := pt.Elem().Underlying().(*types.Array); isArr {
						// arrays: still interesting
					}
				}
				mentions := 0
				for _, cf := range dominatingConds(b) {
					if _, _, ok := relFact(cf, func(v ssa.Value) bool { a, ok := lenArg(stripConv(v)); return ok && a == coll }); ok {
						mentions++
					}
				}
				fmt.Printf("SURVEY %s %s coll=%s lenconds=%d\n", c.pos(in.Pos()), load.FuncName(f), coll.Name()+":"+coll.Type().String(), mentions)
			}
		}
	}
}

// foreignBoundSliceRule: T13. A []byte x sliced inside a loop at bounds that
// move with the loop's induction variable, where the loop runs up to a bound B
// that is not computed from len(x): the access can only be in range if B was
// related to len(x) by the checks executed beforehand. Path-sensitive (ESP):
// every comparison of the function is a site; taking a site's relating edge
// (either edge of an ordering comparison, the equal edge of ==/!=) relates all
// quantities that occur in it (field access paths, call results, len(...)).
// At the slice expression, every quantity B is computed from must be connected
// to len(x) through the sites taken on this path. Boolean locals are tracked as
// flags so that `flag && B != len(x)` correlates with `if flag { x[i:j] }`.
// This decides "some chain of checks relates the bound to the buffer", not that
// the chain is arithmetically sufficient.
func (c *Ctx) foreignBoundSliceRule(rule string, fns []*ssa.Function) int {
	n := 0
	for _, f := range fns {
		loops := naturalLoops(f)
		type inst struct {
			s *ssa.Slice
			B ssa.Value
		}
		var insts []inst
		for _, L := range loops {
			iff, ok := L.Header.Instrs[len(L.Header.Instrs)-1].(*ssa.If)
			if !ok {
				continue
			}
			cmp, ok := iff.Cond.(*ssa.BinOp)
			if !ok {
				continue
			}
			var ind *ssa.Phi
			var B ssa.Value
			for k, side := range []ssa.Value{cmp.X, cmp.Y} {
				if ph, ok := stripConv(side).(*ssa.Phi); ok && ph.Block() == L.Header {
					ind = ph
					B = []ssa.Value{cmp.Y, cmp.X}[k]
				}
			}
			if ind == nil {
				continue
			}
			if _, isK := B.(*ssa.Const); isK {
				continue
			}
			movesWith := func(v ssa.Value) bool {
				return v != nil && derivesLocally(v, func(y ssa.Value) bool { return y == ssa.Value(ind) })
			}
			for b := range L.Body {
				for _, in := range b.Instrs {
					s, ok := in.(*ssa.Slice)
					if !ok {
						continue
					}
					st, ok := s.X.Type().Underlying().(*types.Slice)
					if !ok {
						continue
					}
					if bt, ok := st.Elem().Underlying().(*types.Basic); !ok || bt.Kind() != types.Uint8 {
						continue
					}
					if !movesWith(s.Low) && !movesWith(s.High) {
						continue
					}
					// bound derived from len(x) itself: the loop is bounded by the slice
					if derivesLocally(B, func(v ssa.Value) bool { a, ok := lenArg(v); return ok && sameBytes(a, s.X) }) {
						continue
					}
					insts = append(insts, inst{s, B})
				}
			}
		}
		sort.Slice(insts, func(i, j int) bool { return insts[i].s.Pos() < insts[j].s.Pos() })
		for _, it := range insts {
			n++
			it := it
			const lenAtom = "LEN"
			atomsOf := func(v ssa.Value) []string {
				var out []string
				seen := map[ssa.Value]bool{}
				var walk func(v ssa.Value, d int)
				walk = func(v ssa.Value, d int) {
					if v == nil || d > 6 || seen[v] {
						return
					}
					seen[v] = true
					switch y := v.(type) {
					case *ssa.Const:
						return
					case *ssa.BinOp:
						walk(y.X, d+1)
						walk(y.Y, d+1)
						return
					case *ssa.Convert:
						walk(y.X, d+1)
						return
					case *ssa.ChangeType:
						walk(y.X, d+1)
						return
					case *ssa.Phi:
						out = append(out, y.Name())
						return
					}
					if a, ok := lenArg(v); ok {
						if sameBytes(a, it.s.X) {
							out = append(out, lenAtom)
						} else {
							out = append(out, "len:"+pathKey(a))
						}
						return
					}
					out = append(out, pathKey(v))
				}
				walk(v, 0)
				return out
			}
			// comparison sites: those of f and those of same-package helpers f calls at one site, with the
			// helper's parameters translated to the arguments of that call
			type site struct{ atoms []string }
			siteOf := map[ssa.Value]int{}
			var sites []site
			helpers := map[*ssa.Function]ssa.CallInstruction{}
			multi := map[*ssa.Function]bool{}
			for _, call := range callsIn(f, func(call ssa.CallInstruction) bool {
				g := call.Common().StaticCallee()
				return g != nil && g != f && g.Blocks != nil && g.Pkg == f.Pkg
			}) {
				g := call.Common().StaticCallee()
				if _, dup := helpers[g]; dup {
					multi[g] = true
				}
				helpers[g] = call
			}
			for g := range multi {
				delete(helpers, g)
			}
			translate := func(g *ssa.Function, atoms []string) []string {
				call, ok := helpers[g]
				if !ok {
					return atoms
				}
				out := make([]string, 0, len(atoms))
				for _, a := range atoms {
					t := a
					pre := ""
					if strings.HasPrefix(t, "len:") {
						pre, t = "len:", t[4:]
					}
					for i, prm := range g.Params {
						if i >= len(call.Common().Args) {
							break
						}
						if t == prm.Name() || strings.HasPrefix(t, prm.Name()+".") {
							t = pathKey(call.Common().Args[i]) + t[len(prm.Name()):]
							break
						}
					}
					if pre == "len:" && t == pathKey(it.s.X) {
						out = append(out, lenAtom)
					} else {
						out = append(out, pre+t)
					}
				}
				return out
			}
			var siteFns []*ssa.Function
			siteFns = append(siteFns, f)
			for g := range helpers {
				siteFns = append(siteFns, g)
			}
			sort.Slice(siteFns, func(i, j int) bool { return siteFns[i].Pos() < siteFns[j].Pos() })
			for _, sf := range siteFns {
				for _, b := range sf.Blocks {
					iff, ok := b.Instrs[len(b.Instrs)-1].(*ssa.If)
					if !ok {
						continue
					}
					cond := iff.Cond
					for {
						u, ok := cond.(*ssa.UnOp)
						if !ok || u.Op != token.NOT {
							break
						}
						cond = u.X
					}
					if ph, isPhi := cond.(*ssa.Phi); isPhi {
						for _, e := range ph.Edges {
							if _, isK := e.(*ssa.Const); !isK {
								cond = e
							}
						}
					}
					bo, ok := cond.(*ssa.BinOp)
					if !ok {
						continue
					}
					switch bo.Op {
					case token.LSS, token.GTR, token.LEQ, token.GEQ, token.EQL, token.NEQ:
					default:
						continue
					}
					at := append(atomsOf(bo.X), atomsOf(bo.Y)...)
					if sf != f {
						at = translate(sf, at)
					}
					if len(at) < 2 || len(sites) >= 63 {
						continue
					}
					siteOf[bo] = len(sites)
					sites = append(sites, site{at})
				}
			}
			bAtoms := atomsOf(it.B)
			if os.Getenv("VCHECK_DEBUG") != "" {
				for i, st := range sites {
					fmt.Fprintf(os.Stderr, "DBG T13 %s site %d atoms %v\n", f.Name(), i, st.atoms)
				}
				fmt.Fprintf(os.Stderr, "DBG T13 bAtoms %v helpers %d\n", bAtoms, len(helpers))
			}
			connected := func(s esp.State) (bool, string) {
				parent := map[string]string{}
				var find func(a string) string
				find = func(a string) string {
					if p, ok := parent[a]; ok && p != a {
						r := find(p)
						parent[a] = r
						return r
					}
					parent[a] = a
					return a
				}
				for i, st := range sites {
					if !s.Has(uint(i)) {
						continue
					}
					for _, a := range st.atoms[1:] {
						parent[find(a)] = find(st.atoms[0])
					}
				}
				for _, a := range bAtoms {
					if find(a) != find(lenAtom) {
						return false, a
					}
				}
				return len(bAtoms) > 0, ""
			}
			flagIdx := map[ssa.Value]int{}
			r := &esp.Rule{Name: "T13"}
			r.Relevant = func(g *ssa.Function) bool { _, ok := helpers[g]; return ok }
			r.Flag = func(v ssa.Value) (int, bool) {
				if v.Parent() == nil || v.Type().String() != "bool" {
					return 0, false
				}
				if _, isHelper := helpers[v.Parent()]; v.Parent() != f && !isHelper {
					return 0, false
				}
				switch y := v.(type) {
				case *ssa.Phi, *ssa.Parameter:
				case *ssa.Call:
					if _, isBuiltin := y.Call.Value.(*ssa.Builtin); isBuiltin {
						return 0, false
					}
				default:
					return 0, false
				}
				if i, ok := flagIdx[v]; ok {
					return i, true
				}
				if len(flagIdx) >= 8 {
					return 0, false
				}
				flagIdx[v] = len(flagIdx)
				return flagIdx[v], true
			}
			r.Match = func(in ssa.Instruction) []esp.Ev {
				if in == ssa.Instruction(it.s) {
					return []esp.Ev{{ID: 0, Name: "slice at loop-carried bounds", ErrIdx: -1, BoolIdx: -1}}
				}
				return nil
			}
			r.OnBranch = func(x *esp.Ctx, s esp.State, cond ssa.Value, taken bool) (esp.State, string) {
				for {
					u, ok := cond.(*ssa.UnOp)
					if !ok || u.Op != token.NOT {
						break
					}
					cond, taken = u.X, !taken
				}
				if ph, isPhi := cond.(*ssa.Phi); isPhi {
					// `a && b` as a value (e.g. a tag-less switch case): φ(false from the block testing a, b).
					// Its true edge means b was evaluated and true; its false edge means b false only if a
					// is known true on this path.
					var cmp ssa.Value
					viaConst := false
					for k, e := range ph.Edges {
						if kc, isK := e.(*ssa.Const); isK {
							if kc.Value != nil && kc.Value.Kind() == constant.Bool && !constant.BoolVal(kc.Value) {
								pred := ph.Block().Preds[k]
								if iff, ok := pred.Instrs[len(pred.Instrs)-1].(*ssa.If); ok && x.Eval(iff.Cond) == esp.NonZero && pred.Succs[1] == ph.Block() {
									continue // this edge needs a to be false, but a is known true
								}
							}
							viaConst = true
							continue
						}
						if cmp != nil {
							return s, ""
						}
						cmp = e
					}
					if cmp == nil || (viaConst && !taken) {
						return s, ""
					}
					cond = cmp
				}
				i, ok := siteOf[cond]
				if !ok {
					return s, ""
				}
				switch cond.(*ssa.BinOp).Op {
				case token.EQL:
					if !taken {
						return s, ""
					}
				case token.NEQ:
					if taken {
						return s, ""
					}
				}
				return s.Set(uint(i)), ""
			}
			r.Step = func(x *esp.Ctx, s esp.State, ev esp.Ev, ph esp.Phase) (esp.State, string) {
				if ok, a := connected(s); !ok {
					return s, fmt.Sprintf("T13: the slice is taken at bounds that follow a loop running up to a value (%s) that no check executed on this path relates to the length of the sliced buffer", a)
				}
				return s, ""
			}
			e := c.engine(r)
			e.Run(f, esp.State{})
			construct := fmt.Sprintf("%s:slice of %s in loop bounded by %s", load.FuncName(f), describeShort(it.s.X), describeShort(it.B))
			if c.reportEngine(e, rule, func(v *esp.Violation) string { return construct }) == 0 {
				c.S.OK(rule, construct, c.pos(it.s.Pos()), fmt.Sprintf("loop bound related to the buffer length on every path to the slice (%d comparison sites, %d configurations)", len(sites), e.Configs), true)
			}
		}
	}
	c.S.Count("foreign_bound_slices", n)
	return n
}

// normPath: access path of v, looking through a local struct that is a plain
// copy of a loaded struct (gpr := region.GPR; gpr.Length ≡ region.GPR.Length).
func normPath(v ssa.Value) flow.AccessPath {
	p := flow.PathOf(v)
	for i := 0; i < 3; i++ {
		al, ok := p.Root.(*ssa.Alloc)
		if !ok {
			break
		}
		var src ssa.Value
		clean := true
		for _, r := range nonDebugRefs(al) {
			switch u := r.(type) {
			case *ssa.Store:
				if u.Addr == ssa.Value(al) && src == nil {
					src = u.Val
				} else {
					clean = false
				}
			case *ssa.FieldAddr:
				for _, rr := range nonDebugRefs(u) {
					if ld, ok := rr.(*ssa.UnOp); !ok || ld.Op != token.MUL {
						clean = false
					}
				}
			case *ssa.UnOp:
			default:
				clean = false
			}
		}
		if !clean || src == nil {
			break
		}
		q := flow.PathOf(src)
		if len(q.Fields) == 0 {
			break
		}
		p = flow.AccessPath{Root: q.Root, Fields: append(append([]string{}, q.Fields...), p.Fields...)}
	}
	return p
}

func pathKey(v ssa.Value) string {
	p := normPath(stripConv(v))
	if p.Root == nil {
		return v.Name()
	}
	if len(p.Fields) > 0 {
		return p.Root.Name() + "." + strings.Join(p.Fields, ".")
	}
	return p.Root.Name()
}

func describeShort(v ssa.Value) string {
	p := normPath(stripConv(v))
	if len(p.Fields) > 0 {
		return strings.Join(p.Fields, ".")
	}
	return v.Name()
}

// sameBytes: a and b denote the same slice (same value or same access path).
func sameBytes(a, b ssa.Value) bool {
	if a == b {
		return true
	}
	pa, pb := normPath(a), normPath(b)
	return len(pa.Fields) > 0 && pa.Equal(pb)
}

// derivesLocally: v is computed (through arithmetic, conversions and φ) from a
// value satisfying pred.
func derivesLocally(v ssa.Value, pred func(ssa.Value) bool) bool {
	seen := map[ssa.Value]bool{}
	var walk func(v ssa.Value, d int) bool
	walk = func(v ssa.Value, d int) bool {
		if v == nil || d > 6 || seen[v] {
			return false
		}
		seen[v] = true
		if pred(v) {
			return true
		}
		switch y := v.(type) {
		case *ssa.BinOp:
			return walk(y.X, d+1) || walk(y.Y, d+1)
		case *ssa.Convert:
			return walk(y.X, d+1)
		case *ssa.Phi:
			for _, e := range y.Edges {
				if walk(e, d+1) {
					return true
				}
			}
		}
		return false
	}
	return walk(v, 0)
}

// lockStepRule: T14. An index saved from a loop over slice A and used after the
// loop to index a slice field B that the loop appends to is only in range if
// the loop appends to B exactly once per iteration (A and B advance in lock
// step). ESP over the function: one iteration marker per trip through the loop
// header; every iteration that goes round (or leaves through the header) must
// have stored to B exactly once.
func (c *Ctx) lockStepRule(rule string, fns []*ssa.Function) int {
	n := 0
	sl := flow.NewSlicer(c.P)
	for _, f := range fns {
		loops := naturalLoops(f)
		if len(loops) == 0 {
			continue
		}
		type inst struct {
			at    ssa.Instruction
			field string
			owner types.Type
			L     *loop
		}
		var insts []inst
		seen := map[string]bool{}
		for _, b := range f.Blocks {
			for _, in := range b.Instrs {
				var coll, idx ssa.Value
				switch u := in.(type) {
				case *ssa.IndexAddr:
					coll, idx = u.X, u.Index
				case *ssa.Index:
					coll, idx = u.X, u.Index
				default:
					continue
				}
				if _, isK := idx.(*ssa.Const); isK {
					continue
				}
				ld, ok := coll.(*ssa.UnOp)
				if !ok || ld.Op != token.MUL {
					continue
				}
				fa, ok := ld.X.(*ssa.FieldAddr)
				if !ok {
					continue
				}
				if _, isSlice := ld.Type().Underlying().(*types.Slice); !isSlice {
					continue
				}
				for _, L := range loops {
					if L.Body[b] {
						continue
					}
					// index derives from a counter of L
					derives := sl.Derives(idx, func(x ssa.Value) bool {
						ph, ok := x.(*ssa.Phi)
						return ok && ph.Block() == L.Header
					})
					if !derives {
						continue
					}
					key := fmt.Sprintf("%s|%d", flow.FieldName(fa), L.Header.Index)
					if seen[key] {
						continue
					}
					seen[key] = true
					insts = append(insts, inst{in, flow.FieldName(fa), fa.X.Type(), L})
				}
			}
		}
		for _, it := range insts {
			it := it
			isAppendStore := func(in ssa.Instruction) bool {
				st, ok := in.(*ssa.Store)
				if !ok {
					return false
				}
				fa, ok := st.Addr.(*ssa.FieldAddr)
				return ok && flow.FieldName(fa) == it.field && types.Identical(fa.X.Type(), it.owner)
			}
			// the loop must store to the field at all (otherwise the index is into something else)
			stores := 0
			for b := range it.L.Body {
				for _, in := range b.Instrs {
					if isAppendStore(in) {
						stores++
					}
					if call, ok := in.(ssa.CallInstruction); ok {
						for _, g := range c.P.Callees(call) {
							if g.Parent() == f {
								for _, gb := range g.Blocks {
									for _, gi := range gb.Instrs {
										if isAppendStore(gi) {
											stores++
										}
									}
								}
							}
						}
					}
				}
			}
			if stores == 0 {
				continue
			}
			n++
			// iteration marker: first non-φ instruction of the header
			var marker ssa.Instruction
			for _, in := range it.L.Header.Instrs {
				if _, isPhi := in.(*ssa.Phi); !isPhi {
					marker = in
					break
				}
			}
			const (
				bIn uint = iota
				bOne
				bMany
			)
			r := &esp.Rule{Name: "T14"}
			r.Relevant = func(g *ssa.Function) bool { return g.Parent() == f }
			r.Match = func(in ssa.Instruction) []esp.Ev {
				if in == marker {
					return []esp.Ev{{ID: 0, Name: "iteration", ErrIdx: -1, BoolIdx: -1}}
				}
				if isAppendStore(in) {
					return []esp.Ev{{ID: 1, Name: "append to " + it.field, ErrIdx: -1, BoolIdx: -1}}
				}
				return nil
			}
			r.Step = func(x *esp.Ctx, s esp.State, ev esp.Ev, ph esp.Phase) (esp.State, string) {
				switch ev.ID {
				case 0:
					msg := ""
					if s.Has(bIn) && !s.Has(bOne) {
						msg = "T14: an iteration of the loop went round without appending to " + it.field
					} else if s.Has(bMany) {
						msg = "T14: an iteration of the loop appended to " + it.field + " more than once"
					}
					return s.Set(bIn).Clear(bOne).Clear(bMany), msg
				case 1:
					if s.Has(bOne) {
						return s.Set(bMany), ""
					}
					return s.Set(bOne), ""
				}
				return s, ""
			}
			e := c.engine(r)
			e.Run(f, esp.State{})
			construct := fmt.Sprintf("%s:%s indexed by a saved loop counter", load.FuncName(f), it.field)
			if c.reportEngine(e, rule, func(v *esp.Violation) string { return construct }) == 0 {
				c.S.OK(rule, construct, c.pos(it.at.Pos()), fmt.Sprintf("the loop appends to %s exactly once per iteration on every path (%d configurations)", it.field, e.Configs), true)
			}
		}
	}
	c.S.Count("lock_step_indices", n)
	return n
}

// decodedBoundRule (T16). In package ovmf, a slice expression over a []byte whose bounds derive from fields decoded
// from the image (fields of ovmf/abi structures) is only safe if a validator bounds those fields from above. The
// rule is field-based and flow-insensitive — it asks that the bound EXISTS somewhere in the package, not that it
// dominates the slice (the validators run in a separate pass over the same records): for every such field there is
// a comparison with a refusing branch (the branch returns a non-nil error) whose accepting side puts the field on the
// smaller-or-equal side of a value anchored in a length — len(x), a constant, another bounded field, or a
// difference of those — or ties it by != to a bounded field. Relaxing `MemorySize != DataSize` to `MemorySize <
// DataSize` leaves MemorySize bounded only from below: reported. Returns the number of slices examined.
func (c *Ctx) decodedBoundRule(rule string) int {
	abiPkg := repoPath("ovmf/abi")
	fieldOf := func(v ssa.Value) (flow.FieldKey, string, bool) {
		ld, ok := v.(*ssa.UnOp)
		if !ok || ld.Op != token.MUL {
			return flow.FieldKey{}, "", false
		}
		fa, ok := ld.X.(*ssa.FieldAddr)
		if !ok {
			return flow.FieldKey{}, "", false
		}
		t := fa.X.Type()
		if p, ok := t.Underlying().(*types.Pointer); ok {
			t = p.Elem()
		}
		n, ok := t.(*types.Named)
		if !ok || n.Obj().Pkg() == nil || n.Obj().Pkg().Path() != abiPkg {
			return flow.FieldKey{}, "", false
		}
		return flow.StructFieldKey(fa.X.Type(), fa.Field), n.Obj().Name() + "." + flow.FieldName(fa), true
	}
	// fields and anchors a value is computed from (local arithmetic; captured variables resolved to what is stored in them)
	type deps struct {
		fields map[flow.FieldKey]string
		anchor bool // mentions len(x) or is a constant
		other  bool // something else (unknown provenance)
	}
	var collect func(v ssa.Value, d *deps, depth int, seen map[ssa.Value]bool)
	collect = func(v ssa.Value, d *deps, depth int, seen map[ssa.Value]bool) {
		if depth > 10 || seen[v] {
			return
		}
		seen[v] = true
		if k, name, ok := fieldOf(v); ok {
			d.fields[k] = name
			return
		}
		switch x := v.(type) {
		case *ssa.Const:
			d.anchor = true
		case *ssa.Parameter:
			// what the callers pass (a length computed by the caller: firmwareLen uint32)
			fn := x.Parent()
			idx := -1
			for i, p := range fn.Params {
				if p == x {
					idx = i
				}
			}
			found := false
			if node := c.P.CallGraph().Nodes[fn]; node != nil && idx >= 0 {
				for _, e := range node.In {
					if e.Site == nil || e.Site.Common().StaticCallee() != fn || idx >= len(e.Site.Common().Args) || c.isTestFunc(e.Caller.Func) {
						continue
					}
					found = true
					collect(e.Site.Common().Args[idx], d, depth+1, seen)
				}
			}
			if !found {
				d.other = true
			}
		case *ssa.Convert:
			collect(x.X, d, depth+1, seen)
		case *ssa.ChangeType:
			collect(x.X, d, depth+1, seen)
		case *ssa.BinOp:
			collect(x.X, d, depth+1, seen)
			collect(x.Y, d, depth+1, seen)
		case *ssa.Phi:
			for _, e := range x.Edges {
				collect(e, d, depth+1, seen)
			}
		case *ssa.Call:
			if bi, ok := x.Call.Value.(*ssa.Builtin); ok && (bi.Name() == "len" || bi.Name() == "cap") {
				d.anchor = true
				return
			}
			d.other = true
		case *ssa.UnOp:
			if x.Op == token.MUL {
				switch cell := x.X.(type) {
				case *ssa.FreeVar:
					vals := storesToCapturedCell(cell)
					if len(vals) == 0 {
						d.other = true
					}
					for _, sv := range vals {
						collect(sv, d, depth+1, seen)
					}
					return
				case *ssa.Alloc:
					n := 0
					if refs := cell.Referrers(); refs != nil {
						for _, r := range *refs {
							if st, ok := r.(*ssa.Store); ok && st.Addr == ssa.Value(cell) {
								n++
								collect(st.Val, d, depth+1, seen)
							}
						}
					}
					if n == 0 {
						d.other = true
					}
					return
				case *ssa.FieldAddr:
					// a field of a working record of the package (not a decoded structure): whatever is stored
					// into that field anywhere (a summary record carrying the firmware length)
					t := cell.X.Type()
					if p, ok := t.Underlying().(*types.Pointer); ok {
						t = p.Elem()
					}
					// (unexported record types only: an exported region type is also stored whole, which would mix its fields)
					if nt, ok := t.(*types.Named); ok && nt.Obj().Pkg() != nil && strings.HasSuffix(nt.Obj().Pkg().Path(), "/ovmf") && !nt.Obj().Exported() {
						vals := flow.NewSlicer(c.P).FieldStores(flow.StructFieldKey(cell.X.Type(), cell.Field))
						if len(vals) > 0 && depth < 8 {
							for _, sv := range vals {
								collect(sv, d, depth+1, seen)
							}
							return
						}
					}
				}
			}
			d.other = true
		default:
			d.other = true
		}
	}
	depsOf := func(v ssa.Value) *deps {
		d := &deps{fields: map[flow.FieldKey]string{}}
		collect(v, d, 0, map[ssa.Value]bool{})
		return d
	}
	// refusing comparisons of the package: (smaller-or-equal side, larger side) on the accepting edge; or equalities
	type rel struct {
		small, large *deps
		eq           bool
	}
	var rels []rel
	var fns []*ssa.Function
	for _, f := range c.P.RepoFunctions() {
		if load.RelPkg(f) == "ovmf" && !c.isTestFunc(f) && f.Blocks != nil {
			fns = append(fns, f)
		}
	}
	refuses := func(b *ssa.BasicBlock, f *ssa.Function) bool {
		for i := 0; i < 3 && b != nil; i++ {
			if ret, ok := b.Instrs[len(b.Instrs)-1].(*ssa.Return); ok {
				ei := errIndex(f.Signature)
				if ei < 0 || ei >= len(ret.Results) {
					return false
				}
				k, isK := ret.Results[ei].(*ssa.Const)
				return !isK || !k.IsNil()
			}
			if len(b.Succs) != 1 {
				return false
			}
			b = b.Succs[0]
		}
		return false
	}
	for _, f := range fns {
		for _, b := range f.Blocks {
			iff, ok := b.Instrs[len(b.Instrs)-1].(*ssa.If)
			if !ok {
				continue
			}
			cond, val := iff.Cond, true
			for {
				if u, ok := cond.(*ssa.UnOp); ok && u.Op == token.NOT {
					cond, val = u.X, !val
					continue
				}
				break
			}
			bo, ok := cond.(*ssa.BinOp)
			if !ok {
				continue
			}
			// which truth value of the comparison is refused?
			tRef, fRef := refuses(b.Succs[0], f), refuses(b.Succs[1], f)
			if tRef == fRef {
				continue
			}
			refusedWhen := tRef == val // the comparison's own truth value on the refusing edge
			x, y := depsOf(bo.X), depsOf(bo.Y)
			op := bo.Op
			if !refusedWhen {
				// refused when the comparison is false: accepted when true
				switch op {
				case token.LSS, token.LEQ:
					rels = append(rels, rel{small: x, large: y})
				case token.GTR, token.GEQ:
					rels = append(rels, rel{small: y, large: x})
				case token.EQL:
					rels = append(rels, rel{small: x, large: y, eq: true})
				}
				continue
			}
			// refused when true: accepted when false
			switch op {
			case token.LSS, token.LEQ: // !(x < y) ⇒ y <= x
				rels = append(rels, rel{small: y, large: x})
			case token.GTR, token.GEQ: // !(x > y) ⇒ x <= y
				rels = append(rels, rel{small: x, large: y})
			case token.NEQ:
				rels = append(rels, rel{small: x, large: y, eq: true})
			}
		}
	}
	bounded := map[flow.FieldKey]bool{}
	anchored := func(d *deps) bool {
		if d.other {
			return false
		}
		for k := range d.fields {
			if !bounded[k] {
				return false
			}
		}
		return d.anchor || len(d.fields) > 0
	}
	for changed := true; changed; {
		changed = false
		for _, r := range rels {
			mark := func(small, large *deps) {
				if !anchored(large) {
					return
				}
				for k := range small.fields {
					if !bounded[k] {
						bounded[k] = true
						changed = true
					}
				}
			}
			mark(r.small, r.large)
			if r.eq {
				mark(r.large, r.small)
			}
		}
	}
	n := 0
	for _, f := range fns {
		for _, b := range f.Blocks {
			for _, in := range b.Instrs {
				sl, ok := in.(*ssa.Slice)
				if !ok || sl.X.Type().String() != "[]byte" {
					continue
				}
				d := &deps{fields: map[flow.FieldKey]string{}}
				for _, bv := range []ssa.Value{sl.Low, sl.High} {
					if bv != nil {
						collect(bv, d, 0, map[ssa.Value]bool{})
					}
				}
				if len(d.fields) == 0 {
					continue
				}
				n++
				var missing []string
				for k, name := range d.fields {
					if !bounded[k] {
						missing = append(missing, name)
					}
				}
				sort.Strings(missing)
				c.S.Check(len(missing) == 0, rule, load.FuncName(f)+":slice bounded by decoded fields", c.pos(sl.Pos()), fmt.Sprintf("every decoded field in the bounds (%d) is bounded from above by a refusing comparison in the package", len(d.fields)), fmt.Sprintf("the slice bounds use %v, which no refusing comparison of package ovmf bounds from above (against a length, a constant or another bounded field): a crafted image drives the slice out of range (panic)", missing))
			}
		}
	}
	return n
}

// tableIndexRule (T20): an element of a package-level array (a name table, a dispatch table) taken at a
// non-constant index needs, on the way to the access, a bound on the index that fits the table: from the
// dominating comparisons of the index with constants the largest value still possible must be below the array's
// length. `if kind == 0 || kind > len(table) { return … }; table[kind]` lets kind == len(table) through.
// Returns the number of such accesses.
func (c *Ctx) tableIndexRule(rule string, fns []*ssa.Function) int {
	n := 0
	for _, f := range fns {
		for _, b := range f.Blocks {
			for _, in := range b.Instrs {
				ia, ok := in.(*ssa.IndexAddr)
				if !ok {
					continue
				}
				g, ok := ia.X.(*ssa.Global)
				if !ok {
					continue
				}
				pt, ok := g.Type().Underlying().(*types.Pointer)
				if !ok {
					continue
				}
				at, ok := pt.Elem().Underlying().(*types.Array)
				if !ok {
					continue
				}
				if _, isK := ia.Index.(*ssa.Const); isK {
					continue
				}
				n++
				idx := ia.Index
				same := func(v ssa.Value) bool {
					for i := 0; i < 4; i++ {
						if v == idx {
							return true
						}
						if cv, ok := v.(*ssa.Convert); ok {
							v = cv.X
							continue
						}
						break
					}
					// the index itself may be a conversion of the compared value
					w := idx
					for i := 0; i < 4; i++ {
						if w == v {
							return true
						}
						if cv, ok := w.(*ssa.Convert); ok {
							w = cv.X
							continue
						}
						break
					}
					return false
				}
				ub := int64(-1) // unknown
				for _, cf := range dominatingConds(b) {
					bo, ok := cf.Cond.(*ssa.BinOp)
					if !ok {
						continue
					}
					x, y, op := bo.X, bo.Y, bo.Op
					k, isK := constInt(y)
					if !isK || !same(x) {
						if k2, isK2 := constInt(x); isK2 && same(y) {
							// k op idx  ⇒  idx op' k
							k = k2
							switch op {
							case token.LSS:
								op = token.GTR
							case token.LEQ:
								op = token.GEQ
							case token.GTR:
								op = token.LSS
							case token.GEQ:
								op = token.LEQ
							}
						} else {
							continue
						}
					}
					var bound int64 = -1
					switch {
					case op == token.LSS && cf.Val:
						bound = k - 1
					case op == token.LEQ && cf.Val:
						bound = k
					case op == token.GEQ && !cf.Val:
						bound = k - 1
					case op == token.GTR && !cf.Val:
						bound = k
					case op == token.EQL && cf.Val:
						bound = k
					}
					if bound >= 0 && (ub < 0 || bound < ub) {
						ub = bound
					}
				}
				okB := ub >= 0 && ub < at.Len()
				msg := fmt.Sprintf("no dominating comparison bounds the index of %s (length %d) from above", g.Name(), at.Len())
				if ub >= 0 {
					msg = fmt.Sprintf("the comparisons in front of the access let the index of %s reach %d, but the table has %d elements (indices up to %d): the largest value passes the guard and indexes out of range (panic)", g.Name(), ub, at.Len(), at.Len()-1)
				}
				c.S.Check(okB, rule, load.FuncName(f)+":index into "+g.Name(), c.pos(ia.Pos()), fmt.Sprintf("index bounded by %d < %d", ub, at.Len()), msg)
			}
		}
	}
	return n
}

// producedBy: v is the first result of a call to the function named prod, or a parameter of an unexported function
// all of whose static call sites pass such a value.
func (c *Ctx) producedBy(v ssa.Value, prod string, depth int) bool {
	if depth > 2 {
		return false
	}
	switch x := v.(type) {
	case *ssa.Extract:
		if call, ok := x.Tuple.(*ssa.Call); ok && x.Index == 0 {
			if cal := call.Call.StaticCallee(); cal != nil && cal.String() == prod {
				return true
			}
		}
	case *ssa.Call:
		if cal := x.Call.StaticCallee(); cal != nil && cal.String() == prod {
			return true
		}
	case *ssa.Parameter:
		fn := x.Parent()
		if fn.Object() != nil && fn.Object().Exported() {
			return false
		}
		idx := -1
		for i, p := range fn.Params {
			if p == x {
				idx = i
			}
		}
		node := c.P.CallGraph().Nodes[fn]
		if node == nil || idx < 0 {
			return false
		}
		n := 0
		for _, e := range node.In {
			if e.Site == nil || e.Site.Common().StaticCallee() != fn || c.isTestFunc(e.Caller.Func) {
				continue
			}
			n++
			if idx >= len(e.Site.Common().Args) || !c.producedBy(e.Site.Common().Args[idx], prod, depth+1) {
				return false
			}
		}
		return n > 0
	}
	return false
}

// guardedSubRule (T21): a subtraction a - b of two non-constant integers in decoder code whose result is used as an
// index, a slice bound, an allocation size, or (unsigned) at all, is made only where b ≤ a is known: a dominating
// comparison of the same two values (modulo conversions and repeated loads / len of the same slice; transitively
// through a third value; in the shifted form L ≥ b + k for a = L - k), or b is by construction no larger than a
// (a % k, a / k, a & m, min(a, …), a φ of such values), or — in an unexported function all of whose callers are known
// — every caller establishes it for the arguments it passes. Otherwise a crafted field makes the difference negative
// (slice panic) or, unsigned, wraps to ~2^64 and slips past the range check it was meant to feed. `reasons` names the
// differences whose safety is a value argument the rule cannot make, by package and operand shape, with the argument.
// Returns the number of subtractions examined.
func (c *Ctx) guardedSubRule(rule string, fns []*ssa.Function, reasons map[string]string, survey bool) int {
	n := 0
	same := func(a, b ssa.Value) bool {
		a, b = stripConv(a), stripConv(b)
		if a == b || sameLoad(a, b) {
			return true
		}
		if xa, ok := lenArg(a); ok {
			if xb, ok := lenArg(b); ok {
				return sameColl(xa, xb)
			}
		}
		// two readings of a buffer's length with nothing done to the buffer in between
		if ca, ok := a.(*ssa.Call); ok {
			if cb, ok := b.(*ssa.Call); ok && sameQuietLen(ca, cb) {
				return true
			}
		}
		ka, okA := constInt(a)
		kb, okB := constInt(b)
		return okA && okB && ka == kb
	}
	// what a value is compared with: a value, or the length of a collection (for which no len() call need exist in
	// the function looked at)
	type bigT struct {
		v     ssa.Value
		lenOf ssa.Value
	}
	sameBig := func(v ssa.Value, big bigT) bool {
		if big.v != nil {
			return same(v, big.v)
		}
		x, ok := lenArg(stripConv(v))
		return ok && sameColl(x, big.lenOf)
	}
	var leqX func(b *ssa.BasicBlock, small ssa.Value, big bigT, depth int, extra []condFact) bool
	leqB := func(blk *ssa.BasicBlock, small ssa.Value, big bigT, depth int) bool {
		return leqX(blk, small, big, depth, nil)
	}
	leq := func(blk *ssa.BasicBlock, small, big ssa.Value, depth int) bool {
		return leqX(blk, small, bigT{v: big}, depth, nil)
	}
	// calleeImage: what `big`, as seen at the call site `site`, is called inside the callee h
	calleeImage := func(site *ssa.Call, h *ssa.Function, big bigT) (bigT, bool) {
		shift := 0
		if h.Signature.Recv() != nil && len(h.Params) == len(site.Call.Args) && !site.Call.IsInvoke() {
			shift = 0
		}
		for j, a := range site.Call.Args {
			if j+shift >= len(h.Params) {
				break
			}
			p := h.Params[j+shift]
			if big.v != nil && same(a, big.v) {
				return bigT{v: p}, true
			}
			if big.lenOf != nil {
				if x, ok := lenArg(stripConv(a)); ok && sameColl(x, big.lenOf) {
					return bigT{v: p}, true
				}
				if sameColl(a, big.lenOf) {
					return bigT{lenOf: p}, true
				}
			}
			if big.v != nil {
				if x, ok := lenArg(stripConv(big.v)); ok && sameColl(a, x) {
					return bigT{lenOf: p}, true
				}
			}
		}
		return bigT{}, false
	}
	// subSliceOf: x is y, or a suffix/middle cut out of y without re-extending it (x[lo:] — a high bound could reach
	// into the capacity), possibly handed back by a helper that was given y
	var subSliceOf func(x, y ssa.Value, depth int) bool
	subSliceOf = func(x, y ssa.Value, depth int) bool {
		if depth > 4 {
			return false
		}
		if sameColl(x, y) {
			return true
		}
		switch v := x.(type) {
		case *ssa.Slice:
			if v.High == nil && v.Max == nil {
				if _, isSl := v.X.Type().Underlying().(*types.Slice); isSl {
					return subSliceOf(v.X, y, depth+1)
				}
			}
		case *ssa.Phi:
			for _, e := range v.Edges {
				if !subSliceOf(e, y, depth+1) {
					return false
				}
			}
			return len(v.Edges) > 0
		case *ssa.Extract:
			hc, ok := v.Tuple.(*ssa.Call)
			if !ok {
				return false
			}
			h := hc.Call.StaticCallee()
			if h == nil || !load.FuncInRepo(h) || h.Blocks == nil || len(h.Params) != len(hc.Call.Args) {
				return false
			}
			ei := errIndex(h.Signature)
			for j, a := range hc.Call.Args {
				if !sameColl(a, y) {
					continue
				}
				all, n := true, 0
				for _, hb := range h.Blocks {
					ret, ok := hb.Instrs[len(hb.Instrs)-1].(*ssa.Return)
					if !ok || v.Index >= len(ret.Results) {
						continue
					}
					if ei >= 0 && !isNilK(ret.Results[ei]) {
						continue
					}
					n++
					if !subSliceOf(ret.Results[v.Index], h.Params[j], depth+1) {
						all = false
					}
				}
				if all && n > 0 {
					return true
				}
			}
		}
		return false
	}
	leqX = func(blk *ssa.BasicBlock, small ssa.Value, big bigT, depth int, extra []condFact) bool {
		if depth > 3 {
			return false
		}
		if sameBig(small, big) {
			return true
		}
		// the length of a piece cut out of a slice is at most the length of that slice
		if xs, ok := lenArg(stripConv(small)); ok {
			if big.lenOf != nil && subSliceOf(xs, big.lenOf, 0) {
				return true
			}
			if big.v != nil {
				if xb, ok := lenArg(stripConv(big.v)); ok && subSliceOf(xs, xb, 0) {
					return true
				}
			}
		}
		if k, ok := constInt(stripConv(small)); ok && k == 0 {
			if big.lenOf != nil {
				return true
			}
			if bt, ok := big.v.Type().Underlying().(*types.Basic); ok && bt.Info()&types.IsUnsigned != 0 {
				return true
			}
			if _, isLen := lenArg(stripConv(big.v)); isLen {
				return true
			}
		}
		conds := append(append([]condFact{}, dominatingConds(blk)...), extra...)
		for _, cf := range conds {
			if op, other, ok := relFact(cf, func(v ssa.Value) bool { return same(v, small) }); ok && (op == token.LEQ || op == token.LSS || op == token.EQL) {
				if sameBig(other, big) || leqX(blk, other, big, depth+1, extra) {
					return true
				}
			}
			if op, other, ok := relFact(cf, func(v ssa.Value) bool { return sameBig(v, big) }); ok && (op == token.GEQ || op == token.GTR || op == token.EQL) {
				if same(other, small) || leq(blk, small, other, depth+1) {
					return true
				}
			}
		}
		// shifted form: big = L - k, and L ≥ small + k is known
		if big.v != nil {
			if bb, ok := stripConv(big.v).(*ssa.BinOp); ok && bb.Op == token.SUB {
				for _, cf := range conds {
					op, other, ok := relFact(cf, func(v ssa.Value) bool { return same(v, bb.X) })
					if !ok || !(op == token.GEQ || op == token.GTR || op == token.EQL) {
						continue
					}
					if sum, ok := stripConv(other).(*ssa.BinOp); ok && sum.Op == token.ADD {
						if (same(sum.X, small) && same(sum.Y, bb.Y)) || (same(sum.Y, small) && same(sum.X, bb.Y)) {
							return true
						}
					}
				}
			}
		}
		s := stripConv(small)
		switch x := s.(type) {
		case *ssa.BinOp:
			switch x.Op {
			case token.REM, token.QUO, token.AND, token.SHR:
				if sameBig(x.X, big) {
					return true // a % k, a / k, a & m, a >> k ≤ a for non-negative a
				}
			case token.SUB:
				if sameBig(x.X, big) || leqB(blk, x.X, big, depth+1) {
					return true // (a - c) ≤ a; the inner difference is an obligation of its own
				}
			}
		case *ssa.Call:
			if bi, ok := x.Call.Value.(*ssa.Builtin); ok && bi.Name() == "min" {
				for _, a := range x.Call.Args {
					if sameBig(a, big) {
						return true
					}
				}
			}
		case *ssa.Extract:
			// the result of a helper that succeeded: every successful return of the helper hands out a value it has
			// bounded by what the caller's `big` is called inside it (a decode-and-validate helper)
			if hc, ok := x.Tuple.(*ssa.Call); ok {
				h := hc.Call.StaticCallee()
				if h != nil && load.FuncInRepo(h) && h.Blocks != nil && errIndex(h.Signature) >= 0 && x.Index < h.Signature.Results().Len() {
					ei := errIndex(h.Signature)
					succeeded := false
					for _, r := range nonDebugRefs(hc) {
						if ex, ok := r.(*ssa.Extract); ok && ex.Index == ei && errKnownNil(blk, ex) {
							succeeded = true
						}
					}
					if img, ok := calleeImage(hc, h, big); ok && succeeded {
						all, n := true, 0
						for _, hb := range h.Blocks {
							ret, ok := hb.Instrs[len(hb.Instrs)-1].(*ssa.Return)
							if !ok || !isNilK(ret.Results[ei]) {
								continue
							}
							n++
							if !leqB(hb, ret.Results[x.Index], img, depth+1) {
								all = false
							}
						}
						if all && n > 0 {
							return true
						}
					}
				}
			}
		case *ssa.Phi:
			all, selfInc := len(x.Edges) > 0, false
			for i, e := range x.Edges {
				if inc, ok := e.(*ssa.BinOp); ok && inc.Op == token.ADD && (inc.X == ssa.Value(x) || inc.Y == ssa.Value(x)) {
					selfInc = true
					continue
				}
				// the edge's value is judged where it flows in from (`if big < x { x = big }` makes x ≤ big on both edges)
				at := blk
				var edge []condFact
				if i < len(x.Block().Preds) {
					at = x.Block().Preds[i]
					if iff, ok := at.Instrs[len(at.Instrs)-1].(*ssa.If); ok && len(at.Succs) == 2 {
						edge = condLeaves(iff.Cond, at.Succs[0] == x.Block())
					}
				}
				if !leqX(at, e, big, depth+1, edge) && !leqB(blk, e, big, depth+1) {
					all = false
				}
			}
			if all && !selfInc {
				return true
			}
			if all {
				// a counter: the loop test (a dominating condition on the φ) bounds it
				for _, cf := range conds {
					if op, other, ok := relFact(cf, func(v ssa.Value) bool { return v == ssa.Value(x) }); ok && (op == token.LEQ || op == token.LSS) {
						if sameBig(other, big) || leqB(blk, other, big, depth+1) {
							return true
						}
					}
				}
			}
		}
		// big = small + y
		if big.v != nil {
			if bb, ok := stripConv(big.v).(*ssa.BinOp); ok && bb.Op == token.ADD && (same(bb.X, small) || same(bb.Y, small)) {
				return true
			}
		}
		return false
	}
	// every caller establishes it: the operands are parameters (or the length of a parameter) of an unexported function
	// called only statically
	lifted := func(f *ssa.Function, small, big ssa.Value) bool {
		ps, ok1 := stripConv(small).(*ssa.Parameter)
		if !ok1 || ps.Parent() != f || f.Object() == nil || f.Object().Exported() {
			return false
		}
		var pb *ssa.Parameter
		bigIsLen := false
		if q, ok := stripConv(big).(*ssa.Parameter); ok {
			pb = q
		} else if x, ok := lenArg(stripConv(big)); ok {
			if q, ok := x.(*ssa.Parameter); ok {
				pb, bigIsLen = q, true
			}
		}
		if pb == nil || pb.Parent() != f {
			return false
		}
		is, ib := -1, -1
		for i, q := range f.Params {
			if q == ps {
				is = i
			}
			if q == pb {
				ib = i
			}
		}
		node := c.P.CallGraph().Nodes[f]
		if node == nil || len(node.In) == 0 || is < 0 || ib < 0 {
			return false
		}
		sites := 0
		for _, e := range node.In {
			if e.Site == nil {
				return false
			}
			if c.isTestFunc(e.Caller.Func) {
				continue
			}
			if e.Site.Common().StaticCallee() != f {
				return false
			}
			args := e.Site.Common().Args
			sites++
			b := bigT{v: args[ib]}
			if bigIsLen {
				b = bigT{lenOf: args[ib]}
			}
			if !leqB(e.Site.Block(), args[is], b, 0) {
				return false
			}
		}
		return sites > 0
	}
	var shape func(v ssa.Value, d int) string
	shape = func(v ssa.Value, d int) string {
		v = stripConv(v)
		if _, ok := lenArg(v); ok {
			return "len"
		}
		switch x := v.(type) {
		case *ssa.Call:
			if g := x.Call.StaticCallee(); g != nil {
				return g.Name() + "()"
			}
			if x.Call.IsInvoke() {
				return x.Call.Method.Name() + "()"
			}
		case *ssa.Parameter:
			return x.Name()
		case *ssa.UnOp:
			if fa, ok := x.X.(*ssa.FieldAddr); ok {
				return "." + flow.FieldName(fa)
			}
		case *ssa.Field:
			if st, ok := x.X.Type().Underlying().(*types.Struct); ok {
				return "." + st.Field(x.Field).Name()
			}
		case *ssa.BinOp:
			if d < 2 {
				return "(" + shape(x.X, d+1) + x.Op.String() + shape(x.Y, d+1) + ")"
			}
		case *ssa.Const:
			return "k"
		case *ssa.Phi:
			return "φ"
		}
		return "expr"
	}
	used := map[string]bool{}
	for _, f := range fns {
		if f.Blocks == nil {
			continue
		}
		per := map[string]int{}
		for _, b := range f.Blocks {
			for _, in := range b.Instrs {
				sub, ok := in.(*ssa.BinOp)
				if !ok || sub.Op != token.SUB {
					continue
				}
				bt, ok := sub.Type().Underlying().(*types.Basic)
				if !ok || bt.Info()&types.IsInteger == 0 {
					continue
				}
				if _, isK := constInt(stripConv(sub.Y)); isK {
					continue // len(x) - k is T11's
				}
				if _, isK := constInt(stripConv(sub.X)); isK {
					continue // k - x: a bound computed from a constant; T16 looks at decoded x
				}
				allSinks := countSinks(sub, false, 0, map[ssa.Value]bool{})
				if !isUnsigned(sub.Type()) && len(indexUses(sub)) == 0 && len(allSinks) == 0 {
					continue
				}
				n++
				sh := shape(sub.X, 0) + " - " + shape(sub.Y, 0)
				per[sh]++
				construct := fmt.Sprintf("%s:%s", load.FuncName(f), sh)
				if per[sh] > 1 {
					construct = fmt.Sprintf("%s #%d", construct, per[sh])
				}
				okSub := leq(b, sub.Y, sub.X, 0) || lifted(f, sub.Y, sub.X)
				// a signed difference may also be taken first and looked at afterwards: every use as an index or bound
				// stands behind "the difference is not negative"
				if !okSub && !isUnsigned(sub.Type()) {
					uses := indexUses(sub)
					all := len(uses) > 0 || len(allSinks) > 0
					// a repeat count / allocation size the difference flows into is reached only through a clamp
					if len(countSinks(sub, true, 0, map[ssa.Value]bool{})) > 0 {
						all = false
					}
					for _, u := range uses {
						nonNeg := false
						for _, cf := range dominatingConds(u.At.Block()) {
							if op, other, ok := relFact(cf, func(v ssa.Value) bool { return v == ssa.Value(sub) }); ok {
								if k, isK := constInt(stripConv(other)); isK && ((op == token.GEQ && k >= 0) || (op == token.GTR && k >= -1)) {
									nonNeg = true
								}
							}
						}
						all = all && nonNeg
					}
					okSub = all
				}
				key := load.RelPkg(f) + ": " + sh
				if survey {
					fmt.Printf("SURVEY T21 %v %s %s [%s]\n", okSub, c.pos(sub.Pos()), construct, key)
					continue
				}
				if !okSub {
					if why, ok := reasons[key]; ok {
						used[key] = true
						c.S.OK(rule, construct, c.pos(sub.Pos()), "value argument (named exception): "+why, false)
						continue
					}
				}
				c.S.Check(okSub, rule, construct, c.pos(sub.Pos()), "the subtrahend is known to be no larger than the minuend", "the difference "+sh+" is taken without the subtrahend being known ≤ the minuend: a crafted value makes it negative (out-of-range slice) or, unsigned, wraps around and passes the range check it feeds")
			}
		}
	}
	return n
}

// sameQuietLen: two static calls of the same standard-library Len method on the same receiver, in one function, with
// no other call on (or passing) that receiver at any point that lies between them in dominance order.
func sameQuietLen(a, b *ssa.Call) bool {
	fa, fb := a.Call.StaticCallee(), b.Call.StaticCallee()
	if fa == nil || fa != fb || fa.Name() != "Len" || len(a.Call.Args) != 1 || len(b.Call.Args) != 1 || a.Call.Args[0] != b.Call.Args[0] || a.Parent() != b.Parent() {
		return false
	}
	if fa.Pkg == nil || (fa.Pkg.Pkg.Path() != "bytes" && fa.Pkg.Pkg.Path() != "strings") {
		return false
	}
	first, second := a, b
	if !first.Block().Dominates(second.Block()) {
		first, second = b, a
	}
	if !first.Block().Dominates(second.Block()) {
		return false
	}
	recv := a.Call.Args[0]
	pos := func(in ssa.Instruction) int {
		for i, x := range in.Block().Instrs {
			if x == in {
				return i
			}
		}
		return -1
	}
	for _, blk := range a.Parent().Blocks {
		if !first.Block().Dominates(blk) || !blk.Dominates(second.Block()) {
			continue
		}
		for i, in := range blk.Instrs {
			call, ok := in.(ssa.CallInstruction)
			if !ok || in == ssa.Instruction(first) || in == ssa.Instruction(second) {
				continue
			}
			if blk == first.Block() && i < pos(first) {
				continue
			}
			if blk == second.Block() && i > pos(second) {
				continue
			}
			for _, arg := range call.Common().Args {
				if arg == recv {
					return false
				}
			}
			if call.Common().IsInvoke() && call.Common().Value == recv {
				return false
			}
		}
	}
	return true
}

// countSinks: the calls that take v — or a value computed from it by adding, subtracting or multiplying constants and
// other values, converting, or merging in a φ — as a count that must not be negative: strings.Repeat / bytes.Repeat
// (panic) and make (panic). With clamped=true, a flow is dropped where the value is known non-negative: behind a
// dominating test, or on the φ edge of a clamp (`if x < 0 { x = 0 }`).
func countSinks(v ssa.Value, clamped bool, depth int, seen map[ssa.Value]bool) []ssa.Instruction {
	if depth > 6 || seen[v] {
		return nil
	}
	seen[v] = true
	nonNegAt := func(b *ssa.BasicBlock, extra []condFact) bool {
		for _, cf := range append(append([]condFact{}, dominatingConds(b)...), extra...) {
			if op, other, ok := relFact(cf, func(x ssa.Value) bool { return x == v }); ok {
				if k, isK := constInt(stripConv(other)); isK && ((op == token.GEQ && k >= 0) || (op == token.GTR && k >= -1)) {
					return true
				}
			}
		}
		return false
	}
	var out []ssa.Instruction
	for _, r := range nonDebugRefs(v) {
		if clamped && r.Block() != nil && nonNegAt(r.Block(), nil) {
			continue
		}
		switch x := r.(type) {
		case *ssa.BinOp:
			switch x.Op {
			case token.ADD, token.MUL:
				out = append(out, countSinks(x, clamped, depth+1, seen)...)
			case token.SUB:
				if x.X == v {
					out = append(out, countSinks(x, clamped, depth+1, seen)...)
				}
			}
		case *ssa.Convert:
			out = append(out, countSinks(x, clamped, depth+1, seen)...)
		case *ssa.ChangeType:
			out = append(out, countSinks(x, clamped, depth+1, seen)...)
		case *ssa.Phi:
			safe := true
			for i, e := range x.Edges {
				if e != v || i >= len(x.Block().Preds) {
					continue
				}
				pred := x.Block().Preds[i]
				var edge []condFact
				if iff, ok := pred.Instrs[len(pred.Instrs)-1].(*ssa.If); ok && len(pred.Succs) == 2 {
					edge = condLeaves(iff.Cond, pred.Succs[0] == x.Block())
				}
				if !clamped || !nonNegAt(pred, edge) {
					safe = false
				}
			}
			if !safe {
				out = append(out, countSinks(x, clamped, depth+1, seen)...)
			}
		case *ssa.Call:
			if g := x.Call.StaticCallee(); g != nil && g.Pkg != nil && g.Name() == "Repeat" && (g.Pkg.Pkg.Path() == "strings" || g.Pkg.Pkg.Path() == "bytes") && len(x.Call.Args) == 2 && x.Call.Args[1] == v {
				out = append(out, x)
			} else if g != nil && load.FuncInRepo(g) && g.Blocks != nil && len(g.Params) == len(x.Call.Args) {
				// handed to a helper of the repository: followed into the parameter it arrives in
				for i, a := range x.Call.Args {
					if a == v {
						out = append(out, countSinks(g.Params[i], clamped, depth+1, seen)...)
					}
				}
			}
		case *ssa.MakeSlice:
			if x.Len == v || x.Cap == v {
				out = append(out, x)
			}
		}
	}
	return out
}
