package rules

import (
	"fmt"
	"go/constant"
	"go/token"
	"go/types"
	"sort"
	"strings"

	"golang.org/x/tools/go/ssa"

	"verif/checker/esp"
	"verif/checker/flow"
	"verif/checker/load"
)

func init() {
	register(&RuleSet{
		ID: "C06",
		Explanation: "R14 AllSupportedVmsaCounts is used in package sev only on the edge LaunchVmsas == 0. " +
			"R13 GoldenMeasurement stores Digest, ClSpec and Commit on every path to a successful return (no condition on the value decides whether it is signed). " +
			"Closure S = repo functions reachable from endorse.GoldenMeasurement and endorse.SignDoc. " +
			"R1 error discipline: every call in S to a repo function (or proto/prototext (Un)Marshal) that returns an error has that error consumed (extracted and used); accepted infallible idioms are recognised structurally (writes to a *bytes.Buffer; fixed-width codec given an array slice or constant-width slice) and one named suppression. " +
			"R2 use after check: a value returned together with an error is used only where that error is known nil (dominating branch), or returned together with it. " +
			"R3 one image: the SHA-384 operand and the image argument of every technology measurement have the same access path (Context.Image), which is never stored to in S. " +
			"R4 every exported field of the signed messages (VMGoldenMeasurement, VMSevSnp, VMTdx, VMTdx_Measurement) has a writer in S whose value derives from the request/context source listed in the rule's table (fields outside the table must at least have a writer); exempt: VMSevSnp.CaBundle (never populated by design). " +
			"R15 no slice of a variable that a loop overwrites on every round (a pre-1.22 range variable, an array declared before the loop) is kept from inside that loop in the measurement/sign closure: the entries put into the signed document do not alias one another. " +
			"R5 per-count loop: the key of each stored SNP measurement is the loop variable over the requested counts and the value is LaunchDigest called with Vcpus assigned from that variable in the same iteration. " +
			"R7 every sev.LaunchOptions object built in a function that receives the request gets Product from the request before it is used. R8 an options object created outside a loop has every field that the loop changes re-assigned before each measurement in the loop (no setting leaks from one entry to the next). R6 SignDoc: Cert, CaBundle and Timestamp are stored before the single proto.Marshal of the document and nothing is stored afterwards. " +
			"R9 a function that assigns the SVN of one technology's request assigns the other technology's on every successful path unless that request is nil / dropped (the SVN side file reaches every endorsed technology). " +
			"R12 (= C04.R1/R5/R7, C05.R2/R9) the structural clauses of the two measurement computations that the signed values are computed with. " +
			"R11 every lookup into a package-level table of package tdx uses the same kind of key (none normalises the requested name where another uses it raw). " +
			"R10 in the command layer a Context field that is loaded under its own flag test is loaded on every successful path on which that flag may be set (an early return in front of the block does not skip a requested input). " +
			"Not covered: that each digest equals the launch measurement (C04/C05).",
		Assumptions: []string{"go/types, go/ssa, VTA call graph", "bytes.Buffer writes do not fail", "generated protobuf struct fields are the message contents"},
		Run:         runC06,
	})
}

// c06Suppress: one named symbol with a reason each.
var c06Suppress = map[string]string{
	"tdx.generateAllPossibleMRTDs→tdx.MRTD":                                             "the early-accept measurement repeats, on the same image and banks, the parse that succeeded two statements earlier and differs only in a resource-attribute bit of the hand-off block; it cannot fail when the first call succeeded (confirmed by reading ovmf.parse and by a failed attempt to construct a failing input)",
	"(*sev.SnpMeasurement).ZeroContentUpdate→(*sev.SnpMeasurement).ZeroContentUpdate4K": "infallible: PageInfo.Put on an exactly sized local buffer; the page type was validated by the switch above",
}

func runC06(c *Ctx) {
	// R12 = structural clauses of C04 / C05 on which "each equal to the launch measurement of that same image for
	// that configuration" rests: measurement order and one boot VMSA per digest (C04.R1/R7), metadata ranges
	// (C04.R1), launch-mode dispatch and per-page sequence (C05.R9/R2).
	c.borrow("R12/C04.", runC04, func(rule, _ string) bool { return rule == "R1" || rule == "R7" || rule == "R5" })
	c.borrow("R12/C05.", runC05, func(rule, _ string) bool { return rule == "R9" || rule == "R2" })
	endorsePkg := repoPath("endorse")
	epbPkg := repoPath("proto/endorsement")
	gm := c.fn("R0", "endorse", "GoldenMeasurement")
	sd := c.fn("R0", "endorse", "SignDoc")
	if gm == nil || sd == nil {
		return
	}
	S := c.reachable([]*ssa.Function{gm, sd}, nil)
	var fns []*ssa.Function
	for f := range S {
		if f != nil && !isTestingPkg(load.RelPkg(f)) && !strings.HasPrefix(load.RelPkg(f), "proto/") && !strings.HasPrefix(load.RelPkg(f), "cmd/output") {
			fns = append(fns, f)
		}
	}
	sort.Slice(fns, func(i, j int) bool { return fns[i].Pos() < fns[j].Pos() })
	c.S.Floor("R0", "functions in the measurement/sign closure", 40, len(fns))
	c06NoSliceOfLoopOverwrittenVariable(c, fns)
	sl := flow.NewSlicer(c.P)

	// ---- R1 / R2 ----
	nCalls, nUses := 0, 0
	for _, f := range fns {
		for _, b := range f.Blocks {
			for _, in := range b.Instrs {
				call, ok := in.(*ssa.Call)
				if !ok {
					continue
				}
				ei := errIndex(call.Call.Signature())
				if ei < 0 {
					continue
				}
				callee := call.Call.StaticCallee()
				fallible := false
				cname := callName(call)
				if callee != nil {
					if load.FuncInRepo(callee) && !strings.HasPrefix(load.RelPkg(callee), "cmd/output") {
						fallible = true
					}
					switch callee.String() {
					case "google.golang.org/protobuf/proto.Marshal", "google.golang.org/protobuf/proto.Unmarshal", "google.golang.org/protobuf/encoding/prototext.Unmarshal", "google.golang.org/protobuf/encoding/prototext.Marshal":
						fallible = true
					}
				} else if call.Call.IsInvoke() && load.IsRepo(pkgOfMethod(call.Call.Method)) {
					fallible = true
				}
				if !fallible {
					continue
				}
				nCalls++
				construct := load.FuncName(f) + "→" + cname
				nres := call.Call.Signature().Results().Len()
				var errVal ssa.Value
				used := false
				if nres == 1 {
					errVal = call
					used = len(nonDebugRefs(call)) > 0
				} else {
					for _, ref := range *call.Referrers() {
						if ex, ok := ref.(*ssa.Extract); ok && ex.Index == ei {
							errVal = ex
							used = len(nonDebugRefs(ex)) > 0
						}
					}
				}
				infallible := infallibleIdiom(c, call, 0)
				supKey := construct
				if cname == "tdx.MRTD" && load.RelPkg(f) == "tdx" {
					// the named suppression is about the callee and the shape of the site (below), not about
					// the name of the function the site happens to live in
					supKey = "tdx.generateAllPossibleMRTDs→tdx.MRTD"
				}
				_, suppressed := c06Suppress[supKey]
				suppressed = suppressed && !used // the suppression names the one discarding call site
				if suppressed && supKey == "tdx.generateAllPossibleMRTDs→tdx.MRTD" {
					// the reason given in the table must hold at this site: the same callee was already
					// called with the same options object and the same image, and its error is known nil here
					suppressed = repeatsCheckedCall(call, ei)
				}
				if !used {
					if why, ok := c06Suppress[supKey]; ok && suppressed {
						c.S.OK("R1", construct, c.pos(call.Pos()), "suppressed (one named symbol): "+why, false)
					} else if why := infallible; why != "" {
						c.S.OK("R1", construct, c.pos(call.Pos()), "infallible by construction: "+why, true)
					} else {
						c.S.Bad("R1", construct, c.pos(call.Pos()), "the error of "+cname+" is discarded: a failed step's zero/partial result would flow into the signed document")
					}
					continue
				}
				c.S.OK("R1", construct, c.pos(call.Pos()), "error consumed", false)
				// R2: value results used only under err == nil
				if nres < 2 || infallible != "" || suppressed {
					continue
				}
				for _, ref := range *call.Referrers() {
					ex, ok := ref.(*ssa.Extract)
					if !ok || ex.Index == ei {
						continue
					}
					for _, use := range nonDebugRefs(ex) {
						nUses++
						if ret, ok := use.(*ssa.Return); ok {
							// returned together with its error
							together := false
							for _, r := range ret.Results {
								if r == errVal {
									together = true
								}
							}
							if together {
								continue
							}
						}
						if _, ok := use.(*ssa.Phi); ok {
							continue // merged; uses of the φ are other values
						}
						// spilled into a local variable: check the uses of the variable instead
						if st, ok := use.(*ssa.Store); ok && st.Val == ex {
							if al, ok := st.Addr.(*ssa.Alloc); ok {
								for _, u2 := range nonDebugRefs(al) {
									if u2 == st {
										continue
									}
									if !errKnownNil(u2.Block(), errVal) {
										c.S.Bad("R2", construct+":result used before its error is known nil", c.pos(u2.Pos()), "a result of "+cname+" is used on a path where its error has not been found nil")
									}
								}
								continue
							}
						}
						// parked in a field of an object allocated in this function (creds.cert, err = f()): what counts is
						// where that field is read and where the object leaves the function
						if st, ok := use.(*ssa.Store); ok && st.Val == ex && !errKnownNil(st.Block(), errVal) {
							if fa, ok := st.Addr.(*ssa.FieldAddr); ok {
								// … or of an object this function obtained from a helper and hands on only behind the check
								// (`if golden.SevSnp, err = f(); err != nil { return nil, err }`)
								if _, isAlloc := fa.X.(*ssa.Alloc); !isAlloc {
									if _, isCall := fa.X.(*ssa.Call); isCall {
										for _, u2 := range nonDebugRefs(fa.X) {
											switch u2 := u2.(type) {
											case *ssa.FieldAddr:
												if u2.Field != fa.Field {
													continue
												}
												for _, u3 := range nonDebugRefs(u2) {
													if ld, ok := u3.(*ssa.UnOp); ok && !errKnownNil(ld.Block(), errVal) {
														c.S.Bad("R2", construct+":result used before its error is known nil", c.pos(ld.Pos()), "a result of "+cname+" is used on a path where its error has not been found nil")
													}
												}
											case *ssa.Return, *ssa.Call:
												if st.Block().Dominates(u2.Block()) && !errKnownNil(u2.Block(), errVal) {
													c.S.Bad("R2", construct+":result used before its error is known nil", c.pos(u2.Pos()), "the object holding a result of "+cname+" leaves the function on a path where its error has not been found nil")
												}
											}
										}
										continue
									}
								}
								if al, ok := fa.X.(*ssa.Alloc); ok {
									for _, u2 := range nonDebugRefs(al) {
										switch u2 := u2.(type) {
										case *ssa.FieldAddr:
											if u2.Field != fa.Field {
												continue
											}
											for _, u3 := range nonDebugRefs(u2) {
												if ld, ok := u3.(*ssa.UnOp); ok && !errKnownNil(ld.Block(), errVal) {
													c.S.Bad("R2", construct+":result used before its error is known nil", c.pos(ld.Pos()), "a result of "+cname+" is used on a path where its error has not been found nil")
												}
											}
										case *ssa.Store:
											if u2.Addr == ssa.Value(al) {
												continue // the record is overwritten (a named result reset before an error return)
											}
											if !errKnownNil(u2.Block(), errVal) {
												c.S.Bad("R2", construct+":result used before its error is known nil", c.pos(u2.Pos()), "the object holding a result of "+cname+" leaves the function on a path where its error has not been found nil")
											}
										case *ssa.UnOp:
											// the record read whole: fine behind the check, or when it is only returned together with an error
											if errKnownNil(u2.Block(), errVal) {
												continue
											}
											withErr := true
											for _, u3 := range nonDebugRefs(u2) {
												ret, isRet := u3.(*ssa.Return)
												if !isRet {
													withErr = false
													continue
												}
												last := ret.Results[len(ret.Results)-1]
												if k, isK := last.(*ssa.Const); isK && k.IsNil() {
													withErr = false
												}
											}
											if !withErr {
												c.S.Bad("R2", construct+":result used before its error is known nil", c.pos(u2.Pos()), "the object holding a result of "+cname+" leaves the function on a path where its error has not been found nil")
											}
										default:
											if !errKnownNil(u2.Block(), errVal) {
												c.S.Bad("R2", construct+":result used before its error is known nil", c.pos(u2.Pos()), "the object holding a result of "+cname+" leaves the function on a path where its error has not been found nil")
											}
										}
									}
									continue
								}
							}
						}
						if !errKnownNil(use.Block(), errVal) {
							c.S.Bad("R2", construct+":result used before its error is known nil", c.pos(use.Pos()), "a result of "+cname+" is used on a path where its error has not been found nil")
						}
					}
				}
			}
		}
	}
	c.S.Floor("R1", "fallible call sites in S", 30, nCalls)
	c.S.Count("value_uses_checked", nUses)
	c.S.OK("R2", "S:uses of fallible results", "", fmt.Sprintf("%d uses examined", nUses), true)

	// ---- R3 ----
	imgField := func(v ssa.Value) bool { return flow.IsFieldLoad(v, endorsePkg, "Context", "Image") }
	var imgPaths []flow.AccessPath
	nImg := 0
	gmRegion := unexportedRegion(gm) // GoldenMeasurement and the unexported helpers it may be split into
	for _, rf := range gmRegion {
		for _, call := range callsIn(rf, func(call ssa.CallInstruction) bool {
			f := call.Common().StaticCallee()
			if f == nil {
				return false
			}
			if f.String() == "crypto/sha512.Sum384" {
				return true
			}
			rel := load.RelPkg(f)
			return (rel == "sev" || rel == "tdx") && len(call.Common().Args) > 0 && call.Common().Args[0].Type().String() == "[]byte"
		}) {
			nImg++
			a := call.Common().Args[0]
			p := flow.PathOf(a)
			okp := imgField(a) && len(p.Fields) == 1
			// in a helper of the region that is handed the image: every call site passes the field itself
			if prm, isP := a.(*ssa.Parameter); isP && !okp && rf != gm {
				idx := -1
				for i, q := range rf.Params {
					if q == prm {
						idx = i
					}
				}
				all, n := idx >= 0, 0
				for _, cf := range gmRegion {
					for _, site := range callsIn(cf, func(c2 ssa.CallInstruction) bool { return c2.Common().StaticCallee() == rf }) {
						n++
						arg := site.Common().Args[idx]
						if !(imgField(arg) && len(flow.PathOf(arg).Fields) == 1) {
							all = false
						}
						p = flow.PathOf(arg)
					}
				}
				okp = all && n > 0
			}
			c.S.Check(okp, "R3", "endorse.GoldenMeasurement→"+callName(call)+":image", c.pos(call.Pos()), "operand is Context.Image", "operand is not the Context.Image field itself: "+flow.Describe(a))
			imgPaths = append(imgPaths, liftPaths(a, gm, gmRegion, 0)...)
		}
	}
	c.S.Floor("R3", "digest / technology measurement calls in GoldenMeasurement", 3, nImg)
	same := true
	for _, p := range imgPaths {
		if !p.Equal(imgPaths[0]) {
			same = false
		}
	}
	c.S.Check(same, "R3", "endorse.GoldenMeasurement:one image", c.pos(gm.Pos()), "digest and all technology measurements read the same Context object", "digest and measurements do not read the image of one Context object")
	stores := 0
	for _, f := range fns {
		for _, b := range f.Blocks {
			for _, in := range b.Instrs {
				if st, ok := in.(*ssa.Store); ok {
					if fa, ok := st.Addr.(*ssa.FieldAddr); ok && flow.IsFieldLoad(fa, endorsePkg, "Context", "Image") {
						stores++
						c.S.Bad("R3", load.FuncName(f)+":store Context.Image", c.pos(st.Pos()), "the image is replaced during measurement/signing")
					} else if ok && namedIs(fa.X.Type(), endorsePkg, "Context") {
						// the request object is input only: a field written while measuring (a memoised digest, a remembered
						// measurement) outlives the image it was computed from when the caller supplies the next image
						// in the same Context
						if al, isAlloc := fa.X.(*ssa.Alloc); isAlloc && al.Comment == "complit" {
							continue
						}
						stores++
						c.S.Bad("R3", load.FuncName(f)+":store Context."+flow.FieldName(fa), c.pos(st.Pos()), "the measurement/signing closure writes field "+flow.FieldName(fa)+" of the request Context: what is derived from the image is kept in an object whose Image the caller may replace, so a later document can describe two images")
					}
				}
			}
		}
	}
	if stores == 0 {
		c.S.OK("R3", "S:Context.Image immutable", "", "no store to any field of the request Context in S", true)
	}

	// ---- R4 ----
	sl4 := flow.NewSlicer(c.P)
	sl4.LiftParams = 2
	sl4.Transparent = func(f *ssa.Function) bool {
		switch f.String() {
		case "(time.Time).Unix", "(time.Time).UnixNano", "github.com/google/uuid.MustParse", "github.com/google/uuid.Parse":
			return true
		}
		return false
	}
	ctxField := func(name string) func(ssa.Value) bool {
		return func(v ssa.Value) bool { return flow.IsFieldLoad(v, endorsePkg, "Context", name) }
	}
	reqField := func(rel, typ, name string) func(ssa.Value) bool {
		return func(v ssa.Value) bool { return flow.IsFieldLoad(v, repoPath(rel), typ, name) }
	}
	callTo := func(full string) func(ssa.Value) bool {
		return func(v ssa.Value) bool {
			call, ok := v.(*ssa.Call)
			return ok && (calleeIs(call, full) || (call.Call.StaticCallee() != nil && load.FuncName(call.Call.StaticCallee()) == full))
		}
	}
	invokeOf := func(pkg, iface, m string) func(ssa.Value) bool {
		return func(v ssa.Value) bool {
			call, ok := v.(*ssa.Call)
			return ok && invokeIs(call, pkg, iface, m)
		}
	}
	stypPkg := repoPath("sign/types")
	table := map[string]func(ssa.Value) bool{
		"VMGoldenMeasurement.Digest":    callTo("crypto/sha512.Sum384"),
		"VMGoldenMeasurement.ClSpec":    ctxField("ClSpec"),
		"VMGoldenMeasurement.Commit":    ctxField("Commit"),
		"VMGoldenMeasurement.Timestamp": ctxField("Timestamp"),
		"VMGoldenMeasurement.SevSnp":    callTo("sev.UnsignedSnp"),
		"VMGoldenMeasurement.Tdx":       callTo("tdx.UnsignedTDX"),
		"VMGoldenMeasurement.Cert":      invokeOf(stypPkg, "CertificateAuthority", "Certificate"),
		"VMGoldenMeasurement.CaBundle":  invokeOf(stypPkg, "CertificateAuthority", "CABundle"),
		"VMSevSnp.Svn":                  reqField("sev", "SnpEndorsementRequest", "Svn"),
		"VMSevSnp.FamilyId":             reqField("sev", "SnpEndorsementRequest", "FamilyID"),
		"VMSevSnp.ImageId":              reqField("sev", "SnpEndorsementRequest", "ImageID"),
		"VMSevSnp.Measurements": func(v ssa.Value) bool {
			return callTo("sev.LaunchDigest")(v) || flow.IsFieldLoad(v, repoPath("sev"), "SnpMeasurement", "Digest")
		},
		"VMSevSnp.SvsmMeasurement": ctxField("SvsmSnpMeasurement"),
		"VMSevSnp.Policy":          func(v ssa.Value) bool { _, ok := v.(*ssa.Global); return ok },
		"VMTdx.Svn":                reqField("tdx", "EndorsementRequest", "Svn"),
		"VMTdx.Measurements":       callTo("tdx.MRTD"),
		"VMTdx_Measurement.Mrtd":   callTo("tdx.MRTD"),
	}
	exempt := map[string]string{"VMSevSnp.CaBundle": "never populated by design; the bundle is at document level"}
	fieldStores := map[string][]*ssa.Store{}
	for _, f := range fns {
		for _, b := range f.Blocks {
			for _, in := range b.Instrs {
				st, ok := in.(*ssa.Store)
				if !ok {
					continue
				}
				fa, ok := st.Addr.(*ssa.FieldAddr)
				if !ok {
					continue
				}
				for _, tn := range []string{"VMGoldenMeasurement", "VMSevSnp", "VMTdx", "VMTdx_Measurement"} {
					if namedIs(fa.X.Type(), epbPkg, tn) {
						k := tn + "." + flow.FieldName(fa)
						fieldStores[k] = append(fieldStores[k], st)
					}
				}
			}
		}
	}
	nFields := 0
	if ep := c.P.Pkg("proto/endorsement"); ep != nil {
		for _, tn := range []string{"VMGoldenMeasurement", "VMSevSnp", "VMTdx", "VMTdx_Measurement"} {
			obj, _ := ep.Pkg.Scope().Lookup(tn).(*types.TypeName)
			if obj == nil {
				c.S.Unk("R4", "anchor:proto/endorsement."+tn, "", "message type not found")
				continue
			}
			st := obj.Type().Underlying().(*types.Struct)
			for i := 0; i < st.NumFields(); i++ {
				fld := st.Field(i)
				if !fld.Exported() {
					continue
				}
				nFields++
				k := tn + "." + fld.Name()
				if why, ok := exempt[k]; ok {
					c.S.OK("R4", k, "", "exempt: "+why, false)
					continue
				}
				stores := fieldStores[k]
				if len(stores) == 0 {
					c.S.Bad("R4", k, "", "signed field has no writer in the measurement/sign closure: it is always signed as its zero value")
					continue
				}
				src := table[k]
				if src == nil {
					c.S.OK("R4", k, c.pos(stores[0].Pos()), fmt.Sprintf("%d writer(s) (no source row in the table: existence only)", len(stores)), false)
					continue
				}
				okAll := true
				for _, s := range stores {
					if !sl4.Derives(s.Val, src) {
						okAll = false
						c.S.Bad("R4", k+":source in "+load.FuncName(s.Parent()), c.pos(s.Pos()), "the value written to this signed field does not derive from the request/context source the table lists")
					}
					// a field that is the caller's to name (changelist, commit, timestamp) is the caller's value on every
					// path: nothing read from a certificate or the authority takes its place (the clock is the request's own default)
					if k == "VMGoldenMeasurement.Timestamp" || k == "VMGoldenMeasurement.ClSpec" || k == "VMGoldenMeasurement.Commit" {
						foreign := ""
						sl4.Visit(s.Val, func(v ssa.Value) bool {
							if call, ok := v.(*ssa.Call); ok {
								switch {
								case calleeIs(call, "crypto/x509.ParseCertificate"):
									foreign = "a parsed certificate"
								case invokeIs(call, stypPkg, "CertificateAuthority", "Certificate"), invokeIs(call, stypPkg, "CertificateAuthority", "CABundle"):
									foreign = "the certificate authority"
								}
							}
							return foreign == ""
						}, nil)
						if foreign != "" {
							okAll = false
							c.S.Bad("R4", k+":only the request in "+load.FuncName(s.Parent()), c.pos(s.Pos()), "the value signed in this field can come from "+foreign+" instead of the request: for some requests the document silently carries another value than the one the caller named")
						}
					}
				}
				if okAll {
					c.S.OK("R4", k, c.pos(stores[0].Pos()), fmt.Sprintf("%d writer(s), all from the listed source", len(stores)), true)
				}
			}
		}
	}
	c.S.Floor("R4", "exported fields of the signed messages", 18, nFields)

	// ---- R5 ----
	sl5 := flow.NewSlicer(c.P)
	sl5.ThroughOutParams = true
	nMap := 0
	for _, f := range fns {
		if load.RelPkg(f) != "sev" {
			continue
		}
		loops := naturalLoops(f)
		for _, b := range f.Blocks {
			for _, in := range b.Instrs {
				mu, ok := in.(*ssa.MapUpdate)
				if !ok || mu.Map.Type().String() != "map[uint32][]byte" {
					continue
				}
				nMap++
				name := load.FuncName(f) + ":measurement map"
				L := innermostLoopOf(loops, b)
				if L == nil {
					c.S.Bad("R5", name, c.pos(mu.Pos()), "per-count measurements are not produced in a loop over the requested counts")
					continue
				}
				// options objects whose Vcpus is set from the key inside this iteration, before the store
				okV := false
				for lb := range L.Body {
					for _, li := range lb.Instrs {
						st, ok := li.(*ssa.Store)
						if !ok {
							continue
						}
						fa, ok := st.Addr.(*ssa.FieldAddr)
						if !ok || flow.FieldName(fa) != "Vcpus" || !namedIs(fa.X.Type(), repoPath("sev"), "LaunchOptions") {
							continue
						}
						if !sl.Derives(st.Val, func(v ssa.Value) bool { return v == mu.Key || sameElemLoadIn(L, v, mu.Key) }) || !lb.Dominates(b) {
							continue
						}
						opts := fa.X
						if sl5.Derives(mu.Value, func(v ssa.Value) bool { return v == opts }) {
							okV = true
						}
					}
				}
				// or the iteration hands the count to a helper of the package that builds the options from it, measures
				// with them and returns the digest
				if !okV {
					fromKey := func(v ssa.Value) bool { return v == mu.Key || sameElemLoadIn(L, v, mu.Key) }
					sl.Visit(mu.Value, func(v ssa.Value) bool {
						hc, ok := v.(*ssa.Call)
						if !ok || okV {
							return !okV
						}
						h := hc.Call.StaticCallee()
						if h == nil || load.RelPkg(h) != "sev" || h.Blocks == nil || !L.Body[hc.Block()] || len(h.Params) != len(hc.Call.Args) {
							return true
						}
						for i, a := range hc.Call.Args {
							if !sl.Derives(a, fromKey) {
								continue
							}
							prm := h.Params[i]
							for _, hb := range h.Blocks {
								for _, hi := range hb.Instrs {
									st, ok := hi.(*ssa.Store)
									if !ok {
										continue
									}
									fa, ok := st.Addr.(*ssa.FieldAddr)
									if !ok || flow.FieldName(fa) != "Vcpus" || !namedIs(fa.X.Type(), repoPath("sev"), "LaunchOptions") {
										continue
									}
									if !sl.Derives(st.Val, func(x ssa.Value) bool { return x == ssa.Value(prm) }) {
										continue
									}
									opts := fa.X
									all, n := true, 0
									for _, rb := range h.Blocks {
										ret, ok := rb.Instrs[len(rb.Instrs)-1].(*ssa.Return)
										if !ok || len(ret.Results) == 0 {
											continue
										}
										if k, isK := ret.Results[0].(*ssa.Const); isK && k.IsNil() {
											continue
										}
										n++
										if !hb.Dominates(rb) || !sl5.Derives(ret.Results[0], func(x ssa.Value) bool { return x == opts }) {
											all = false
										}
									}
									if all && n > 0 {
										okV = true
									}
								}
							}
						}
						return !okV
					}, nil)
				}
				c.S.Check(okV, "R5", name, c.pos(mu.Pos()), "the value stored under a count derives from a measurement taken with Vcpus set from that count earlier in the same iteration", "the measurement stored under a VMSA count is not computed with Vcpus set from that count in the same iteration")
				okK := sl.Derives(mu.Key, func(v ssa.Value) bool {
					return flow.IsFieldLoad(v, repoPath("sev"), "SnpEndorsementRequest", "LaunchVmsas") || isGlobalNamed(v, repoPath("sev"), "AllSupportedVmsaCounts")
				})
				c.S.Check(okK, "R5", name+":key source", c.pos(mu.Pos()), "counts come from the request / the supported-count table", "the VMSA counts measured do not come from the request or the supported-count table")
			}
		}
	}
	c.S.Floor("R5", "measurement map fills in package sev", 1, nMap)

	// ---- R7: request parameters reach every options object used for measuring ----
	type optRow struct{ rel, optType, field, reqType, reqField string }
	nOpts := 0
	sl7 := flow.NewSlicer(c.P)
	sl7.LiftParams = 2
	for _, row := range []optRow{{"sev", "LaunchOptions", "Product", "SnpEndorsementRequest", "Product"}} {
		for _, f := range fns {
			if load.RelPkg(f) != row.rel {
				continue
			}
			// (the function may be handed the request, or — a helper — just the values taken out of it: the
			// derivation below follows parameters to the arguments at the call sites)
			// options objects created here: composite literals and results of constructors
			var objs []ssa.Value
			for _, b := range f.Blocks {
				for _, in := range b.Instrs {
					switch v := in.(type) {
					case *ssa.Alloc:
						if namedIs(v.Type(), repoPath(row.rel), row.optType) {
							objs = append(objs, v)
						}
					case *ssa.Call:
						if namedIs(v.Type(), repoPath(row.rel), row.optType) {
							if _, isPtr := v.Type().(*types.Pointer); isPtr {
								objs = append(objs, v)
							}
						}
					}
				}
			}
			for _, o := range objs {
				// uses as call arguments
				var uses []*ssa.Call
				for _, r := range nonDebugRefs(o) {
					if call, ok := r.(*ssa.Call); ok {
						for _, a := range call.Call.Args {
							if a == o {
								uses = append(uses, call)
							}
						}
					}
				}
				if len(uses) == 0 {
					continue
				}
				nOpts++
				okAll := true
				for _, u := range uses {
					okU := false
					for _, r := range nonDebugRefs(o) {
						fa, ok := r.(*ssa.FieldAddr)
						if !ok || flow.FieldName(fa) != row.field {
							continue
						}
						for _, r2 := range nonDebugRefs(fa) {
							st, ok := r2.(*ssa.Store)
							if !ok || st.Addr != fa {
								continue
							}
							before := st.Block().Dominates(u.Block()) && (st.Block() != u.Block() || indexIn(st.Block(), st) < indexIn(u.Block(), u))
							if before && sl7.Derives(st.Val, func(v ssa.Value) bool {
								return flow.IsFieldLoad(v, repoPath(row.rel), row.reqType, row.reqField)
							}) {
								okU = true
							}
						}
					}
					if !okU {
						okAll = false
					}
				}
				c.S.Check(okAll, "R7", load.FuncName(f)+":"+row.optType+"."+row.field, c.pos(o.Pos()), "every measurement options object built from the request gets "+row.field+" from the request before it is used", "a measurement options object is used without "+row.field+" having been set from the request: the signed value describes another configuration than the one requested")
			}
		}
	}
	c.S.Floor("R7", "measurement options objects built from a request", 1, nOpts)

	// ---- R8: no configuration carried from one loop iteration into the next ----
	prims := map[*ssa.Function]bool{}
	for _, n := range []struct{ rel, name string }{{"sev", "LaunchDigest"}, {"tdx", "MRTD"}} {
		if pf := c.P.Func(n.rel, n.name); pf != nil {
			prims[pf] = true
		}
	}
	nLoopCalls := 0
	for _, f := range fns {
		loops := naturalLoops(f)
		if len(loops) == 0 {
			continue
		}
		for _, call := range callsIn(f, func(call ssa.CallInstruction) bool {
			cal := call.Common().StaticCallee()
			if cal == nil || !S[cal] {
				return false
			}
			if prims[cal] {
				return true
			}
			// any repo function taking an options struct pointer of package sev/tdx
			for _, a := range call.Common().Args {
				if namedIs(a.Type(), repoPath("sev"), "LaunchOptions") || namedIs(a.Type(), repoPath("tdx"), "LaunchOptions") {
					return true
				}
			}
			return false
		}) {
			L := innermostLoopOf(loops, call.Block())
			if L == nil {
				continue
			}
			for _, a := range call.Common().Args {
				if !(namedIs(a.Type(), repoPath("sev"), "LaunchOptions") || namedIs(a.Type(), repoPath("tdx"), "LaunchOptions")) {
					continue
				}
				nLoopCalls++
				def, ok := a.(ssa.Instruction)
				if ok && L.Body[def.Block()] {
					c.S.OK("R8", load.FuncName(f)+"→"+callName(call)+":options per iteration", c.pos(call.Pos()), "options object is created inside the iteration", true)
					continue
				}
				// created outside the loop: every field stored inside the loop must be stored before this call on all paths of the iteration
				stale := ""
				for lb := range L.Body {
					for _, li := range lb.Instrs {
						st, ok := li.(*ssa.Store)
						if !ok {
							continue
						}
						fa, ok := st.Addr.(*ssa.FieldAddr)
						if !ok || fa.X != a {
							continue
						}
						// is there a store to this field dominating the call within the loop body?
						dom := false
						for lb2 := range L.Body {
							for _, li2 := range lb2.Instrs {
								st2, ok := li2.(*ssa.Store)
								if !ok {
									continue
								}
								fa2, ok := st2.Addr.(*ssa.FieldAddr)
								if ok && fa2.X == a && fa2.Field == fa.Field && lb2 != L.Header && lb2.Dominates(call.Block()) && (lb2 != call.Block() || indexIn(lb2, st2) < indexIn(lb2, call.(ssa.Instruction))) {
									dom = true
								}
							}
						}
						if !dom {
							stale = flow.FieldName(fa)
						}
					}
				}
				c.S.Check(stale == "", "R8", load.FuncName(f)+"→"+callName(call)+":options per iteration", c.pos(call.Pos()), "fields changed in the loop are re-assigned before each use", "options field "+stale+" is changed inside the loop but not re-assigned before this measurement in the next iteration: a later entry is measured with a setting left over from an earlier one")
			}
		}
	}
	// for the floor, a loop whose body was extracted into a helper still counts: calls in loops to
	// functions of S that reach a measurement primitive
	nLoopReach := 0
	for _, f := range fns {
		loops := naturalLoops(f)
		for _, call := range callsIn(f, func(call ssa.CallInstruction) bool { cal := call.Common().StaticCallee(); return cal != nil && S[cal] }) {
			if innermostLoopOf(loops, call.Block()) == nil {
				continue
			}
			for g := range c.reachable([]*ssa.Function{call.Common().StaticCallee()}, nil) {
				if prims[g] {
					nLoopReach++
					break
				}
			}
		}
	}
	c.S.Floor("R8", "calls inside loops that reach a measurement primitive", 2, nLoopReach)

	// ---- R9: the requested SVN reaches every requested technology ----
	// A function that assigns the SVN of one technology's request (from a side file, a flag, …) assigns the other
	// technology's too on every successful path, unless that technology is known not to be requested (its request
	// is nil or is set to nil). ESP per function; the nil-ness of Context.SevSnp / Context.Tdx is a flag.
	{
		sevPkgP, tdxPkgP := repoPath("sev"), repoPath("tdx")
		const (
			bSnpSvn uint = iota
			bTdxSvn
			bSnpNil
			bTdxNil
		)
		svnStore := func(in ssa.Instruction) int {
			// the field's address handed to a helper that stores through it (bundled.assign(&ec.SevSnp.Svn))
			if call, isCall := in.(*ssa.Call); isCall {
				g := call.Call.StaticCallee()
				if g == nil || !load.FuncInRepo(g) || g.Blocks == nil || len(g.Params) != len(call.Call.Args) {
					return -1
				}
				for i, a := range call.Call.Args {
					fa, ok := a.(*ssa.FieldAddr)
					if !ok {
						continue
					}
					k := -1
					switch {
					case flow.IsFieldLoad(fa, sevPkgP, "SnpEndorsementRequest", "Svn"):
						k = 0
					case flow.IsFieldLoad(fa, tdxPkgP, "EndorsementRequest", "Svn"):
						k = 1
					}
					if k < 0 {
						continue
					}
					for _, gb := range g.Blocks {
						for _, gi := range gb.Instrs {
							if st, ok := gi.(*ssa.Store); ok && st.Addr == ssa.Value(g.Params[i]) {
								return k
							}
						}
					}
				}
				return -1
			}
			st, ok := in.(*ssa.Store)
			if !ok {
				return -1
			}
			fa, ok := st.Addr.(*ssa.FieldAddr)
			if !ok {
				return -1
			}
			switch {
			case flow.IsFieldLoad(fa, sevPkgP, "SnpEndorsementRequest", "Svn"):
				return 0
			case flow.IsFieldLoad(fa, tdxPkgP, "EndorsementRequest", "Svn"):
				return 1
			case flow.IsFieldLoad(fa, endorsePkg, "Context", "SevSnp") && isNilK(st.Val):
				return 2
			case flow.IsFieldLoad(fa, endorsePkg, "Context", "Tdx") && isNilK(st.Val):
				return 3
			}
			return -1
		}
		nFns := 0
		for _, f := range c.P.RepoFunctions() {
			if c.isTestFunc(f) || isTestingPkg(load.RelPkg(f)) {
				continue
			}
			has := false
			for _, b := range f.Blocks {
				for _, in := range b.Instrs {
					if k := svnStore(in); k == 0 || k == 1 {
						has = true
					}
				}
			}
			if !has {
				continue
			}
			nFns++
			r := &esp.Rule{Name: "C06.R9"}
			r.Flag = func(v ssa.Value) (int, bool) {
				if u, ok := v.(*ssa.UnOp); ok && u.Op == token.MUL {
					if flow.IsFieldLoad(v, endorsePkg, "Context", "SevSnp") {
						return 0, true
					}
					if flow.IsFieldLoad(v, endorsePkg, "Context", "Tdx") {
						return 1, true
					}
				}
				return 0, false
			}
			r.Track = func(v ssa.Value) bool {
				if ex, ok := v.(*ssa.Extract); ok {
					b, isB := ex.Type().Underlying().(*types.Basic)
					return isB && b.Kind() == types.Bool
				}
				return false
			}
			r.Relevant = func(g *ssa.Function) bool { return false }
			r.Match = func(in ssa.Instruction) []esp.Ev {
				if k := svnStore(in); k >= 0 {
					return []esp.Ev{{ID: k, Name: [...]string{"SNP request SVN assigned", "TDX request SVN assigned", "SNP request dropped", "TDX request dropped"}[k], ErrIdx: -1, BoolIdx: -1}}
				}
				return nil
			}
			r.Step = func(x *esp.Ctx, s esp.State, ev esp.Ev, ph esp.Phase) (esp.State, string) {
				if ph != esp.AtCall {
					return s, ""
				}
				return s.Set(uint(ev.ID)), ""
			}
			ei := errIndex(f.Signature)
			r.AtReturn = func(x *esp.Ctx, s esp.State, rets []esp.Abs) string {
				if ei >= 0 && ei < len(rets) && rets[ei] == esp.NonZero {
					return ""
				}
				if s.Has(bSnpSvn) && !s.Has(bTdxSvn) && !s.Has(bTdxNil) && s.Flag(1) != esp.Zero {
					return "R9: the SVN is assigned to the SEV-SNP request only, on a path where the TDX request may be present: the TDX part of the document is signed with SVN 0"
				}
				if s.Has(bTdxSvn) && !s.Has(bSnpSvn) && !s.Has(bSnpNil) && s.Flag(0) != esp.Zero {
					return "R9: the SVN is assigned to the TDX request only, on a path where the SEV-SNP request may be present: the SEV-SNP part of the document is signed with SVN 0"
				}
				return ""
			}
			e := c.engine(r)
			e.Run(f, esp.State{})
			if c.reportEngine(e, "R9", func(v *esp.Violation) string { return load.FuncName(f) + ":SVN for every technology" }) == 0 {
				c.S.OK("R9", load.FuncName(f)+":SVN for every technology", c.pos(f.Pos()), fmt.Sprintf("both requests receive the SVN wherever one does (%d configurations)", e.Configs), true)
			}
		}
		c.S.Floor("R9", "functions assigning a request's SVN", 1, nFns)
	}

	// ---- R11: one table, one key ----
	// Every lookup into a package-level table of package tdx (machine shape → layout) uses the requested name as it
	// is: if one site normalises the key (a call on the way from the name to the index) and another does not, a
	// name accepted at the first site is absent at the second, and the entry signed for it carries the zero value
	// (RAM size 0) as its label.
	{
		type lk struct {
			in      *ssa.Lookup
			fn      *ssa.Function
			viaCall string
		}
		byTable := map[*ssa.Global][]lk{}
		for _, f := range c.P.RepoFunctions() {
			if load.RelPkg(f) != "tdx" || c.isTestFunc(f) {
				continue
			}
			for _, b := range f.Blocks {
				for _, in := range b.Instrs {
					l, ok := in.(*ssa.Lookup)
					if !ok {
						continue
					}
					u, ok := l.X.(*ssa.UnOp)
					if !ok {
						continue
					}
					g, ok := u.X.(*ssa.Global)
					if !ok {
						continue
					}
					via := ""
					if call, ok := l.Index.(*ssa.Call); ok {
						via = callName(call)
					}
					byTable[g] = append(byTable[g], lk{l, f, via})
				}
			}
		}
		nT := 0
		for g, ls := range byTable {
			if len(ls) < 2 {
				continue
			}
			nT++
			raw, norm := 0, ""
			var at *ssa.Lookup
			for _, l := range ls {
				if l.viaCall == "" {
					raw++
				} else {
					norm, at = l.viaCall, l.in
				}
			}
			okT := raw == 0 || norm == ""
			pos := ls[0].in.Pos()
			if at != nil {
				pos = at.Pos()
			}
			c.S.Check(okT, "R11", "tdx."+g.Name()+":one key", c.pos(pos), fmt.Sprintf("%d lookups, all with the same kind of key", len(ls)),
				fmt.Sprintf("table %s is looked up under a key transformed by %s at one site and under the raw name at %d other site(s): a name the first accepts is missing at the others, which then read the zero value", g.Name(), norm, raw))
		}
		c.S.Floor("R11", "package-level tables of tdx looked up at several sites", 1, nT)
	}

	// ---- R10: an input the request names is loaded ----
	// In the command layer a field of the endorse Context that is filled under its own flag test
	// (`if f.XPath != "" { ec.X = read(f.XPath) }`) is filled on every successful path on which that flag may be
	// set: no early return placed in front of the block skips it.
	{
		type guarded struct {
			st   *ssa.Store
			flag flow.FieldKey
			name string
		}
		nG := 0
		for _, f := range c.P.RepoFunctions() {
			if load.RelPkg(f) != "cmd" || c.isTestFunc(f) || errIndex(f.Signature) < 0 {
				continue
			}
			var gs []guarded
			for _, b := range f.Blocks {
				for _, in := range b.Instrs {
					st, ok := in.(*ssa.Store)
					if !ok {
						continue
					}
					fa, ok := st.Addr.(*ssa.FieldAddr)
					if !ok || !namedIs(fa.X.Type(), endorsePkg, "Context") {
						continue
					}
					for _, cf := range dominatingConds(b) {
						bo, ok := cf.Cond.(*ssa.BinOp)
						// the innermost condition that controls the store, error checks aside, must be the flag test
						if ok && (bo.Op == token.NEQ || bo.Op == token.EQL) && isNilK(bo.Y) && bo.X.Type().String() == "error" {
							continue
						}
						if !ok || (bo.Op != token.NEQ && bo.Op != token.EQL) || (bo.Op == token.NEQ) != cf.Val {
							break
						}
						k, isK := bo.Y.(*ssa.Const)
						if !isK || k.Value == nil || k.Value.Kind() != constant.String || constant.StringVal(k.Value) != "" {
							break
						}
						u, ok := bo.X.(*ssa.UnOp)
						if !ok || u.Op != token.MUL {
							continue
						}
						ffa, ok := u.X.(*ssa.FieldAddr)
						if !ok {
							continue
						}
						// the value stored is obtained from what the flag names (a file read from that path, …)
						fk := flow.StructFieldKey(ffa.X.Type(), ffa.Field)
						usesFlag := false
						for _, b2 := range f.Blocks {
							if !cf.Block.Dominates(b2) || b2 == cf.Block {
								continue
							}
							guardedBlk := false
							for _, cf2 := range dominatingConds(b2) {
								if cf2.Cond == cf.Cond && cf2.Val == cf.Val {
									guardedBlk = true
								}
							}
							if !guardedBlk {
								continue
							}
							for _, in2 := range b2.Instrs {
								call, ok := in2.(ssa.CallInstruction)
								if !ok {
									continue
								}
								for _, a := range call.Common().Args {
									if lu, ok := a.(*ssa.UnOp); ok && lu.Op == token.MUL {
										if lfa, ok := lu.X.(*ssa.FieldAddr); ok && flow.StructFieldKey(lfa.X.Type(), lfa.Field) == fk {
											usesFlag = true
										}
									}
								}
							}
						}
						if !usesFlag {
							continue
						}
						gs = append(gs, guarded{st, fk, flow.FieldName(fa)})
						break
					}
				}
			}
			if len(gs) == 0 || len(gs) > 8 {
				continue
			}
			nG += len(gs)
			flagIdx := map[flow.FieldKey]int{}
			for _, g := range gs {
				if _, ok := flagIdx[g.flag]; !ok {
					flagIdx[g.flag] = len(flagIdx)
				}
			}
			r := &esp.Rule{Name: "C06.R10"}
			r.Relevant = func(*ssa.Function) bool { return false }
			r.Flag = func(v ssa.Value) (int, bool) {
				if u, ok := v.(*ssa.UnOp); ok && u.Op == token.MUL {
					if ffa, ok := u.X.(*ssa.FieldAddr); ok {
						if i, ok := flagIdx[flow.StructFieldKey(ffa.X.Type(), ffa.Field)]; ok {
							return i, true
						}
					}
				}
				return 0, false
			}
			r.Match = func(in ssa.Instruction) []esp.Ev {
				for i, g := range gs {
					if in == ssa.Instruction(g.st) {
						return []esp.Ev{{ID: i, Name: "Context." + g.name + " loaded", ErrIdx: -1, BoolIdx: -1}}
					}
				}
				return nil
			}
			r.Step = func(x *esp.Ctx, s esp.State, ev esp.Ev, ph esp.Phase) (esp.State, string) {
				if ph == esp.AtCall {
					return s.Set(uint(ev.ID)), ""
				}
				return s, ""
			}
			ei := errIndex(f.Signature)
			r.AtReturn = func(x *esp.Ctx, s esp.State, rets []esp.Abs) string {
				if ei < len(rets) && rets[ei] == esp.NonZero {
					return ""
				}
				for i, g := range gs {
					if !s.Has(uint(i)) && s.Flag(flagIdx[g.flag]) != esp.Zero {
						return "R10: the command may succeed without loading Context." + g.name + " although the flag that names it may be set: the signed document is built without a requested input"
					}
				}
				return ""
			}
			e := c.engine(r)
			e.Run(f, esp.State{})
			if c.reportEngine(e, "R10", func(v *esp.Violation) string { return load.FuncName(f) + ":requested inputs loaded" }) == 0 {
				c.S.OK("R10", load.FuncName(f)+":requested inputs loaded", c.pos(f.Pos()), fmt.Sprintf("%d flag-guarded loads of Context fields, none skipped on a successful path (%d configurations)", len(gs), e.Configs), true)
			}
		}
		c.S.Floor("R10", "flag-guarded loads of endorse.Context fields in package cmd", 1, nG)
	}

	// ---- R14: a named VMSA count is the count measured ----
	// The table of all supported counts stands in for the request only when the request names no count: every use of
	// AllSupportedVmsaCounts in package sev (returned, merged into a φ, ranged over) happens on the edge
	// "LaunchVmsas == 0". Any other predicate in that place (the count is not in the table, the count is large …)
	// replaces a count the caller named by fifteen others, and the signed document has no entry for it.
	{
		sevPkg := repoPath("sev")
		isZeroTest := func(cf condFact) bool {
			bo, ok := cf.Cond.(*ssa.BinOp)
			if !ok || (bo.Op != token.EQL && bo.Op != token.NEQ) {
				return false
			}
			k, isK := bo.Y.(*ssa.Const)
			if !isK || !isZeroIntConst(k) || !flow.IsFieldLoad(bo.X, sevPkg, "SnpEndorsementRequest", "LaunchVmsas") {
				return false
			}
			return (bo.Op == token.EQL) == cf.Val
		}
		onZeroEdge := func(pred, to *ssa.BasicBlock) bool {
			for _, cf := range dominatingConds(pred) {
				if isZeroTest(cf) {
					return true
				}
			}
			if iff, ok := pred.Instrs[len(pred.Instrs)-1].(*ssa.If); ok && to != nil {
				for i, sb := range pred.Succs {
					if sb == to && isZeroTest(condFact{iff.Cond, i == 0, pred}) {
						return true
					}
				}
			}
			return false
		}
		nUse := 0
		for _, f := range c.P.RepoFunctions() {
			if load.RelPkg(f) != "sev" || c.isTestFunc(f) {
				continue
			}
			for _, b := range f.Blocks {
				for _, in := range b.Instrs {
					ld, ok := in.(*ssa.UnOp)
					if !ok || ld.Op != token.MUL || !isGlobalNamed(ld.X, sevPkg, "AllSupportedVmsaCounts") {
						continue
					}
					for _, u := range nonDebugRefs(ld) {
						nUse++
						okU := false
						switch x := u.(type) {
						case *ssa.Phi:
							okU = true
							for i, e := range x.Edges {
								if e == ssa.Value(ld) && !onZeroEdge(x.Block().Preds[i], x.Block()) {
									okU = false
								}
							}
						default:
							okU = onZeroEdge(u.Block(), nil)
						}
						c.S.Check(okU, "R14", load.FuncName(f)+":all supported counts only for an unnamed count", c.pos(u.Pos()), "used on the edge LaunchVmsas == 0", "the table of all supported VMSA counts is used on a path that is not the edge `LaunchVmsas == 0`: a count the request names can be replaced by the table, and the signed document then has no measurement for it")
					}
				}
			}
		}
		c.S.Floor("R14", "uses of AllSupportedVmsaCounts in package sev", 1, nUse)
	}

	// ---- R13: what the request names is signed whatever its shape ----
	// The fields of the golden measurement that copy the request (Digest, ClSpec, Commit) are stored on every path
	// to a successful return of GoldenMeasurement: no condition on the value itself (its length, its being non-zero)
	// decides whether it is signed. A value the signer drops silently ("commit is not 20 bytes") yields a document
	// that is signed, committed and then refused by the verifier for missing provenance.
	{
		nV := 0
		for _, fname := range []string{"Digest", "ClSpec", "Commit"} {
			var stores []*ssa.Store
			for _, rf := range unexportedRegion(gm) {
				for _, b := range rf.Blocks {
					for _, in := range b.Instrs {
						if st, ok := in.(*ssa.Store); ok {
							if fa, ok := st.Addr.(*ssa.FieldAddr); ok && flow.FieldName(fa) == fname && namedIs(fa.X.Type(), epbPkg, "VMGoldenMeasurement") && rf == gm {
								stores = append(stores, st)
							}
						}
					}
				}
			}
			if len(stores) == 0 {
				// written by an unexported helper that builds the document (imageProvenance()): the store dominates the
				// helper's returns and the helper's call dominates GoldenMeasurement's successful returns
				okHelper := false
				for _, rf := range unexportedRegion(gm) {
					if rf == gm {
						continue
					}
					var hst []*ssa.Store
					for _, b := range rf.Blocks {
						for _, in := range b.Instrs {
							if st, ok := in.(*ssa.Store); ok {
								if fa, ok := st.Addr.(*ssa.FieldAddr); ok && flow.FieldName(fa) == fname && namedIs(fa.X.Type(), epbPkg, "VMGoldenMeasurement") {
									hst = append(hst, st)
								}
							}
						}
					}
					if len(hst) == 0 {
						continue
					}
					domRets := true
					for _, b := range rf.Blocks {
						if _, isRet := b.Instrs[len(b.Instrs)-1].(*ssa.Return); isRet {
							d := false
							for _, st := range hst {
								if st.Block().Dominates(b) {
									d = true
								}
							}
							if !d {
								domRets = false
							}
						}
					}
					callDom := false
					ei := errIndex(gm.Signature)
					for _, call := range callsIn(gm, func(call ssa.CallInstruction) bool { return call.Common().StaticCallee() == rf }) {
						all := true
						for _, b := range gm.Blocks {
							if ret, isRet := b.Instrs[len(b.Instrs)-1].(*ssa.Return); isRet && ei >= 0 {
								if k, isK := ret.Results[ei].(*ssa.Const); isK && k.IsNil() && !call.(ssa.Instruction).Block().Dominates(b) {
									all = false
								}
							}
						}
						if all {
							callDom = true
						}
					}
					if domRets && callDom {
						okHelper = true
					}
					nV++
					c.S.Check(okHelper, "R13", "endorse.GoldenMeasurement:"+fname+" stored unconditionally", c.pos(hst[0].Pos()), fname+" is stored on every path (in "+rf.Name()+", called on every successful path)", "VMGoldenMeasurement."+fname+" is stored only on some paths to a successful return: for some requests the value the caller named is silently left out of the signed document")
				}
				continue
			}
			nV++
			ei := errIndex(gm.Signature)
			okAll := true
			for _, b := range gm.Blocks {
				ret, isRet := b.Instrs[len(b.Instrs)-1].(*ssa.Return)
				if !isRet || ei < 0 {
					continue
				}
				if k, isK := ret.Results[ei].(*ssa.Const); !isK || !k.IsNil() {
					continue
				}
				dom := false
				for _, st := range stores {
					if st.Block().Dominates(b) {
						dom = true
					}
				}
				if !dom {
					okAll = false
				}
			}
			c.S.Check(okAll, "R13", "endorse.GoldenMeasurement:"+fname+" stored unconditionally", c.pos(stores[0].Pos()), fname+" is stored on every path to a successful return", "VMGoldenMeasurement."+fname+" is stored only on some paths to a successful return: for some requests the value the caller named is silently left out of the signed document")
		}
		c.S.Floor("R13", "verbatim request fields stored by GoldenMeasurement itself", 2, nV)
	}

	// ---- R6 ----
	sites := c.goldenMarshalSites(sd, epbPkg)
	c.S.Check(len(sites) == 1, "R6", "endorse.SignDoc:single marshal", c.pos(sd.Pos()), "the document is marshalled exactly once", fmt.Sprintf("%d marshals of the document in SignDoc", len(sites)))
	if len(sites) == 1 {
		ms := sites[0]
		need := map[string]bool{"Cert": false, "CaBundle": false, "Timestamp": false}
		// stores to the document's fields: in SignDoc relative to the site, and — when a helper marshals — in the helper
		// relative to the marshal call
		scan := func(fn *ssa.Function, doc ssa.Value, m *ssa.Call) {
			for _, b := range fn.Blocks {
				for i, in := range b.Instrs {
					st, ok := in.(*ssa.Store)
					if !ok {
						continue
					}
					fa, ok := st.Addr.(*ssa.FieldAddr)
					if !ok || fa.X != doc {
						continue
					}
					before := b.Dominates(m.Block()) && (b != m.Block() || i < indexIn(b, m))
					if !before {
						c.S.Bad("R6", "endorse.SignDoc:store after marshal "+flow.FieldName(fa), c.pos(st.Pos()), "the document is modified after (or not on every path before) it was marshalled and signed")
					} else if _, ok := need[flow.FieldName(fa)]; ok {
						need[flow.FieldName(fa)] = true
					}
				}
			}
		}
		if ms.helper == nil {
			scan(sd, unwrapIface(ms.inner.Call.Args[0]), ms.inner)
		} else {
			scan(ms.helper, ms.helper.Params[ms.docParam], ms.inner)
			if ms.docParam < len(ms.site.Call.Args) {
				scan(sd, ms.site.Call.Args[ms.docParam], ms.site)
			}
		}
		var ks []string
		for k := range need {
			ks = append(ks, k)
		}
		sort.Strings(ks)
		for _, k := range ks {
			c.S.Check(need[k], "R6", "endorse.SignDoc:"+k+" before marshal", c.pos(ms.inner.Pos()), k+" filled in on every path before marshalling", k+" is not filled in before the document is marshalled")
		}
	}
}

func pkgOfMethod(m *types.Func) string {
	if m.Pkg() == nil {
		return ""
	}
	return m.Pkg().Path()
}

func nonDebugRefs(v ssa.Value) []ssa.Instruction {
	var out []ssa.Instruction
	if refs := v.Referrers(); refs != nil {
		for _, r := range *refs {
			if _, ok := r.(*ssa.DebugRef); !ok {
				out = append(out, r)
			}
		}
	}
	return out
}

func indexIn(b *ssa.BasicBlock, in ssa.Instruction) int {
	for i, x := range b.Instrs {
		if x == in {
			return i
		}
	}
	return -1
}

func isGlobalNamed(v ssa.Value, pkg, name string) bool {
	g, ok := v.(*ssa.Global)
	return ok && g.Name() == name && g.Pkg.Pkg.Path() == pkg
}

// errKnownNil: block b is dominated by the nil edge of a test of errVal.
// repeatsCheckedCall: an earlier call of the same callee with identical
// argument values dominates this one and its error is known nil here.
func repeatsCheckedCall(call *ssa.Call, ei int) bool {
	for _, b := range call.Parent().Blocks {
		for _, in := range b.Instrs {
			c2, ok := in.(*ssa.Call)
			if !ok || c2 == call || c2.Call.StaticCallee() != call.Call.StaticCallee() || len(c2.Call.Args) != len(call.Call.Args) {
				continue
			}
			same := true
			for i := range c2.Call.Args {
				if c2.Call.Args[i] != call.Call.Args[i] && !copiedFrom(call.Call.Args[i], c2.Call.Args[i]) {
					same = false
				}
			}
			if !same || !b.Dominates(call.Block()) {
				continue
			}
			for _, ref := range *c2.Referrers() {
				if ex, ok := ref.(*ssa.Extract); ok && ex.Index == ei && errKnownNil(call.Block(), ex) {
					return true
				}
			}
		}
	}
	return false
}

// copiedFrom: y is a local record initialised as a whole copy of the record x points to (`y := *x` / `y := x` for a
// value x), so a call given &y repeats a call given &x up to the fields stored into y afterwards.
func copiedFrom(y, x ssa.Value) bool {
	al, ok := y.(*ssa.Alloc)
	if !ok || al.Referrers() == nil {
		return false
	}
	for _, ref := range *al.Referrers() {
		st, ok := ref.(*ssa.Store)
		if !ok || st.Addr != ssa.Value(al) {
			continue
		}
		if ld, ok := st.Val.(*ssa.UnOp); ok && ld.Op == token.MUL && ld.X == x {
			return true
		}
	}
	return false
}

func errKnownNil(b *ssa.BasicBlock, errVal ssa.Value) bool {
	if b == nil || errVal == nil {
		return false
	}
	for _, cf := range dominatingConds(b) {
		bo, ok := cf.Cond.(*ssa.BinOp)
		if !ok || !isNilK(bo.Y) || bo.X != errVal {
			continue
		}
		if (bo.Op.String() == "!=" && !cf.Val) || (bo.Op.String() == "==" && cf.Val) {
			return true
		}
	}
	return false
}

// infallibleIdiom recognises calls whose error cannot be non-nil by
// construction; returns the reason or "".
func infallibleIdiom(c *Ctx, call *ssa.Call, depth int) string {
	args := call.Call.Args
	if call.Call.IsInvoke() {
		return ""
	}
	// the callee's only error sources are themselves infallible at their sites
	if g := call.Call.StaticCallee(); g != nil && load.FuncInRepo(g) && g.Blocks != nil && depth < 3 {
		if effectivelyInfallible(c, g, depth) {
			return "every error the callee can return comes from a call that is infallible at its site"
		}
	}
	// writer argument is a *bytes.Buffer (seen here or one parameter-lift up)
	for _, a := range args {
		if isBytesBuffer(a) {
			return "writes to a *bytes.Buffer"
		}
		if mi, ok := a.(*ssa.MakeInterface); ok && isBytesBuffer(mi.X) {
			return "writes to a *bytes.Buffer"
		}
		if p, ok := a.(*ssa.Parameter); ok && namedIs(p.Type(), "io", "Writer") {
			// lift: every call site passes a *bytes.Buffer
			fn := p.Parent()
			idx := -1
			for i, q := range fn.Params {
				if q == p {
					idx = i
				}
			}
			all, n := true, 0
			if node := c.P.CallGraph().Nodes[fn]; node != nil {
				for _, e := range node.In {
					if e.Site == nil || !load.FuncInRepo(e.Caller.Func) || c.isTestFunc(e.Caller.Func) {
						continue
					}
					n++
					ca := e.Site.Common().Args
					if idx >= len(ca) {
						all = false
						continue
					}
					x := ca[idx]
					if mi, ok := x.(*ssa.MakeInterface); ok {
						x = mi.X
					}
					if !isBytesBuffer(x) {
						all = false
					}
				}
			}
			if all && n > 0 {
				return "writes to a *bytes.Buffer at every call site"
			}
		}
	}
	// fixed-width codec (a repo function taking []byte) on an array slice / constant-width slice
	if g := call.Call.StaticCallee(); g == nil || !load.FuncInRepo(g) {
		return ""
	}
	for _, a := range args {
		if a.Type().String() != "[]byte" {
			continue
		}
		if sli, ok := a.(*ssa.Slice); ok {
			if pt, ok := sli.X.Type().Underlying().(*types.Pointer); ok {
				if _, isArr := pt.Elem().Underlying().(*types.Array); isArr && sli.Low == nil && sli.High == nil {
					return "fixed-width codec given a whole array"
				}
			}
			if _, ok := sli.Low.(*ssa.Const); ok || sli.Low == nil {
				if _, ok := sli.High.(*ssa.Const); ok {
					return "fixed-width codec given a constant-width slice"
				}
			}
		}
	}
	return ""
}

func isBytesBuffer(v ssa.Value) bool { return namedIs(v.Type(), "bytes", "Buffer") }

// effectivelyInfallible: every error operand returned by g is nil or the error
// of a call that is infallible by idiom at its site (the callee's own length
// guard cannot fire on a constant-width slice).
func effectivelyInfallible(c *Ctx, g *ssa.Function, depth int) bool {
	ei := errIndex(g.Signature)
	if ei < 0 {
		return false
	}
	var check func(v ssa.Value, d int) bool
	check = func(v ssa.Value, d int) bool {
		if d > 6 {
			return false
		}
		switch x := v.(type) {
		case *ssa.Const:
			return x.Value == nil
		case *ssa.Phi:
			for _, e := range x.Edges {
				if !check(e, d+1) {
					return false
				}
			}
			return true
		case *ssa.Extract:
			if call, ok := x.Tuple.(*ssa.Call); ok {
				return infallibleIdiom(c, call, depth+1) != ""
			}
		case *ssa.Call:
			return infallibleIdiom(c, x, depth+1) != ""
		case *ssa.UnOp:
			// named result cell: all stores into it
			if al, ok := x.X.(*ssa.Alloc); ok {
				n := 0
				for _, r := range nonDebugRefs(al) {
					if st, ok := r.(*ssa.Store); ok && st.Addr == al {
						n++
						if !check(st.Val, d+1) {
							return false
						}
					}
				}
				return n > 0
			}
		}
		return false
	}
	n := 0
	for _, b := range g.Blocks {
		if ret, ok := b.Instrs[len(b.Instrs)-1].(*ssa.Return); ok && ei < len(ret.Results) {
			n++
			if !check(ret.Results[ei], 0) {
				return false
			}
		}
	}
	return n > 0
}

// sameElemLoadIn: a and b are two loads of the same element (same collection value, same index value) and no
// instruction of the loop stores into that collection's elements, so both loads of one iteration see one value.
func sameElemLoadIn(L *loop, a, b ssa.Value) bool {
	la, ok1 := a.(*ssa.UnOp)
	lb, ok2 := b.(*ssa.UnOp)
	if !ok1 || !ok2 || la.Op != token.MUL || lb.Op != token.MUL {
		return false
	}
	ia, ok1 := la.X.(*ssa.IndexAddr)
	ib, ok2 := lb.X.(*ssa.IndexAddr)
	if !ok1 || !ok2 || ia.X != ib.X || ia.Index != ib.Index {
		return false
	}
	for blk := range L.Body {
		for _, in := range blk.Instrs {
			switch in := in.(type) {
			case *ssa.Store:
				if x, ok := in.Addr.(*ssa.IndexAddr); ok && x.X == ia.X {
					return false
				}
			case *ssa.Call:
				if bi, ok := in.Call.Value.(*ssa.Builtin); ok && (bi.Name() == "len" || bi.Name() == "cap") {
					continue
				}
				for _, arg := range in.Call.Args {
					if arg == ia.X {
						return false // handed to a call that may write its elements
					}
				}
			}
		}
	}
	return true
}

// c06NoSliceOfLoopOverwrittenVariable is R15: what is put into the signed document in one iteration is not changed by
// the next. A slice taken (in a loop of the measurement / signing closure) of a variable that lives outside the loop
// and is overwritten inside it — the range variable of a `for _, v := range` under pre-1.22 loop semantics (go.mod says
// go 1.20), or an array declared once before the loop — and then kept (stored, appended) aliases that one variable:
// every kept slice ends up showing the last iteration's bytes. Expected count zero; canary mutant
// C06-slice-of-hoisted-variable.
func c06NoSliceOfLoopOverwrittenVariable(c *Ctx, fns []*ssa.Function) {
	nSlices, nBad := 0, 0
	for _, f := range fns {
		if f.Blocks == nil || c.isTestFunc(f) {
			continue
		}
		loops := naturalLoops(f)
		if len(loops) == 0 {
			continue
		}
		for _, b := range f.Blocks {
			L := innermostLoopOf(loops, b)
			if L == nil {
				continue
			}
			for _, in := range b.Instrs {
				sl, ok := in.(*ssa.Slice)
				if !ok {
					continue
				}
				// the storage sliced: an Alloc reached through field / element addresses
				base := sl.X
				for i := 0; i < 6; i++ {
					switch x := base.(type) {
					case *ssa.FieldAddr:
						base = x.X
						continue
					case *ssa.IndexAddr:
						base = x.X
						continue
					}
					break
				}
				al, ok := base.(*ssa.Alloc)
				if !ok {
					continue
				}
				if _, isArr := sl.X.Type().Underlying().(*types.Pointer); !isArr {
					continue
				}
				nSlices++
				// find the outermost loop that contains the slice but not the allocation, and a store into the
				// allocation inside that loop
				overwritten := false
				for _, L2 := range loops {
					if !L2.Body[b] || L2.Body[al.Block()] {
						continue
					}
					for _, r := range nonDebugRefs(al) {
						switch x := r.(type) {
						case *ssa.Store:
							if x.Addr == ssa.Value(al) && L2.Body[x.Block()] {
								overwritten = true
							}
						case *ssa.FieldAddr, *ssa.IndexAddr:
							for _, r2 := range nonDebugRefs(x.(ssa.Value)) {
								if st, ok := r2.(*ssa.Store); ok && st.Addr == x.(ssa.Value) && L2.Body[st.Block()] {
									overwritten = true
								}
							}
						}
					}
				}
				if !overwritten {
					continue
				}
				kept := false
				for _, r := range nonDebugRefs(sl) {
					switch x := r.(type) {
					case *ssa.Store:
						if x.Val == ssa.Value(sl) {
							kept = true
						}
					case *ssa.Call:
						if bi, ok := x.Call.Value.(*ssa.Builtin); ok && bi.Name() == "append" {
							kept = true
						}
					case *ssa.MakeInterface, *ssa.Phi:
						kept = true
					}
				}
				if kept {
					nBad++
					c.S.Bad("R15", load.FuncName(f)+":slice of a variable overwritten by the loop", c.pos(sl.Pos()), "a slice of "+al.Comment+" is kept from inside a loop that overwrites that variable on every round (it is declared outside the loop body; under go 1.20 semantics a range variable is one variable): every kept slice aliases the same storage, so all entries end up carrying the last iteration's bytes")
				}
			}
		}
	}
	if nBad == 0 {
		c.S.OK("R15", "measurement/sign closure:no kept slice of a loop-overwritten variable", "", fmt.Sprintf("%d slices of local arrays/structs taken inside loops examined", nSlices), false)
	}
}
