package rules

import (
	"fmt"
	"go/constant"
	"go/token"
	"go/types"
	"sort"
	"strings"

	"golang.org/x/tools/go/ssa"

	"verif/checker/esp"
	"verif/checker/flow"
	"verif/checker/load"
)

func init() {
	register(&RuleSet{
		ID: "C04",
		Explanation: "R11 a loop of sev / ovmf that walks a slice in constant steps of k does not leave on `i+k < len` (which skips the last chunk) unless the rest is handled behind the loop. " +
			"R10 a loop of package ovmf over a count decoded from the image is bounded by that count itself, never by a clamped copy (φ with a constant, min). " +
			"R1 order (ESP on sev.LaunchDigest): measurement events occur in the order ROM (Update with the constant PageTypeNormal) → zero-content metadata pages → VMSA pages (Update with PageTypeVmsa); a nil return needs the ROM event; the ROM event's address operand is RomTop − len(image) and the VMSA events' address is ProductHighAddress of the options' product. " +
			"R2 kind table: the mapping from OVMF section kind to SNP page type covers exactly the section-kind constants declared in ovmf/abi, maps them to {unmeasured, secret, cpuid, zero} respectively (constants checked by value) and rejects every other kind. " +
			"R3 purity: no store / copy in the call closure of LaunchDigest and UnsignedSnp writes through the image parameter. " +
			"R9 in package ovmf no integer read from a map without comma-ok is compared with 0 to decide presence (0 is a legitimate address; the duplicate CPUID/secrets test relies on presence). " +
			"R3b no write in the closure of LaunchDigest / UnsignedSnp goes to a package-level variable (no shared scratch buffer or cache). " +
			"R4 determinism: the closure of LaunchDigest calls no clock, random source or environment lookup and has no map iteration whose body extends the measurement. " +
			"R6 declared order: every sort call in the call closure of LaunchDigest sorts a slice allocated in the same function (a copy), so the SNP metadata sections reach the measurement in the order the firmware declares them. " +
			"R7 one boot VMSA per digest (ESP from UnsignedSnp and LaunchDigest): between two allocations of a measurement object the ROM is measured at most once and at most one VMSA list that starts with the boot processor's VMSA is measured (an incremental computation that re-measures a full list per count is reported; measuring a tail list[k:] is not). " +
			"R1 also: metadata ranges are measured only through the range primitive, over [section.Address, +section.Length) of one section; the single-page primitives are not called from outside the range primitives. " +
			"R5 AP reset vector: where the SEV-ES reset block is decoded, its first result is stored into VmcbSaveArea.Rip and its second into VmcbSeg.Base of an object other than the boot processor's VMSA, by stores that dominate every successful return (a proto merge or conditional copy, which skips zero halves, is not such a store). " +
			"R12 (T19) where the measured bytes are split into equal shares (a quotient n/d used as a stride w*q), the dividend is used again to deal with the n%d items behind the last share; otherwise the last pages are never hashed. " +
			"R8 (= C06.R5/R7/R8, SEV constructs) every per-count launch digest is computed with options whose vCPU count is that count and whose product is the requested one, set in the same loop iteration. " +
			"Not covered (value clauses): equality with the AMD digest chain, PAGE_INFO field values, VMSA defaults, GPA truncation constants, rejection of each malformed-metadata class. PAGE_INFO/VMSA layout is decided under C18.",
		Assumptions: []string{"go/types, go/ssa, VTA call graph"},
		Run:         runC04,
	})
}

func runC04(c *Ctx) {
	defer c04DeclaredCounts(c)
	defer func() {
		// R11: every byte of a measured page is looked at: loops that walk a slice in constant steps cover its last chunk
		var fns []*ssa.Function
		for _, f := range c.P.RepoFunctions() {
			switch load.RelPkg(f) {
			case "sev", "ovmf", "ovmf/abi":
				if !c.isTestFunc(f) {
					fns = append(fns, f)
				}
			}
		}
		c.S.Floor("R11", "constant-step loops over a slice length in sev / ovmf", 1, c.chunkScanRule("R11", fns))
		// R12: where work on the measured bytes is split into equal shares, the remainder is not lost
		nq := c.partitionRemainderRule("R12", fns)
		c.S.OK("R12", "sev/ovmf:stride quotients", "", fmt.Sprintf("%d quotients used as a stride examined", nq), false)
	}()
	// R8 = C06.R5/R7/R8 on the SEV side: each per-count digest is computed with that count and the requested product.
	c.borrow("R8/C06.", runC06, func(rule, construct string) bool {
		return (rule == "R8" || rule == "R7" || rule == "R5") && strings.Contains(construct, "sev.")
	})
	sevPkg := repoPath("sev")
	ld := c.fn("R1", "sev", "LaunchDigest")
	us := c.fn("R3", "sev", "UnsignedSnp")
	if ld == nil || us == nil {
		return
	}
	sl := flow.NewSlicer(c.P)
	pt := func(name string) int64 {
		if k := c.extConst(sevPkg, name); k != nil {
			v, _ := constant.Int64Val(k)
			return v
		}
		return -1
	}
	normal, vmsa := pt("PageTypeNormal"), pt("PageTypeVmsa")
	isMeasMethod := func(call ssa.CallInstruction, name string) bool {
		f := call.Common().StaticCallee()
		return f != nil && f.Name() == name && f.Signature.Recv() != nil && namedIs(f.Signature.Recv().Type(), sevPkg, "SnpMeasurement")
	}
	const (
		evRom = iota
		evZero
		evVmsa
	)
	classify := func(in ssa.Instruction) (int, bool) {
		call, ok := in.(ssa.CallInstruction)
		if !ok {
			return 0, false
		}
		if isMeasMethod(call, "Update") {
			if k, ok := call.Common().Args[3].(*ssa.Const); ok && k.Value != nil {
				switch k.Int64() {
				case normal:
					return evRom, true
				case vmsa:
					return evVmsa, true
				}
			}
			return -1, true // unknown page type
		}
		if isMeasMethod(call, "ZeroContentUpdate") {
			return evZero, true
		}
		return 0, false
	}
	relevant := c.relevantSet(func(in ssa.Instruction) bool { _, ok := classify(in); return ok })
	const (
		bRom uint = iota
		bZero
		bVmsa
	)
	names := []string{"ROM", "zero-content", "VMSA"}
	seen := map[int]int{}
	r := &esp.Rule{Name: "C04.R1"}
	r.Relevant = func(f *ssa.Function) bool {
		if !relevant[f] {
			return false
		}
		// do not descend into the measurement primitives themselves
		if f.Signature.Recv() != nil && namedIs(f.Signature.Recv().Type(), sevPkg, "SnpMeasurement") {
			return false
		}
		return true
	}
	r.Match = func(in ssa.Instruction) []esp.Ev {
		id, ok := classify(in)
		if !ok {
			return nil
		}
		seen[id]++
		name := "measurement with a non-constant page type"
		if id >= 0 {
			name = names[id] + " pages"
		}
		return []esp.Ev{{ID: id, Name: name, ErrIdx: errIndex(in.(ssa.CallInstruction).Common().Signature()), BoolIdx: -1}}
	}
	r.Step = func(x *esp.Ctx, s esp.State, ev esp.Ev, ph esp.Phase) (esp.State, string) {
		if ph != esp.AtCall {
			return s, ""
		}
		st := fmtState(names, s)
		switch ev.ID {
		case evRom:
			if s.Has(bRom) || s.Has(bZero) || s.Has(bVmsa) {
				return s.Set(bRom), "R1: the ROM is measured in state " + st + ", not first"
			}
			return s.Set(bRom), ""
		case evZero:
			if !s.Has(bRom) || s.Has(bVmsa) {
				return s.Set(bZero), "R1: metadata pages are measured in state " + st + " (want after the ROM and before any VMSA)"
			}
			return s.Set(bZero), ""
		case evVmsa:
			if !s.Has(bRom) {
				return s.Set(bVmsa), "R1: a VMSA page is measured in state " + st + " before the ROM"
			}
			return s.Set(bVmsa), ""
		default:
			return s, "R1: measurement update with a page type that is not a constant the order rule knows"
		}
	}
	r.AtReturn = func(x *esp.Ctx, s esp.State, rets []esp.Abs) string {
		// (that the VMSA list is never empty is a value fact; the VMSA loop's existence is floor-checked)
		if rets[len(rets)-1] != esp.NonZero && !s.Has(bRom) {
			return "R1: LaunchDigest may succeed in state " + fmtState(names, s) + " without having measured the ROM"
		}
		return ""
	}
	e := c.engine(r)
	e.Run(ld, esp.State{})
	n := c.reportEngine(e, "R1", func(v *esp.Violation) string { return "sev.LaunchDigest:order:" + load.FuncName(v.Fn) })
	c.S.Floor("R1", "ROM measurement sites", 1, seen[evRom])
	c.S.Floor("R1", "zero-content measurement sites", 1, seen[evZero])
	c.S.Floor("R1", "VMSA measurement sites", 1, seen[evVmsa])
	if n == 0 {
		c.S.OK("R1", "sev.LaunchDigest:order", c.pos(ld.Pos()), fmt.Sprintf("ROM → metadata pages → VMSAs on all %d configurations", e.Configs), true)
	}
	// operands
	romTop := c.extConst(sevPkg, "RomTop")
	high := c.P.Func("sev", "ProductHighAddress")
	for f := range relevant {
		for _, call := range callsIn(f, func(call ssa.CallInstruction) bool {
			id, ok := classify(call.(ssa.Instruction))
			return ok && (id == evRom || id == evVmsa)
		}) {
			id, _ := classify(call.(ssa.Instruction))
			gpa := call.Common().Args[1]
			data := call.Common().Args[2]
			if id == evRom {
				ok := false
				if bo, isB := gpa.(*ssa.BinOp); isB && bo.Op == token.SUB {
					if k, isK := bo.X.(*ssa.Const); isK && romTop != nil && k.Value != nil && constant.Compare(constant.ToInt(k.Value), token.EQL, constant.ToInt(romTop)) {
						if isLenOf(stripConv(bo.Y), func(x ssa.Value) bool { return x == data }) {
							ok = true
						}
					}
				}
				c.S.Check(ok, "R1", load.FuncName(f)+":ROM address", c.pos(call.Pos()), "ROM measured at RomTop − len(image), with the image itself as data", "the ROM is not measured at RomTop − len(image) of the very bytes handed in")
			} else {
				ok := false
				if hc, isC := gpa.(*ssa.Call); isC && high != nil && hc.Call.StaticCallee() == high {
					ok = flow.IsFieldLoad(hc.Call.Args[0], sevPkg, "LaunchOptions", "Product")
				}
				c.S.Check(ok, "R1", load.FuncName(f)+":VMSA address", c.pos(call.Pos()), "VMSAs measured at ProductHighAddress(options.Product)", "VMSA pages are not measured at the product's highest guest-physical page")
			}
		}
	}

	// ---------------- R7 one ROM and one boot-processor VMSA per measurement object ----------------
	{
		const (
			bRom1 uint = iota
			bList
		)
		spbPath := repoPath("proto/sev")
		isVmsaList := func(t types.Type) bool {
			sl, ok := t.Underlying().(*types.Slice)
			return ok && namedIs(sl.Elem(), spbPath, "VmcbSaveArea")
		}
		vmsaReach := c.relevantSet(func(in ssa.Instruction) bool { id, ok := classify(in); return ok && id == evVmsa })
		// a VMSA-list measurement: a call of a repo function (not a measurement method) that takes a VMSA list and
		// reaches a VMSA update
		listArg := func(call ssa.CallInstruction) ssa.Value {
			g := call.Common().StaticCallee()
			if g == nil || !vmsaReach[g] || (g.Signature.Recv() != nil && namedIs(g.Signature.Recv().Type(), sevPkg, "SnpMeasurement")) {
				return nil
			}
			for i, a := range call.Common().Args {
				if i < g.Signature.Params().Len() && isVmsaList(g.Signature.Params().At(i).Type()) {
					return a
				}
			}
			return nil
		}
		nLists := 0
		r7 := &esp.Rule{Name: "C04.R7"}
		r7.Relevant = func(f *ssa.Function) bool {
			if !relevant[f] || (f.Signature.Recv() != nil && namedIs(f.Signature.Recv().Type(), sevPkg, "SnpMeasurement")) {
				return false
			}
			// the list measurement itself is one event
			for i := 0; i < f.Signature.Params().Len(); i++ {
				if isVmsaList(f.Signature.Params().At(i).Type()) && vmsaReach[f] {
					return false
				}
			}
			return true
		}
		r7.Match = func(in ssa.Instruction) []esp.Ev {
			switch v := in.(type) {
			case *ssa.Alloc:
				if namedIs(v.Type(), sevPkg, "SnpMeasurement") {
					return []esp.Ev{{ID: 0, Name: "new measurement object", ErrIdx: -1, BoolIdx: -1}}
				}
			case ssa.CallInstruction:
				if id, ok := classify(in); ok && id == evRom {
					return []esp.Ev{{ID: 1, Name: "ROM pages", ErrIdx: -1, BoolIdx: -1}}
				}
				if a := listArg(v); a != nil {
					// a tail x[k:] (k not the constant 0) does not begin with the boot processor
					if sx, ok := a.(*ssa.Slice); ok && sx.Low != nil {
						if k, isK := sx.Low.(*ssa.Const); !isK || k.Int64() != 0 {
							return nil
						}
					}
					nLists++
					return []esp.Ev{{ID: 2, Name: "VMSA list (boot processor first)", ErrIdx: -1, BoolIdx: -1}}
				}
			}
			return nil
		}
		r7.Step = func(x *esp.Ctx, s esp.State, ev esp.Ev, ph esp.Phase) (esp.State, string) {
			if ph != esp.AtCall {
				return s, ""
			}
			switch ev.ID {
			case 0:
				return s.Clear(bRom1).Clear(bList), ""
			case 1:
				if s.Has(bRom1) {
					return s, "R7: the ROM is measured a second time into a measurement object that already holds it"
				}
				return s.Set(bRom1), ""
			case 2:
				if s.Has(bList) {
					return s, "R7: a second VMSA list beginning with the boot processor's VMSA is measured into a measurement object that already holds one: the digest for a larger vCPU count would contain several boot-processor VMSAs"
				}
				return s.Set(bList), ""
			}
			return s, ""
		}
		n7 := 0
		for _, root := range []*ssa.Function{us, ld} {
			e7 := c.engine(r7)
			e7.Run(root, esp.State{})
			n7 += c.reportEngine(e7, "R7", func(v *esp.Violation) string { return load.FuncName(v.Fn) + ":one boot VMSA per digest" })
		}
		c.S.Floor("R7", "VMSA list measurement sites", 1, nLists)
		if n7 == 0 {
			c.S.OK("R7", "sev.UnsignedSnp:one boot VMSA per digest", c.pos(us.Pos()), "every measurement object receives the ROM once and one VMSA list that begins with the boot processor", true)
		}
	}

	// metadata ranges: measured through the range primitive over [section.Address, +section.Length) of one section;
	// the single-page primitives are internals of the range primitives (which carry the range/alignment check)
	abiPkgPath := repoPath("ovmf/abi")
	nZeroSites := 0
	for f := range relevant {
		if f.Signature.Recv() != nil && namedIs(f.Signature.Recv().Type(), sevPkg, "SnpMeasurement") {
			continue
		}
		for _, call := range callsIn(f, func(call ssa.CallInstruction) bool {
			return isMeasMethod(call, "ZeroContentUpdate") || isMeasMethod(call, "ZeroContentUpdate4K") || isMeasMethod(call, "Update4K")
		}) {
			if !isMeasMethod(call, "ZeroContentUpdate") {
				c.S.Bad("R1", load.FuncName(f)+":single-page primitive", c.pos(call.Pos()), "a single-page measurement primitive is called from outside the range primitives: only one page of the declared range is measured and its address range / alignment is not checked")
				continue
			}
			nZeroSites++
			args := call.Common().Args
			fieldBase := func(v ssa.Value, name string) ssa.Value {
				v = stripConv(v)
				if !flow.IsFieldLoad(v, abiPkgPath, "SevMetadataSection", name) {
					return nil
				}
				switch x := v.(type) {
				case *ssa.UnOp:
					if fa, ok := x.X.(*ssa.FieldAddr); ok {
						return fa.X
					}
				case *ssa.Field:
					return x.X
				}
				return nil
			}
			a, l := fieldBase(args[1], "Address"), fieldBase(args[2], "Length")
			c.S.Check(a != nil && l != nil && a == l, "R1", load.FuncName(f)+":metadata range", c.pos(call.Pos()),
				"metadata pages are measured over [section.Address, +section.Length) of one declared section",
				"the zero-content measurement does not cover the declared range of one section (address from section.Address and size from section.Length of the same section)")
		}
	}
	c.S.Floor("R1", "metadata range measurement sites", 1, nZeroSites)

	// ---------------- R2 kind table ----------------
	kinds := map[int64]string{}
	if ap := c.P.Pkg("ovmf/abi"); ap != nil {
		for _, nm := range ap.Pkg.Scope().Names() {
			if k, ok := ap.Pkg.Scope().Lookup(nm).(*types.Const); ok && strings.HasPrefix(nm, "Sev") && strings.HasSuffix(nm, "Section") && k.Val().Kind() == constant.Int {
				v, _ := constant.Int64Val(k.Val())
				kinds[v] = nm
			}
		}
	}
	want := map[string]int64{"SevUnmeasuredSection": pt("PageTypeUnmeasured"), "SevSecretSection": pt("PageTypeSecret"), "SevCpuidSection": pt("PageTypeCpuid"), "SevSvsmCaaSection": pt("PageTypeZero")}
	nTables := 0
	tableIn := map[*ssa.Function]bool{}
	var checkTableWith func(f *ssa.Function, pos token.Pos, mapping map[string]int64, subject func(ssa.Value) bool)
	checkTable := func(f *ssa.Function, pos token.Pos, mapping map[string]int64) {
		checkTableWith(f, pos, mapping, func(v ssa.Value) bool {
			return sl.Derives(v, func(x ssa.Value) bool {
				return flow.IsFieldLoad(x, repoPath("ovmf/abi"), "SevMetadataSection", "Kind")
			})
		})
	}
	checkTableWith = func(f *ssa.Function, pos token.Pos, mapping map[string]int64, subject func(ssa.Value) bool) {
		nTables++
		tableIn[f] = true
		var diffs []string
		for nm, v := range want {
			got, ok := mapping[nm]
			if !ok {
				diffs = append(diffs, nm+" is not handled")
			} else if got != v {
				diffs = append(diffs, fmt.Sprintf("%s maps to page type %d, want %d", nm, got, v))
			}
		}
		for nm := range mapping {
			if _, ok := want[nm]; !ok {
				diffs = append(diffs, nm+" is accepted but is not a declared section kind with a documented page type")
			}
		}
		for v, nm := range kinds {
			if _, ok := want[nm]; !ok {
				diffs = append(diffs, fmt.Sprintf("ovmf/abi declares %s=%d, which the frozen mapping table of this rule does not know", nm, v))
			}
		}
		sort.Strings(diffs)
		c.S.Check(len(diffs) == 0, "R2", load.FuncName(f)+":kind→page type", c.pos(pos), "the four section kinds map to unmeasured/secret/cpuid/zero", strings.Join(diffs, "; "))
		// default rejects
		c.S.Check(chainDefaultIsError(f, subject), "R2", load.FuncName(f)+":unknown kind", c.pos(pos), "an unknown section kind is an error", "an unknown section kind is not rejected")
	}
	for f := range relevant {
		if load.RelPkg(f) != "sev" {
			continue
		}
		// φ of PageType whose incoming constants are selected by comparisons of a section Kind
		for _, b := range f.Blocks {
			for _, in := range b.Instrs {
				phi, ok := in.(*ssa.Phi)
				if !ok || !namedIs(phi.Type(), sevPkg, "PageType") {
					continue
				}
				mapping := map[string]int64{}
				for i, e := range phi.Edges {
					k, isK := e.(*ssa.Const)
					if !isK || k.Value == nil {
						continue
					}
					pred := b.Preds[i]
					for _, cf := range append(dominatingConds(pred), edgeCond(pred, b)...) {
						bo, ok := cf.Cond.(*ssa.BinOp)
						if !ok || bo.Op != token.EQL || !cf.Val {
							continue
						}
						kc, ok := bo.Y.(*ssa.Const)
						if !ok || kc.Value == nil || !sl.Derives(bo.X, func(v ssa.Value) bool {
							return flow.IsFieldLoad(v, repoPath("ovmf/abi"), "SevMetadataSection", "Kind")
						}) {
							continue
						}
						if nm, ok := kinds[kc.Int64()]; ok {
							mapping[nm] = k.Int64()
						} else {
							mapping[fmt.Sprintf("kind %d", kc.Int64())] = k.Int64()
						}
						break
					}
				}
				if len(mapping) < 2 {
					continue
				}
				checkTable(f, phi.Pos(), mapping)
			}
		}
	}
	// direct dispatch: page-type constants passed at call sites that lie behind Kind == k
	for f := range relevant {
		if load.RelPkg(f) != "sev" || tableIn[f] {
			continue
		}
		mapping := map[string]int64{}
		var first token.Pos
		for _, call := range callsIn(f, func(call ssa.CallInstruction) bool {
			return isMeasMethod(call, "ZeroContentUpdate") || isMeasMethod(call, "ZeroContentUpdate4K")
		}) {
			args := call.Common().Args
			k, isK := args[len(args)-1].(*ssa.Const)
			if !isK || k.Value == nil {
				continue
			}
			blk := call.(ssa.Instruction).Block()
			for _, cf := range dominatingConds(blk) {
				bo, ok := cf.Cond.(*ssa.BinOp)
				if !ok || bo.Op != token.EQL || !cf.Val {
					continue
				}
				kc, ok := bo.Y.(*ssa.Const)
				if !ok || kc.Value == nil || !sl.Derives(bo.X, func(v ssa.Value) bool {
					return flow.IsFieldLoad(v, repoPath("ovmf/abi"), "SevMetadataSection", "Kind")
				}) {
					continue
				}
				if nm, ok := kinds[kc.Int64()]; ok {
					mapping[nm] = k.Int64()
				} else {
					mapping[fmt.Sprintf("kind %d", kc.Int64())] = k.Int64()
				}
				if !first.IsValid() {
					first = call.Pos()
				}
			}
		}
		if len(mapping) >= 2 {
			checkTable(f, first, mapping)
		}
	}
	// classifier helpers: a function of package sev that returns a PageType chosen by comparisons of a parameter
	// which, at its call sites, receives a section's Kind
	{
		kindDerived := func(v ssa.Value) bool {
			return sl.Derives(v, func(x ssa.Value) bool {
				return flow.IsFieldLoad(x, repoPath("ovmf/abi"), "SevMetadataSection", "Kind")
			})
		}
		for _, g := range c.P.RepoFunctions() {
			if load.RelPkg(g) != "sev" || c.isTestFunc(g) || tableIn[g] || g.Signature.Results().Len() == 0 || !namedIs(g.Signature.Results().At(0).Type(), sevPkg, "PageType") {
				continue
			}
			// which parameter carries the kind?
			var kp *ssa.Parameter
			if n := c.P.CallGraph().Nodes[g]; n != nil {
				for _, e := range n.In {
					if e.Site == nil || e.Site.Common().IsInvoke() {
						continue
					}
					for i, a := range e.Site.Common().Args {
						if i < len(g.Params) && kindDerived(a) {
							kp = g.Params[i]
						}
					}
				}
			}
			if kp == nil {
				continue
			}
			subject := func(v ssa.Value) bool { return stripConv(v) == kp }
			mapping := map[string]int64{}
			var first token.Pos
			for _, b := range g.Blocks {
				ret, ok := b.Instrs[len(b.Instrs)-1].(*ssa.Return)
				if !ok {
					continue
				}
				k, isK := ret.Results[0].(*ssa.Const)
				if !isK || k.Value == nil {
					continue
				}
				if ei := errIndex(g.Signature); ei >= 0 {
					if ek, isNil := ret.Results[ei].(*ssa.Const); !isNil || !ek.IsNil() {
						continue // the rejecting default
					}
				}
				for _, cf := range dominatingConds(b) {
					bo, ok := cf.Cond.(*ssa.BinOp)
					if !ok || bo.Op != token.EQL || !cf.Val || !subject(bo.X) {
						continue
					}
					kc, ok := bo.Y.(*ssa.Const)
					if !ok || kc.Value == nil {
						continue
					}
					if nm, ok := kinds[kc.Int64()]; ok {
						mapping[nm] = k.Int64()
					} else {
						mapping[fmt.Sprintf("kind %d", kc.Int64())] = k.Int64()
					}
					if !first.IsValid() {
						first = ret.Pos()
					}
					break
				}
			}
			if len(mapping) >= 2 {
				checkTableWith(g, first, mapping, subject)
			}
		}
	}
	// the table written as a map: the lookup under a section's kind must be the comma-ok form (an unlisted kind would
	// otherwise silently become the zero PageType) — the mapping itself is then data, and is not read here
	{
		kindDerived := func(v ssa.Value) bool {
			return sl.Derives(v, func(x ssa.Value) bool {
				return flow.IsFieldLoad(x, repoPath("ovmf/abi"), "SevMetadataSection", "Kind")
			})
		}
		for _, g := range c.P.RepoFunctions() {
			if load.RelPkg(g) != "sev" || c.isTestFunc(g) || g.Blocks == nil {
				continue
			}
			k := 0
			for _, b := range g.Blocks {
				for _, in := range b.Instrs {
					lk, ok := in.(*ssa.Lookup)
					if !ok {
						continue
					}
					mt, ok := lk.X.Type().Underlying().(*types.Map)
					if !ok || !namedIs(mt.Elem(), sevPkg, "PageType") || !kindDerived(lk.Index) {
						continue
					}
					k++
					if lk.CommaOk {
						nTables++
					}
					c.S.Check(lk.CommaOk, "R2", fmt.Sprintf("%s:kind lookup #%d tells an unlisted kind apart", load.FuncName(g), k), c.pos(lk.Pos()), "the page type of a section kind is looked up in the comma-ok form",
						"the page type of a section is looked up in a map under the section's kind without the comma-ok form: a kind the map does not list silently becomes the zero PageType instead of being refused as unknown")
				}
			}
		}
	}
	c.S.Floor("R2", "section-kind to page-type tables", 1, nTables)

	// ---------------- R9 presence of an address is not tested by comparing it with zero ----------------
	// In package ovmf (metadata validation), a value read from a map without the comma-ok form must not be compared
	// with 0 to decide whether the key was seen: the maps hold guest-physical addresses taken from the image, and 0
	// is a legitimate address (a CPUID or secrets page declared at address 0 would not count as "already seen", so
	// a duplicate is accepted).
	{
		nLk, badLk := 0, 0
		for _, f := range c.P.RepoFunctions() {
			if load.RelPkg(f) != "ovmf" || c.isTestFunc(f) {
				continue
			}
			for _, b := range f.Blocks {
				for _, in := range b.Instrs {
					lk, ok := in.(*ssa.Lookup)
					if !ok {
						continue
					}
					if _, isMap := lk.X.Type().Underlying().(*types.Map); !isMap {
						continue
					}
					nLk++
					if lk.CommaOk {
						continue
					}
					bt, isBasic := lk.Type().Underlying().(*types.Basic)
					if !isBasic || bt.Info()&types.IsInteger == 0 {
						continue
					}
					for _, ref := range nonDebugRefs(lk) {
						bo, ok := ref.(*ssa.BinOp)
						if !ok || (bo.Op != token.NEQ && bo.Op != token.EQL) {
							continue
						}
						k, isK := bo.Y.(*ssa.Const)
						if bo.X != ssa.Value(lk) || !isK || !isZeroIntConst(k) {
							continue
						}
						usedAsCond := false
						for _, r2 := range nonDebugRefs(bo) {
							switch r2.(type) {
							case *ssa.If, *ssa.Phi, *ssa.BinOp, *ssa.UnOp:
								usedAsCond = true
							}
						}
						if usedAsCond {
							badLk++
							c.S.Bad("R9", load.FuncName(f)+":zero as absence", c.pos(bo.Pos()), "a map of image-supplied values is read without comma-ok and the result is compared with 0 to decide presence: a legitimately zero value (a page at guest-physical address 0) is taken for \"not seen\", so the duplicate / overlap test it guards does not fire")
						}
					}
				}
			}
		}
		c.S.Floor("R9", "map lookups in package ovmf", 1, nLk)
		if badLk == 0 {
			c.S.OK("R9", "ovmf:presence by comma-ok", "", fmt.Sprintf("%d map lookups, none uses zero as the absence marker", nLk), true)
		}
	}

	// ---------------- R3 purity ----------------
	for _, root := range []*ssa.Function{ld, us} {
		clo := c.reachable([]*ssa.Function{root}, nil)
		eff := &flow.Effects{P: c.P, Funcs: clo, Roots: map[*ssa.Function]bool{root: true}}
		bad := 0
		ws := eff.Writes()
		for _, w := range ws {
			for _, rt := range w.Shared() {
				if p, ok := rt.V.(*ssa.Parameter); ok && p.Type().String() == "[]byte" && p.Parent() == root {
					bad++
					c.S.Bad("R3", load.FuncName(root)+"→"+load.FuncName(w.Fn)+":writes image", c.pos(w.Instr.Pos()), "the measurement writes into the image bytes it was given")
				}
			}
		}
		if bad == 0 {
			c.S.OK("R3", load.FuncName(root)+":image untouched", c.pos(root.Pos()), fmt.Sprintf("%d writes in the closure, none through the image parameter", len(ws)), true)
		}
		// R3b: the computation keeps no state outside the call: no package-level variable is written (a shared
		// scratch buffer or cache makes the digest depend on other calls in flight or made before)
		badG := 0
		for _, w := range ws {
			for _, rt := range w.Shared() {
				if rt.Kind == flow.GlobalRoot {
					badG++
					c.S.Bad("R3b", load.FuncName(root)+"→"+load.FuncName(w.Fn)+":writes package-level state", c.pos(w.Instr.Pos()), fmt.Sprintf("the measurement computation writes %s of package-level variable %s: the digest is no longer a function of its inputs (concurrent or earlier computations interfere)", w.What, rt.V.Name()))
				}
			}
		}
		if badG == 0 {
			c.S.OK("R3b", load.FuncName(root)+":no package-level state", c.pos(root.Pos()), fmt.Sprintf("%d writes in the closure, none to a package-level variable", len(ws)), true)
		}
	}

	// ---------------- R4 determinism ----------------
	clo := c.reachable([]*ssa.Function{ld}, nil)
	badCalls, mapRanges := 0, 0
	for f := range clo {
		for _, call := range callsIn(f, func(call ssa.CallInstruction) bool {
			cal := call.Common().StaticCallee()
			if cal == nil || cal.Pkg == nil {
				return false
			}
			switch cal.Pkg.Pkg.Path() {
			case "math/rand", "math/rand/v2", "crypto/rand":
				return true
			case "time":
				return cal.Name() == "Now" || cal.Name() == "Since"
			case "os":
				return cal.Name() == "Getenv" || cal.Name() == "LookupEnv" || cal.Name() == "Hostname"
			case "github.com/google/uuid":
				return strings.HasPrefix(cal.Name(), "New")
			}
			return false
		}) {
			badCalls++
			c.S.Bad("R4", load.FuncName(f)+":"+callName(call), c.pos(call.Pos()), "the launch digest computation consults a clock, random source or the environment")
		}
		for _, b := range f.Blocks {
			for _, in := range b.Instrs {
				rg, ok := in.(*ssa.Range)
				if !ok {
					continue
				}
				if _, isMap := rg.X.Type().Underlying().(*types.Map); !isMap {
					continue
				}
				// does the loop extend the measurement?
				L := innermostLoopContainingNext(f, rg)
				if L == nil {
					continue
				}
				for lb := range L.Body {
					for _, li := range lb.Instrs {
						if call, ok := li.(ssa.CallInstruction); ok {
							if _, ok := classify(call.(ssa.Instruction)); ok {
								mapRanges++
								c.S.Bad("R4", load.FuncName(f)+":map iteration", c.pos(rg.Pos()), "pages are measured in map iteration order, which is random")
							}
							if cal := call.Common().StaticCallee(); cal != nil && relevant[cal] {
								mapRanges++
								c.S.Bad("R4", load.FuncName(f)+":map iteration", c.pos(rg.Pos()), "pages are measured in map iteration order, which is random")
							}
						}
					}
				}
			}
		}
	}
	if badCalls+mapRanges == 0 {
		c.S.OK("R4", "sev.LaunchDigest:deterministic", c.pos(ld.Pos()), fmt.Sprintf("no clock/random/environment call and no measuring map iteration in %d functions", len(clo)), true)
	}

	// ---------------- R6 declared order survives ----------------
	// metadata pages are measured in the order the firmware declares them; any sort on the way
	// from the image to the measurement must work on a copy
	{
		nSort := c.sortOnCopiesRule("R6", func(f *ssa.Function) bool { return clo[f] && load.FuncInRepo(f) })
		c.S.OK("R6", "sev.LaunchDigest:declared order", c.pos(ld.Pos()), fmt.Sprintf("%d sort calls in the closure of LaunchDigest, all on copies", nSort), false)
	}

	// ---------------- R5 AP reset vector ----------------
	if getRV := c.fn("R5", "ovmf", "GetRipAndCsBaseFromSevEsResetBlock"); getRV != nil {
		spbPkg := repoPath("proto/sev")
		sl5 := flow.NewSlicer(c.P)
		sl5.LiftParams = 1
		nMakers := 0
		var cloFns []*ssa.Function
		for f := range clo {
			if f != nil && f.Blocks != nil && load.FuncInRepo(f) {
				cloFns = append(cloFns, f)
			}
		}
		sort.Slice(cloFns, func(i, j int) bool { return cloFns[i].Pos() < cloFns[j].Pos() })
		for _, f := range cloFns {
			for _, call := range callsIn(f, func(call ssa.CallInstruction) bool { return call.Common().StaticCallee() == getRV }) {
				nMakers++
				cv := call.Value()
				res := map[int]ssa.Value{}
				for _, r := range nonDebugRefs(cv) {
					if ex, ok := r.(*ssa.Extract); ok {
						res[ex.Index] = ex
					}
				}
				// the object parsed from the BSP template must not be the one that receives the AP reset vector
				var bsp ssa.Value
				for _, uc := range callsIn(f, func(cc ssa.CallInstruction) bool {
					cal := cc.Common().StaticCallee()
					return cal != nil && cal.Name() == "Unmarshal" && cal.Pkg != nil && strings.HasSuffix(cal.Pkg.Pkg.Path(), "prototext")
				}) {
					args := uc.Common().Args
					if len(args) > 0 {
						if mi, ok := args[len(args)-1].(*ssa.MakeInterface); ok {
							bsp = mi.X
						}
					}
				}
				for _, w := range []struct {
					idx        int
					typ, field string
					what       string
				}{{0, "VmcbSaveArea", "Rip", "RIP"}, {1, "VmcbSeg", "Base", "CS base"}} {
					src := res[w.idx]
					construct := fmt.Sprintf("%s:AP %s", load.FuncName(f), w.what)
					if src == nil {
						c.S.Bad("R5", construct, c.pos(call.Pos()), fmt.Sprintf("result %d of the reset-block decoder (the %s of the AP reset vector) is not used", w.idx, w.what))
						continue
					}
					var anchor *ssa.BasicBlock
					onBsp := false
					for _, g := range cloFns {
						for _, b := range g.Blocks {
							for _, in := range b.Instrs {
								st, ok := in.(*ssa.Store)
								if !ok {
									continue
								}
								fa, ok := st.Addr.(*ssa.FieldAddr)
								if !ok || flow.FieldName(fa) != w.field {
									continue
								}
								pt, ok := fa.X.Type().Underlying().(*types.Pointer)
								if !ok || !namedIs(pt.Elem(), spbPkg, w.typ) {
									continue
								}
								if !sl5.Derives(st.Val, func(x ssa.Value) bool { return x == src }) {
									continue
								}
								if g == f {
									root := flow.PathOf(fa.X).Root
									if bsp != nil && root == bsp {
										onBsp = true
										continue
									}
									// the object written must be one that is put into the returned list
									listed := c.putIntoList(root, 0)
									if !listed {
										continue
									}
									anchor = b
								} else {
									for _, cs := range callsIn(f, func(cc ssa.CallInstruction) bool { return cc.Common().StaticCallee() == g }) {
										anchor = cs.Block()
									}
								}
							}
						}
					}
					if anchor == nil {
						msg := fmt.Sprintf("no store assigns the %s taken from the SEV-ES reset block to %s.%s of a VMSA that is put into the returned list (a merge from a temporary or a conditional copy skips a zero half of the reset address)", w.what, w.typ, w.field)
						if onBsp {
							msg = fmt.Sprintf("the %s of the reset vector is stored into the boot processor's VMSA, not into the additional VMSAs", w.what)
						}
						c.S.Bad("R5", construct, c.pos(call.Pos()), msg)
						continue
					}
					// unconditional: every nil-error return after the decoder call is dominated by the store
					must := true
					for _, b := range f.Blocks {
						ret, ok := b.Instrs[len(b.Instrs)-1].(*ssa.Return)
						if !ok || len(ret.Results) == 0 || !isNilK(ret.Results[len(ret.Results)-1]) {
							continue
						}
						if call.Block().Dominates(b) && !anchor.Dominates(b) {
							must = false
						}
					}
					c.S.Check(must, "R5", construct, c.pos(anchor.Instrs[0].Pos()), fmt.Sprintf("%s.%s of the additional VMSAs is stored from the reset block on every successful path", w.typ, w.field),
						fmt.Sprintf("the store of the reset block's %s into the additional VMSAs is conditional: some successful return is reached without it", w.what))
				}
			}
		}
		c.S.Floor("R5", "functions preparing additional-processor VMSAs from the reset block", 1, nMakers)
	}
}

// edgeCond: the condition under which control goes from pred to b when pred ends in an If.
func edgeCond(pred, b *ssa.BasicBlock) []condFact {
	iff, ok := pred.Instrs[len(pred.Instrs)-1].(*ssa.If)
	if !ok {
		return nil
	}
	for i, s := range pred.Succs {
		if s == b {
			return []condFact{normalizeCond(iff.Cond, i == 0, pred)}
		}
	}
	return nil
}

// innermostLoopContainingNext finds the loop driven by the Next of a Range.
func innermostLoopContainingNext(f *ssa.Function, rg *ssa.Range) *loop {
	loops := naturalLoops(f)
	for _, r := range nonDebugRefs(rg) {
		if nx, ok := r.(*ssa.Next); ok {
			return innermostLoopOf(loops, nx.Block())
		}
	}
	return nil
}

// putIntoList: v is stored as an element of a slice/array in its function, or returned to callers (static call
// sites) that store the corresponding result as an element.
func (c *Ctx) putIntoList(v ssa.Value, depth int) bool {
	if v == nil || depth > 2 {
		return false
	}
	for _, r := range nonDebugRefs(v) {
		switch x := r.(type) {
		case *ssa.Store:
			if x.Val == v {
				if _, isElem := x.Addr.(*ssa.IndexAddr); isElem {
					return true
				}
			}
		case *ssa.Phi:
			if c.putIntoList(x, depth) {
				return true
			}
		case *ssa.Return:
			idx := -1
			for i, res := range x.Results {
				if res == v {
					idx = i
				}
			}
			fn := x.Parent()
			n := c.P.CallGraph().Nodes[fn]
			if n == nil || idx < 0 {
				continue
			}
			for _, e := range n.In {
				if e.Site == nil || e.Site.Common().IsInvoke() || e.Site.Common().StaticCallee() != fn {
					continue
				}
				cv := e.Site.Value()
				if cv == nil {
					continue
				}
				if fn.Signature.Results().Len() == 1 {
					if c.putIntoList(cv, depth+1) {
						return true
					}
					continue
				}
				for _, r2 := range nonDebugRefs(cv) {
					if ex, ok := r2.(*ssa.Extract); ok && ex.Index == idx && c.putIntoList(ex, depth+1) {
						return true
					}
				}
			}
		}
	}
	return false
}

// c04DeclaredCounts — R10: every section the image declares is parsed. A counted loop of package ovmf whose bound comes
// from a count field decoded from the image (a field of an ovmf/abi structure) runs up to that field itself
// (conversions aside): the bound is not a φ that merges the field with a constant, nor min(field, k). A clamped
// bound silently drops the descriptors beyond it — they are neither measured nor validated — while the header's
// own consistency checks still pass on the declared count.
func c04DeclaredCounts(c *Ctx) {
	abiPkg := repoPath("ovmf/abi")
	decoded := func(v ssa.Value) bool {
		ld, ok := v.(*ssa.UnOp)
		if !ok || ld.Op != token.MUL {
			return false
		}
		fa, ok := ld.X.(*ssa.FieldAddr)
		if !ok {
			return false
		}
		t := fa.X.Type()
		if p, ok := t.Underlying().(*types.Pointer); ok {
			t = p.Elem()
		}
		n, ok := t.(*types.Named)
		return ok && n.Obj().Pkg() != nil && n.Obj().Pkg().Path() == abiPkg
	}
	strip := func(v ssa.Value) ssa.Value {
		for i := 0; i < 6; i++ {
			switch x := v.(type) {
			case *ssa.Convert:
				v = x.X
			case *ssa.ChangeType:
				v = x.X
			default:
				return v
			}
		}
		return v
	}
	nDirect := 0
	for _, f := range c.P.RepoFunctions() {
		if load.RelPkg(f) != "ovmf" || c.isTestFunc(f) || f.Blocks == nil {
			continue
		}
		for _, L := range naturalLoops(f) {
			iff, ok := L.Header.Instrs[len(L.Header.Instrs)-1].(*ssa.If)
			if !ok {
				continue
			}
			bo, ok := iff.Cond.(*ssa.BinOp)
			if !ok || (bo.Op != token.LSS && bo.Op != token.LEQ) {
				continue
			}
			if ph, ok := bo.X.(*ssa.Phi); !ok || ph.Block() != L.Header {
				continue
			}
			b := strip(bo.Y)
			// the count may travel in a field of a local record (loc.sectionCount): every store to that field is the
			// decoded count itself
			if ld, ok := b.(*ssa.UnOp); ok && ld.Op == token.MUL && !decoded(b) {
				if fa, ok := ld.X.(*ssa.FieldAddr); ok {
					vals := flow.NewSlicer(c.P).FieldStores(flow.StructFieldKey(fa.X.Type(), fa.Field))
					all := len(vals) > 0
					for _, v := range vals {
						if !decoded(strip(v)) {
							all = false
						}
					}
					if all {
						b = strip(vals[0])
					}
				}
			}
			if decoded(b) {
				nDirect++
				c.S.OK("R10", load.FuncName(f)+":loop over a declared count", c.pos(iff.Cond.Pos()), "bounded by the decoded count field itself", false)
				continue
			}
			clamp := ""
			switch x := b.(type) {
			case *ssa.Phi:
				hasK, hasField := false, false
				for _, e := range x.Edges {
					e = strip(e)
					if _, ok := e.(*ssa.Const); ok {
						hasK = true
					}
					if decoded(e) {
						hasField = true
					}
				}
				if hasK && hasField {
					clamp = "a value that is either the declared count or a constant"
				}
			case *ssa.Call:
				if bi, ok := x.Call.Value.(*ssa.Builtin); ok && (bi.Name() == "min" || bi.Name() == "max") {
					hasK, hasField := false, false
					for _, a := range x.Call.Args {
						a = strip(a)
						if _, ok := a.(*ssa.Const); ok {
							hasK = true
						}
						if decoded(a) {
							hasField = true
						}
					}
					if hasK && hasField {
						clamp = bi.Name() + "(declared count, constant)"
					}
				}
			}
			if clamp != "" {
				c.S.Bad("R10", load.FuncName(f)+":loop over a declared count", c.pos(iff.Cond.Pos()), "the loop that parses the declared entries is bounded by "+clamp+": entries beyond the constant are silently dropped — not measured, not validated — although the header declares them")
			}
		}
	}
	c.S.Floor("R10", "loops of package ovmf bounded by a count field decoded from the image", 1, nDirect)
}
