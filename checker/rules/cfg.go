package rules

import (
	"go/constant"
	"go/token"

	"golang.org/x/tools/go/ssa"
)

// loop is a natural loop.
type loop struct {
	Header *ssa.BasicBlock
	Backs  []*ssa.BasicBlock // sources of back edges to Header
	Body   map[*ssa.BasicBlock]bool
}

// naturalLoops returns the natural loops of fn (merged per header).
func naturalLoops(fn *ssa.Function) []*loop {
	byHeader := map[*ssa.BasicBlock]*loop{}
	var order []*ssa.BasicBlock
	for _, b := range fn.Blocks {
		for _, s := range b.Succs {
			if s.Dominates(b) {
				l := byHeader[s]
				if l == nil {
					l = &loop{Header: s, Body: map[*ssa.BasicBlock]bool{s: true}}
					byHeader[s] = l
					order = append(order, s)
				}
				l.Backs = append(l.Backs, b)
				// add nodes reaching b without passing header
				stack := []*ssa.BasicBlock{b}
				for len(stack) > 0 {
					x := stack[len(stack)-1]
					stack = stack[:len(stack)-1]
					if l.Body[x] {
						continue
					}
					l.Body[x] = true
					stack = append(stack, x.Preds...)
				}
			}
		}
	}
	var out []*loop
	for _, h := range order {
		out = append(out, byHeader[h])
	}
	return out
}

// innermostLoopOf returns the smallest loop containing block b, or nil.
func innermostLoopOf(loops []*loop, b *ssa.BasicBlock) *loop {
	var best *loop
	for _, l := range loops {
		if l.Body[b] && (best == nil || len(l.Body) < len(best.Body)) {
			best = l
		}
	}
	return best
}

// exitEdges returns (from,to) pairs leaving the loop.
func (l *loop) exitEdges() [][2]*ssa.BasicBlock {
	var out [][2]*ssa.BasicBlock
	for b := range l.Body {
		for _, s := range b.Succs {
			if !l.Body[s] {
				out = append(out, [2]*ssa.BasicBlock{b, s})
			}
		}
	}
	return out
}

// edgeDominatedByCond reports whether block b is only reachable through the
// `want` edge of an If whose condition satisfies pred, i.e. some dominator d of
// b ends in If(cond) with pred(cond) and the `want` successor dominates b (and
// the other successor does not reach b without passing d... approximated by
// dominance of the successor block, requiring it to have d as its only pred).
func edgeDominatedByCond(b *ssa.BasicBlock, pred func(cond ssa.Value, want bool) bool) bool {
	for d := b; d != nil; d = d.Idom() {
		id := d.Idom()
		if id == nil {
			break
		}
		if iff, ok := id.Instrs[len(id.Instrs)-1].(*ssa.If); ok {
			for i, s := range id.Succs {
				if s == d && len(d.Preds) == 1 {
					if condHolds(iff.Cond, i == 0, pred) {
						return true
					}
				}
			}
		}
	}
	return false
}

// condHolds: the condition `cond` evaluated to `val` implies pred for some
// sub-condition (looking through !).
func condHolds(cond ssa.Value, val bool, pred func(ssa.Value, bool) bool) bool {
	if pred(cond, val) {
		return true
	}
	if u, ok := cond.(*ssa.UnOp); ok && u.Op == token.NOT {
		return condHolds(u.X, !val, pred)
	}
	return false
}

// dominatingConds lists the (condition, truth value) pairs known to hold on
// entry to block b by dominance: for each dominator chain step id→d where d is
// a successor of id's If with id as only predecessor.
func dominatingConds(b *ssa.BasicBlock) []condFact {
	var out []condFact
	for d := b; d != nil; d = d.Idom() {
		id := d.Idom()
		if id == nil {
			break
		}
		if iff, ok := id.Instrs[len(id.Instrs)-1].(*ssa.If); ok && len(d.Preds) == 1 && d.Preds[0] == id {
			for i, s := range id.Succs {
				if s == d {
					c, v := iff.Cond, i == 0
					for {
						if u, ok := c.(*ssa.UnOp); ok && u.Op == token.NOT {
							c, v = u.X, !v
							continue
						}
						break
					}
					out = append(out, condFact{c, v, id})
				}
			}
		}
	}
	return out
}

type condFact struct {
	Cond  ssa.Value
	Val   bool
	Block *ssa.BasicBlock
}

// isZeroIntConst reports whether k is the integer constant 0.
func isZeroIntConst(k *ssa.Const) bool {
	return k != nil && k.Value != nil && k.Value.Kind() == constant.Int && constant.Sign(k.Value) == 0
}

// everyPathThroughEdge: every path from the loop header (exclusive of paths leaving the loop) to block b passes an
// edge p→q whose branch condition, with the truth value of that edge, satisfies just. This is the disjunctive form of
// "b is dominated by a justifying edge": `if A || B { b }` is entered by two edges, neither of which dominates b.
func everyPathThroughEdge(L *loop, b *ssa.BasicBlock, just func(condFact) bool) bool {
	memo := map[*ssa.BasicBlock]int{} // 1 = in progress / assumed fine (cycles inside the iteration), 2 = ok, 3 = not
	var ok func(x *ssa.BasicBlock) bool
	ok = func(x *ssa.BasicBlock) bool {
		switch memo[x] {
		case 1, 2:
			return true
		case 3:
			return false
		}
		if x == L.Header || len(x.Preds) == 0 {
			memo[x] = 3
			return false
		}
		memo[x] = 1
		res := true
		for _, p := range x.Preds {
			if !L.Body[p] {
				res = false
				break
			}
			edgeOK := false
			if iff, isIf := p.Instrs[len(p.Instrs)-1].(*ssa.If); isIf {
				for i, s := range p.Succs {
					if s != x {
						continue
					}
					cnd, v := iff.Cond, i == 0
					for {
						if u, isNot := cnd.(*ssa.UnOp); isNot && u.Op == token.NOT {
							cnd, v = u.X, !v
							continue
						}
						break
					}
					if just(condFact{cnd, v, p}) {
						edgeOK = true
					}
				}
			}
			if !edgeOK && !ok(p) {
				res = false
				break
			}
		}
		if res {
			memo[x] = 2
		} else {
			memo[x] = 3
		}
		return res
	}
	return ok(b)
}
